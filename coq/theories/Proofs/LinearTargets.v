(** C26: every jump target of the final subroutines is a subroutine label — for ALL
    well-formed flows. Invariant carried through the passes: every target of the code
    is the label of some statement of the code ([targets_in_labels]). *)
From Coq Require Import List NArith Bool Arith Lia.
From Acg Require Import Base.Outcome Base.Str Model.Flow Model.Linear
  Proofs.LinearSem Proofs.LinearRaw Proofs.LinearPasses.
Import ListNotations.
Open Scope nat_scope.

Definition targets_in_labels (ss : list stmt) : Prop :=
  forall t, In t (collect_targets ss) -> In t (labels ss).

Lemma ct_cons : forall s r, collect_targets (s :: r) = kind_targets (s_kind s) ++ collect_targets r.
Proof. reflexivity. Qed.
Lemma ct_app : forall a b, collect_targets (a ++ b) = collect_targets a ++ collect_targets b.
Proof. intros. unfold collect_targets. apply flat_map_app. Qed.

Ltac norm_in H := repeat (progress cbn [In] in H || rewrite in_app_iff in H).
Ltac split_or :=
  repeat match goal with
         | H : _ \/ _ |- _ => destruct H
         | H : False |- _ => contradiction
         end.

(* ------------------------------------------------------------------------- *)
(** * Raw code: targets lie inside the fragment *)
Lemma raw_targets :
  forall n, wf_node n = true ->
  forall l t, In t (collect_targets (fst (lin_node n l))) -> l <= t < snd (lin_node n l).
Proof.
  apply (node_ind2
    (fun n => wf_node n = true -> forall l t,
       In t (collect_targets (fst (lin_node n l))) -> l <= t < snd (lin_node n l))
    (fun ns => forallb wf_node ns = true -> forall l t,
       In t (collect_targets (fst (lin_seq ns l))) -> l <= t < snd (lin_seq ns l))).
  - intros c _ l t H. cbn in H. contradiction.
  - intros _ l t H. cbn in H. contradiction.
  - (* IfTrue *)
    intros c b oe IHb IHe Hwf l t H. cbn [wf_node] in Hwf.
    apply andb_prop in Hwf. destruct Hwf as [Hwf He]. apply andb_prop in Hwf.
    destruct Hwf as [Hne Hb].
    assert (Hbne : b <> []) by (destruct b; discriminate).
    destruct oe as [e|].
    + rewrite lin_node_iftrue_else in *.
      destruct (lin_seq_facts b Hb (S l)) as [[_ Nb] _]. specialize (IHb Hb (S l)).
      destruct (lin_seq b (S l)) as [cb l1]. cbn [fst snd] in *.
      destruct (lin_seq_facts e He (S l1)) as [[_ Ne] _]. specialize (IHe He (S l1)).
      cbn [or_nil] in *. destruct (lin_seq e (S l1)) as [ce l2]. cbn [fst snd] in *.
      rewrite ct_cons, ct_app, ct_cons, ct_app in H.
      cbn [kind_targets s_kind opt_list app collect_targets flat_map] in H.
      norm_in H. split_or; try (subst; lia);
        try (match goal with Hin : In _ (collect_targets _) |- _ => first [apply IHb in Hin | apply IHe in Hin]; lia end).
    + rewrite lin_node_iftrue in *.
      destruct (lin_seq_facts b Hb (S l)) as [[_ Nb] Eb]. specialize (IHb Hb (S l)).
      destruct (lin_seq b (S l)) as [cb l1]. cbn [fst snd] in *.
      rewrite (ifnoop_wf cb l1 (Eb Hbne)) in H. cbn [app] in H.
      rewrite ct_cons, ct_app in H.
      cbn [kind_targets s_kind opt_list app collect_targets flat_map] in H.
      norm_in H. split_or; try (subst; lia);
        try (match goal with Hin : In _ (collect_targets _) |- _ => first [apply IHb in Hin | apply IHe in Hin]; lia end).
  - (* IfFalse *)
    intros c b oe IHb IHe Hwf l t H. cbn [wf_node] in Hwf.
    apply andb_prop in Hwf. destruct Hwf as [Hwf He]. apply andb_prop in Hwf.
    destruct Hwf as [Hne Hb].
    assert (Hbne : b <> []) by (destruct b; discriminate).
    destruct oe as [e|].
    + rewrite lin_node_iffalse_else in *.
      destruct (lin_seq_facts b Hb (S l)) as [[_ Nb] _]. specialize (IHb Hb (S l)).
      destruct (lin_seq b (S l)) as [cb l1]. cbn [fst snd] in *.
      destruct (lin_seq_facts e He (S l1)) as [[_ Ne] _]. specialize (IHe He (S l1)).
      cbn [or_nil] in *. destruct (lin_seq e (S l1)) as [ce l2]. cbn [fst snd] in *.
      rewrite ct_cons, ct_app, ct_cons, ct_app in H.
      cbn [kind_targets s_kind opt_list app collect_targets flat_map] in H.
      norm_in H. split_or; try (subst; lia);
        try (match goal with Hin : In _ (collect_targets _) |- _ => first [apply IHb in Hin | apply IHe in Hin]; lia end).
    + rewrite lin_node_iffalse in *.
      destruct (lin_seq_facts b Hb (S l)) as [[_ Nb] Eb]. specialize (IHb Hb (S l)).
      destruct (lin_seq b (S l)) as [cb l1]. cbn [fst snd] in *.
      rewrite (ifnoop_wf cb l1 (Eb Hbne)) in H. cbn [app] in H.
      rewrite ct_cons, ct_app in H.
      cbn [kind_targets s_kind opt_list app collect_targets flat_map] in H.
      norm_in H. split_or; try (subst; lia);
        try (match goal with Hin : In _ (collect_targets _) |- _ => first [apply IHb in Hin | apply IHe in Hin]; lia end).
  - (* For *)
    intros ini c it b IHb Hwf. cbn [wf_node] in Hwf.
    assert (HN : forall l t, In t (collect_targets (fst (lin_node (NFor None c it b) l))) ->
                             l <= t < snd (lin_node (NFor None c it b) l)).
    { intros l t H. rewrite lin_node_for_none in *.
      destruct (lin_seq_facts b Hwf (S l)) as [[_ Nb] _]. specialize (IHb Hwf (S l)).
      destruct (lin_seq b (S l)) as [cb l1]. cbn [fst snd] in *.
      rewrite ct_cons, ct_app in H.
      cbn [kind_targets s_kind opt_list app collect_targets flat_map] in H.
      norm_in H. split_or; try (subst; lia);
        try (match goal with Hin : In _ (collect_targets _) |- _ => first [apply IHb in Hin | apply IHe in Hin]; lia end). }
    intros l t H. destruct ini as [ini|]; [|apply HN; exact H].
    rewrite lin_node_for_some in *. cbn [fst snd] in *.
    rewrite ct_cons in H. cbn [kind_targets s_kind app] in H.
    apply HN in H. lia.
  - (* While *)
    intros c b IHb Hwf l t H. cbn [wf_node] in Hwf. rewrite lin_node_while in *.
    destruct (lin_seq_facts b Hwf (S l)) as [[_ Nb] _]. specialize (IHb Hwf (S l)).
    destruct (lin_seq b (S l)) as [cb l1]. cbn [fst snd] in *.
    rewrite ct_cons, ct_app in H.
    cbn [kind_targets s_kind opt_list app collect_targets flat_map] in H.
    norm_in H. split_or; try (subst; lia);
      try (match goal with Hin : In _ (collect_targets _) |- _ => apply IHb in Hin; lia end).
  - intros _ l t H. cbn in H. contradiction.
  - intros x r IHx IHr Hwf l t H. cbn [forallb] in Hwf. apply andb_prop in Hwf.
    destruct Hwf as [Hx Hr]. rewrite lin_seq_cons in *.
    destruct (lin_facts x Hx l) as [[_ Nx] _]. specialize (IHx Hx l).
    destruct (lin_node x l) as [a l1]. cbn [fst snd] in *.
    destruct (lin_seq_facts r Hr l1) as [[_ Nr] _]. specialize (IHr Hr l1).
    destruct (lin_seq r l1) as [b l2]. cbn [fst snd] in *.
    rewrite ct_app, in_app_iff in H. destruct H as [H|H].
    + apply IHx in H. lia.
    + apply IHr in H. lia.
Qed.

Lemma raw_til : forall f, wf_flow f = true -> targets_in_labels (linearize_control_flow f).
Proof.
  intros f Hwf t Ht. unfold linearize_control_flow in *.
  destruct (lin_seq_facts f Hwf 0) as [[Hlab Hlen] _].
  rewrite (labels_of_from _ _ Hlab). apply in_seq.
  assert (H : 0 <= t < snd (lin_seq f 0)).
  { revert t Ht. generalize 0 at 1 2 3. intros l0.
    assert (Hq : forall ns, forallb wf_node ns = true -> forall l t,
               In t (collect_targets (fst (lin_seq ns l))) -> l <= t < snd (lin_seq ns l)).
    { induction ns as [|x r IHr]; intros Hw l t H; [cbn in H; contradiction|].
      cbn [forallb] in Hw. apply andb_prop in Hw. destruct Hw as [Hx Hr].
      rewrite lin_seq_cons in *.
      destruct (lin_facts x Hx l) as [[_ Nx] _]. pose proof (raw_targets x Hx l) as IHx.
      destruct (lin_node x l) as [a l1]. cbn [fst snd] in *.
      destruct (lin_seq_facts r Hr l1) as [[_ Nr] _]. specialize (IHr Hr l1).
      destruct (lin_seq r l1) as [b l2]. cbn [fst snd] in *.
      rewrite ct_app, in_app_iff in H. destruct H as [H|H].
      - apply IHx in H. lia.
      - apply IHr in H. lia. }
    intros t Ht. apply Hq; assumption. }
  lia.
Qed.

(* ------------------------------------------------------------------------- *)
(** * Pass A *)
Lemma ct_kinds : forall a b, map s_kind a = map s_kind b -> collect_targets a = collect_targets b.
Proof.
  induction a as [|x a IH]; intros [|y b] H; cbn in H; try discriminate; [reflexivity|].
  inversion H. rewrite !ct_cons. f_equal; [congruence|apply IH; assumption].
Qed.

Lemma drop_kinds : forall ts ss, map s_kind (map (drop_label_unless ts) ss) = map s_kind ss.
Proof.
  intros ts ss. rewrite map_map. apply map_ext. intros s. unfold drop_label_unless.
  destruct (s_label s); [destruct (mem_nat _ _)|]; reflexivity.
Qed.

Lemma drop_keeps : forall ts ss t, In t (labels ss) -> mem_nat t ts = true ->
  In t (labels (map (drop_label_unless ts) ss)).
Proof.
  intros ts; induction ss as [|s r IH]; intros t Hin Hm; [contradiction|].
  cbn [map]. rewrite labels_cons in *. apply in_app_or in Hin. apply in_or_app.
  destruct Hin as [Hin|Hin]; [left|right; apply IH; assumption].
  unfold drop_label_unless. destruct (s_label s) as [l|] eqn:E; cbn in Hin; [|contradiction].
  destruct Hin as [<-|[]]. rewrite Hm, E. left. reflexivity.
Qed.

Lemma redundant_til : forall ss, targets_in_labels ss -> targets_in_labels (remove_redundant_labels ss).
Proof.
  intros ss H t Ht. unfold remove_redundant_labels in *.
  rewrite (ct_kinds _ ss (drop_kinds _ ss)) in Ht.
  apply drop_keeps; [apply H; exact Ht|].
  unfold mem_nat. apply existsb_exists. exists t. split; [exact Ht|apply Nat.eqb_refl].
Qed.

(* ------------------------------------------------------------------------- *)
(** * Pass B *)
Lemma labels_filter_keep : forall ss, labels (filter keep_stmt ss) = labels ss.
Proof.
  induction ss as [|s r IH]; [reflexivity|]. cbn [filter]. unfold keep_stmt at 1.
  destruct (s_label s) as [l|] eqn:E.
  - rewrite orb_true_r. rewrite !labels_cons, IH. reflexivity.
  - cbn [is_some]. rewrite orb_false_r. destruct (negb (is_noop s)).
    + rewrite !labels_cons, IH. reflexivity.
    + rewrite labels_cons, E. exact IH.
Qed.

Lemma ct_filter : forall p ss t, In t (collect_targets (filter p ss)) -> In t (collect_targets ss).
Proof.
  intros p; induction ss as [|s r IH]; intros t H; [exact H|].
  cbn [filter] in H. rewrite ct_cons. apply in_or_app. destruct (p s).
  - rewrite ct_cons in H. apply in_app_or in H. destruct H; [left|right; apply IH]; assumption.
  - right. apply IH. exact H.
Qed.

Lemma nodup_app_disj : forall (a b : list nat) x, NoDup (a ++ b) -> In x a -> In x b -> False.
Proof.
  induction a as [|y a IH]; intros b x H Ha Hb; [contradiction|].
  cbn in H. inversion H; subst. destruct Ha as [->|Ha].
  - apply H2. apply in_or_app. right. exact Hb.
  - eapply IH; eassumption.
Qed.

Lemma nodup_app_r : forall (a b : list nat), NoDup (a ++ b) -> NoDup b.
Proof.
  induction a as [|x a IH]; intros b H; [exact H|]. cbn in H. inversion H; subst. apply IH. assumption.
Qed.

Lemma map_block_spec : forall blk t0 m m1, map_block blk t0 m = Ok m1 ->
  forall t, (In t (labels blk) -> dict_get m1 t = Some t0)
            /\ (~ In t (labels blk) -> dict_get m1 t = dict_get m t).
Proof.
  induction blk as [|b r IH]; intros t0 m m1 H t.
  - cbn in H. inversion H; subst. split; [intros []|reflexivity].
  - cbn [map_block] in H. rewrite labels_cons. destruct (s_label b) as [l|] eqn:E; [|discriminate].
    destruct (IH _ _ _ H t) as [A B]. cbn [opt_list app]. split.
    + intros Hin. destruct (in_dec Nat.eq_dec t (labels r)) as [Hr|Hr]; [apply A; exact Hr|].
      destruct Hin as [<-|Hin]; [|contradiction].
      rewrite (B Hr). cbn [dict_set dict_get]. rewrite Nat.eqb_refl. reflexivity.
    + intros Hn. rewrite B by (intros Hr; apply Hn; right; exact Hr).
      cbn [dict_set dict_get]. destruct (Nat.eqb l t) eqn:Et; [|reflexivity].
      apply Nat.eqb_eq in Et. exfalso. apply Hn. left. exact Et.
Qed.

Lemma map_trailing_spec : forall r t0 m m1, map_trailing r (Some t0) m = Ok m1 ->
  forall t, (In t (labels r) -> dict_get m1 t = Some t0)
            /\ (~ In t (labels r) -> dict_get m1 t = dict_get m t).
Proof.
  induction r as [|b r IH]; intros t0 m m1 H t.
  - cbn in H. inversion H; subst. split; [intros []|reflexivity].
  - cbn [map_trailing] in H. rewrite labels_cons. destruct (s_label b) as [l|] eqn:E; [|discriminate].
    destruct (IH _ _ _ H t) as [A B]. cbn [opt_list app]. split.
    + intros Hin. destruct (in_dec Nat.eq_dec t (labels r)) as [Hr|Hr]; [apply A; exact Hr|].
      destruct Hin as [<-|Hin]; [|contradiction].
      rewrite (B Hr). cbn [dict_set dict_get]. rewrite Nat.eqb_refl. reflexivity.
    + intros Hn. rewrite B by (intros Hr; apply Hn; right; exact Hr).
      cbn [dict_set dict_get]. destruct (Nat.eqb l t) eqn:Et; [|reflexivity].
      apply Nat.eqb_eq in Et. exfalso. apply Hn. left. exact Et.
Qed.

Lemma kinds_unlabel : forall l, map s_kind (map unlabel l) = map s_kind l.
Proof. intros l. rewrite map_map. reflexivity. Qed.

Lemma noop_loop_remap : forall l blk m out m',
  noop_loop l blk m = Ok (out, m') ->
  NoDup (labels (blk ++ l)) ->
  (forall t, In t (labels (blk ++ l)) -> dict_get m t = None) ->
  (forall t, ~ In t (labels (blk ++ l)) -> dict_get m' t = dict_get m t)
  /\ (forall t, In t (labels (blk ++ l)) -> In (remap m' t) (labels out))
  /\ map s_kind out = map s_kind (blk ++ l).
Proof.
  induction l as [|s l IH]; intros blk m out m' H Hnd Hm.
  - rewrite app_nil_r in *. cbn [noop_loop] in H. destruct blk as [|b0 bs].
    + inversion H; subst. repeat split; auto; try (intros ? []).
    + destruct (map_trailing bs (s_label b0) m) as [m1| |] eqn:Em; cbn [bind] in H; try discriminate.
      inversion H; subst out m'. clear H.
      destruct (s_label b0) as [t0|] eqn:E0.
      * pose proof (map_trailing_spec _ _ _ _ Em) as Sp.
        rewrite labels_cons, E0 in *. cbn [opt_list app] in *.
        split; [|split].
        -- intros t Hn. apply (proj2 (Sp t)). intros Hr. apply Hn. right. exact Hr.
        -- intros t Hin. rewrite labels_cons, E0, labels_unlabel. cbn [opt_list app].
           unfold remap. destruct (in_dec Nat.eq_dec t (labels bs)) as [Hr|Hr].
           ++ rewrite (proj1 (Sp t) Hr). left. reflexivity.
           ++ destruct Hin as [<-|Hin]; [|contradiction].
              rewrite (proj2 (Sp t0) Hr), (Hm t0 (or_introl eq_refl)). left. reflexivity.
        -- cbn [map]. rewrite kinds_unlabel. reflexivity.
      * destruct bs as [|b1 bs]; [|cbn in Em; destruct (s_label b1); discriminate].
        cbn in Em. inversion Em; subst m1. rewrite labels_cons, E0. cbn.
        repeat split; auto; try (intros ? []).
  - cbn [noop_loop] in H. destruct (is_noop s) eqn:En.
    + specialize (IH (blk ++ [s]) m out m' H). rewrite <- app_assoc in IH. cbn [app] in IH.
      apply IH; assumption.
    + destruct blk as [|b0 bs].
      * destruct (noop_loop l [] m) as [[out' m'']| |] eqn:Er; cbn [bind fst snd] in H; try discriminate.
        inversion H; subst out m'. clear H. cbn [app] in *.
        rewrite labels_cons in Hnd, Hm.
        destruct (IH [] m out' m'' Er) as [I1 [I2 I3]].
        { cbn [app]. apply nodup_app_r in Hnd. exact Hnd. }
        { cbn [app]. intros t Ht. apply Hm. apply in_or_app. right. exact Ht. }
        cbn [app] in *. split; [|split].
        -- intros t Hn. apply I1. intros Hl. apply Hn. rewrite labels_cons. apply in_or_app. right. exact Hl.
        -- intros t Hin. rewrite labels_cons in Hin. rewrite labels_cons. apply in_or_app.
           apply in_app_or in Hin. destruct Hin as [Hin|Hin]; [left|right; apply I2; exact Hin].
           assert (Hnl : ~ In t (labels l)) by (intros Hl; exact (nodup_app_disj _ _ t Hnd Hin Hl)).
           unfold remap. rewrite (I1 t Hnl), (Hm t) by (apply in_or_app; left; exact Hin). exact Hin.
        -- cbn [map]. rewrite I3. reflexivity.
      * set (blk := b0 :: bs) in *.
        destruct (match s_label s with
                  | Some x => Ok x
                  | None => match s_label b0 with Some x => Ok x | None => Crash AssertionError end
                  end) as [lbl| |] eqn:El; cbn [bind] in H; try discriminate.
        destruct (map_block blk lbl m) as [m1| |] eqn:Em; cbn [bind] in H; try discriminate.
        destruct (noop_loop l [] m1) as [[out' m'']| |] eqn:Er; cbn [bind fst snd] in H; try discriminate.
        inversion H; subst out m'. clear H.
        pose proof (map_block_spec _ _ _ _ Em) as Sp.
        rewrite labels_app, labels_cons in Hnd, Hm.
        assert (Hnd_l : NoDup (labels l)).
        { apply nodup_app_r in Hnd. apply nodup_app_r in Hnd. exact Hnd. }
        assert (Hdisj1 : forall t, In t (labels blk) -> ~ In t (labels l)).
        { intros t Hb Hl. apply (nodup_app_disj _ _ t Hnd Hb). apply in_or_app. right. exact Hl. }
        assert (Hdisj2 : forall t, In t (opt_list (s_label s)) -> ~ In t (labels l) /\ ~ In t (labels blk)).
        { intros t Hs. split.
          - intros Hl. apply nodup_app_r in Hnd. exact (nodup_app_disj _ _ t Hnd Hs Hl).
          - intros Hb. apply (nodup_app_disj _ _ t Hnd Hb). apply in_or_app. left. exact Hs. }
        destruct (IH [] m1 out' m'' Er) as [I1 [I2 I3]].
        { cbn [app]. exact Hnd_l. }
        { cbn [app]. intros t Ht. rewrite (proj2 (Sp t)) by (intros Hb; exact (Hdisj1 t Hb Ht)).
          apply Hm. apply in_or_app. right. apply in_or_app. right. exact Ht. }
        cbn [app] in I1, I2, I3.
        assert (Hlab_out : labels (map unlabel blk ++ mk_stmt (Some lbl) (s_kind s) :: out') = lbl :: labels out').
        { rewrite labels_app, labels_unlabel, labels_cons. reflexivity. }
        split; [|split].
        -- intros t Hn. rewrite labels_app, labels_cons in Hn.
           rewrite I1 by (intros Hl; apply Hn; apply in_or_app; right; apply in_or_app; right; exact Hl).
           apply (proj2 (Sp t)). intros Hb. apply Hn. apply in_or_app. left. exact Hb.
        -- intros t Hin. rewrite labels_app, labels_cons in Hin.
           change (In (remap m'' t) (labels (map unlabel blk ++ mk_stmt (Some lbl) (s_kind s) :: out'))).
           rewrite Hlab_out.
           apply in_app_or in Hin. destruct Hin as [Hin|Hin].
           ++ (* a no-op of the block *)
              unfold remap. rewrite (I1 t (Hdisj1 t Hin)), (proj1 (Sp t) Hin). left. reflexivity.
           ++ apply in_app_or in Hin. destruct Hin as [Hin|Hin].
              ** destruct (Hdisj2 t Hin) as [Hnl Hnb].
                 unfold remap. rewrite (I1 t Hnl), (proj2 (Sp t) Hnb).
                 rewrite (Hm t) by (apply in_or_app; right; apply in_or_app; left; exact Hin).
                 destruct (s_label s) as [x|]; cbn in Hin; [|contradiction].
                 destruct Hin as [<-|[]]. inversion El; subst. left. reflexivity.
              ** right. apply I2. exact Hin.
        -- change (map s_kind (map unlabel blk ++ mk_stmt (Some lbl) (s_kind s) :: out')
                   = map s_kind (blk ++ s :: l)).
           rewrite !map_app, kinds_unlabel. cbn [map s_kind]. rewrite I3. reflexivity.
Qed.

Lemma kind_targets_retarget : forall m k, kind_targets (retarget m k) = map (remap m) (kind_targets k).
Proof.
  intros m [c|c a b|t| |]; cbn; try reflexivity. destruct a, b; reflexivity.
Qed.

Lemma ct_rewire : forall m ss, collect_targets (map (rewire m) ss) = map (remap m) (collect_targets ss).
Proof.
  intros m; induction ss as [|s r IH]; [reflexivity|].
  cbn [map]. rewrite !ct_cons, map_app, IH. cbn [rewire s_kind]. rewrite kind_targets_retarget.
  reflexivity.
Qed.

Lemma remove_noops_til : forall ss out, remove_noops ss = Ok out ->
  NoDup (labels ss) -> targets_in_labels ss -> targets_in_labels out.
Proof.
  intros ss out H Hnd Htl. unfold remove_noops in H.
  destruct (noop_loop (filter keep_stmt ss) [] []) as [[o m]| |] eqn:E; cbn [bind fst snd] in H;
    try discriminate.
  inversion H; subst out. clear H.
  destruct (noop_loop_remap _ _ _ _ _ E) as [_ [I2 I3]].
  { cbn [app]. rewrite labels_filter_keep. exact Hnd. }
  { intros t _. reflexivity. }
  cbn [app] in I2, I3.
  intros t' Ht'. rewrite ct_rewire in Ht'. apply in_map_iff in Ht'.
  destruct Ht' as [t [<- Ht]].
  rewrite labels_rewire, labels_filter_keep. apply I2.
  rewrite labels_filter_keep. apply Htl.
  apply ct_filter in Ht. rewrite (ct_kinds _ _ I3) in Ht. apply ct_filter in Ht. exact Ht.
Qed.

Lemma compress_til : forall ss out, compress ss = Ok out ->
  NoDup (labels ss) -> targets_in_labels ss -> targets_in_labels out.
Proof.
  intros ss out H Hnd Htl. unfold compress in H.
  eapply remove_noops_til; [exact H| |apply redundant_til; exact Htl].
  unfold remove_redundant_labels. eapply subseq_nodup; [apply labels_drop|exact Hnd].
Qed.

(* ------------------------------------------------------------------------- *)
(** * Pass C *)
Lemma lay_kinds : forall ss b lbl, map s_kind (label_after_yields b ss lbl) = map s_kind ss.
Proof.
  induction ss as [|s r IH]; intros b lbl; [reflexivity|].
  cbn [label_after_yields]. destruct (s_label s); [|destruct b]; cbn [map s_kind]; rewrite IH; reflexivity.
Qed.

Lemma lay_keeps : forall ss b lbl t, In t (labels ss) -> In t (labels (label_after_yields b ss lbl)).
Proof.
  induction ss as [|s r IH]; intros b lbl t H; [contradiction|].
  rewrite labels_cons in H. cbn [label_after_yields].
  destruct (s_label s) as [l|] eqn:E; cbn [opt_list app] in H.
  - rewrite labels_cons, E. cbn [opt_list app]. destruct H as [H|H]; [left; exact H|right; apply IH; exact H].
  - destruct b; rewrite labels_cons; apply in_or_app; right; apply IH; exact H.
Qed.

Lemma fix_kinds : forall M ss out, map_o (fix_stmt M) ss = Ok out ->
  map s_kind out = map (fun s => retarget M (s_kind s)) ss.
Proof.
  intros M; induction ss as [|s r IH]; intros out H.
  - cbn in H. inversion H. reflexivity.
  - cbn [map_o] in H. destruct (fix_stmt M s) as [y| |] eqn:Ey; cbn [bind] in H; try discriminate.
    destruct (map_o (fix_stmt M) r) as [ys| |] eqn:Eys; cbn [bind] in H; try discriminate.
    inversion H; subst out. cbn [map]. rewrite (IH ys eq_refl). f_equal.
    unfold fix_stmt in Ey. destruct (s_label s); [destruct (dict_get M n)|]; inversion Ey; reflexivity.
Qed.

Lemma ct_retarget : forall M a b, map s_kind a = map (fun s => retarget M (s_kind s)) b ->
  collect_targets a = map (remap M) (collect_targets b).
Proof.
  intros M; induction a as [|x a IH]; intros [|y b] H; cbn in H; try discriminate; [reflexivity|].
  inversion H as [[H1 H2]]. rewrite !ct_cons, map_app, (IH b H2), H1, kind_targets_retarget. reflexivity.
Qed.

Lemma fix_labels_til : forall ss out, fix_labels ss = Ok out ->
  NoDup (labels ss) -> targets_in_labels ss -> targets_in_labels out.
Proof.
  intros ss out H Hnd Htl. unfold fix_labels in H. destruct ss as [|s0 r0].
  { inversion H. intros t []. }
  set (ss := s0 :: r0) in *.
  set (lbl := S (max_label ss)) in *.
  assert (Hlt : forall x, In x (labels ss) -> x < lbl).
  { intros x Hx. unfold lbl. pose proof (max_label_ge ss x Hx). lia. }
  assert (Hfirst : exists s1 lbl1, label_first ss lbl = (s1, lbl1)
            /\ NoDup (labels s1) /\ (forall x, In x (labels s1) -> x < lbl1)
            /\ map s_kind s1 = map s_kind ss /\ (forall t, In t (labels ss) -> In t (labels s1))).
  { unfold label_first, ss. destruct (s_label s0) as [l|] eqn:E.
    - exists (s0 :: r0), lbl. repeat split; auto.
    - exists (mk_stmt (Some lbl) (s_kind s0) :: r0), (S lbl).
      assert (Hr : labels ss = labels r0) by (unfold ss; rewrite labels_cons, E; reflexivity).
      split; [reflexivity|]. rewrite labels_cons. cbn [s_label opt_list app]. repeat split.
      + constructor; [|rewrite <- Hr; exact Hnd]. intros Hin. rewrite <- Hr in Hin.
        specialize (Hlt _ Hin). lia.
      + intros x [<-|Hx]; [lia|]. rewrite <- Hr in Hx. specialize (Hlt _ Hx). lia.
      + intros t Ht. fold ss in Ht. rewrite Hr in Ht. right. exact Ht. }
  destruct Hfirst as [s1 [lbl1 [E1 [Hnd1 [Hlt1 [Hk1 Hkeep1]]]]]].
  rewrite E1 in H.
  destruct (lay_labels s1 false lbl1 lbl1 Hnd1 Hlt1 (le_n _)) as [Hnd2 _].
  set (s2 := label_after_yields false s1 lbl1) in *.
  set (M := build_map s2 0 []) in *.
  destruct (fix_map_labels M s2 0) as [out' [A [B _]]].
  { intros j k Hj. apply build_map_rank; assumption. }
  rewrite A in H. inversion H; subst out'. clear H.
  intros t' Ht'. rewrite (ct_retarget M out s2 (fix_kinds _ _ _ A)) in Ht'.
  apply in_map_iff in Ht'. destruct Ht' as [t [<- Ht]].
  assert (Hct : collect_targets s2 = collect_targets ss).
  { apply ct_kinds. unfold s2. rewrite lay_kinds. exact Hk1. }
  rewrite Hct in Ht. apply Htl in Ht. apply Hkeep1 in Ht.
  apply (lay_keeps s1 false lbl1) in Ht. fold s2 in Ht.
  destruct (In_nth_error _ _ Ht) as [j Hj].
  unfold remap, M. rewrite (build_map_rank s2 0 [] j t Hnd2 Hj). rewrite B. apply in_seq.
  assert (j < length (labels s2)) by (apply nth_error_Some; congruence). lia.
Qed.

(* ------------------------------------------------------------------------- *)
(** * The theorem *)
Lemma find_case_in : forall subs off t, In (Some t) (map sub_head_label subs) ->
  exists pos, find_case subs off t = Some pos.
Proof.
  induction subs as [|sub r IH]; intros off t H; [contradiction|].
  cbn [find_case]. destruct (option_eqb Nat.eqb (sub_head_label sub) (Some t)) eqn:E; [eauto|].
  cbn [map In] in H. destruct H as [H|H]; [|apply IH; exact H].
  rewrite H in E. cbn in E. rewrite Nat.eqb_refl in E. discriminate.
Qed.

Theorem targets_exist : forall f subs, wf_flow f = true -> linearize_to_subroutines f = Ok subs ->
  forall s t, In s (concat subs) -> In t (kind_targets (s_kind s)) ->
  exists pos, find_case subs 0 t = Some pos.
Proof.
  intros f subs Hwf Hlin s t Hs Ht. unfold linearize_to_subroutines in Hlin.
  destruct f as [|x f']; [inversion Hlin; subst; contradiction|].
  set (f := x :: f') in *.
  destruct (lin_seq_facts f Hwf 0) as [[Hlab _] _].
  assert (Hnd : NoDup (labels (linearize_control_flow f))).
  { unfold linearize_control_flow. rewrite (labels_of_from _ _ Hlab). apply seq_NoDup. }
  pose proof (raw_til f Hwf) as Htl.
  destruct (compress_ok _ Hnd) as [s1 [C1 Hnd1]]. rewrite C1 in Hlin. cbn [bind] in Hlin.
  pose proof (compress_til _ _ C1 Hnd Htl) as Htl1.
  destruct (fix_labels_ok s1 Hnd1) as [s2 [F1 [F2 F3]]]. rewrite F1 in Hlin. cbn [bind] in Hlin.
  pose proof (fix_labels_til _ _ F1 Hnd1 Htl1) as Htl2.
  unfold split_in_subroutines in Hlin.
  destruct (split_ok s2 []) as [subs' [S1 [S2 S3]]].
  { intros _. destruct F3 as [->|[s' [r' [-> Hs']]]]; [left; reflexivity|].
    right. exists s', r'. split; [reflexivity|exact Hs']. }
  { left. reflexivity. }
  rewrite S1 in Hlin. cbn [bind] in Hlin.
  destruct (consecutive_heads subs') as [ok| |]; cbn [bind] in Hlin; try discriminate.
  destruct ok; [|discriminate]. inversion Hlin; subst subs'. clear Hlin.
  cbn [app] in S2, S3.
  apply find_case_in. rewrite S2. apply in_map. apply Htl2.
  unfold collect_targets. apply in_flat_map. exists s. split; [rewrite <- S3; exact Hs|exact Ht].
Qed.
