(** C05 — Intermediate model faithfully resolves inheritance.

    Theorems over the model [Model/Hierarchy.v] of the hierarchy passes of the intermediate
    stage, instantiated with the primitive type names regenerated from the source on every
    run ([Gen/GenHierarchy.v]). [wf]: class names unique, bases exist, acyclic — for ANY
    declaration order. This file contains only statements, [exact]s and [Print Assumptions]. *)
From Coq Require Import List NArith Bool Permutation Relations.
From Coq Require Strings.String.
Import Coq.Strings.String.StringSyntax.
From Acg Require Import Base.Str Base.Outcome Model.Hierarchy Proofs.HierarchyFacts Gen.GenHierarchy.
Import ListNotations.
Open Scope nat_scope.

Definition prims := primitive_type_names.

(** Generated side condition: the primitive type names are the five the model's
    generator and rendering assume, without duplicates. *)
Theorem C05_gen_primitives :
  nodupb prims = true /\ length prims = 5.
Proof. vm_compute. split; reflexivity. Qed.
Print Assumptions C05_gen_primitives.

(** The type order produced by the DFS ([_topologically_sort]) exists for every
    well-formed hierarchy (no crash, no spurious cycle, fuel suffices) and is a
    permutation of the declared classes. *)
Theorem C05_topo_perm : forall m, wf prims m ->
  exists order, topo_sort prims m = Ok order /\ Permutation order (names m).
Proof. exact (topo_perm_thm prims). Qed.
Print Assumptions C05_topo_perm.

(** ... and it is topological: every class comes after all of its bases. *)
Theorem C05_topo_is_topological : forall m, wf prims m -> forall order,
  topo_sort prims m = Ok order ->
  forall l1 c l2, order = l1 ++ c :: l2 -> forall b, base prims m c b -> In b l1.
Proof. exact (topo_is_topological_thm prims). Qed.
Print Assumptions C05_topo_is_topological.

(** Descendants are exactly the inverse of ancestors (whatever the ontology lists). *)
Theorem C05_descendants_inverse : forall m anc a d, In a (names m) ->
  (In d (ir_descendants anc a) <-> In a (ir_ancestors m anc d)).
Proof. exact descendants_inverse_thm. Qed.
Print Assumptions C05_descendants_inverse.

(** No duplicates across diamonds (repaired behaviour). *)
Theorem C05_ancestors_nodup : forall m anc, NoDup (names m) -> forall d, NoDup (ir_ancestors m anc d).
Proof. exact ancestors_nodup_thm. Qed.
Print Assumptions C05_ancestors_nodup.

Theorem C05_descendants_nodup : forall anc a, NoDup (ir_descendants anc a).
Proof. exact descendants_nodup_thm. Qed.
Print Assumptions C05_descendants_nodup.

Theorem C05_concrete_descendants : forall m anc a d,
  In d (ir_concrete_descendants m anc a) <-> In d (ir_descendants anc a) /\ is_abstract m d = false.
Proof. exact concrete_descendants_thm. Qed.
Print Assumptions C05_concrete_descendants.

(** Ancestors = transitive closure of the declared bases, for every class of every
    well-formed hierarchy in any declaration order ([prims_alone]: a class constraining a
    primitive type inherits from nothing else — otherwise the ontology fails an assertion). *)
Theorem C05_ancestors_closure : forall m, wf prims m -> prims_alone prims m ->
  exists order anc,
    topo_sort prims m = Ok order /\ onto_ancestors prims m order = Ok anc
    /\ forall d a, In d (names m) ->
         (In a (ir_ancestors m anc d) <-> clos_trans name (base prims m) d a).
Proof. exact (ancestors_closure_thm prims). Qed.
Print Assumptions C05_ancestors_closure.

(** Full statement (not proved at the level of the whole pass):
      properties c = dedup (flat_map properties (bases c)) ++ own c   for every class c
      after [stack_properties] (likewise invariants), and methods likewise or an error.
    Proved here: the equation established by ONE step of the pass for the class it
    processes, other entries untouched. Missing: the induction along the topological
    order showing that the parents' entries read by the step are already final (validated
    by the correspondence stream and the oracle, which compare the whole lists). *)
Theorem C05_properties_stacked_partial : forall m (A : Type) (skip : name -> bool)
    (st : list (name * list (ident A))) n c,
  skip n = false -> find_class m n = Some c ->
  lookup n (stack_step prims m skip st n)
  = Some (dedup id_eqb (flat_map (fun b => lk b st) (class_bases prims c)) ++ lk n st)
  /\ forall k, k <> n -> lookup k (stack_step prims m skip st n) = lookup k st.
Proof. exact (stacked_step_thm prims). Qed.
Print Assumptions C05_properties_stacked_partial.

(** No two properties of the same name in a class of an accepted model (the model
    crashes like [_set_properties] otherwise). *)
Theorem C05_properties_nodup : forall m anc pmap c,
  props_violation prims m anc pmap = false -> In c m -> is_cp prims m anc (c_name c) = false ->
  NoDup (map id_val (lk (c_name c) pmap)).
Proof. exact (props_nodup_thm prims). Qed.
Print Assumptions C05_properties_nodup.

(** Full statement: for every class of an accepted model the in-lined constructor contains
    no super-constructor call and assigns every property exactly once.
    Proved here: a step of the constructor pass that reports no error leaves, for its
    class, a list without super calls that assigns no property twice (repaired behaviour).
    Missing: that later steps do not overwrite the entry (names are unique) and that every
    property is assigned at least once (that is [verify_initialized], part of the model's
    acceptance; checked by correspondence and oracle). *)
Theorem C05_ctor_inlined_partial : forall m anc kmap err c kmap',
  ctor_step prims m anc (kmap, err) c = Ok (kmap', false) ->
  is_cp prims m anc (c_name c) = false ->
  forallb (fun x => is_assign (id_val x)) (lk (c_name c) kmap') = true
  /\ NoDup (map (fun x => stmt_prop (id_val x)) (lk (c_name c) kmap')).
Proof. exact (ctor_step_thm prims). Qed.
Print Assumptions C05_ctor_inlined_partial.

(** Full statement: has_interface c <-> abstract c \/ descendants c <> [] for every class.
    Proved here: the step of the interface pass for a class creates an interface exactly
    in that case, inheriting from the bases. Missing: the fold (every class is processed
    exactly once because the order is a permutation — [C05_topo_perm]). *)
Theorem C05_interface_iff_partial : forall m anc st n c st',
  iface_step prims m anc st n = Ok st' ->
  is_cp prims m anc n = false -> find_class m n = Some c -> ~ In n (map fst st) ->
  lookup n st' = Some (if c_abstract c || negb (is_nil (onto_descendants anc n))
                       then Some (c_bases c) else None).
Proof. exact (iface_step_thm prims). Qed.
Print Assumptions C05_interface_iff_partial.

(** [model_type_consistent] (a class has with_model_type iff it or an ancestor sets it,
    or the model is rejected) is not proved; it is checked by the correspondence stream
    and by the oracle on every run. *)

(** Non-vacuity: the diamond A; B(A); C(A); D(B,C) is well-formed, accepted, and resolved
    without duplicates; every property is assigned exactly once in D's in-lined constructor. *)
Open Scope string_scope.
Definition mk (n : String.string) (abs : bool) (bases props : list String.string)
           (body : list stmt) (args : list String.string) : cls :=
  {| c_name := s2l n; c_abstract := abs; c_bases := map s2l bases; c_props := map s2l props;
     c_invs := []; c_methods := [];
     c_ctor := Some {| k_args := map s2l args; k_body := body |}; c_wmt := None |}.

Definition diamond : mm :=
  [ mk "A" true [] ["a"] [Assign (s2l "a")] ["a"];
    mk "B" true ["A"] ["b"] [CallSuper (s2l "A"); Assign (s2l "b")] ["a"; "b"];
    mk "C" true ["A"] ["c"] [CallSuper (s2l "A"); Assign (s2l "c")] ["a"; "c"];
    mk "D" false ["B"; "C"] ["d"] [CallSuper (s2l "B"); CallSuper (s2l "C"); Assign (s2l "d")]
       ["a"; "b"; "c"; "d"] ].

Example C05_diamond_resolved :
  match translate prims diamond with
  | Ok r => map i_ancestors (r_classes r) = [[]; [s2l "A"]; [s2l "A"]; [s2l "A"; s2l "B"; s2l "C"]]
            /\ map i_descendants (r_classes r) = [[s2l "B"; s2l "C"; s2l "D"]; [s2l "D"]; [s2l "D"]; []]
            /\ map i_inlined (r_classes r)
               = [[s2l "a"]; [s2l "a"; s2l "b"]; [s2l "a"; s2l "c"]; [s2l "a"; s2l "b"; s2l "c"; s2l "d"]]
            /\ map i_iface (r_classes r) = [Some []; Some [s2l "A"]; Some [s2l "A"]; None]
  | _ => False
  end.
Proof. vm_compute. repeat split; reflexivity. Qed.
Print Assumptions C05_diamond_resolved.

Example C05_diamond_wf : wf prims diamond.
Proof.
  split; [|split].
  - apply nodupb_NoDup. vm_compute. reflexivity.
  - intros cl b Hcl Hb. apply mem_text_In.
    repeat (destruct Hcl as [<-|Hcl]; [vm_compute in Hb; intuition (subst; vm_compute; reflexivity)|]).
    destruct Hcl.
  - exists (fun n => match n with [c] => N.to_nat c | _ => 0 end).
    intros cl b Hcl Hb.
    repeat (destruct Hcl as [<-|Hcl]; [vm_compute in Hb; intuition (subst; vm_compute; auto with arith)|]).
    destruct Hcl.
Qed.
Print Assumptions C05_diamond_wf.

Example C05_diamond_prims_alone : prims_alone prims diamond.
Proof.
  intros cl Hcl Hp.
  repeat (destruct Hcl as [<-|Hcl]; [vm_compute in Hp; discriminate|]). destruct Hcl.
Qed.
Print Assumptions C05_diamond_prims_alone.
