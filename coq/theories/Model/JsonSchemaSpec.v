(** Specification side of C11/C12: abstract SDK values, their JSON form, and what it
    means for a value to satisfy the inferred constraints of its (nested) type annotation.

    [admitsb false] is the real rule (a byte array is measured in bytes); [admitsb true]
    is the same rule as far as a schema over the *base64 text* can express it (the C12
    exclusion "byte-array lengths beyond what the base64 text length can express").
    Executable definitions only. *)
From Coq Require Import List NArith ZArith Bool.
From Acg Require Import Base.Str Model.JsonSchemaSem Model.JsonSchemaGen.
Import ListNotations.
Open Scope Z_scope.

Inductive value : Type :=
| VStr (s : text)
| VBytes (b : list N)
| VBool (b : bool)
| VInt (z : Z)
| VFloat (integral : bool) (tok : text)
| VList (l : list value).

Definition expected_jtype (p : prim) : jtype :=
  match p with
  | PBool => TyBoolean | PInt => TyInteger | PFloat => TyNumber | PStr => TyString
  | PBytes => TyString
  end.

(** Only primitives (incl. constrained primitives) and lists of them. *)
Fixpoint prim_only (t : tyanno) : bool :=
  match t with
  | TAPrim _ _ => true
  | TAList _ it => prim_only it
  | _ => false
  end.

Fixpoint no_bytes (t : tyanno) : bool :=
  match t with
  | TAPrim _ PBytes => false
  | TAList _ it => no_bytes it
  | _ => true
  end.

Fixpoint tdepth (t : tyanno) : nat :=
  match t with
  | TAList _ it => S (tdepth it)
  | _ => O
  end.

Fixpoint typedb (t : tyanno) (v : value) {struct t} : bool :=
  match t, v with
  | TAPrim _ PStr, VStr _ => true
  | TAPrim _ PBytes, VBytes _ => true
  | TAPrim _ PBool, VBool _ => true
  | TAPrim _ PInt, VInt _ => true
  | TAPrim _ PFloat, VFloat _ _ => true
  | TAList _ it, VList l => forallb (typedb it) l
  | _, _ => false
  end.

Definition len_of (c : option constraints) : option Z * option Z :=
  match c with
  | Some k => match c_len k with Some l => l | None => (None, None) end
  | None => (None, None)
  end.

Definition pats_of (c : option constraints) : list text :=
  match c with
  | Some k => match c_patterns k with Some l => l | None => [] end
  | None => []
  end.

Definition min_okb (mn : option Z) (n : Z) : bool :=
  match mn with Some m => m <=? n | None => true end.
Definition max_okb (mx : option Z) (n : Z) : bool :=
  match mx with Some m => n <=? m | None => true end.

Definition len_okb (c : option constraints) (n : Z) : bool :=
  min_okb (fst (len_of c)) n && max_okb (snd (len_of c)) n.

(** The length rule of a byte array of [n] bytes as visible on its base64 text. *)
Definition text_len_okb (c : option constraints) (n : Z) : bool :=
  min_okb (fst (len_of c)) (b64len n) && max_okb (option_map b64len (snd (len_of c))) (b64len n).

Section Spec.
  (** [matches p s]: the SDK's [re.match(p, s) is not None] on code points. *)
  Variable matches : text -> text -> bool.
  Variable b64 : list N -> text.
  Variable int_tok : Z -> text.

  Definition pats_okb (c : option constraints) (s : text) : bool :=
    forallb (fun p => matches p s) (pats_of c).

  Fixpoint admitsb (textview : bool) (m : cbv) (t : tyanno) (v : value) {struct t} : bool :=
    match t, v with
    | TAPrim i PStr, VStr s => len_okb (cbv_get m i) (zlen s) && pats_okb (cbv_get m i) s
    | TAPrim i PBytes, VBytes b =>
        if textview then text_len_okb (cbv_get m i) (zlen b) else len_okb (cbv_get m i) (zlen b)
    | TAPrim _ PBool, VBool _ => true
    | TAPrim _ PInt, VInt _ => true
    | TAPrim _ PFloat, VFloat _ _ => true
    | TAList i it, VList l => len_okb (cbv_get m i) (zlen l) && forallb (admitsb textview m it) l
    | _, _ => false
    end.

  Fixpoint to_json (v : value) : json :=
    match v with
    | VStr s => JStr s
    | VBytes b => JStr (b64 b)
    | VBool b => JBool b
    | VInt z => JNum true (int_tok z)
    | VFloat i t => JNum i t
    | VList l => JArr (map to_json l)
    end.

  (** A flat instance: property name -> value; its document as the SDK writes it. *)
  Definition fields_json (fields : list (text * value)) : list (text * json) :=
    map (fun kv : text * value => (fst kv, to_json (snd kv))) fields.

  Definition instance_doc (c : cls) (fields : list (text * value)) : json :=
    JObj (fields_json fields
          ++ (if c_wmt c then [(model_type_kw, JStr (c_name c))] else [])).

  (** The instance respects the class: every present property value is well typed and
      admitted; required properties are present. *)
  Definition instance_okb (textview : bool) (c : cls) (fields : list (text * value)) : bool :=
    forallb (fun p =>
               match lookup (p_name p) fields with
               | Some v => typedb (p_type p) v && admitsb textview (c_cons c) (p_type p) v
               | None => p_optional p
               end) (c_props c).
End Spec.
