(** The canonical representation ([_Canonicalizer], [Model/TypeInf.canon]) of an access path
    [x.a.b...] is shared by no other well-formed expression. Hence, for invariants whose
    None-tests are all on access paths, the keys of the non-null map identify expressions
    uniquely and the side condition [keys_inj] of the None-safety theorem holds. *)
From Coq Require Import List NArith ZArith Bool Lia.
From Coq Require Strings.String.
Import Coq.Strings.String.StringSyntax.
From Acg Require Import Base.Str Model.Tree Model.PyEval Model.TypeInf Proofs.TypeInfFacts.
Import ListNotations.

Definition pc (c : N) : bool := idc c || N.eqb c 46.

Lemma forallb_app_iff : forall A (f : A -> bool) l1 l2,
  forallb f (l1 ++ l2) = true <-> forallb f l1 = true /\ forallb f l2 = true.
Proof. intros. rewrite forallb_app. apply andb_true_iff. Qed.

Lemma idc_pc : forall x, forallb idc x = true -> forallb pc x = true.
Proof.
  induction x as [|c x IH]; cbn; intros H; [reflexivity|].
  apply andb_true_iff in H. destruct H as [H1 H2]. unfold pc at 1. rewrite H1. cbn. auto.
Qed.

Lemma wf_ident_idc : forall x, wf_ident x = true -> forallb idc x = true /\ x <> [].
Proof.
  unfold wf_ident. intros x H. repeat (apply andb_true_iff in H; destruct H as [H ?]).
  split; [assumption|]. destruct x; [discriminate|congruence].
Qed.

Lemma wf_ident_start : forall x, wf_ident x = true ->
  exists c r, x = c :: r /\ is_digit c = false.
Proof.
  unfold wf_ident. intros x H. repeat (apply andb_true_iff in H; destruct H as [H ?]).
  destruct x as [|c r]; [discriminate|]. exists c, r. split; [reflexivity|].
  apply negb_true_iff in H. exact H.
Qed.

Lemma is_path_nnb : forall p, is_path p = true -> needs_no_brackets p = true.
Proof. destruct p; cbn; intros; try discriminate; reflexivity. Qed.

Lemma path_pc : forall p, is_path p = true -> wf_expr p = true ->
  forallb pc (canon p) = true /\ canon p <> [].
Proof.
  induction p; cbn [is_path wf_expr]; intros Hp Hw; try discriminate.
  - apply andb_true_iff in Hw. destruct Hw as [Hwi Hwn].
    destruct (IHp Hp Hwi) as [H1 H2]. cbn. rewrite (is_path_nnb _ Hp).
    destruct (wf_ident_idc _ Hwn) as [Hn _]. split.
    + apply forallb_app_iff. split; [exact H1|]. cbn. apply idc_pc. exact Hn.
    + destruct (canon p); [congruence|discriminate].
  - destruct (wf_ident_idc _ Hw) as [Hn Hne]. cbn. split; [apply idc_pc; exact Hn|exact Hne].
Qed.

Lemma forallb_In : forall (f : N -> bool) l c, forallb f l = true -> In c l -> f c = true.
Proof. intros f l c H Hin. rewrite forallb_forall in H. auto. Qed.

(** *** Expressions that are neither names, members nor constants contain a character that
    no access path contains. *)
Definition simple_shape (e : expr) : bool :=
  match e with Name _ | Member _ _ | Constant _ => true | _ => false end.

Ltac inbad := cbn; unfold paren; cbn; repeat rewrite in_app_iff; cbn; intuition.

Lemma str_repr_head : forall s, exists q r, str_repr s = q :: r /\ pc q = false.
Proof.
  intros s. unfold str_repr.
  destruct (memN 39%N s && negb (memN 34%N s)); eexists; eexists; split; reflexivity.
Qed.

Lemma bad_char : forall e, wf_expr e = true -> simple_shape e = false ->
  canon e = [] \/ exists c, In c (canon e) /\ pc c = false.
Proof.
  intros e Hw Hs. destruct e; try discriminate Hs; cbn [wf_expr] in Hw.
  - right. exists 91%N. split; [inbad|reflexivity].
  - right. exists SP. split; [inbad|reflexivity].
  - right. exists SP. split; [inbad|reflexivity].
  - right. exists SP. split; [inbad|reflexivity].
  - right. exists SP. split; [inbad|reflexivity].
  - right. exists SP. split; [inbad|reflexivity].
  - apply andb_true_iff in Hw. destruct Hw as [H2 _].
    destruct vs as [|a [|b r]]; try discriminate. right. exists SP. split; [inbad|reflexivity].
  - apply andb_true_iff in Hw. destruct Hw as [H2 _].
    destruct vs as [|a [|b r]]; try discriminate. right. exists SP. split; [inbad|reflexivity].
  - right. exists SP. split; [inbad|reflexivity].
  - right. exists 40%N. split; [inbad|reflexivity].
  - right. exists 40%N. split; [inbad|reflexivity].
  - right. exists SP. split; [inbad|reflexivity].
  - right. exists SP. split; [inbad|reflexivity].
  - right. exists 40%N. split; [inbad|reflexivity].
  - right. exists 40%N. split; [inbad|reflexivity].
  - destruct parts as [|p ps]; [left; reflexivity|right].
    destruct p as [s|a].
    + destruct (str_repr_head s) as (q & r & Hq & Hpc). exists q. split; [|exact Hpc].
      change (canon (JoinedStr (JLit s :: ps))) with (str_repr s ++ canon (JoinedStr ps)).
      rewrite Hq. left. reflexivity.
    + exists 123%N. split; [|reflexivity].
      change (canon (JoinedStr (JFmt a :: ps)))
        with ((123%N :: canon a ++ [125%N]) ++ canon (JoinedStr ps)).
      left. reflexivity.
Qed.

(** *** Constants *)

Lemma digits_pos_chars : forall f z acc c, (0 <= z)%Z ->
  In c (digits_pos f z acc) -> In c acc \/ is_digit c = true.
Proof.
  induction f as [|f IH]; intros z acc c Hz H; cbn in H; [auto|].
  assert (Hd : is_digit (Z.to_N (48 + z mod 10)) = true).
  { pose proof (Z.mod_pos_bound z 10 ltac:(lia)) as Hm.
    assert (Hcases : (z mod 10 = 0 \/ z mod 10 = 1 \/ z mod 10 = 2 \/ z mod 10 = 3
                      \/ z mod 10 = 4 \/ z mod 10 = 5 \/ z mod 10 = 6 \/ z mod 10 = 7
                      \/ z mod 10 = 8 \/ z mod 10 = 9)%Z) by lia.
    repeat (destruct Hcases as [-> | Hcases]; [reflexivity|]). rewrite Hcases. reflexivity. }
  destruct (z <? 10)%Z.
  - destruct H as [<-|H]; auto.
  - apply IH in H; [|apply Z.div_pos; lia]. destruct H as [[<-|H]|H]; auto.
Qed.

Lemma z_digits_chars : forall z c, In c (z_digits z) -> is_digit c = true \/ c = 45%N.
Proof.
  intros z c H. unfold z_digits in H.
  assert (Hds : forall c, In c (digits_pos (S (Z.to_nat (Z.log2 (Z.abs z)))) (Z.abs z) []) ->
                          is_digit c = true).
  { intros c0 H0. apply digits_pos_chars in H0; [|lia]. destruct H0 as [[]|H0]; exact H0. }
  destruct (z <? 0)%Z.
  - destruct H as [<-|H]; auto.
  - auto.
Qed.

Definition frac_strings : list text :=
  [s2l "0"; s2l "125"; s2l "25"; s2l "375"; s2l "5"; s2l "625"; s2l "75"; s2l "875"].

Lemma float_repr_shape : forall q, exists pre fp,
  float_repr q = pre ++ 46%N :: fp /\ In fp frac_strings.
Proof.
  intros q. unfold float_repr.
  set (a := Z.abs q). set (sign := if (q <? 0)%Z then [45%N] else []).
  exists (sign ++ z_digits (a / 8)).
  eexists. split.
  - rewrite <- app_assoc. cbn. reflexivity.
  - unfold frac_strings.
    destruct (a mod 8)%Z as [|p|p]; [cbn; auto| |cbn; repeat (first [left; reflexivity | right])].
    destruct p as [[[]|[]|]|[[]|[]|]|]; cbn; repeat (first [left; reflexivity | right]).
Qed.

Lemma frac_props : forall fp, In fp frac_strings ->
  (forall c, In c fp -> c <> 46%N) /\ exists c r, fp = c :: r /\ is_digit c = true.
Proof.
  intros fp H. unfold frac_strings in H. cbn in H.
  repeat (destruct H as [<-|H]; [split; [intros c Hc; cbn in Hc; intuition; subst; discriminate
                                        |eexists; eexists; split; reflexivity]|]).
  contradiction.
Qed.

(** *** Splitting at the last dot *)

Lemma prefix_split : forall (n1 n2 r1 r2 : text),
  (forall c, In c n1 -> c <> 46%N) -> (forall c, In c n2 -> c <> 46%N) ->
  n1 ++ 46%N :: r1 = n2 ++ 46%N :: r2 -> n1 = n2 /\ r1 = r2.
Proof.
  induction n1 as [|x n1 IH]; intros [|y n2] r1 r2 H1 H2 H; cbn in H.
  - inversion H; auto.
  - inversion H; subst. exfalso. apply (H2 46%N); [left; reflexivity|reflexivity].
  - inversion H; subst. exfalso. apply (H1 46%N); [left; reflexivity|reflexivity].
  - inversion H; subst. destruct (IH n2 r1 r2) as [-> ->]; auto.
    + intros c Hc. apply H1. right. exact Hc.
    + intros c Hc. apply H2. right. exact Hc.
Qed.

Lemma split_last_dot : forall (a a' n n' : text),
  (forall c, In c n -> c <> 46%N) -> (forall c, In c n' -> c <> 46%N) ->
  a ++ 46%N :: n = a' ++ 46%N :: n' -> a = a' /\ n = n'.
Proof.
  intros a a' n n' H1 H2 H. apply (f_equal (@rev N)) in H.
  rewrite !rev_app_distr in H. cbn in H. rewrite <- !app_assoc in H. cbn in H.
  apply prefix_split in H.
  - destruct H as [Hn Ha]. apply (f_equal (@rev N)) in Hn, Ha.
    rewrite !rev_involutive in Hn, Ha. auto.
  - intros c Hc. apply H1. apply in_rev. exact Hc.
  - intros c Hc. apply H2. apply in_rev. exact Hc.
Qed.

Lemma idc_not_dot : forall x c, forallb idc x = true -> In c x -> c <> 46%N.
Proof.
  intros x c H Hc ->. pose proof (forallb_In _ _ _ H Hc) as E. discriminate E.
Qed.

Lemma digit_idc_notstart : forall c, is_digit c = true -> is_digit c = false -> False.
Proof. intros c H1 H2. congruence. Qed.

(** *** The theorem *)

Theorem canon_path_inj : forall p, is_path p = true -> wf_expr p = true ->
  forall e, wf_expr e = true -> canon e = canon p -> e = p.
Proof.
  induction p; intros Hp Hwp e Hwe Hc; try discriminate Hp.
  - (* p = Member p n *)
    rename name into n0.
    destruct (path_pc _ Hp Hwp) as [Hpc Hne].
    cbn [is_path] in Hp. cbn [wf_expr] in Hwp. apply andb_true_iff in Hwp.
    destruct Hwp as [Hwp0 Hwn0].
    destruct (wf_ident_idc _ Hwn0) as [Hidn0 _].
    assert (Hcp : canon (Member p n0) = canon p ++ 46%N :: n0).
    { cbn. rewrite (is_path_nnb _ Hp). reflexivity. }
    destruct (simple_shape e) eqn:Hs.
    + destruct e; try discriminate Hs.
      * (* Member *)
        cbn [wf_expr] in Hwe. apply andb_true_iff in Hwe. destruct Hwe as [Hwi Hwn].
        destruct (wf_ident_idc _ Hwn) as [Hidn _].
        rewrite Hcp in Hc. cbn in Hc.
        change ((if needs_no_brackets e then canon e else paren (canon e)) ++ 46%N :: name
                = canon p ++ 46%N :: n0) in Hc.
        apply split_last_dot in Hc;
          [|exact (fun c Hcc => idc_not_dot name c Hidn Hcc)
           |exact (fun c Hcc => idc_not_dot n0 c Hidn0 Hcc)].
        destruct Hc as [Hb ->].
        destruct (needs_no_brackets e).
        -- f_equal. apply IHp; auto.
        -- exfalso. destruct (path_pc _ Hp Hwp0) as [Hpc0 _]. rewrite <- Hb in Hpc0.
           unfold paren in Hpc0. cbn in Hpc0. discriminate Hpc0.
      * (* Name *)
        exfalso. cbn [wf_expr] in Hwe. destruct (wf_ident_idc _ Hwe) as [Hid _].
        rewrite Hcp in Hc. cbn in Hc.
        apply (idc_not_dot id 46%N Hid); [|reflexivity]. rewrite Hc.
        apply in_or_app. right. left. reflexivity.
      * (* Constant *)
        exfalso. rewrite Hcp in Hc. destruct c as [b|z|q|s]; cbn in Hc.
        -- assert (Hin : In 46%N (const_repr (CBool b))).
           { cbn. rewrite Hc. apply in_or_app. right. left. reflexivity. }
           destruct b; cbn in Hin; intuition discriminate.
        -- assert (Hin : In 46%N (z_digits z)).
           { rewrite Hc. apply in_or_app. right. left. reflexivity. }
           apply z_digits_chars in Hin. destruct Hin as [Hin|Hin]; discriminate Hin.
        -- destruct (float_repr_shape q) as (pre & fp & Hq & Hfp).
           destruct (frac_props _ Hfp) as [Hnd (c0 & r0 & -> & Hdig)].
           rewrite Hq in Hc. apply split_last_dot in Hc;
             [|exact Hnd|exact (fun c Hcc => idc_not_dot n0 c Hidn0 Hcc)].
           destruct Hc as [_ Hn]. destruct (wf_ident_start _ Hwn0) as (c1 & r1 & E & Hnd1).
           rewrite <- Hn in E. inversion E; subst. congruence.
        -- destruct (str_repr_head s) as (q0 & r0 & Hq & Hpcq).
           rewrite Hcp, <- Hc in Hpc. change (const_repr (CStr s)) with (str_repr s) in Hpc.
           cbn in Hc. rewrite Hq in Hpc. cbn in Hpc. rewrite Hpcq in Hpc. discriminate Hpc.
    + exfalso. destruct (bad_char e Hwe Hs) as [E|(c & Hin & Hbad)].
      * rewrite E in Hc. symmetry in Hc. exact (Hne Hc).
      * rewrite Hc in Hin. rewrite (forallb_In _ _ _ Hpc Hin) in Hbad. discriminate Hbad.
  - (* p = Name x *)
    rename id into x. cbn [wf_expr] in Hwp.
    destruct (wf_ident_idc _ Hwp) as [Hidx Hnex].
    cbn [canon] in Hc.
    destruct (simple_shape e) eqn:Hs.
    + destruct e; try discriminate Hs.
      * (* Member *)
        exfalso. cbn [wf_expr] in Hwe. apply (idc_not_dot x 46%N Hidx); [|reflexivity].
        rewrite <- Hc. cbn. apply in_or_app. right. left. reflexivity.
      * cbn in Hc. congruence.
      * exfalso. destruct c as [b|z|q|s]; cbn in Hc.
        -- unfold wf_ident in Hwp. rewrite <- Hc in Hwp.
           destruct b; cbn in Hwp; discriminate Hwp.
        -- destruct (wf_ident_start _ Hwp) as (c1 & r1 & E & Hnd1).
           assert (Hin : In c1 (z_digits z)) by (rewrite Hc, E; left; reflexivity).
           apply z_digits_chars in Hin. destruct Hin as [Hin|Hin]; [congruence|].
           subst c1. rewrite E in Hidx. cbn in Hidx. discriminate Hidx.
        -- destruct (float_repr_shape q) as (pre & fp & Hq & _).
           apply (idc_not_dot x 46%N Hidx); [|reflexivity]. rewrite <- Hc, Hq.
           apply in_or_app. right. left. reflexivity.
        -- destruct (str_repr_head s) as (q0 & r0 & Hq & Hpcq).
           rewrite Hq in Hc. rewrite <- Hc in Hidx. cbn in Hidx.
           apply andb_true_iff in Hidx. destruct Hidx as [Hq0 _].
           unfold pc in Hpcq. rewrite Hq0 in Hpcq. discriminate Hpcq.
    + exfalso. destruct (bad_char e Hwe Hs) as [E|(c & Hin & Hbad)].
      * rewrite E in Hc. symmetry in Hc. exact (Hnex Hc).
      * rewrite Hc in Hin. pose proof (forallb_In _ _ _ (idc_pc _ Hidx) Hin) as E.
        rewrite E in Hbad. discriminate Hbad.
Qed.

(** *** Consequence for the None-safety theorem *)

Lemma guards_keys_inj : forall root, guards_on_paths root = true -> keys_inj root.
Proof.
  intros root H a b Ht Hb Hc. unfold guards_on_paths in H.
  apply andb_true_iff in H. destruct H as [Hwf Hg].
  rewrite forallb_forall in Hwf, Hg.
  assert (Hpa : is_path a = true /\ wf_expr a = true).
  { destruct Ht as [Ht|Ht]; split;
      first [exact (Hg _ Ht) | exact (Hwf _ Ht)]. }
  destruct Hpa as [Hpa Hwa]. symmetry.
  apply (canon_path_inj a Hpa Hwa b (Hwf _ Hb)). symmetry. exact Hc.
Qed.

Theorem infer_none_safe_paths :
  forall (S : symtab) (fuel : nat) (root : expr) (G : tenv) (r : env) (t : ty),
    symtab_ok S -> guards_on_paths root = true ->
    infer false S G [] root = Some t ->
    env_ok S G r -> fn_ok S r -> meth_ok S r ->
    res_ok S t (eval r root fuel).
Proof.
  intros S fuel root G r t HS Hg. apply infer_none_safe; auto. apply guards_keys_inj. exact Hg.
Qed.
