"""C18 — Regex virtual-machine programs match like the pattern
(intermediate/revm.py; C++ matcher of cpp/lib/_generate_revm.py, _generate_pattern.py)."""
from __future__ import annotations

import json
import os
import pathlib
import re
import shutil
import subprocess
import time
from concurrent.futures import ThreadPoolExecutor

from harness import lib
from harness.gen import revm as G
from harness.lib import coq_bool, coq_list, coq_option, coq_pair, coq_text

META = {
    "title": "Regex virtual-machine programs match like the pattern",
    "design_ref": "§4 C18, Appendix A.2",
    "level_text": (
        "Coq theorems over a Gallina model of intermediate/revm.py (translator with label "
        "counter, _relabel_in_place, _remove_noop_in_place) and of the generated C++ matcher "
        "(ThreadList, CharacterInRanges, Match): for every accepted greedy anchored tree the "
        "labelled translation + relabelling + no-op removal equals the label-free compilation, "
        "never raises, has all targets in range, and the emitted program accepts exactly the "
        "words the pattern fully matches (denotational semantics; all trees, all words without "
        "line breaks). The model is tied to the code by "
        "in-Coq correspondence streams (exact instruction lists from the real parser + "
        "translator; verdicts of the model matcher vs Python re.fullmatch) and the property is "
        "executed directly: a reference interpreter of the documented instruction semantics and "
        "the compiled generated revm.cpp run the REAL programs against re.fullmatch."
    ),
    "level_note": (
        "Trusted: Python re.fullmatch as the meaning of a pattern (the Coq semantics is validated "
        "against it, not proved); the model agrees with the code beyond the sampled patterns; "
        "stand-in common.hpp (make_unique, Concat) for compiling revm.cpp."
    ),
    "technique": "Coq proof (compiler correctness by fragment invariants) + in-Coq correspondence "
                 "+ execution of the real programs (Python reference VM, g++-compiled matcher)",
}
GEN: list = []
MODEL = ["Model/RevmTree", "Model/Revm", "Model/RevmVM", "Model/RevmComp", "Model/RevmShape"]
TRUSTED = [
    "Model/Revm.v, Model/RevmVM.v are hand-written models of intermediate/revm.py and of the C++ "
    "Match loop (correspondence-checked: exact programs; verdicts)",
    "Model/RevmTree.v matching semantics = Python re.fullmatch on words without line breaks "
    "(validated by the 'sem' stream, not proved)",
    "harness/impl/revm.py exports the parser's tree and the translator's leaves as JSON",
    "g++ and a 12-line stand-in for common.hpp when compiling the generated revm.cpp",
]
RULE = ("case = anchored pattern text generated from a grammar (letters, escapes, astral, '.', "
        "sorted/unsorted/negated character sets, groups, unions, all quantifier forms, '.*$' "
        "suffix; a few percent with inner ^/$, non-greedy quantifiers, missing anchors) parsed by "
        "the real parser; words = random derivations of the tree, their one-edit mutations, "
        "random words over the pattern alphabet +-1 code point and all words up to a length over "
        "3 symbols, without line breaks; non-trivial = program contains a jump or split; distinct "
        "by pattern text")

HEADER = """From Coq Require Import List NArith Bool Arith.
From Acg Require Import Base.Outcome Base.Str Model.RevmTree Model.Revm Model.RevmVM Model.RevmComp
  Model.RevmShape.
Import ListNotations.
Open Scope N_scope.
Definition leaf_eqb (a b : instr * option nat) : bool :=
  instr_eqb (fst a) (fst b) && option_eqb Nat.eqb (snd a) (snd b).
Definition tcase := (regex * bool * option (list (instr * option nat)))%type.
Definition fe_ok (c : tcase) : bool :=
  match c with (t, fe, _) => Bool.eqb (fe_accepts t) fe end.
Definition tr_ok (c : tcase) : bool :=
  match c with (t, _, impl) =>
    match translate t, impl with
    | Ok l, Some l' => list_eqb leaf_eqb l l'
    | Crash _, None => true
    | _, _ => false
    end end.
Definition comp_ok (c : tcase) : bool :=
  match c with (t, _, _) =>
    match program t with
    | Ok p => instrs_eqb p (comp_regex t) && targets_ok p
    | _ => true
    end end.
Fixpoint bad_from {A} (ok : A -> bool) (i : nat) (cs : list A) : list nat :=
  match cs with
  | [] => []
  | c :: r => if ok c then bad_from ok (S i) r else i :: bad_from ok (S i) r
  end.
(* the hypotheses of the theorems cover the real trees: what the real front end accepts
   (and is greedy) has the shape [accepted_shape] *)
Definition shape_ok (c : tcase) : bool :=
  match c with (t, fe, _) => if fe && greedy t then shape_okb t else true end.
Definition bad_t := bad_from (fun c => fe_ok c && tr_ok c && comp_ok c && shape_ok c) 0%nat.
Definition wcase := (regex * list (list N * bool))%type.
Definition sem_ok (c : wcase) : bool :=
  match c with (t, ws) => forallb (fun wv => Bool.eqb (matchb (fst wv) t) (snd wv)) ws end.
Definition cpp_ok (c : wcase) : bool :=
  match c with (t, ws) =>
    if fe_accepts t && greedy t then
      match program t with
      | Ok p => forallb (fun wv => match cpp_match true shipped_fuel p (fst wv) with
                                   | Ok b => Bool.eqb b (snd wv)
                                   | Crash OutOfFuel => eps_cyclic p
                                   | _ => false
                                   end) ws
      | _ => false
      end
    else true
  end.
Definition bad_w := bad_from (fun c => sem_ok c && cpp_ok c) 0%nat.
(* observed outcomes of the compiled matcher: Some verdict | None = killed by the watchdog *)
Definition lcase := (regex * list (list N * option bool))%type.
Definition loop_ok (c : lcase) : bool :=
  match c with (t, ws) =>
    match program t with
    | Ok p => forallb (fun wo => match cpp_match true shipped_fuel p (fst wo), snd wo with
                                 | Ok b, Some b' => Bool.eqb b b'
                                 | Crash OutOfFuel, None => true
                                 | _, _ => false
                                 end) ws
    | _ => false
    end
  end.
Definition bad_l := bad_from loop_ok 0%nat.
"""

STUB_COMMON = """// Stand-in for the generated common.hpp (which needs the third-party tl/optional.hpp):
// only what revm.cpp and the program constructors use.
#ifndef VERIF_STUB_COMMON
#define VERIF_STUB_COMMON
#include <memory>
#include <string>
#include <stdexcept>
#include <vector>
namespace verif { namespace lib { namespace common {
template<typename T, typename... A>
std::unique_ptr<T> make_unique(A&&... a) { return std::unique_ptr<T>(new T(std::forward<A>(a)...)); }
inline std::string Concat() { return std::string(); }
template<typename... R>
std::string Concat(const std::string& first, const R&... rest) { return first + Concat(std::string(rest)...); }
}}}
#endif
"""

DRIVER = """#include "verif/lib/common.hpp"
#include "verif/lib/revm.hpp"
#include <iostream>
#include <string>
#include <cstdlib>
using namespace verif::lib;
%(funcs)s
typedef std::vector<std::unique_ptr<revm::Instruction> > (*ctor)();
static ctor ctors[] = {%(table)s};
int main(int argc, char** argv) {
  if (argc < 2) return 2;
  int k = std::atoi(argv[1]);
  std::vector<std::unique_ptr<revm::Instruction> > program;
  try { program = ctors[k](); } catch (const std::exception& e) { std::cout << "CTOR-EXC" << std::endl; return 0; }
  std::string line;
  while (std::getline(std::cin, line)) {
    std::wstring text;
    size_t pos = 0;
    while (pos < line.size()) {
      size_t e = line.find(' ', pos); if (e == std::string::npos) e = line.size();
      if (e > pos) text.push_back(static_cast<wchar_t>(std::stoul(line.substr(pos, e - pos), nullptr, 16)));
      pos = e + 1;
    }
    try { bool r = revm::Match(program, text); std::cout << (r ? "1" : "0") << std::endl; }
    catch (const std::exception& e) { std::cout << "EXC" << std::endl; }
  }
  return 0;
}
"""


KEY_NONGREEDY = "nongreedy-notimplemented"
KEY_EPS_CYCLE = "cpp-match-epsilon-cycle-nontermination"


def classify_crash(tree, exc: str) -> str:
    f = G.features(tree)
    if exc == "AssertionError" and f["starts"] > 1:
        return "start-anchor-not-first"
    if exc == "NotImplementedError" and f["non_greedy"]:
        return "non-greedy-quantifier"
    return "other"


def eps_cyclic(prog) -> bool:
    """Does the real program contain a cycle of non-consuming instructions?"""
    ins = [p[0] for p in prog]
    n = len(ins)

    def succ(pc):
        i = ins[pc]
        if i["k"] == "jump":
            return [i["t"]]
        if i["k"] == "split":
            return [i["a"], i["b"]]
        if i["k"] == "end":
            return [pc + 1]
        return []
    for start in range(n):
        seen = set()
        stack = [x for x in succ(start) if x < n]
        while stack:
            pc = stack.pop()
            if pc in seen:
                continue
            seen.add(pc)
            stack += [x for x in succ(pc) if x < n]
        if start in seen:
            return True
    return False


def how_to_translate(pattern: str) -> str:
    return (f"PYTHONPATH={lib.REPO} {lib.PY} -c \"from aas_core_codegen.parse import retree; "
            f"from aas_core_codegen.intermediate import revm; "
            f"print(revm.dump(revm.translate(retree.parse([{pattern!r}])[0])))\"")


def fullmatch(pattern: str, word: str) -> bool:
    return re.fullmatch(pattern, word) is not None


# ---------------------------------------------------------------------------------
# compiled C++ matcher
# ---------------------------------------------------------------------------------
def run_cpp(ctx: lib.Ctx, items):
    """items: [(pattern, [words])]; returns {pattern: [verdict strings]} or None when the
    tool chain is missing. Verdict strings: '1','0','EXC','TIMEOUT','CTOR-EXC','GEN-<Exc>'."""
    if shutil.which("g++") is None:
        return None
    work = ctx.work / "cpp"
    if work.exists():
        shutil.rmtree(work)
    (work / "inc" / "verif" / "lib").mkdir(parents=True)
    gen = lib.impl_call("revm.py", {"mode": "cpp", "patterns": [p for p, _ in items]})
    (work / "inc" / "verif" / "lib" / "revm.hpp").write_text(gen["revm_hpp"])
    (work / "inc" / "verif" / "lib" / "common.hpp").write_text(STUB_COMMON)
    (work / "revm.cpp").write_text(gen["revm_cpp"])
    out = {}
    funcs = []
    index = {}
    for (pattern, _), code in zip(items, gen["programs"]):
        if isinstance(code, dict):
            out[pattern] = ["GEN-" + code["exc"]]
            continue
        index[pattern] = len(funcs)
        funcs.append("static std::vector<std::unique_ptr<revm::Instruction> > construct_%d() {\n%s\n"
                     "return program;\n}\n" % (len(funcs), code))
    # split the constructors over several translation units to compile them in parallel
    units = []
    per = 40
    for u in range(0, len(funcs), per):
        units.append(funcs[u:u + per])
    decls = "\n".join(
        "std::vector<std::unique_ptr<revm::Instruction> > construct_%d();" % k
        for k in range(len(funcs)))
    for n, unit in enumerate(units):
        (work / f"unit{n}.cpp").write_text(
            '#include "verif/lib/common.hpp"\n#include "verif/lib/revm.hpp"\nusing namespace verif::lib;\n'
            + "\n".join(f.replace("static ", "", 1) for f in unit))
    (work / "driver.cpp").write_text(DRIVER % {
        "funcs": decls, "table": ",".join("construct_%d" % k for k in range(len(funcs))) or "nullptr"})
    srcs = ["revm.cpp", "driver.cpp"] + [f"unit{n}.cpp" for n in range(len(units))]

    def cc(src):
        return subprocess.run(["timeout", "600", "g++", "-std=c++11", "-O1", "-Iinc", "-c", src,
                               "-o", src[:-4] + ".o"], cwd=work, capture_output=True, text=True)
    with ThreadPoolExecutor(max_workers=lib.NCPU) as ex:
        rs = list(ex.map(cc, srcs))
    for src, r in zip(srcs, rs):
        if r.returncode != 0:
            raise lib.HarnessError(f"g++ failed on generated {src}:\n{r.stderr[-3000:]}")
    r = subprocess.run(["g++", "-o", "driver"] + [s[:-4] + ".o" for s in srcs], cwd=work,
                       capture_output=True, text=True)
    if r.returncode != 0:
        raise lib.HarnessError(f"g++ link failed:\n{r.stderr[-3000:]}")

    def run_one(item):
        pattern, words = item
        if pattern not in index:
            return pattern, out[pattern]
        verdicts = []
        pos = 0
        while pos < len(words):
            inp = "\n".join(" ".join("%x" % ord(c) for c in w) for w in words[pos:]) + "\n"
            # watchdog on CPU time (independent of the load of the machine): 2 s for calls
            # that take microseconds when they terminate
            try:
                p = subprocess.run(["bash", "-c", f"ulimit -t 2; exec {work / 'driver'} {index[pattern]}"],
                                   input=inp, capture_output=True, text=True, timeout=300)
                got = p.stdout.split()
                if p.returncode != 0:
                    got = got + ["TIMEOUT" if p.returncode in (-24, -9, 137, 152) else "EXC"]
            except subprocess.TimeoutExpired as e:
                so = e.stdout or b""
                got = (so.decode() if isinstance(so, bytes) else so).split()
                got = got + ["TIMEOUT"]
            if got and got[0] == "CTOR-EXC":
                return pattern, ["CTOR-EXC"]
            if got and got[-1] == "TIMEOUT":
                # one non-terminating call is enough; do not wait for the other words
                verdicts += got
                verdicts += ["SKIPPED"] * (len(words) - len(verdicts))
                break
            if not got:
                got = ["EXC"]
            verdicts += got
            pos = len(verdicts)
        return pattern, verdicts[:len(words)]
    with ThreadPoolExecutor(max_workers=lib.NCPU) as ex:
        for pattern, verdicts in ex.map(run_one, items):
            out[pattern] = verdicts
    shutil.rmtree(work, ignore_errors=True)
    return out


# ---------------------------------------------------------------------------------
def streams(ctx: lib.Ctx) -> None:
    rng = ctx.rng
    patterns = list(G.CORPUS)
    seen = set(patterns)
    want = ctx.n(400, 5000)
    tries = 0
    while len(patterns) < want + len(G.CORPUS) and tries < want * 5:
        tries += 1
        p = G.gen_pattern(rng, suspects=True)
        if p not in seen and len(p) <= 60:
            seen.add(p)
            patterns.append(p)
    results = lib.impl_call("revm.py", {"mode": "translate", "patterns": patterns}, timeout=1200)

    n_parse_crash = n_parse_err = n_fe_reject = n_py_reject = 0
    tcases, tidx = [], []
    crash_classes = {}
    crash_exc = {}
    gen_classes = {}
    usable = []        # (pattern, tree, prog) : accepted, translated, python compiles
    sem_only = []      # parse ok + python compiles, not usable (still checked by 'sem')
    nontrivial = []
    for pat, r in zip(patterns, results):
        if r["parse"].startswith("crash"):
            n_parse_crash += 1      # C16's subject; not an accepted pattern
            continue
        if r["parse"] == "err":
            n_parse_err += 1
            continue
        tree = r["tree"]
        fe = r["fe"]
        prog = r["prog"]
        if isinstance(fe, str):
            ctx.impl_failure(f"front-end-check-{fe}", "the front-end anchoring check raised",
                             {"pattern": pat}, fe, "translate")
            continue
        impl_prog = None if isinstance(prog, dict) else G.coq_prog(prog)
        tcases.append(coq_pair(G.coq_tree(tree), coq_bool(fe), coq_option(impl_prog)))
        tidx.append(pat)
        if not fe:
            n_fe_reject += 1
        pyok = G.py_compiles(pat)
        if not pyok:
            n_py_reject += 1
        if fe and isinstance(prog, dict):
            # the property itself: accepted anchored pattern, program not emitted
            cls = classify_crash(tree, prog["exc"])
            if cls == "non-greedy-quantifier":
                key = KEY_NONGREEDY
            elif cls != "other":
                key = f"translate-{prog['exc']}:{cls}"
            else:
                key = f"translate-{prog['exc']}:{pat}"
            crash_exc[key] = prog["exc"]
            best = crash_classes.get(key)
            if best is None or len(pat) < len(best):
                crash_classes[key] = pat
        elif fe and r.get("gen", "ok") != "ok":
            empty = any(n["k"] == "concat" and not n["ts"] for n in G.walk(tree))
            key = (f"cpp-generation-{r['gen']}:empty-alternative" if empty
                   else f"cpp-generation-{r['gen']}:{pat}")
            best = gen_classes.get(key)
            if best is None or len(pat) < len(best):
                gen_classes[key] = pat
        elif fe and pyok:
            usable.append((pat, tree, prog))
            if any(i[0]["k"] in ("jump", "split") for i in prog):
                nontrivial.append(pat)
        elif pyok:
            sem_only.append((pat, tree))
    for key, pat in sorted(crash_classes.items()):
        exc = crash_exc[key]
        ctx.impl_failure(key, f"revm.translate raises {exc} on a pattern the front end accepts "
                              f"(no VM program is emitted)", {"pattern": pat}, {"exc": exc},
                         "translate", how_to_translate(pat))

    for key, pat in sorted(gen_classes.items()):
        exc = key.split(":")[0].rsplit("-", 1)[1]
        ctx.impl_failure(key, f"the C++ text of the VM program is not emitted: "
                              f"_generate_program_definition_for_regex raises {exc} on a pattern "
                              f"the front end accepts", {"pattern": pat}, {"exc": exc}, "translate",
                         f"PYTHONPATH={lib.REPO} {lib.PY} -c \"from aas_core_codegen.parse import "
                         f"retree; from aas_core_codegen.cpp.lib import _generate_pattern as g; "
                         f"print(g._generate_program_definition_for_regex(retree.parse([{pat!r}])[0]))\"")

    # --- correspondence: front-end acceptance, exact programs, label-free compilation
    bad, _ = lib.run_cases(ctx.work, "c18_t", HEADER, "tcase", "bad_t", tcases)
    for i in bad[:8]:
        pat = tidx[i]
        r = results[patterns.index(pat)]
        which = lib.coq_eval(ctx.work, "c18_show", HEADER,
                             f"let c : tcase := {tcases[i]} in (fe_ok c, tr_ok c, comp_ok c, shape_ok c, "
                             f"fe_accepts (fst (fst c)), translate (fst (fst c)))")
        flags = re.findall(r"true|false", which)[:4]
        names = [n for n, f in zip(("fe", "translate", "comp", "shape"), flags)
                 if f == "false"] or ["translate"]
        for name in names:
            ctx.corr_break(name, {"pattern": pat}, which[-1200:],
                           r["fe"] if name == "fe" else r["prog"])
    for name in ("fe", "translate", "comp", "shape"):
        ctx.count(name, len(tcases), validated=len(tcases), disagreeing=len(bad))

    # --- words and verdicts
    n_pos, n_rand, n_mut = (6, 5, 4)
    wcases, widx = [], []
    evaluations = 0
    mismatches = []
    small_n = ctx.n(3, 5)
    small = list(G.small_words("abc", small_n))
    accepted_words = 0
    for pat, tree, prog in usable:
        words = G.words_for(tree, rng, n_pos, n_rand, n_mut)
        verdicts = [fullmatch(pat, w) for w in words]
        accepted_words += sum(verdicts)
        # direct oracle on the REAL program: documented semantics vs re.fullmatch
        for w, v in zip(words, verdicts):
            evaluations += 1
            try:
                got = G.ref_vm(prog, w)
            except IndexError as e:
                got = f"IndexError: {e}"
            if got != v:
                mismatches.append((pat, w, v, got))
        if set(chr(c) for c in G.alphabet(tree)) & set("abc"):
            for w in small:
                evaluations += 1
                v = fullmatch(pat, w)
                try:
                    got = G.ref_vm(prog, w)
                except IndexError as e:
                    got = f"IndexError: {e}"
                if got != v:
                    mismatches.append((pat, w, v, got))
        ws = list(zip(words, verdicts))[:12]
        wcases.append(coq_pair(G.coq_tree(tree),
                               coq_list(coq_pair(coq_text(w), coq_bool(v)) for w, v in ws)))
        widx.append((pat, ws))
    for pat, tree in sem_only:
        words = G.words_for(tree, rng, 4, 4, 2)
        ws = [(w, fullmatch(pat, w)) for w in words][:10]
        wcases.append(coq_pair(G.coq_tree(tree),
                               coq_list(coq_pair(coq_text(w), coq_bool(v)) for w, v in ws)))
        widx.append((pat, ws))
    if mismatches:
        mismatches.sort(key=lambda m: (len(m[0]) + len(m[1]), m[0], m[1]))
        pat, w, v, got = mismatches[0]
        ctx.impl_failure(f"verdict:{pat}:{w!r}",
                         f"the real VM program run by the reference interpreter gives {got}, "
                         f"re.fullmatch gives {v} ({len(mismatches)} mismatching (pattern, word) pairs)",
                         {"pattern": pat, "word": w}, {"vm": got, "fullmatch": v}, "vm",
                         how_to_translate(pat))
    ctx.count("vm", evaluations, nontrivial_keys=nontrivial, validated=evaluations,
              patterns=len(patterns), parse_crash=n_parse_crash, parse_err=n_parse_err,
              front_end_rejects=n_fe_reject, python_re_rejects=n_py_reject,
              accepted_and_translated=len(usable), translate_crash_classes=len(crash_classes),
              sampled_words_matching=accepted_words,
              small_scope=f"all words over 'abc' up to length {small_n} per pattern with a,b or c")

    bad, _ = lib.run_cases(ctx.work, "c18_w", HEADER, "wcase", "bad_w", wcases, shard=100)
    for i in bad[:8]:
        pat, ws = widx[i]
        which = lib.coq_eval(ctx.work, "c18_show", HEADER,
                             f"let c : wcase := {wcases[i]} in (sem_ok c, cpp_ok c)")
        flags = re.findall(r"true|false", which)[:2]
        names = [n for n, f in zip(("sem", "cpp-model"), flags) if f == "false"] or ["sem"]
        for name in names:
            ctx.corr_break(name, {"pattern": pat, "words": [w for w, _ in ws]},
                           "model verdict differs for at least one word",
                           {"fullmatch": [v for _, v in ws]})
    for name in ("sem", "cpp-model"):
        ctx.count(name, sum(len(ws) for _, ws in widx), validated=sum(len(ws) for _, ws in widx))

    prog_of = {pat: prog for pat, _, prog in usable}
    tree_of = {pat: tree for pat, tree, _ in usable}
    # --- compiled generated C++ matcher on the real programs
    k_cpp = ctx.n(40, 600)
    corpus_set = set(G.CORPUS)
    cpp_items = [(pat, ws) for pat, ws in widx
                 if pat in corpus_set and pat in prog_of]
    rest = [(pat, ws) for pat, ws in widx if pat not in corpus_set
            and pat in prog_of]
    cpp_items += rest[:k_cpp]
    extra = ["a", "aa", "ab", "b", "aab", "abc", "c"]
    items = [(pat, [w for w, _ in ws] + [e for e in extra if e not in [w for w, _ in ws]])
             for pat, ws in cpp_items]
    t0 = time.time()
    got = run_cpp(ctx, items)
    if got is None:
        ctx.assume("g++ not available: the compiled-matcher stream was skipped")
    else:
        n_eval = 0
        bad_cpp = []
        for pat, words in items:
            vs = got[pat]
            if vs and (vs[0].startswith("GEN-") or vs[0] == "CTOR-EXC"):
                bad_cpp.append((pat, "", vs[0], None))
                continue
            for w, g in zip(words, vs):
                n_eval += 1
                v = fullmatch(pat, w)
                if g == "SKIPPED":
                    continue
                if g != ("1" if v else "0"):
                    bad_cpp.append((pat, w, g, v))
        kinds = {}
        for pat, w, g, v in bad_cpp:
            kind = {"TIMEOUT": "cpp-nontermination", "EXC": "cpp-exception",
                    "CTOR-EXC": "cpp-constructor-exception"}.get(g, "cpp-verdict")
            if g == "TIMEOUT" and eps_cyclic(prog_of[pat]):
                # the known defect: Pop clears has_, a popped pc of an epsilon-cycle is
                # spawned again and again
                kind = KEY_EPS_CYCLE
            if g.startswith("GEN-"):
                kind = "cpp-generation-" + g[4:]
            best = kinds.get(kind)
            if best is None or len(pat) + len(w) < len(best[0]) + len(best[1]):
                kinds[kind] = (pat, w, g, v)
        for kind, (pat, w, g, v) in sorted(kinds.items()):
            key = kind if kind == KEY_EPS_CYCLE else f"{kind}:{pat}:{w!r}"
            ctx.impl_failure(
                key,
                f"generated C++ Match on the program of {pat!r} and the word {w!r}: {g} "
                f"(re.fullmatch: {v})" + (" — no answer within the watchdog time"
                                          if g == "TIMEOUT" else ""),
                {"pattern": pat, "word": w}, {"cpp": g, "fullmatch": v}, "cpp",
                "compile revm.cpp from cpp/lib/_generate_revm.generate_implementation with the "
                "program from _generate_pattern._generate_program_definition_for_regex and call "
                "revm::Match (see harness/props/c18.py run_cpp)")
        # the model of the loop as shipped against the observed outcomes, inside Coq
        lcases, lidx = [], []
        for pat, words in items:
            vs = got[pat]
            obs = []
            for w, g in zip(words, vs):
                if g in ("1", "0"):
                    obs.append(coq_pair(coq_text(w), coq_option(coq_bool(g == "1"))))
                elif g == "TIMEOUT":
                    obs.append(coq_pair(coq_text(w), coq_option(None)))
            if obs:
                lcases.append(coq_pair(G.coq_tree(tree_of[pat]), coq_list(obs)))
                lidx.append(pat)
        bad, _ = lib.run_cases(ctx.work, "c18_l", HEADER, "lcase", "bad_l", lcases, shard=100)
        for i in bad[:8]:
            pat = lidx[i]
            ctx.corr_break("cpp-loop", {"pattern": pat, "words": dict(items)[pat]},
                           "cpp_match true shipped_fuel differs from the compiled matcher",
                           got[pat])
        ctx.count("cpp-loop", len(lcases), validated=len(lcases))
        ctx.count("cpp", n_eval, validated=n_eval, cpp_patterns=len(items),
                  cpp_seconds=round(time.time() - t0, 1))

    for pat, ws in widx[:3] + widx[len(G.CORPUS):len(G.CORPUS) + 5]:
        ctx.sample({"pattern": pat, "words": ws[:5]})
