(** C08 — the value-level operations of [Model/PyEval.v] commute with the renaming
    [ren_value nm] of [Model/PyTranspileRename.v] when the naming functions are injective. *)
From Coq Require Import List NArith ZArith Bool Lia.
From Acg Require Import Base.Str Base.Outcome Model.Tree Model.PyEval Model.AstRules Model.PyTranspileKinds Model.PyTranspile Model.PyTranspileRename.
Import ListNotations.
Open Scope Z_scope.

(** ** [text_eqb] reflects equality *)

Lemma ptr_text_eqb_refl : forall a : text, text_eqb a a = true.
Proof.
  induction a as [|x a IHa]; [reflexivity|].
  cbn [text_eqb]. rewrite N.eqb_refl, IHa. reflexivity.
Qed.

Lemma ptr_text_eqb_true : forall a b : text, text_eqb a b = true -> a = b.
Proof.
  induction a as [|x a IHa]; intros [|y b] Hab; cbn [text_eqb] in Hab;
    try reflexivity; try discriminate Hab.
  apply andb_true_iff in Hab. destruct Hab as [Hxy Hrest].
  apply N.eqb_eq in Hxy. subst y. f_equal. apply IHa. exact Hrest.
Qed.

Lemma ptr_text_eqb_eq : forall a b : text, text_eqb a b = true <-> a = b.
Proof.
  intros a b. split; [apply ptr_text_eqb_true|]. intros Hab. subst b. apply ptr_text_eqb_refl.
Qed.

Lemma ptr_text_eqb_inj : forall f, injective f ->
  forall a b, text_eqb (f a) (f b) = text_eqb a b.
Proof.
  intros f Hinj a b.
  destruct (text_eqb a b) eqn:Eab.
  - apply ptr_text_eqb_true in Eab. subst b. apply ptr_text_eqb_refl.
  - destruct (text_eqb (f a) (f b)) eqn:Efab; [|reflexivity].
    apply ptr_text_eqb_true in Efab. apply Hinj in Efab. subst b.
    rewrite ptr_text_eqb_refl in Eab. discriminate Eab.
Qed.

(** ** Induction principle for the nested type [value] *)

Section ValueInd.
  Variable P : value -> Prop.
  Hypothesis HNone : P VNone.
  Hypothesis HBool : forall b, P (VBool b).
  Hypothesis HInt : forall z, P (VInt z).
  Hypothesis HFloat : forall q, P (VFloat q).
  Hypothesis HStr : forall s, P (VStr s).
  Hypothesis HBytes : forall b, P (VBytes b).
  Hypothesis HList : forall vs, Forall P vs -> P (VList vs).
  Hypothesis HSet : forall vs, Forall P vs -> P (VSet vs).
  Hypothesis HEnum : forall e l, P (VEnum e l).
  Hypothesis HObj : forall oid cls fs, Forall (fun nv => P (snd nv)) fs -> P (VObj oid cls fs).
  Hypothesis HFun : forall f, P (VFun f).
  Hypothesis HType : forall f, P (VType f).

  Fixpoint value_ind_nested (v : value) : P v :=
    match v with
    | VNone => HNone
    | VBool b => HBool b
    | VInt z => HInt z
    | VFloat q => HFloat q
    | VStr s => HStr s
    | VBytes b => HBytes b
    | VList vs =>
        HList vs ((fix go (l : list value) : Forall P l :=
                     match l with
                     | [] => Forall_nil P
                     | x :: r => Forall_cons x (value_ind_nested x) (go r)
                     end) vs)
    | VSet vs =>
        HSet vs ((fix go (l : list value) : Forall P l :=
                    match l with
                    | [] => Forall_nil P
                    | x :: r => Forall_cons x (value_ind_nested x) (go r)
                    end) vs)
    | VEnum e l => HEnum e l
    | VObj oid cls fs =>
        HObj oid cls fs
          ((fix go (l : list (text * value)) : Forall (fun nv => P (snd nv)) l :=
              match l with
              | [] => Forall_nil _
              | x :: r => Forall_cons x (value_ind_nested (snd x)) (go r)
              end) fs)
    | VFun f => HFun f
    | VType f => HType f
    end.
End ValueInd.

(** ** Unfoldings of the nested fixpoints *)

Fixpoint eq_list (l r : list value) : bool :=
  match l, r with
  | [], [] => true
  | x :: l', y :: r' => py_eq x y && eq_list l' r'
  | _, _ => false
  end.

Lemma py_eq_VList : forall xs ys, py_eq (VList xs) (VList ys) = eq_list xs ys.
Proof. intros xs ys. reflexivity. Qed.

Lemma py_eq_VSet : forall xs ys,
  py_eq (VSet xs) (VSet ys)
  = Nat.eqb (length xs) (length ys) && forallb (fun x => existsb (fun y => py_eq x y) ys) xs.
Proof. intros xs ys. reflexivity. Qed.

Definition ord_list (op : cmpop) : list value -> list value -> pyresult :=
  fix go (l r : list value) : pyresult :=
    match l, r with
    | x :: l', y :: r' =>
        if py_eq x y then go l' r'
        else match py_order op x y with
             | Val (VBool c) => Val (VBool c)
             | Val _ => Raise TypeErr
             | Raise NoneDeref => Raise TypeErr
             | Raise ex => Raise ex
             end
    | _, _ => Val (VBool (op_of_cmp op (Nat.compare (length l) (length r))))
    end.

Lemma py_order_VList : forall op xs ys, py_order op (VList xs) (VList ys) = ord_list op xs ys.
Proof. intros op xs ys. reflexivity. Qed.

(** ** Simple observers *)

Lemma ren_truthy nm v : truthy (ren_value nm v) = truthy v.
Proof.
  destruct v as [| b | z | q | s | b | vs | vs | e l | oid cls fs | f | f];
    try reflexivity; destruct vs; reflexivity.
Qed.

Lemma ren_is_none nm v : is_none (ren_value nm v) = is_none v.
Proof. destruct v; reflexivity. Qed.

Lemma ren_int_of nm v : int_of (ren_value nm v) = int_of v.
Proof. destruct v; reflexivity. Qed.

Lemma ren_num8 nm v : num8 (ren_value nm v) = num8 v.
Proof. destruct v; reflexivity. Qed.

(** ** Equality *)

Lemma ren_existsb_eq nm x ys :
  (forall b, py_eq (ren_value nm x) (ren_value nm b) = py_eq x b) ->
  existsb (fun y => py_eq (ren_value nm x) y) (map (ren_value nm) ys)
  = existsb (fun y => py_eq x y) ys.
Proof.
  intros Hx. induction ys as [|y ys IHys]; [reflexivity|].
  cbn [map existsb]. rewrite Hx, IHys. reflexivity.
Qed.

Lemma ren_py_eq nm (Hok : naming_ok nm) a b : py_eq (ren_value nm a) (ren_value nm b) = py_eq a b.
Proof.
  revert b.
  induction a as [| ba | za | qa | sa | ba | xs IHxs | xs IHxs | ea la | oa ca fa IHfa | fa | fa]
    using value_ind_nested; intros b.
  - destruct b; reflexivity.
  - destruct b; reflexivity.
  - destruct b; reflexivity.
  - destruct b; reflexivity.
  - destruct b; reflexivity.
  - destruct b; reflexivity.
  - destruct b as [| bb | zb | qb | sb | bb | ys | ys | eb lb | ob cb fb | fb | fb];
      try reflexivity.
    cbn [ren_value]. rewrite !py_eq_VList.
    revert ys. induction IHxs as [|x xs Hx HFxs IHl]; intros [|y ys]; try reflexivity.
    cbn [map eq_list]. rewrite Hx, IHl. reflexivity.
  - destruct b as [| bb | zb | qb | sb | bb | ys | ys | eb lb | ob cb fb | fb | fb];
      try reflexivity.
    cbn [ren_value]. rewrite !py_eq_VSet. rewrite !map_length. f_equal.
    induction IHxs as [|x xs Hx HFxs IHl]; [reflexivity|].
    cbn [map forallb]. rewrite IHl. f_equal. apply ren_existsb_eq. exact Hx.
  - destruct b as [| bb | zb | qb | sb | bb | ys | ys | eb lb | ob cb fb | fb | fb];
      try reflexivity.
    cbn [ren_value]. change (py_eq (VEnum ?e ?l) (VEnum ?e' ?l')) with (text_eqb e e' && text_eqb l l').
    rewrite (ptr_text_eqb_inj _ (inj_enum nm Hok)), (ptr_text_eqb_inj _ (inj_member nm Hok)).
    reflexivity.
  - destruct b; reflexivity.
  - destruct b as [| bb | zb | qb | sb | bb | ys | ys | eb lb | ob cb fb | fb | fb];
      try reflexivity.
    cbn [ren_value]. change (py_eq (VFun ?f) (VFun ?g)) with (text_eqb f g).
    apply (ptr_text_eqb_inj _ (inj_fn nm Hok)).
  - destruct b as [| bb | zb | qb | sb | bb | ys | ys | eb lb | ob cb fb | fb | fb];
      try reflexivity.
    cbn [ren_value]. change (py_eq (VType ?f) (VType ?g)) with (text_eqb f g).
    apply (ptr_text_eqb_inj _ (inj_enum nm Hok)).
Qed.

(** ** Ordering *)

Lemma ren_py_order nm (Hok : naming_ok nm) op a b :
  py_order op (ren_value nm a) (ren_value nm b) = py_order op a b.
Proof.
  revert b.
  induction a as [| ba | za | qa | sa | ba | xs IHxs | xs IHxs | ea la | oa ca fa IHfa | fa | fa]
    using value_ind_nested; intros b.
  - destruct b; reflexivity.
  - destruct b; reflexivity.
  - destruct b; reflexivity.
  - destruct b; reflexivity.
  - destruct b; reflexivity.
  - destruct b; reflexivity.
  - destruct b as [| bb | zb | qb | sb | bb | ys | ys | eb lb | ob cb fb | fb | fb];
      try reflexivity.
    cbn [ren_value]. rewrite !py_order_VList.
    revert ys. induction IHxs as [|x xs Hx HFxs IHl]; intros [|y ys]; try reflexivity.
    cbn [map ord_list]. rewrite (ren_py_eq nm Hok), Hx, IHl. reflexivity.
  - destruct b; reflexivity.
  - destruct b; reflexivity.
  - destruct b; reflexivity.
  - destruct b; reflexivity.
  - destruct b; reflexivity.
Qed.

Lemma ord_list_bool nm op xs ys : ren_result nm (ord_list op xs ys) = ord_list op xs ys.
Proof.
  revert ys. induction xs as [|x xs IHxs]; intros [|y ys]; try reflexivity.
  cbn [ord_list]. destruct (py_eq x y); [apply IHxs|].
  destruct (py_order op x y) as [[]|[]]; reflexivity.
Qed.

Lemma py_order_bool nm op a b : ren_result nm (py_order op a b) = py_order op a b.
Proof.
  destruct a as [| ba | za | qa | sa | ba | xs | xs | ea la | oa ca fa | fa | fa];
    destruct b as [| bb | zb | qb | sb | bb | ys | ys | eb lb | ob cb fb | fb | fb];
    try reflexivity.
  rewrite py_order_VList. apply ord_list_bool.
Qed.

Lemma ren_py_compare nm (Hok : naming_ok nm) op a b :
  py_compare op (ren_value nm a) (ren_value nm b) = ren_result nm (py_compare op a b).
Proof.
  destruct op; cbn [py_compare];
    try (rewrite (ren_py_order nm Hok); symmetry; apply py_order_bool);
    rewrite (ren_py_eq nm Hok); reflexivity.
Qed.

(** ** Membership *)

Lemma ren_py_in nm (Hok : naming_ok nm) m c :
  py_in (ren_value nm m) (ren_value nm c) = ren_result nm (py_in m c).
Proof.
  destruct c as [| bc | zc | qc | sc | bc | ys | ys | ec lc | oc cc fc | fc | fc];
    try reflexivity.
  - destruct m; reflexivity.
  - destruct m as [| bm | zm | qm | sm | bm | xs | xs | em lm | om cm fm | fm | fm];
      try reflexivity.
    cbn [ren_value py_in]. destruct ((0 <=? zm) && (zm <? 256)); reflexivity.
  - cbn [ren_value py_in ren_result]. do 2 f_equal.
    apply ren_existsb_eq. intros b. apply (ren_py_eq nm Hok).
  - assert (Hex : existsb (fun y => py_eq (ren_value nm m) y) (map (ren_value nm) ys)
                  = existsb (fun y => py_eq m y) ys).
    { apply ren_existsb_eq. intros b. apply (ren_py_eq nm Hok). }
    destruct m as [| bm | zm | qm | sm | bm | xs | xs | em lm | om cm fm | fm | fm];
      try reflexivity;
      cbn [ren_value py_in ren_result]; cbn [ren_value] in Hex; rewrite Hex; reflexivity.
Qed.

(** ** Index *)

Lemma nth_z_map {A B} (f : A -> B) l : forall z, nth_z (map f l) z = option_map f (nth_z l z).
Proof.
  induction l as [|x l IHl]; intros z; [reflexivity|].
  cbn [map nth_z]. destruct (z =? 0); [reflexivity|apply IHl].
Qed.

Lemma zlen_map {A B} (f : A -> B) l : zlen (map f l) = zlen l.
Proof. unfold zlen. rewrite map_length. reflexivity. Qed.

Lemma py_nth_map {A B} (f : A -> B) l z : py_nth (map f l) z = option_map f (py_nth l z).
Proof.
  unfold py_nth. rewrite zlen_map.
  destruct (z <? 0); [|apply nth_z_map].
  destruct (zlen l + z <? 0); [reflexivity|apply nth_z_map].
Qed.

Lemma ren_py_index nm c i : py_index (ren_value nm c) (ren_value nm i) = ren_result nm (py_index c i).
Proof.
  destruct c as [| bc | zc | qc | sc | bc | ys | ys | ec lc | oc cc fc | fc | fc];
    try reflexivity; cbn [ren_value py_index]; rewrite ren_int_of, ren_is_none.
  - destruct (int_of i) as [z|]; [|destruct (is_none i); reflexivity].
    destruct (py_nth sc z); reflexivity.
  - destruct (int_of i) as [z|]; [|destruct (is_none i); reflexivity].
    destruct (py_nth bc z); reflexivity.
  - destruct (int_of i) as [z|]; [|destruct (is_none i); reflexivity].
    rewrite py_nth_map. destruct (py_nth ys z); reflexivity.
Qed.

(** ** Arithmetic, len, str *)

Lemma ren_py_arith nm add a b : py_arith add (ren_value nm a) (ren_value nm b) = ren_result nm (py_arith add a b).
Proof.
  destruct a as [| ba | za | qa | sa | ba | xs | xs | ea la | oa ca fa | fa | fa];
    destruct b as [| bb | zb | qb | sb | bb | ys | ys | eb lb | ob cb fb | fb | fb];
    try reflexivity.
  - destruct add; reflexivity.
  - destruct add; reflexivity.
  - destruct add; [|reflexivity].
    cbn [ren_value py_arith int_of ren_result]. rewrite map_app. reflexivity.
Qed.

Lemma ren_py_len nm vs : py_len (map (ren_value nm) vs) = ren_result nm (py_len vs).
Proof.
  destruct vs as [|v [|w r]]; [reflexivity| |destruct v; reflexivity].
  destruct v; try reflexivity; cbn [map ren_value py_len ren_result]; rewrite zlen_map; reflexivity.
Qed.

Lemma ren_py_str nm v : py_str (ren_value nm v) = py_str v.
Proof. destruct v; reflexivity. Qed.

(** ** Sequencing of results *)

Lemma ren_and_results nm rs : and_results (map (ren_result nm) rs) = ren_result nm (and_results rs).
Proof.
  induction rs as [|r rest IH]; [reflexivity|].
  destruct r as [v|x]; [|reflexivity].
  destruct rest as [|r2 rest2]; [reflexivity|].
  change (and_results (map (ren_result nm) (Val v :: r2 :: rest2)))
    with (if truthy (ren_value nm v) then and_results (map (ren_result nm) (r2 :: rest2))
          else Val (ren_value nm v)).
  change (and_results (Val v :: r2 :: rest2))
    with (if truthy v then and_results (r2 :: rest2) else Val v).
  rewrite ren_truthy, IH. destruct (truthy v); reflexivity.
Qed.

Lemma ren_or_results nm rs : or_results (map (ren_result nm) rs) = ren_result nm (or_results rs).
Proof.
  induction rs as [|r rest IH]; [reflexivity|].
  destruct r as [v|x]; [|reflexivity].
  destruct rest as [|r2 rest2]; [reflexivity|].
  change (or_results (map (ren_result nm) (Val v :: r2 :: rest2)))
    with (if truthy (ren_value nm v) then Val (ren_value nm v)
          else or_results (map (ren_result nm) (r2 :: rest2))).
  change (or_results (Val v :: r2 :: rest2))
    with (if truthy v then Val v else or_results (r2 :: rest2)).
  rewrite ren_truthy, IH. destruct (truthy v); reflexivity.
Qed.

Lemma ren_all_results nm rs : all_results (map (ren_result nm) rs) = ren_result nm (all_results rs).
Proof.
  induction rs as [|r rest IH]; [reflexivity|].
  destruct r as [v|x]; [|reflexivity].
  cbn [map ren_result all_results]. rewrite ren_truthy, IH.
  destruct (truthy v); reflexivity.
Qed.

Lemma ren_any_results nm rs : any_results (map (ren_result nm) rs) = ren_result nm (any_results rs).
Proof.
  induction rs as [|r rest IH]; [reflexivity|].
  destruct r as [v|x]; [|reflexivity].
  cbn [map ren_result any_results]. rewrite ren_truthy, IH.
  destruct (truthy v); reflexivity.
Qed.

Lemma ren_args_results nm rs : args_results (map (ren_result nm) rs) = ren_lres nm (args_results rs).
Proof.
  induction rs as [|r rest IH]; [reflexivity|].
  destruct r as [v|x]; [|reflexivity].
  cbn [map ren_result args_results]. rewrite IH.
  destruct (args_results rest); reflexivity.
Qed.

Lemma ren_flat_map_py_str nm vs : flat_map py_str (map (ren_value nm) vs) = flat_map py_str vs.
Proof.
  induction vs as [|v vs IHvs]; [reflexivity|].
  cbn [map flat_map]. rewrite ren_py_str, IHvs. reflexivity.
Qed.

Lemma ren_join_results nm rs : join_results (map (ren_result nm) rs) = ren_result nm (join_results rs).
Proof.
  unfold join_results. rewrite ren_args_results.
  destruct (args_results rs) as [vs|x]; [|reflexivity].
  cbn [ren_lres ren_result ren_value]. rewrite ren_flat_map_py_str. reflexivity.
Qed.

(** ** Generators *)

Lemma ren_iter_items nm v :
  iter_items (ren_value nm v) = option_map (map (ren_value nm)) (iter_items v).
Proof.
  destruct v as [| b | z | q | s | b | vs | vs | e l | oid cls fs | f | f]; try reflexivity.
  - cbn [ren_value iter_items option_map]. rewrite map_map. reflexivity.
  - cbn [ren_value iter_items option_map]. rewrite map_map. reflexivity.
Qed.

Lemma ren_range_items nm fuel : forall a b l,
  range_items fuel a b = Some l -> map (ren_value nm) l = l.
Proof.
  induction fuel as [|f IHf]; intros a b l Hl.
  - cbn [range_items] in Hl. destruct (b <=? a); [|discriminate Hl].
    injection Hl as Hl. subst l. reflexivity.
  - cbn [range_items] in Hl. destruct (b <=? a).
    + injection Hl as Hl. subst l. reflexivity.
    + destruct (range_items f (a + 1) b) as [l'|] eqn:El'; [|discriminate Hl].
      injection Hl as Hl. subst l. cbn [map ren_value]. f_equal. apply (IHf _ _ _ El').
Qed.

Lemma ren_gen_items nm fuel g : gen_items fuel (ren_gen nm g) = ren_items nm (gen_items fuel g).
Proof.
  destruct g as [ri|ra rb].
  - destruct ri as [vi|x]; [|reflexivity].
    cbn [ren_gen ren_result gen_items]. rewrite ren_iter_items, ren_is_none.
    destruct (iter_items vi); reflexivity.
  - destruct ra as [va|x]; [|reflexivity].
    destruct rb as [vb|x]; [|reflexivity].
    cbn [ren_gen ren_result gen_items]. rewrite !ren_int_of, !ren_is_none.
    destruct (int_of va) as [za|]; [|reflexivity].
    destruct (int_of vb) as [zb|]; [|reflexivity].
    destruct (range_items fuel za zb) as [l|] eqn:El; [|reflexivity].
    cbn [ren_items]. rewrite (ren_range_items nm fuel _ _ _ El). reflexivity.
Qed.

(** ** Members *)

Lemma ren_lookup_member nm (Hok : naming_ok nm) n fs :
  lookup (nm_member nm n) (ren_fields nm fs) = option_map (ren_value nm) (lookup n fs).
Proof.
  induction fs as [|[k v] fs IHfs]; [reflexivity|].
  cbn [ren_fields map lookup fst snd]. fold (ren_fields nm fs).
  rewrite (ptr_text_eqb_inj _ (inj_member nm Hok)).
  destruct (text_eqb n k); [reflexivity|apply IHfs].
Qed.

Lemma ren_mem_member nm (Hok : naming_ok nm) n ls :
  mem_text (nm_member nm n) (map (nm_member nm) ls) = mem_text n ls.
Proof.
  induction ls as [|l ls IHls]; [reflexivity|].
  cbn [map mem_text]. rewrite (ptr_text_eqb_inj _ (inj_member nm Hok)), IHls. reflexivity.
Qed.
