"""Helpers for the fail-closed Python-ast -> Coq translators."""
from __future__ import annotations

import ast
import pathlib
from typing import Optional

from harness import lib


class TranslateError(Exception):
    pass


def parse(rel: str) -> ast.Module:
    path = lib.REPO / rel
    return ast.parse(path.read_text(encoding="utf-8"), filename=str(path))


def find_function(tree: ast.AST, name: str, cls: Optional[str] = None) -> ast.FunctionDef:
    scope = tree
    if cls is not None:
        for node in ast.walk(tree):
            if isinstance(node, ast.ClassDef) and node.name == cls:
                scope = node
                break
        else:
            raise TranslateError(f"class {cls} not found")
    found = [n for n in ast.walk(scope) if isinstance(n, ast.FunctionDef) and n.name == name]
    if len(found) != 1:
        raise TranslateError(f"expected exactly one function {name}, found {len(found)}")
    return found[0]


def coq_text(s: str) -> str:
    return "[" + ";".join(f"{ord(c)}" for c in s) + "]%N"


def coq_string_list(xs) -> str:
    return "[" + "; ".join(coq_text(x) for x in xs) + "]"
