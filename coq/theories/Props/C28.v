(** C28 — Smoke check agrees with the real generators.

    Theorems about the stage skeleton of [smoke/main.py: execute], which is
    re-translated from the source on every run ([Gen/GenSmoke.v]): the exit status is 0
    exactly when no stage reported an error, a non-zero status always comes with a
    report, and the stages are the front-end stages of [run.load_model], the
    schema-constraint inference the schema generators call, and the C# verification /
    type / verification-code generation the C# generator calls. *)
From Coq Require Import List NArith ZArith Bool.
From Coq Require Strings.String.
Import Coq.Strings.String.StringSyntax.
From Acg Require Import Base.Str Model.SmokeSkel Proofs.SmokeSkelFacts Gen.GenSmoke.
Import ListNotations.
Open Scope Z_scope.

(** Generated side condition: every check reports on every path and returns non-zero;
    falling through all checks returns 0. *)
Theorem C28_gen_skeleton_ok : skel_ok smoke_stages smoke_final_ret = true.
Proof. vm_compute. reflexivity. Qed.
Print Assumptions C28_gen_skeleton_ok.

(** Exit 0 iff no stage failed; non-zero exit implies a report on stderr — for every
    outcome of the stages. *)
Theorem C28_smoke_zero_iff_all_stages : forall fails : nat -> bool,
  (fst (run smoke_stages smoke_final_ret 0 fails) = 0
   <-> forall k, (k < length smoke_stages)%nat -> fails k = false)
  /\ (fst (run smoke_stages smoke_final_ret 0 fails) <> 0
      -> snd (run smoke_stages smoke_final_ret 0 fails) = true).
Proof. intros fails. exact (run_spec smoke_stages smoke_final_ret 0 fails C28_gen_skeleton_ok). Qed.
Print Assumptions C28_smoke_zero_iff_all_stages.

(** The stages are, in this order, the front end, the constraint inference and the C#
    smoke transpilation ... *)
Definition required_stages : list text :=
  [s2l "parse.source_to_atok"; s2l "parse.check_expected_imports";
   s2l "parse.atok_to_symbol_table"; s2l "intermediate.translate";
   s2l "infer_for_schema.infer_constraints_by_class"; s2l "_smoke_transpile_to_csharp"].
Theorem C28_gen_required_stages :
  subseq required_stages (map st_callee smoke_stages) = true.
Proof. vm_compute. reflexivity. Qed.
Print Assumptions C28_gen_required_stages.

(** ... the C# part collects the errors of type verification, type generation and
    verification generation ... *)
Definition required_csharp : list text :=
  [s2l "csharp_lib.verify_for_types"; s2l "csharp_lib.generate_types";
   s2l "csharp_lib.generate_verification"].
Theorem C28_gen_transpile_collects_all :
  all_in required_csharp smoke_transpile_collected = true.
Proof. vm_compute. reflexivity. Qed.
Print Assumptions C28_gen_transpile_collects_all.

(** ... and these are the functions the real generators call. *)
Theorem C28_gen_same_functions_as_generators :
  all_in required_csharp csharp_main_callees
  && mem_text (s2l "infer_for_schema.infer_constraints_by_class") jsonschema_main_callees
  && mem_text (s2l "infer_for_schema.infer_constraints_by_class") xsd_main_callees
  && all_in [s2l "parse.source_to_atok"; s2l "parse.check_expected_imports";
             s2l "parse.atok_to_symbol_table"; s2l "intermediate.translate"] load_model_callees
  = true.
Proof. vm_compute. reflexivity. Qed.
Print Assumptions C28_gen_same_functions_as_generators.

(** Non-vacuity: the skeleton has stages, and a failing third stage gives status 1
    with a report while an all-success run gives 0 without. *)
Example C28_nonvacuous :
  length smoke_stages = 6%nat
  /\ run smoke_stages smoke_final_ret 0 (fun k => Nat.eqb k 2) = (1, true)
  /\ run smoke_stages smoke_final_ret 0 (fun _ => false) = (0, false).
Proof. vm_compute. repeat split; reflexivity. Qed.
Print Assumptions C28_nonvacuous.
