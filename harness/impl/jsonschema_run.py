"""Adapter for C11/C12: the real JSON-Schema generator, the real Python SDK and an
independent JSON Schema validator (package ``jsonschema`` of the repository's venv).

JSON stdin -> JSON stdout; run with the interpreter of the repository under test through
``lib.impl_call("jsonschema_run.py", payload)`` (fresh process, fresh TMPDIR).

``{"mode": "build", "models": [{"model_text", "snippets_jsonschema", "snippets_python",
"instances": [abstract instance, ...]}, ...]}``

  per model: run the real CLI (in-process, ``cli.run_job``) for targets ``jsonschema`` and
  ``python``; check the schema against the draft it declares and resolve every ``$ref``;
  dump the generator's *view* (symbol table facts + the constraints really inferred by
  ``infer_for_schema``, patterns with their ``fix_pattern_for_utf16`` image) for the
  in-Coq correspondence of the generator model; import the generated SDK, build every
  abstract instance with the SDK constructors, run ``verification.verify`` and
  ``jsonization.to_jsonable`` and validate the produced document against the schema.

``{"mode": "validate", "jobs": [{"schema": {...}, "docs": [{"doc", "ref"}, ...]}, ...]}``

  validation verdicts (list of error summaries per document) only.

Validation convention (C11 "under the schema's UTF-16 pattern convention"): ``pattern`` is
evaluated with Python ``re.search`` on the *UTF-16 code-unit image* of the string (every
astral character replaced by its surrogate pair, as a Python ``str`` of lone surrogates);
``minLength``/``maxLength`` count code points as the JSON Schema specification says
(``jsonschema`` uses ``len`` of the Python ``str``).

An abstract instance is ``{"c": class name, "p": {property name: value}}``; a value is a
bool / int / float / str, ``{"b": hex}`` (bytes), ``{"e": [enumeration, literal name]}``,
a list of values or an abstract instance; absent optional properties are left out.
"""
import importlib
import json
import os
import pathlib
import re
import shutil
import sys
import tempfile
import traceback

sys.path.insert(0, os.path.dirname(os.path.abspath(__file__)))
import cli  # noqa: E402
import frontend  # noqa: E402


# ------------------------------------------------------------------------------------
# validation
# ------------------------------------------------------------------------------------
def utf16_units(s: str) -> str:
    out = []
    for ch in s:
        cp = ord(ch)
        if cp >= 0x10000:
            cp -= 0x10000
            out.append(chr(0xD800 + (cp >> 10)))
            out.append(chr(0xDC00 + (cp & 0x3FF)))
        else:
            out.append(ch)
    return "".join(out)


def make_validator(schema):
    from jsonschema import validators
    from jsonschema.exceptions import ValidationError

    base = validators.validator_for(schema, default=None)
    if base is None:
        raise ValueError("the schema declares no known $schema")

    def pattern16(validator, patrn, instance, _schema):
        if not validator.is_type(instance, "string"):
            return
        if not re.search(patrn, utf16_units(instance)):
            yield ValidationError(f"{instance!r} does not match {patrn!r} (UTF-16 convention)")

    cls = validators.extend(base, {"pattern": pattern16})
    return base, cls(schema)


_CACHE = {}


def summarize(validator, doc, root_ref=None):
    """Error summaries of validating ``doc`` against the schema, or against one of its
    definitions (``root_ref``): the root schema plus a top-level ``$ref``."""
    v = validator
    if root_ref is not None:
        key = (id(validator), root_ref)
        if key not in _CACHE:
            wrapper = dict(validator.schema)
            wrapper["$ref"] = root_ref
            _CACHE[key] = type(validator)(wrapper)
        v = _CACHE[key]
    errs = []
    try:
        for e in v.iter_errors(doc):
            sub = e.schema if isinstance(e.schema, dict) else {}
            errs.append({"path": [str(x) for x in e.absolute_path], "kw": str(e.validator),
                         "bytes": "contentEncoding" in sub, "msg": e.message[:200]})
    except Exception as exc:  # noqa  (unresolvable ref, bad pattern, ...)
        errs.append({"path": [], "kw": "EXCEPTION", "msg": f"{type(exc).__name__}: {exc}"[:300]})
    return errs


def all_refs(node, out):
    if isinstance(node, dict):
        for k, v in node.items():
            if k == "$ref" and isinstance(v, str):
                out.append(v)
            else:
                all_refs(v, out)
    elif isinstance(node, list):
        for x in node:
            all_refs(x, out)


def resolve_pointer(schema, ref):
    if not ref.startswith("#"):
        return False
    cur = schema
    if ref in ("#", "#/"):
        return True
    for part in ref[2:].split("/"):
        part = part.replace("~1", "/").replace("~0", "~")
        if isinstance(cur, dict) and part in cur:
            cur = cur[part]
        else:
            return False
    return True


def check_schema(schema_text):
    out = {"parse_error": None, "declared": None, "validator_class": None,
           "check_schema_error": None, "unresolved_refs": [], "bad_patterns": []}
    try:
        schema = json.loads(schema_text)
    except Exception as exc:  # noqa
        out["parse_error"] = str(exc)
        return None, None, out
    out["declared"] = schema.get("$schema") if isinstance(schema, dict) else None
    try:
        base, validator = make_validator(schema)
    except Exception as exc:  # noqa
        out["check_schema_error"] = f"{type(exc).__name__}: {exc}"[:400]
        return schema, None, out
    out["validator_class"] = base.__name__
    try:
        base.check_schema(schema)
    except Exception as exc:  # noqa
        out["check_schema_error"] = f"{type(exc).__name__}: {str(exc)[:400]}"
    refs = []
    all_refs(schema, refs)
    out["unresolved_refs"] = sorted({r for r in refs if not resolve_pointer(schema, r)})
    return schema, validator, out


# ------------------------------------------------------------------------------------
# the generator's view of the meta-model (for the in-Coq correspondence)
# ------------------------------------------------------------------------------------
def generator_view(ir):
    from aas_core_codegen import intermediate, infer_for_schema, naming
    from aas_core_codegen.jsonschema import main as js_main

    constraints_by_class, errors = infer_for_schema.infer_constraints_by_class(symbol_table=ir)
    if errors is not None:
        return {"error": "infer_constraints_by_class reported errors"}
    tids = {}
    patterns = {}

    def tid(t):
        return tids.setdefault(id(t), len(tids))

    def tview(t):
        n = tid(t)
        if isinstance(t, intermediate.PrimitiveTypeAnnotation):
            return {"k": "prim", "p": t.a_type.name, "id": n}
        if isinstance(t, intermediate.OurTypeAnnotation):
            o = t.our_type
            if isinstance(o, intermediate.Enumeration):
                return {"k": "enum", "name": naming.json_model_type(o.name), "id": n}
            if isinstance(o, intermediate.ConstrainedPrimitive):
                return {"k": "prim", "p": o.constrainee.name, "id": n}
            return {"k": "class", "name": naming.json_model_type(o.name),
                    "has_desc": len(o.concrete_descendants) > 0, "id": n}
        if isinstance(t, intermediate.ListTypeAnnotation):
            return {"k": "list", "items": tview(t.items), "id": n}
        raise AssertionError(f"unexpected type annotation {t}")

    in_props = intermediate.collect_ids_of_our_types_in_properties(symbol_table=ir)
    our_types = []
    for o in ir.our_types:
        if isinstance(o, intermediate.Enumeration):
            our_types.append({"k": "enum", "name": naming.json_model_type(o.name),
                              "values": [lit.value for lit in o.literals]})
        elif isinstance(o, intermediate.ConstrainedPrimitive):
            our_types.append({"k": "cprim", "name": o.name})
        else:
            props = []
            for p in o.properties:
                props.append({
                    "name": naming.json_property(p.name),
                    "optional": isinstance(p.type_annotation, intermediate.OptionalTypeAnnotation),
                    "own": p.specified_for is o,
                    "type": tview(intermediate.beneath_optional(p.type_annotation)),
                })
            our_types.append({
                "k": "class", "name": naming.json_model_type(o.name), "raw_name": o.name,
                "abstract": isinstance(o, intermediate.AbstractClass),
                "impl_specific": bool(o.is_implementation_specific),
                "with_model_type": bool(o.serialization.with_model_type),
                "inheritances": [
                    {"name": naming.json_model_type(i.name),
                     "abstract": isinstance(i, intermediate.AbstractClass),
                     "with_model_type": bool(i.serialization.with_model_type)}
                    for i in o.inheritances],
                "concrete_descendants": [naming.json_model_type(d.name)
                                         for d in o.concrete_descendants],
                "in_properties": id(o) in in_props,
                "properties": props,
            })
    # constraints (after the property walk, so that every annotation has its id)
    for entry, o in zip(our_types, ir.our_types):
        if entry["k"] != "class":
            continue
        cons = []
        for t, c in constraints_by_class[o].items():
            lc = c.len_constraint
            pats = None
            if c.patterns is not None:
                pats = [pc.pattern for pc in c.patterns]
                for raw in pats:
                    if raw not in patterns:
                        patterns[raw] = js_main.fix_pattern_for_utf16(raw)
            cons.append({"id": tid(t),
                         "len": None if lc is None else [lc.min_value, lc.max_value],
                         "patterns": pats})
        entry["constraints"] = cons
    model_types = sorted(naming.json_model_type(c.name) for c in ir.concrete_classes
                         if c.serialization.with_model_type)
    return {"our_types": our_types, "patterns": patterns, "model_types": model_types,
            "primitive_map": {k.name: v for k, v in js_main._PRIMITIVE_MAP.items()}}


def names_of(ir):
    from aas_core_codegen import intermediate, naming
    classes, props, enums = {}, {}, {}
    for o in ir.our_types:
        if isinstance(o, intermediate.Enumeration):
            enums[o.name] = {lit.name: lit.value for lit in o.literals}
        elif isinstance(o, (intermediate.AbstractClass, intermediate.ConcreteClass)):
            classes[o.name] = naming.json_model_type(o.name)
            for p in o.properties:
                props[p.name] = naming.json_property(p.name)
    return {"classes": classes, "props": props, "enums": enums}


# ------------------------------------------------------------------------------------
# SDK instances
# ------------------------------------------------------------------------------------
class Sdk:
    def __init__(self, root: pathlib.Path, module: str):
        self.root = root
        self.module = module
        sys.path.insert(0, str(root))
        importlib.invalidate_caches()
        self.types = importlib.import_module(f"{module}.types")
        self.verification = importlib.import_module(f"{module}.verification")
        self.jsonization = importlib.import_module(f"{module}.jsonization")

    def close(self):
        for k in [k for k in sys.modules if k == self.module or k.startswith(self.module + ".")]:
            del sys.modules[k]
        if str(self.root) in sys.path:
            sys.path.remove(str(self.root))

    def build(self, node):
        from aas_core_codegen.python import naming as pyn
        from aas_core_codegen.common import Identifier
        if isinstance(node, list):
            return [self.build(x) for x in node]
        if isinstance(node, dict):
            if "b" in node:
                return bytes.fromhex(node["b"])
            if "e" in node:
                en = getattr(self.types, pyn.enum_name(Identifier(node["e"][0])))
                return getattr(en, pyn.enum_literal_name(Identifier(node["e"][1])))
            cls = getattr(self.types, pyn.class_name(Identifier(node["c"])))
            kwargs = {pyn.argument_name(Identifier(k)): self.build(v) for k, v in node["p"].items()}
            return cls(**kwargs)
        return node


def run_model(entry, workdir: pathlib.Path):
    out = {"jsonschema": None, "python": None, "schema_text": None, "schema_check": None,
           "view": None, "names": None, "instances": [], "frontend": None}
    # real CLI, both targets
    res = {}
    for target in ("jsonschema", "python"):
        job = {"model_text": entry["model_text"], "target": target,
               "snippets": entry.get(f"snippets_{target}") or {}}
        tmp = workdir / f"tmp-{target}"
        tmp.mkdir(parents=True, exist_ok=True)
        old = tempfile.tempdir
        tempfile.tempdir = str(tmp)
        try:
            r = cli.run_job(job, workdir / target, "text" if target == "jsonschema" else "none")
        finally:
            tempfile.tempdir = old
        res[target] = r
        out[target] = {"rc": r["rc"], "stderr": r["stderr"][-1500:], "exception": r["exception"]}
    out["schema_text"] = res["jsonschema"]["files"].get("schema.json")
    # front end + generator view
    ir, _atok, failure = frontend.load(entry["model_text"])
    if failure is not None:
        out["frontend"] = failure
        return out
    out["frontend"] = {"status": "ok"}
    try:
        out["names"] = names_of(ir)
        out["view"] = generator_view(ir)
    except BaseException as exc:  # noqa
        out["view"] = {"error": f"{type(exc).__name__}: {exc}"[:500],
                       "traceback": traceback.format_exc()[-1500:]}
    if out["schema_text"] is None:
        return out
    schema, validator, chk = check_schema(out["schema_text"])
    out["schema_check"] = chk
    if res["python"]["rc"] != 0 or res["python"]["exception"] is not None:
        return out
    module = (entry.get("snippets_python") or {}).get("qualified_module_name.txt", "").strip()
    try:
        sdk = Sdk(workdir / "python" / "output", module)
    except BaseException as exc:  # noqa
        out["python"]["import_error"] = f"{type(exc).__name__}: {exc}"[:500]
        return out
    try:
        for inst in entry.get("instances") or []:
            item = {"error": None, "verify": None, "doc": None, "schema_errors": None}
            try:
                obj = sdk.build(inst)
                item["verify"] = [f"{e.path}: {e.cause}" for e in sdk.verification.verify(obj)][:5]
                doc = sdk.jsonization.to_jsonable(obj)
                item["doc"] = doc
                if validator is not None:
                    mt = out["names"]["classes"][inst["c"]]
                    item["schema_errors"] = summarize(validator, doc, f"#/definitions/{mt}")
            except BaseException as exc:  # noqa
                if isinstance(exc, KeyboardInterrupt):
                    raise
                item["error"] = f"{type(exc).__name__}: {exc}"[:400]
            out["instances"].append(item)
    finally:
        sdk.close()
    return out


def main():
    payload = json.load(sys.stdin)
    mode = payload.get("mode", "build")
    if mode == "validate":
        # {"jobs": [{"schema": ..., "docs": [{"doc":..., "ref":...}]}]}
        out = []
        for job in payload["jobs"]:
            schema, validator, chk = check_schema(json.dumps(job["schema"]))
            res = []
            for d in job["docs"]:
                if validator is None:
                    res.append([{"path": [], "kw": "EXCEPTION", "msg": "schema unusable"}])
                else:
                    res.append(summarize(validator, d["doc"], d.get("ref")))
            out.append({"schema_check": chk, "results": res})
        json.dump(out, sys.stdout)
        return
    base = pathlib.Path(tempfile.mkdtemp(prefix="c11-", dir=os.getcwd()))
    out = []
    try:
        for i, entry in enumerate(payload["models"]):
            wd = base / f"m{i}"
            wd.mkdir()
            try:
                out.append(run_model(entry, wd))
            except BaseException as exc:  # noqa
                if isinstance(exc, KeyboardInterrupt):
                    raise
                out.append({"adapter_error": f"{type(exc).__name__}: {exc}"[:800],
                            "traceback": traceback.format_exc()[-2000:]})
            shutil.rmtree(wd, ignore_errors=True)
    finally:
        shutil.rmtree(base, ignore_errors=True)
    json.dump(out, sys.stdout)


if __name__ == "__main__":
    main()
