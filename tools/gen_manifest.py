#!/usr/bin/env python3
"""Write MANIFEST.json from the META of every harness/props/cNN.py (claimed checks) and
from docs/not_applicable.json (properties not claimed, with reasons)."""
import importlib, json, pathlib, sys
ROOT = pathlib.Path(__file__).resolve().parent.parent
sys.path.insert(0, str(ROOT))
props = [json.loads(l) for l in (ROOT / "properties.jsonl").read_text().splitlines() if l.strip()]
na_path = ROOT / "docs" / "not_applicable.json"
na = json.loads(na_path.read_text()) if na_path.exists() else {}
claimed = set(json.loads((ROOT / "docs" / "claimed.json").read_text()))
checks, not_app = [], []
for p in props:
    pid = p["id"]
    modfile = ROOT / "harness" / "props" / f"{pid.lower()}.py"
    if modfile.exists() and pid not in na and pid in claimed:
        mod = importlib.import_module(f"harness.props.{pid.lower()}")
        m = mod.META
        checks.append({
            "property_id": pid,
            "quick_cmd": f"./check {pid} --tier quick",
            "thorough_cmd": f"./check {pid} --tier thorough",
            "evidence_file": f"evidence/{pid}.json",
            "replay_cmd_template": f"./check {pid} --replay {{path}}",
            "engine": "coq",
            "level_claimed": {"category": "proof", "text": m["level_text"],
                              "design_ref": m.get("design_ref", "")},
            "level_note": m["level_note"],
            "technique": m.get("technique", "machine-checked proof in Coq + correspondence check"),
        })
    else:
        not_app.append({"property_id": pid,
                        "reason": na.get(pid, "check under construction: not yet integrated and validated on the unchanged tree (see DESIGN.md §10)")})
manifest = {
    "version": 1,
    "setup_cmd": "./setup.sh",
    "hooks": {
        "guard": "AAS_CORE_CODEGEN_VERIF",
        "enable": "no source hooks are needed: the harness wraps library calls from outside; "
                  "the checks export AAS_CORE_CODEGEN_VERIF=1 to the implementation anyway",
        "baseline_off_cmd": "python3 tools/baseline.py",
        "source_commits": [],
        "add_only": True,
    },
    "engines": [{"name": "coq", "path": "coq/", "serves_properties": [c["property_id"] for c in checks],
                 "kind_free_text": "Coq 8.16.1 development (Model/Proofs/Props/Gen) + Python harness "
                                   "(correspondence via generated cases.v evaluated with vm_compute)"}],
    "checks": checks,
    "not_applicable": not_app,
    "notes": "See DESIGN.md. ./check <ID> --tier quick|thorough; exit 2 = machinery failure.",
}
(ROOT / "MANIFEST.json").write_text(json.dumps(manifest, indent=1) + "\n")
print(f"{len(checks)} checks, {len(not_app)} not claimed")
