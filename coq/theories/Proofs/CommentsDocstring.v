(** C20 — the docstring emitted by [python/description.py:docstring] is exactly one
    triple-quoted string token. *)
From Coq Require Import List NArith ZArith Bool Lia.
From Acg Require Import Base.Str Model.Comments Proofs.CommentsReplace.
Import ListNotations.
Open Scope N_scope.

Definition q3 : text := [34; 34; 34].
Definition esc3 : text := [92; 34; 92; 34; 92; 34].
Definition doc_repls : list (text * text) := [([92], [92; 92]); (q3, esc3)].
Definition esc (t : text) : text := replace q3 esc3 (replace [92] [92; 92] t).

Definition hd2q (s : text) : bool :=
  match s with c2 :: c3 :: _ => (c2 =? 34) && (c3 =? 34) | _ => false end.
Definition hd_not34 (s : text) : bool :=
  match s with c :: _ => negb (c =? 34) | [] => true end.

Lemma esc_apply : forall t, apply_repls doc_repls t = esc t.
Proof. reflexivity. Qed.

(** ** Unfolding equations of the escaper *)
Lemma esc_nil : esc [] = [].
Proof. reflexivity. Qed.

Lemma esc_bs : forall r, esc (92 :: r) = 92 :: 92 :: esc r.
Proof.
  intros r. unfold esc, q3. rewrite replace1_hit. cbn [app].
  rewrite replace3_miss by reflexivity. rewrite replace3_miss by reflexivity. reflexivity.
Qed.

Lemma esc_q3 : forall r, esc (34 :: 34 :: 34 :: r) = esc3 ++ esc r.
Proof.
  intros r. unfold esc, q3. rewrite !replace1_miss by reflexivity. rewrite replace3_hit.
  reflexivity.
Qed.

Lemma hd2q_dbl : forall r, starts_with [34; 34] (replace [92] [92; 92] r) = hd2q r.
Proof.
  intros [|c2 [|c3 r]].
  - reflexivity.
  - destruct (92 =? c2) eqn:E2.
    + apply N.eqb_eq in E2. subst c2. rewrite replace1_hit. reflexivity.
    + rewrite replace1_miss by assumption. rewrite replace_nil. cbn. apply andb_false_r.
  - destruct (92 =? c2) eqn:E2.
    + apply N.eqb_eq in E2. subst c2. rewrite replace1_hit. reflexivity.
    + rewrite replace1_miss by assumption.
      destruct (92 =? c3) eqn:E3.
      * apply N.eqb_eq in E3. subst c3. rewrite replace1_hit. cbn. rewrite !andb_false_r. reflexivity.
      * rewrite replace1_miss by assumption. cbn [starts_with hd2q]. rewrite andb_true_r.
        rewrite (N.eqb_sym 34 c2), (N.eqb_sym 34 c3). reflexivity.
Qed.

Lemma esc_q : forall r, hd2q r = false -> esc (34 :: r) = 34 :: esc r.
Proof.
  intros r H. unfold esc, q3. rewrite replace1_miss by reflexivity.
  rewrite replace3_miss; [reflexivity|].
  change (starts_with [34; 34; 34] (34 :: replace [92] [92; 92] r))
    with ((34 =? 34) && starts_with [34; 34] (replace [92] [92; 92] r)).
  rewrite hd2q_dbl, H. reflexivity.
Qed.

Lemma esc_other : forall c r, (c =? 92) = false -> (c =? 34) = false -> esc (c :: r) = c :: esc r.
Proof.
  intros c r H92 H34. unfold esc, q3. rewrite replace1_miss by (rewrite N.eqb_sym; assumption).
  rewrite replace3_miss; [reflexivity|]. cbn [starts_with]. rewrite (N.eqb_sym 34 c), H34. reflexivity.
Qed.

Lemma hd2q_true : forall r, hd2q r = true -> exists r', r = 34 :: 34 :: r'.
Proof.
  intros [|c2 [|c3 r]] H; cbn in H; try discriminate.
  apply andb_true_iff in H. destruct H as [H2 H3].
  apply N.eqb_eq in H2, H3. subst. eauto.
Qed.

(** ** Unfolding equations of the lexer *)
Lemma lex_bs : forall x r, lex_triple_body (92 :: x :: r) = lex_triple_body r.
Proof. reflexivity. Qed.
Lemma lex_q3 : forall r, lex_triple_body (34 :: 34 :: 34 :: r) = Some r.
Proof. reflexivity. Qed.
Lemma lex_q : forall r, hd2q r = false -> lex_triple_body (34 :: r) = lex_triple_body r.
Proof.
  intros [|c2 [|c3 r]] H; cbn [lex_triple_body]; cbn [N.eqb Pos.eqb]; try reflexivity.
  cbn in H. rewrite H. reflexivity.
Qed.
Lemma lex_other : forall c r, (c =? 92) = false -> (c =? 34) = false ->
  lex_triple_body (c :: r) = lex_triple_body r.
Proof. intros c r H1 H2. cbn [lex_triple_body]. rewrite H1, H2. reflexivity. Qed.
Lemma lex_esc3 : forall X, lex_triple_body (esc3 ++ X) = lex_triple_body X.
Proof. reflexivity. Qed.

(** ** Heads and lasts *)
Lemma esc_head : forall c r, (c =? 34) = false ->
  exists h tl, esc (c :: r) = h :: tl /\ (h =? 34) = false.
Proof.
  intros c r H. destruct (c =? 92) eqn:E.
  - apply N.eqb_eq in E. subst c. rewrite esc_bs. eauto.
  - rewrite esc_other by assumption. eauto.
Qed.

Lemma last_app_nonnil : forall (u v : text) d, v <> [] -> last (u ++ v) d = last v d.
Proof.
  induction u as [|x u IH]; intros v d Hv; [reflexivity|].
  cbn [app]. specialize (IH v d Hv).
  destruct (u ++ v) eqn:E.
  - destruct u; destruct v; cbn in E; congruence.
  - cbn [last]. exact IH.
Qed.

Lemma last_prop : forall (u v : text), last (u ++ v) 0 <> 34 -> last v 0 <> 34.
Proof.
  intros u v H. destruct v as [|y v].
  - cbn. discriminate.
  - rewrite last_app_nonnil in H by discriminate. exact H.
Qed.

Definition joinable (t X : text) : Prop := hd_not34 X = true \/ last (esc t) 0 <> 34.

Lemma hd2q_after : forall r X, hd2q r = false ->
  (hd_not34 X = true \/ (r <> [] /\ r <> [34])) -> hd2q (esc r ++ X) = false.
Proof.
  intros r X H J. destruct r as [|c2 r1].
  - rewrite esc_nil. cbn [app]. destruct J as [J|[J _]]; [|congruence].
    destruct X as [|x [|y X]]; try reflexivity. cbn [hd2q hd_not34] in *.
    destruct (x =? 34); [discriminate|reflexivity].
  - destruct (c2 =? 34) eqn:E2.
    + apply N.eqb_eq in E2. subst c2.
      assert (Hr1 : hd2q r1 = false).
      { destruct r1 as [|c3 [|c4 r2]]; try reflexivity. cbn [hd2q] in H |- *.
        rewrite N.eqb_refl in H. cbn [andb] in H. rewrite H. reflexivity. }
      rewrite esc_q by assumption.
      destruct r1 as [|c3 r2].
      * rewrite esc_nil. cbn [app]. destruct J as [J|[_ J]]; [|congruence].
        destruct X as [|x X]; [reflexivity|]. cbn [hd2q hd_not34] in *.
        rewrite N.eqb_refl. destruct (x =? 34); [discriminate|reflexivity].
      * assert (E3 : (c3 =? 34) = false).
        { cbn [hd2q] in H. rewrite N.eqb_refl in H. exact H. }
        destruct (esc_head c3 r2 E3) as (h & tl & Eh & Hh). rewrite Eh.
        cbn [app hd2q]. rewrite Hh. apply andb_false_r.
    + destruct (esc_head c2 r1 E2) as (h & tl & Eh & Hh). rewrite Eh.
      cbn [app]. destruct (tl ++ X); cbn [hd2q]; [reflexivity|]. rewrite Hh. reflexivity.
Qed.

(** The escaped text is transparent for the lexer: after it the lexer is in its
    neutral state, provided the escaped text does not end with a quote or what follows
    does not start with one. *)
Lemma lex_through_esc : forall n t X, (length t <= n)%nat -> joinable t X ->
  lex_triple_body (esc t ++ X) = lex_triple_body X.
Proof.
  induction n as [|n IH]; intros t X Hn J.
  - destruct t; [reflexivity|cbn in Hn; lia].
  - destruct t as [|c r]; [reflexivity|]. cbn in Hn.
    destruct (c =? 92) eqn:E92.
    + apply N.eqb_eq in E92. subst c. rewrite esc_bs. cbn [app]. rewrite lex_bs.
      apply IH; [lia|]. destruct J as [J|J]; [left; exact J|right].
      rewrite esc_bs in J. apply (last_prop [92; 92]). exact J.
    + destruct (c =? 34) eqn:E34.
      * apply N.eqb_eq in E34. subst c.
        destruct (hd2q r) eqn:Hq.
        -- destruct (hd2q_true r Hq) as [r' ->]. rewrite esc_q3, <- app_assoc, lex_esc3.
           apply IH; [cbn in Hn; lia|]. destruct J as [J|J]; [left; exact J|right].
           rewrite esc_q3 in J. apply (last_prop esc3). exact J.
        -- rewrite esc_q by assumption. cbn [app]. rewrite lex_q.
           ++ apply IH; [lia|]. destruct J as [J|J]; [left; exact J|right].
              rewrite esc_q in J by assumption. apply (last_prop [34]). exact J.
           ++ apply hd2q_after; [assumption|]. destruct J as [J|J]; [left; exact J|right].
              rewrite esc_q in J by assumption. split; intros ->.
              ** apply J. reflexivity.
              ** rewrite esc_q in J by reflexivity. apply J. reflexivity.
      * rewrite esc_other by assumption. cbn [app]. rewrite lex_other by assumption.
        apply IH; [lia|]. destruct J as [J|J]; [left; exact J|right].
        rewrite esc_other in J by assumption. apply (last_prop [c]). exact J.
Qed.

Lemma ends_with_quote_false : forall e, ends_with [34] e = false -> last e 0 <> 34.
Proof.
  intros e H. unfold ends_with in H. cbn [rev app] in H.
  rewrite <- (rev_involutive e). destruct (rev e) as [|x l].
  - cbn. discriminate.
  - cbn [rev]. rewrite last_last. cbn in H. rewrite andb_true_r in H.
    intros ->. discriminate.
Qed.

(** Main theorem over the constants of the (patched) code. *)
Theorem docstring_closed_model : forall (a b limit : Z) (t : text),
  lex_py_triple (docstring doc_repls (a, b, limit) [[34]] (q3, q3) (q3 ++ [10], 10 :: q3) t) = Some [].
Proof.
  intros a b limit t. unfold docstring. rewrite esc_apply.
  destruct ((a + zlen (esc t) + b <? limit)%Z && negb (existsb (fun s => ends_with s (esc t)) [[34]])) eqn:C.
  - apply andb_true_iff in C. destruct C as [_ C]. cbn [existsb] in C. rewrite orb_false_r in C.
    apply negb_true_iff in C. apply ends_with_quote_false in C.
    cbn [fst snd]. change (lex_py_triple (q3 ++ esc t ++ q3)) with (lex_triple_body (esc t ++ q3)).
    rewrite (lex_through_esc (length t) t q3); [reflexivity|lia|right; exact C].
  - cbn [fst snd]. rewrite <- app_assoc.
    change (lex_py_triple (q3 ++ [10] ++ esc t ++ 10 :: q3)) with (lex_triple_body (esc t ++ 10 :: q3)).
    rewrite (lex_through_esc (length t) t (10 :: q3)); [reflexivity|lia|left; reflexivity].
Qed.

(** The unpatched code (no [endswith] exclusion of the one-line form) is refuted. *)
Lemma docstring_unpatched_refuted :
  exists t, lex_py_triple (docstring doc_repls (3, 3, 70)%Z [] (q3, q3) (q3 ++ [10], 10 :: q3) t) <> Some [].
Proof. exists [97; 34]. vm_compute. discriminate. Qed.

(** The same, for constants given by equations (instantiated in [Props/C20.v] with the
    constants regenerated from the source; the equations are closed by conversion). *)
Lemma docstring_closed_gen : forall repls addends excl short long,
  repls = doc_repls -> excl = [[34]] -> short = (q3, q3) -> long = (q3 ++ [10], 10 :: q3) ->
  forall t, lex_py_triple (docstring repls addends excl short long t) = Some [].
Proof.
  intros repls [[a b] limit] excl short long -> -> -> -> t. apply docstring_closed_model.
Qed.
