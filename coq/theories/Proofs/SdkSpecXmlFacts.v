(** Proofs about the XML text codec of Model/SdkSpec.v (C10). *)
From Coq Require Import List NArith ZArith Bool Lia.
From Coq Require Strings.String.
Import Coq.Strings.String.StringSyntax.
From Acg Require Import Base.Str Base.Outcome Model.SdkSpec Proofs.SdkSpecConstFacts.
Import ListNotations.
Local Open Scope nat_scope.

(** Decoding what the (CR-escaping) writer produced, with enough fuel, gives the text. *)
Lemma decode_escape_cr : forall s fuel,
  length (xml_escape_cr s) < fuel -> decode_entities fuel (xml_escape_cr s) = s.
Proof.
  induction s as [|c r IH]; intros fuel Hf.
  - destruct fuel; reflexivity.
  - destruct fuel as [|f]; [cbn in Hf; lia|].
    cbn [xml_escape_cr] in *.
    destruct (N.eqb c AMP) eqn:E1.
    { apply N.eqb_eq in E1. subst c. cbn in Hf |- *. f_equal. apply IH. lia. }
    destruct (N.eqb c LT) eqn:E2.
    { apply N.eqb_eq in E2. subst c. cbn in Hf |- *. f_equal. apply IH. lia. }
    destruct (N.eqb c GT) eqn:E3.
    { apply N.eqb_eq in E3. subst c. cbn in Hf |- *. f_equal. apply IH. lia. }
    destruct (N.eqb c CR) eqn:E4.
    { apply N.eqb_eq in E4. subst c. cbn in Hf |- *. f_equal. apply IH. lia. }
    cbn [app decode_entities]. rewrite E1. f_equal. apply IH. cbn in Hf. lia.
Qed.

Lemma escape_cr_no_cr : forall s, ~ In CR (xml_escape_cr s).
Proof.
  induction s as [|c r IH]; cbn [xml_escape_cr]; [intros []|].
  intros H. apply in_app_or in H as [H|H]; [|auto].
  destruct (N.eqb c AMP); [cbn in H; intuition discriminate|].
  destruct (N.eqb c LT); [cbn in H; intuition discriminate|].
  destruct (N.eqb c GT); [cbn in H; intuition discriminate|].
  destruct (N.eqb c CR) eqn:E; [cbn in H; intuition discriminate|].
  cbn in H. destruct H as [H|[]]. subst c. now rewrite N.eqb_refl in E.
Qed.

Lemma normalize_no_cr : forall t, ~ In CR t -> normalize_eol t = t.
Proof.
  induction t as [|c r IH]; intros H; [reflexivity|].
  cbn [normalize_eol]. destruct (N.eqb c CR) eqn:E.
  - apply N.eqb_eq in E. exfalso. apply H. now left.
  - f_equal. apply IH. intros Hin. apply H. now right.
Qed.

(** With a writer that escapes carriage returns the text round trip holds for EVERY text. *)
Theorem xml_text_roundtrip_fixed : forall s, parse_text (xml_escape_cr s) = s.
Proof.
  intros s. unfold parse_text. rewrite normalize_no_cr by apply escape_cr_no_cr.
  apply decode_escape_cr. lia.
Qed.

Lemma escape_eq_no_cr : forall s, ~ In CR s -> xml_escape s = xml_escape_cr s.
Proof.
  induction s as [|c r IH]; intros H; [reflexivity|].
  cbn [xml_escape xml_escape_cr]. rewrite IH by (intros Hin; apply H; now right).
  destruct (N.eqb c CR) eqn:E; [|reflexivity].
  apply N.eqb_eq in E. exfalso. apply H. now left.
Qed.

(** The writer of the unchanged tree: round trip for texts without carriage return. *)
Theorem xml_text_roundtrip_partial : forall s, ~ In CR s -> parse_text (xml_escape s) = s.
Proof. intros s H. rewrite escape_eq_no_cr by assumption. apply xml_text_roundtrip_fixed. Qed.

(** ... and it fails for a carriage return, which is XML-representable. *)
Theorem xml_text_roundtrip_refuted :
  exists s, xml_repr s = true /\ parse_text (xml_escape s) <> s.
Proof. exists [CR]. split; [reflexivity|]. vm_compute. discriminate. Qed.
