(** Soundness of the path exploration of Model/LoadSkel.v: if [check good s st] holds
    then [good] holds of the result of running [s] from [st] under EVERY oracle. *)
From Coq Require Import List Arith Bool.
From Acg Require Import Base.Outcome Model.LoadSkel.
Import ListNotations.

Theorem check_sound : forall good s st,
  check good s st = true -> forall o, good (run s st o) = true.
Proof.
  intros good s. induction s as
    [a b| | |xor res err k IHk|v k IHk|v k IHk|v k IHk|v k IHk|v k IHk
    |v t IHt e IHe|v t IHt e IHe|t IHt e IHe]; intros st H o; cbn [check run] in *.
  - destruct (eval_rv st a), (eval_rv st b); exact H.
  - exact H.
  - exact H.
  - cbn [forallb fst snd] in H.
    repeat (apply andb_true_iff in H; let H1 := fresh "H" in destruct H as [H1 H]).
    destruct (next o) as [b1 o1]. destruct (next o1) as [b2 o2].
    destruct b1, b2.
    + destruct (pair_values xor true true) as [x y]. apply IHk. assumption.
    + destruct (pair_values xor true false) as [x y]. apply IHk. assumption.
    + destruct (pair_values xor false true) as [x y]. apply IHk. assumption.
    + destruct (pair_values xor false false) as [x y]. apply IHk. assumption.
  - apply andb_true_iff in H. destruct H as [H1 H2].
    destruct (next o) as [b o1]. destruct b; apply IHk; assumption.
  - apply IHk. exact H.
  - apply IHk. exact H.
  - destruct (lookup st v) as [[| |]|]; try exact H; apply IHk; exact H.
  - destruct (lookup st v) as [[| |]|]; try exact H; apply IHk; exact H.
  - destruct (lookup st v) as [[| |]|]; try exact H; try (apply IHt; exact H); apply IHe; exact H.
  - destruct (lookup st v) as [[| |]|]; try exact H; try (apply IHe; exact H); apply IHt; exact H.
  - apply andb_true_iff in H. destruct H as [H1 H2].
    destruct (next o) as [b o1]. destruct b; [apply IHt|apply IHe]; assumption.
Qed.

Corollary check_xor_sound : forall s st,
  check good_xor s st = true ->
  forall o, exists a b, run s st o = RPair a b /\ xorb a b = true.
Proof.
  intros s st H o. pose proof (check_sound good_xor s st H o) as G.
  destruct (run s st o) as [a b| | |k]; try discriminate G.
  exists a, b. split; [reflexivity|exact G].
Qed.

Corollary check_no_crash : forall good s st,
  (forall k, good (RCrash k) = false) ->
  check good s st = true -> forall o k, run s st o <> RCrash k.
Proof.
  intros good s st Hg H o k E. pose proof (check_sound good s st H o) as G.
  rewrite E, Hg in G. discriminate G.
Qed.
