(** C17 — UTF-16 regex rewriting preserves the language.

    Theorems over the model [Model/Utf16Fix.v] of [parse/retree/_fix.py]
    ([_FixForUTF16Regex], [fix_for_utf16_regex_in_place]) and the matching semantics of
    [Model/Utf16Tree.v] ([matches] relational, [matchesb] executable, proved equal).
    This file contains only statements, [exact]s and [Print Assumptions].

    FULL STATEMENT (properties.jsonl):
      forall u u' w, accepted_union u = true -> fix_utf16 u = Ok u' ->
        Forall (fun x => scalar x = true) w ->
        (matches u' (enc16 w) <-> matches u w).
    It is FALSE of the faithful model and of the code ([C17_fix_language_refuted*]):
    [.], complemented sets and BMP atoms covering a high surrogate are left unchanged,
    and a UTF-16 engine applies them to single code units. What is proved for all inputs
    is [C17_fix_language_partial], with exactly that exclusion ([clean_union]) or
    BMP-only strings. *)
From Coq Require Import List NArith Bool.
From Acg Require Import Base.Outcome Model.Utf16Tree Model.Utf16Fix
  Proofs.Utf16Sem Proofs.Utf16Arith Proofs.Utf16Lang.
Import ListNotations.
Open Scope N_scope.

(** [_convert_to_surrogates] is a bijection between the supplementary code points and
    [D800..DBFF] x [DC00..DFFF] (its post-condition cannot fail), [decode] its inverse;
    outside the supplementary planes the pre-condition fails. *)
Theorem C17_surrogates_spec :
  (forall c, astral c = true ->
     exists h l, to_surrogates c = Ok (h, l) /\ is_hi h = true /\ is_lo l = true
                 /\ decode h l = c)
  /\ (forall h l, is_hi h = true -> is_lo l = true ->
        astral (decode h l) = true /\ to_surrogates (decode h l) = Ok (h, l))
  /\ (forall c, astral c = false -> to_surrogates c = Crash Violation).
Proof. exact surrogates_spec. Qed.
Print Assumptions C17_surrogates_spec.

(** The case analysis of [_expand_char_set_to_surrogates_if_necessary] on an ordered
    astral range [a-b] succeeds and matches exactly the surrogate pairs that decode
    into the range. *)
Theorem C17_range_split_exact : forall a b,
  astral a = true -> astral b = true -> a <= b ->
  exists ps, split a b = Ok ps /\
    forall h l, is_hi h = true -> is_lo l = true ->
      (matches_pairs ps h l = true <-> a <= decode h l <= b).
Proof. exact range_split_exact. Qed.
Print Assumptions C17_range_split_exact.

Example C17_range_split_nonvacuous :
  split 0x10001 0x10C00
  = Ok [PCS 0xD800 0xDC01 0xDFFF; PSS 0xD801 0xD802 0xDC00 0xDFFF; PCS 0xD803 0xDC00 0xDC00]
  /\ split 0x103FF 0x10800
     = Ok [PCS 0xD800 0xDFFF 0xDFFF; PCS 0xD801 0xDC00 0xDFFF; PCS 0xD802 0xDC00 0xDC00]
  /\ split 0x1F600 0x1F64F = Ok [PCS 0xD83D 0xDE00 0xDE4F]
  /\ split 0x1F600 0x1F600 = Ok [PCC 0xD83D 0xDE00].
Proof. vm_compute. repeat split; reflexivity. Qed.
Print Assumptions C17_range_split_nonvacuous.

(** The executable matcher (run against Python [re] and node on every run) computes the
    relational semantics the theorems are stated over. *)
Theorem C17_matchesb_spec : forall u w, matchesb u w = true <-> matches u w.
Proof. exact matchesb_spec. Qed.
Print Assumptions C17_matchesb_spec.

(** Language preservation, for all trees and all strings of scalar values — provided the
    pattern has no [.], no complemented set and no atom covering a high surrogate, or the
    string has no supplementary character. Literals, ranges (also from the BMP into a
    supplementary plane), quantified terms, groups, unions, anchors are all covered. *)
Theorem C17_fix_language_partial : forall u u' w,
  fix_utf16 u = Ok u' ->
  Forall (fun x => scalar x = true) w ->
  (clean_union u = true \/ Forall (fun x => bmp_scalar x = true) w) ->
  (matches u' (enc16 w) <-> matches u w).
Proof. exact fix_language_partial. Qed.
Print Assumptions C17_fix_language_partial.

Theorem C17_fix_language_partial_exec : forall u u' w,
  fix_utf16 u = Ok u' ->
  forallb scalar w = true ->
  clean_union u || forallb bmp_scalar w = true ->
  matchesb u' (enc16 w) = matchesb u w.
Proof. exact fix_language_partial_b. Qed.
Print Assumptions C17_fix_language_partial_exec.

(** Non-vacuity: the XML-string pattern of the AAS meta-model
    [^[\x09\x0A\x0D\x20-\uD7FF\uE000-\uFFFD\U00010000-\U0010FFFF]*$] is accepted and
    clean, the rewriting changes it, and both sides accept "a" U+10000 "b" U+10FFFF and
    reject U+FFFE. *)
Definition xml_pattern : union :=
  UCons (CCons (TSym SStart None)
        (CCons (TSet false
                  [mkrng (ech 9) None; mkrng (ech 10) None; mkrng (ech 13) None;
                   mkrng (ech 0x20) (Some (ech 0xD7FF)); mkrng (ech 0xE000) (Some (ech 0xFFFD));
                   mkrng (ech 0x10000) (Some (ech 0x10FFFF))]
                  (Some (mkq false 0 None)))
        (CCons (TSym SEnd None) CNil))) UNil.

Example C17_fix_language_nonvacuous :
  accepted_union xml_pattern = true /\ clean_union xml_pattern = true
  /\ (exists u', fix_utf16 xml_pattern = Ok u'
        /\ union_eqb u' xml_pattern = false
        /\ matchesb xml_pattern [97; 0x10000; 98; 0x10FFFF] = true
        /\ matchesb u' (enc16 [97; 0x10000; 98; 0x10FFFF]) = true
        /\ enc16 [97; 0x10000; 98; 0x10FFFF] = [97; 0xD800; 0xDC00; 98; 0xDBFF; 0xDFFF]
        /\ matchesb xml_pattern [0xFFFE] = false
        /\ matchesb u' (enc16 [0xFFFE]) = false).
Proof. vm_compute. repeat split. eexists. repeat split. Qed.
Print Assumptions C17_fix_language_nonvacuous.

(** The full statement fails: [.] / [[^a]] keep matching ONE unit ... *)
Theorem C17_fix_language_refuted :
  exists u u' w,
    accepted_union u = true /\ fix_utf16 u = Ok u' /\ Forall (fun x => scalar x = true) w
    /\ matches u w /\ ~ matches u' (enc16 w).
Proof. exact fix_language_refuted. Qed.
Print Assumptions C17_fix_language_refuted.

Theorem C17_fix_language_refuted_complement :
  exists u u' w,
    accepted_union u = true /\ fix_utf16 u = Ok u' /\ Forall (fun x => scalar x = true) w
    /\ matches u w /\ ~ matches u' (enc16 w).
Proof. exact fix_language_refuted_complement. Qed.
Print Assumptions C17_fix_language_refuted_complement.

(** ... and an unchanged BMP set covering the surrogates accepts the two halves of a
    supplementary character the original rejects. *)
Theorem C17_fix_language_refuted_hi_atom :
  exists u u' w,
    accepted_union u = true /\ fix_utf16 u = Ok u' /\ Forall (fun x => scalar x = true) w
    /\ ~ matches u w /\ matches u' (enc16 w).
Proof. exact fix_language_refuted_hi_atom. Qed.
Print Assumptions C17_fix_language_refuted_hi_atom.

(** The witnesses, executably (these are the inputs replayed against the real code and
    real UTF-16 engines by the harness: ".", "[^a]", "[\ud800-\udfff]*"). *)
Example C17_refutation_witnesses :
  fix_utf16 re_dot = Ok re_dot
  /\ matchesb re_dot [0x10000] = true /\ matchesb re_dot (enc16 [0x10000]) = false
  /\ fix_utf16 re_compl_a = Ok re_compl_a
  /\ matchesb re_compl_a [0x1F600] = true /\ matchesb re_compl_a (enc16 [0x1F600]) = false
  /\ fix_utf16 re_surr_star = Ok re_surr_star
  /\ matchesb re_surr_star [0x1F600] = false
  /\ matchesb re_surr_star (enc16 [0x1F600]) = true.
Proof. vm_compute. repeat split; reflexivity. Qed.
Print Assumptions C17_refutation_witnesses.

(** Totality on front-end output: no pre-condition of [_convert_to_surrogates] and no
    assertion of the rewriting can fail on a tree satisfying [accepted_union] (code
    points up to U+10FFFF, ordered ranges, complemented sets without supplementary end
    points — the shape checked on every tree the real parser returns). *)
Theorem C17_fix_utf16_total : forall u,
  accepted_union u = true -> exists u', fix_utf16 u = Ok u'.
Proof. exact fix_utf16_total. Qed.
Print Assumptions C17_fix_utf16_total.

(** Non-vacuity: a range from the BMP into a supplementary plane [a-\U0001F600] is cut at
    the plane boundary; and the hypothesis matters: a complemented set with U+10000
    (what the unrepaired parser let through) makes the rewriting fail its assertion. *)
Example C17_total_nonvacuous :
  let mixed := UCons (CCons (TSet false [mkrng (mkchr 97 false) (Some (ech 0x1F600))] None) CNil) UNil in
  let compl := UCons (CCons (TSet true [mkrng (ech 0x10000) None] None) CNil) UNil in
  accepted_union mixed = true
  /\ fix_utf16 mixed
     = Ok (UCons (CCons (TGroup (union_of_list
             [CCons (TSet false [mkrng (mkchr 97 false) (Some (ech 0xFFFF))] None) CNil;
              pp_concat (PCS 0xD800 0xDC00 0xDFFF);
              pp_concat (PSS 0xD801 0xD83C 0xDC00 0xDFFF);
              pp_concat (PCS 0xD83D 0xDC00 0xDE00)]) None) CNil) UNil)
  /\ accepted_union compl = false
  /\ fix_utf16 compl = Crash AssertionError.
Proof. vm_compute. repeat split; reflexivity. Qed.
Print Assumptions C17_total_nonvacuous.
