(** Proofs about [Model/Collisions.v]: a passing [verify] implies that the generated
    names of every scope it looks at are pairwise distinct — for all meta-models. *)
From Coq Require Import List NArith Bool Lia PeanoNat.
From Coq Require Strings.String.
Import Coq.Strings.String.StringSyntax.
From Acg Require Import Base.Outcome Base.Str Model.Naming Model.Collisions Proofs.NamingFacts.
Import ListNotations.

(** * The observed-dictionary loop *)
Lemma observe_from_zero : forall names observed,
  observe_from observed names = 0%nat ->
  NoDup names /\ (forall n, In n names -> ~ In n observed).
Proof.
  induction names as [|n r IH]; intros observed H; cbn in H.
  - split; [constructor|]. intros n [].
  - destruct (mem_text n observed) eqn:Hm; [discriminate|].
    apply mem_text_false in Hm.
    destruct (IH (n :: observed) H) as [Hnd Hdisj].
    split.
    + constructor; [|exact Hnd]. intros Hin. apply (Hdisj n Hin). left. reflexivity.
    + intros x [<-|Hx]; [exact Hm|]. intros Hobs. apply (Hdisj x Hx). right. exact Hobs.
Qed.

Lemma observe_zero_NoDup : forall names, observe names = 0%nat -> NoDup names.
Proof. intros names H. apply (observe_from_zero names [] H). Qed.

(** Completeness of the loop: it counts exactly the repeated entries, so it is silent
    on duplicate-free lists (no false alarms). *)
Lemma observe_from_NoDup : forall names observed,
  NoDup names -> (forall n, In n names -> ~ In n observed) ->
  observe_from observed names = 0%nat.
Proof.
  induction names as [|n r IH]; intros observed Hnd Hdisj; cbn; [reflexivity|].
  inversion Hnd as [|? ? Hnotin Hnd']; subst.
  assert (Hm : mem_text n observed = false).
  { apply mem_text_false. apply Hdisj. left. reflexivity. }
  rewrite Hm. apply IH; [exact Hnd'|].
  intros x Hx [<-|Hobs]; [exact (Hnotin Hx)|]. apply (Hdisj x); [right; exact Hx|exact Hobs].
Qed.

Lemma NoDup_observe_zero : forall names, NoDup names -> observe names = 0%nat.
Proof. intros names H. apply observe_from_NoDup; [exact H|]. intros n _ []. Qed.

(** * Monadic plumbing *)
Lemma sumM_zero : forall {A} (f : A -> res nat) (l : list A),
  sumM f l = Ok 0%nat -> forall x, In x l -> f x = Ok 0%nat.
Proof.
  intros A f. induction l as [|a l IH]; intros H x Hin; [contradiction|].
  cbn in H. apply bind_ok in H. destruct H as [n [Hn H]].
  apply bind_ok in H. destruct H as [k [Hk H]]. injection H as H.
  assert (n = 0%nat) by lia. assert (k = 0%nat) by lia. subst n k.
  destruct Hin as [<-|Hin]; [exact Hn|]. apply IH; assumption.
Qed.

Lemma NoDup_app_l : forall {A} (a b : list A), NoDup (a ++ b) -> NoDup a.
Proof.
  intros A a b. induction a as [|x a IH]; intros H; [constructor|].
  cbn in H. inversion H as [|? ? Hn Hr]; subst. constructor.
  - intros Hin. apply Hn. apply in_or_app. left. exact Hin.
  - apply IH. exact Hr.
Qed.

Lemma NoDup_app_r : forall {A} (a b : list A), NoDup (a ++ b) -> NoDup b.
Proof.
  intros A a b. induction a as [|x a IH]; intros H; [exact H|].
  cbn in H. inversion H; subst. apply IH. assumption.
Qed.

Lemma NoDup_concat_In : forall {A} (ls : list (list A)) (x : list A),
  NoDup (concat ls) -> In x ls -> NoDup x.
Proof.
  intros A. induction ls as [|l ls IH]; intros x H Hin; [contradiction|].
  cbn in H. destruct Hin as [<-|Hin].
  - eapply NoDup_app_l. exact H.
  - apply IH; [eapply NoDup_app_r; exact H|exact Hin].
Qed.

Lemma names_of_In : forall {A} (f : A -> res (list text)) (l : list A) (ns : list text),
  names_of f l = Ok ns -> NoDup ns ->
  forall x, In x l -> exists y, f x = Ok y /\ NoDup y.
Proof.
  intros A f l ns H Hnd x Hin. unfold names_of in H.
  apply bind_ok in H. destruct H as [ls [Hls H]]. injection H as <-.
  destruct (mapM_ok_In f l ls Hls x Hin) as [y [Hy Hyin]].
  exists y. split; [exact Hy|]. eapply NoDup_concat_In; eassumption.
Qed.

Lemma In_enums_of : forall m e, In (OEnum e) (mm_types m) -> In e (enums_of m).
Proof.
  intros m e H. unfold enums_of. apply in_flat_map. exists (OEnum e). split; [exact H|left; reflexivity].
Qed.

(** * What a passing verify establishes *)
Lemma verify_ok_inv : forall t m, verify t m = Ok tt ->
  exists ns, structure_names t m = Ok ns /\ NoDup ns
             /\ forall o, In o (mm_types m) ->
                  exists xs, intra_names t o = Ok xs /\ NoDup xs.
Proof.
  intros t m H. unfold verify in H. apply bind_ok in H. destruct H as [n [Hn H]].
  destruct n as [|n]; [|discriminate]. clear H.
  unfold structure_name_collisions in Hn.
  apply bind_ok in Hn. destruct Hn as [ns [Hns Hn]].
  apply bind_ok in Hn. destruct Hn as [k [Hk Hn]]. injection Hn as Hn.
  assert (Hobs : observe ns = 0%nat) by lia. assert (k = 0%nat) by lia. subst k.
  exists ns. split; [exact Hns|]. split; [apply observe_zero_NoDup; exact Hobs|].
  intros o Hin. pose proof (sumM_zero _ _ Hk o Hin) as Ho.
  unfold intra_errors in Ho. apply bind_ok in Ho. destruct Ho as [xs [Hxs Ho]].
  exists xs. split; [exact Hxs|]. apply observe_zero_NoDup.
  destruct (observe xs); [reflexivity|discriminate].
Qed.

Lemma golang_literals_in_structure : forall m ns e,
  structure_names Golang m = Ok ns -> NoDup ns -> In (OEnum e) (mm_types m) ->
  exists xs, go_literal_names e = Ok xs /\ NoDup xs.
Proof.
  intros m ns e H Hnd Hin. unfold structure_names in H.
  apply bind_ok in H. destruct H as [a [_ H]].
  apply bind_ok in H. destruct H as [b [Hb H]]. injection H as <-.
  apply NoDup_app_r in Hnd.
  exact (names_of_In go_literal_names (enums_of m) b Hb Hnd e (In_enums_of m e Hin)).
Qed.

(** * Main theorem, all targets at once *)
Theorem verify_ok_injective : forall t m,
  verify t m = Ok tt ->
  forall s, scope_checked t s = true ->
  exists ns, generated_names t m s = Ok ns /\ NoDup ns.
Proof.
  intros t m H s Hs.
  destruct (verify_ok_inv t m H) as [ns [Hns [Hnd Hintra]]].
  destruct s as [|i|i| |]; cbn [generated_names].
  - exists ns. split; assumption.
  - destruct (nth_error (mm_types m) i) as [o|] eqn:Hnth; [|exists []; split; [reflexivity|constructor]].
    destruct o as [e|n|c]; try (exists []; split; [reflexivity|constructor]).
    pose proof (nth_error_In _ _ Hnth) as Hin.
    destruct t; cbn in Hs; try discriminate.
    + exact (Hintra (OEnum e) Hin).
    + exact (golang_literals_in_structure m ns e Hns Hnd Hin).
    + exact (Hintra (OEnum e) Hin).
    + exact (Hintra (OEnum e) Hin).
  - destruct (nth_error (mm_types m) i) as [o|] eqn:Hnth; [|exists []; split; [reflexivity|constructor]].
    destruct o as [e|n|c]; try (exists []; split; [reflexivity|constructor]).
    pose proof (nth_error_In _ _ Hnth) as Hin.
    exact (Hintra (OClass c) Hin).
  - discriminate.
  - discriminate.
Qed.

(** Contrapositive reading of the second sentence of the property: if two entities of
    a checked scope get the same name, verify does not pass. *)
Corollary collision_is_reported : forall t m s ns,
  scope_checked t s = true -> generated_names t m s = Ok ns -> ~ NoDup ns ->
  verify t m <> Ok tt.
Proof.
  intros t m s ns Hs Hg Hdup Hv.
  destruct (verify_ok_injective t m Hv s Hs) as [ns' [Hg' Hnd]].
  rewrite Hg in Hg'. injection Hg' as <-. exact (Hdup Hnd).
Qed.

(** * Refutation helper *)
Lemma dup_head_not_NoDup : forall {A} (x : A) l, ~ NoDup (x :: x :: l).
Proof. intros A x l H. inversion H as [|? ? Hn _]; subst. apply Hn. left. reflexivity. Qed.

(** * Schema generators: duplicate-definition detection *)
Lemma update_for_spec : forall ext defs d,
  update_for defs ext = Ok d -> d = rev ext ++ defs /\ (NoDup defs -> NoDup d).
Proof.
  induction ext as [|k r IH]; intros defs d H; cbn in H.
  - injection H as <-. split; [reflexivity|auto].
  - destruct (mem_text k defs) eqn:Hm; [discriminate|]. apply mem_text_false in Hm.
    destruct (IH (k :: defs) d H) as [Hd Hnd]. split.
    + rewrite Hd. cbn. rewrite <- app_assoc. reflexivity.
    + intros Hdefs. apply Hnd. constructor; assumption.
Qed.

Lemma update_all_spec : forall exts defs d,
  update_all defs exts = Ok d -> d = rev (concat exts) ++ defs /\ (NoDup defs -> NoDup d).
Proof.
  induction exts as [|e r IH]; intros defs d H; cbn in H.
  - injection H as <-. split; [reflexivity|auto].
  - apply bind_ok in H. destruct H as [d1 [H1 H]].
    destruct (update_for_spec e defs d1 H1) as [Hd1 Hnd1].
    destruct (IH d1 d H) as [Hd Hnd]. split.
    + rewrite Hd, Hd1. cbn. rewrite rev_app_distr, <- app_assoc. reflexivity.
    + intros Hdefs. apply Hnd, Hnd1, Hdefs.
Qed.

Theorem jsonschema_definitions_distinct : forall exts d,
  update_all [] exts = Ok d -> NoDup (concat exts) /\ length d = length (concat exts).
Proof.
  intros exts d H. destruct (update_all_spec exts [] d H) as [Hd Hnd].
  rewrite app_nil_r in Hd. split.
  - rewrite <- (rev_involutive (concat exts)). apply NoDup_rev. rewrite <- Hd. apply Hnd. constructor.
  - rewrite Hd. apply rev_length.
Qed.

Lemma pair_eqb_iff : forall a b, pair_eqb a b = true <-> a = b.
Proof.
  intros [a1 a2] [b1 b2]. unfold pair_eqb. cbn. rewrite andb_true_iff, !text_eqb_iff.
  split; [intros [-> ->]; reflexivity|intros H; injection H as -> ->; auto].
Qed.

Lemma mem_pair_In : forall x l, mem_pair x l = true <-> In x l.
Proof.
  intros x l. induction l as [|y l IH]; cbn; [split; [discriminate|contradiction]|].
  rewrite orb_true_iff, IH, pair_eqb_iff. split; intros [H|H]; auto.
Qed.

Definition named (els : list (text * option text)) : list (text * text) :=
  flat_map (fun e => match snd e with Some n => [(fst e, n)] | None => [] end) els.

Lemma xsd_observe_zero : forall els obs,
  xsd_observe_from obs els = 0%nat ->
  NoDup (named els) /\ (forall p, In p (named els) -> ~ In p obs).
Proof.
  induction els as [|[tag [n|]] r IH]; intros obs H; cbn in H.
  - split; [constructor|intros p []].
  - destruct (mem_pair (tag, n) obs) eqn:Hm; [discriminate|].
    assert (Hno : ~ In (tag, n) obs).
    { intros Hin. apply mem_pair_In in Hin. congruence. }
    destruct (IH _ H) as [Hnd Hdisj]. cbn. split.
    + constructor; [|exact Hnd]. intros Hin. apply (Hdisj _ Hin). left. reflexivity.
    + intros p [<-|Hp]; [exact Hno|]. intros Hobs. apply (Hdisj p Hp). right. exact Hobs.
  - cbn. apply IH. exact H.
Qed.

Theorem xsd_definitions_distinct : forall els,
  xsd_observed_definitions els = Ok tt -> NoDup (named els).
Proof.
  intros els H. unfold xsd_observed_definitions in H.
  destruct (xsd_observe_from [] els) eqn:E; [|discriminate].
  apply (xsd_observe_zero els [] E).
Qed.
