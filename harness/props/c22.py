"""C22 — Generation is deterministic."""
from __future__ import annotations

import json

from harness import lib
from harness.gen import metamodel as mmg
from harness.lib import coq_list, coq_pair, coq_text

META = {
    "title": "Generation is deterministic",
    "design_ref": "§4 C22",
    "level_text": (
        "Coq theorems (all lists) that the order-normalising steps used by the generators "
        "(sorted() on strings, stable sort by unique key) erase the listing order of their "
        "input, tied to Python's sorted() by an in-Coq correspondence stream; plus a "
        "hidden-input differential run of the real CLI: every generated case is executed under "
        "variations of exactly one hidden input at a time (PYTHONHASHSEED, output directory "
        "location and pre-existing content, current directory, snippet creation order and a "
        "shuffling file-system listing, cache off/cold/warm) and outputs, stdout (modulo the "
        "path), stderr and exit status are compared byte-wise. Partial: absence of hash-order "
        "dependence in the unmodelled generator code is only searched, not proved."
    ),
    "level_note": (
        "Theorems cover the normalisation primitives, not the 140 kLOC of generators; the "
        "tie of those to determinism of whole runs is the differential stream. Trusted: "
        "pathlib glob order is the only file-system order the code observes (wrapped by the "
        "harness); Python's sorted() as modelled by insertion sort on unique/identical keys."
    ),
    "technique": "Coq proof of order-normalisation + hidden-input differential runs",
}
GEN: list = []
MODEL = ["Model/Sorting"]
TRUSTED = [
    "Model/Sorting.v models Python's sorted() on str (correspondence-checked)",
    "harness/impl/determinism.py: hidden-input variation (hash seed, dirs, listing order, cache)",
    "harness/gen/metamodel.py: generated meta-models and synthesized snippets",
]
RULE = ("case = (meta-model, target, one hidden-input variant); distinct by (model index, target, "
        "variant name); non-trivial = the run produced at least one output file or a non-empty "
        "stderr. sort stream: random lists of strings (prefixes, duplicates, astral chars)")

TARGETS = ["python", "jsonschema", "xsd", "csharp", "java", "golang", "typescript", "cpp"]

SORT_HEADER = """From Coq Require Import List NArith Bool.
From Acg Require Import Base.Str Model.Sorting.
Import ListNotations.
Open Scope N_scope.
Definition case_ok (c : list text * list text) : bool :=
  list_eqb text_eqb (sort_text (fst c)) (snd c).
Fixpoint bad_from (i : nat) (cs : list (list text * list text)) : list nat :=
  match cs with
  | [] => []
  | c :: r => if case_ok c then bad_from (S i) r else i :: bad_from (S i) r
  end.
Definition bad := bad_from 0.
"""


def variants(rng, snippet_keys):
    rev = list(reversed(sorted(snippet_keys)))
    shuf = sorted(snippet_keys)
    rng.shuffle(shuf)
    return [
        {"name": "base"},
        {"name": "out-elsewhere", "out": "deep/er/output dir"},
        {"name": "preexisting", "preexisting": {"stale.txt": "stale", "schema.json": "{}",
                                                 "types.py": "junk", "src/types.cpp": "junk"}},
        {"name": "preexisting-crlf", "preexisting_from_reference": "crlf"},
        {"name": "preexisting-trailing", "preexisting_from_reference": "trailing-blank"},
        {"name": "preexisting-truncated", "preexisting_from_reference": "truncated"},
        {"name": "cwd", "cwd": "some/where"},
        {"name": "snippets-reversed", "snippet_order": rev},
        {"name": "snippets-shuffled", "snippet_order": shuf},
        {"name": "glob-shuffle-1", "glob_shuffle": rng.randrange(1 << 30)},
        {"name": "glob-shuffle-2", "glob_shuffle": rng.randrange(1 << 30)},
        {"name": "cache-cold", "cache": "cold"},
        {"name": "cache-warm", "cache": "warm"},
    ]


def observable(r):
    return {"rc": r["rc"], "stdout": r["stdout"], "stderr": r["stderr"], "files": r["files"],
            "exception": (r["exception"] or {}).get("class")}


def diff_keys(a, b):
    out = []
    for k in ("rc", "stdout", "stderr", "exception"):
        if a[k] != b[k]:
            out.append(k)
    if a["files"] != b["files"]:
        names = sorted(set(a["files"]) ^ set(b["files"])
                       | {k for k in a["files"] if k in b["files"] and a["files"][k] != b["files"][k]})
        out.append("files:" + ",".join(names[:4]))
    return out


def sort_stream(ctx):
    rng = ctx.rng
    alpha = ["a", "b", "ab", "B", "", "_", "Z", "aa", "é", "\U0001F600", "￿", "a_b", "aB", "0"]
    cases = []
    for _ in range(ctx.n(600, 4000)):
        k = rng.choice([0, 1, 2, 3, 5, 8, 13])
        cases.append(["".join(rng.choice(alpha) for _ in range(rng.choice([0, 1, 1, 2, 3])))
                      for _ in range(k)])
    res = lib.impl_call("pysort.py", cases)
    coq_cases = [coq_pair(coq_list(coq_text(s) for s in c), coq_list(coq_text(s) for s in r))
                 for c, r in zip(cases, res)]
    bad, _ = lib.run_cases(ctx.work, "sortcases", SORT_HEADER, "list text * list text", "bad", coq_cases)
    for i in bad[:5]:
        ctx.corr_break("sorted", cases[i], "sort_text differs", res[i])
    ctx.count("sorted", len(cases), nontrivial_keys=[tuple(c) for c in cases if len(set(c)) >= 2],
              validated=len(cases))
    ctx.sample({"sorted": cases[5]})


def streams(ctx: lib.Ctx) -> None:
    sort_stream(ctx)
    rng = ctx.rng
    n_models = ctx.n(4, 24)
    per_model = ctx.n(2, 4)
    jobs = []
    for mi in range(n_models):
        mm = mmg.random_metamodel(rng, "small" if mi % 3 else "tiny")
        text = mmg.render_source(mm)
        for k in range(per_model):
            target = TARGETS[(mi * per_model + k) % len(TARGETS)]
            jobs.append((f"m{mi}", target, text, mmg.synth_snippets(mm, target)))
    # negative cases: the run fails; stderr must be reproducible too
    mm = mmg.random_metamodel(rng, "tiny")
    text = mmg.render_source(mm)
    bad_snips = dict(mmg.synth_snippets(mm, "python"))
    bad_snips.update({"bad name.txt": "x", "1bad/y.txt": "y", "also bad!.txt": "z", "ok/fine.txt": "w",
                      "zz/bad one.txt": "a", "aa/bad two.txt": "b", "mm/1x.txt": "c",
                      "mm/deep/er/bad three.txt": "d", "bb/invalid utf8.txt": {"hex": "ff00fe"}})
    jobs.append(("neg-snippets", "python", text, bad_snips))
    jobs.append(("neg-model", "jsonschema", text.replace("class ", "class 1", 1),
                 mmg.synth_snippets(mm, "jsonschema")))

    nontrivial = []
    total = 0
    for (mname, target, text, snippets) in jobs:
        vs = variants(rng, list(snippets))
        payload = {"model_text": text, "target": target, "snippets": snippets, "variants": vs}
        runs = {}
        res0 = lib.impl_call("determinism.py", payload, hashseed="0", timeout=1500)
        for r in res0:
            runs[r["name"]] = observable(r)
        for seed in ("1", str(rng.randrange(2, 1 << 31))):
            p2 = dict(payload, variants=[{"name": f"hashseed-{'1' if seed == '1' else 'random'}"},
                                         {"name": f"hashseed-{'1' if seed == '1' else 'random'}-globshuffle",
                                          "glob_shuffle": rng.randrange(1 << 30)}])
            for r in lib.impl_call("determinism.py", p2, hashseed=seed, timeout=1500):
                runs[r["name"]] = observable(r)
        base = runs["base"]
        for name, obs in runs.items():
            total += 1
            if obs["files"] or obs["stderr"]:
                nontrivial.append((mname, target, name))
            if name == "base":
                continue
            d = diff_keys(base, obs)
            if d:
                kind = d[0].split(":")[0]
                ctx.impl_failure(
                    f"nondeterministic:{kind}:{name.split('-')[0]}:{target if mname.startswith('m') else mname}",
                    f"run differs from the base run in {d} under hidden-input variant {name}",
                    {"model": mname, "target": target, "variant": name, "model_text": text,
                     "snippets": snippets},
                    {"base": {k: (v if k != "files" else len(v)) for k, v in base.items()},
                     "variant": {k: (v if k != "files" else len(v)) for k, v in obs.items()}},
                    "determinism",
                    "re-run harness/impl/determinism.py with the payload in this replay")
        if base["exception"]:
            # a crash is C01/C02's business; here it only must be the same crash
            pass
    ctx.count("determinism", total, nontrivial_keys=nontrivial, validated=total,
              models=n_models, jobs=len(jobs),
              variants="base,out-elsewhere,preexisting,cwd,snippets-reversed,snippets-shuffled,"
                       "glob-shuffle x2,cache-cold,cache-warm,hashseed-1,hashseed-random(+globshuffle)")
    ctx.sample({"job": jobs[0][0], "target": jobs[0][1], "variants": [v["name"] for v in variants(rng, [])]})
