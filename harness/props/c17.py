"""C17 — UTF-16 regex rewriting preserves the language (parse/retree/_fix.py)."""
from __future__ import annotations

import json
import pathlib
import re
import shutil
import subprocess
import time
import warnings

from harness import lib
from harness.gen import utf16 as G

META = {
    "title": "UTF-16 regex rewriting preserves the language",
    "design_ref": "§4 C17",
    "level_text": (
        "Coq theorems for all trees and all strings over a Gallina model of "
        "_FixForUTF16Regex (surrogate computation is a bijection; the range splitting "
        "matches exactly the pairs that decode into the range; the rewritten tree matches "
        "enc16(s) iff the original matches s for patterns without '.', complemented sets "
        "and high-surrogate atoms, or for BMP strings; the rewriting never crashes on "
        "trees the front end hands over) with an executable matching semantics proved "
        "equivalent to the relational one. The model is tied to the code by a "
        "correspondence stream evaluated inside Coq (real parse -> fix -> tree dump vs "
        "model tree; model matcher vs Python re and node RegExp), and the property is run "
        "directly on the implementation (Python re over code-unit strings, node without "
        "the u flag) to obtain replays."
    ),
    "level_note": (
        "The full statement is refuted for '.', complemented sets and BMP atoms covering "
        "high surrogates on strings with supplementary characters (fix_language_refuted*); "
        "fix_language_partial states the exact exclusion. Trusted: the model agrees with "
        "the code beyond the sampled inputs; Python re / node as reference engines; the "
        "shape predicate `accepted` of parser output (checked on every parsed sample)."
    ),
    "technique": "Coq proof (simulation between code-point and code-unit matching; lia) "
                 "+ in-Coq correspondence check + engine oracle",
}
GEN: list = []
MODEL = ["Model/Utf16Tree", "Model/Utf16Fix"]
TRUSTED = [
    "Model/Utf16Fix.v is a hand-written model of parse/retree/_fix.py (correspondence-checked on every run)",
    "Model/Utf16Tree.v matching semantics (full match; checked against Python re and node RegExp on every run)",
    "Python re and node RegExp (without u flag) as reference regex engines",
    "harness/impl/utf16.py tree dump of retree nodes",
]
RULE = ("case = (pattern, strings); patterns: corpus + random trees with astral literals / astral and "
        "mixed ranges / quantified astral terms / groups / anchors (clean and unclean streams) + "
        "every astral range with end points in {plane start/end, surrogate-block boundaries, +-1}; "
        "strings: end-point-biased samples of the pattern's language and their mutants; "
        "non-trivial = the rewriting changed the tree (the pattern has a supplementary code point); "
        "distinct by pattern text")

KEY_DOT = "dot-or-complement-vs-astral"
KEY_HI = "hi-surrogate-atom-vs-astral"

HEADER = """From Coq Require Import List NArith Bool Arith.
From Acg Require Import Base.Outcome Model.Utf16Tree Model.Utf16Fix.
Import ListNotations.
Open Scope N_scope.
Definition obool_agrees (m : bool) (o : option bool) : bool :=
  match o with None => true | Some b => Bool.eqb m b end.
Definition tcase : Type := (list N * list N * option bool * option bool * option bool)%type.
Definition test_orig (orig : union) (t : tcase) : bool :=
  match t with (s, u, mo, _, _) => lN_eqb (enc16 s) u && obool_agrees (matchesb orig s) mo end.
Definition test_fixed (fx : union) (t : tcase) : bool :=
  match t with (_, u, _, mf, mj) =>
    let m := matchesb fx u in obool_agrees m mf && obool_agrees m mj end.
Definition case_ok (c : union * option union * list tcase) : bool :=
  match c with
  | (orig, impl, tests) =>
      accepted_union orig && forallb (test_orig orig) tests &&
      match fix_utf16 orig, impl with
      | Ok t', Some ti => union_eqb t' ti && forallb (test_fixed ti) tests
      | Crash _, None => true
      | _, _ => false
      end
  end.
Fixpoint bad_from (i : nat) (cs : list (union * option union * list tcase)) : list nat :=
  match cs with
  | [] => []
  | c :: r => if case_ok c then bad_from (S i) r else i :: bad_from (S i) r
  end.
Definition bad := bad_from 0.
"""
CASE_TYPE = "union * option union * list tcase"

NODE_SCRIPT = r"""
const chunks = [];
process.stdin.on('data', c => chunks.push(c));
process.stdin.on('end', () => {
  const cases = JSON.parse(Buffer.concat(chunks).toString('utf8'));
  const out = [];
  for (const [pat, strs] of cases) {
    const p = String.fromCodePoint(...pat);
    let re = null;
    try { re = new RegExp('^(?:' + p + ')$'); } catch (e) { re = null; }
    out.push(strs.map(u => re === null ? null : re.test(String.fromCharCode(...u))));
  }
  process.stdout.write(JSON.stringify(out));
});
"""


def to_str(codes) -> str:
    return "".join(chr(c) for c in codes)


def py_compile(codes):
    try:
        with warnings.catch_warnings():
            warnings.simplefilter("ignore")
            return re.compile(to_str(codes))
    except (re.error, OverflowError, RecursionError):
        return None


def py_match(rx, codes):
    if rx is None:
        return None
    try:
        return rx.fullmatch(to_str(codes)) is not None
    except RecursionError:
        return None


def run_node(ctx, jobs):
    """jobs: list of (pattern codes, [unit lists]); returns list of lists (bool|None) or None."""
    node = shutil.which("node")
    if node is None or not jobs:
        return None
    ctx.work.mkdir(parents=True, exist_ok=True)
    script = ctx.work / "node_match.js"
    script.write_text(NODE_SCRIPT)
    out = []
    B = 4000
    for k in range(0, len(jobs), B):
        p = subprocess.run([node, str(script)], input=json.dumps(jobs[k:k + B]), text=True,
                           stdout=subprocess.PIPE, stderr=subprocess.PIPE, timeout=900)
        if p.returncode != 0:
            raise lib.HarnessError("node oracle failed:\n" + p.stderr[-2000:])
        out += json.loads(p.stdout)
    return out


def corpus():
    path = pathlib.Path(__file__).resolve().parent.parent / "corpus" / "c17.json"
    items = json.loads(path.read_text())
    out = []
    for it in items:
        pat = [ord(c) for c in it["pattern"]] if isinstance(it["pattern"], str) else it["pattern"]
        strs = [[ord(c) for c in s] if isinstance(s, str) else s for s in it.get("strings", [])]
        out.append((pat, strs, it.get("note", "")))
    return out


def boundary_cases(ctx):
    pts = G.boundary_points()
    pairs = [(a, b) for i, a in enumerate(pts) for b in pts[i:]]
    total = len(pairs)
    if not ctx.thorough:
        pairs = ctx.rng.sample(pairs, 450)
    out = []
    for a, b in pairs:
        v = ctx.rng.random()
        if a == b and v < 0.5:
            body = f"[\\U{a:08x}]"
        elif v < 0.7:
            body = f"[\\U{a:08x}-\\U{b:08x}]"
        elif v < 0.85:
            body = f"[a\\U{a:08x}-\\U{b:08x}]+"
        else:
            body = f"x[\\U{a:08x}-\\U{b:08x}]" + "{1,2}"
        strs = G.range_probe_strings(a, b)
        if body.startswith("x"):
            strs = [[0x78] + s for s in strs] + [[0x78, a, b]]
        elif body.endswith("+"):
            strs = strs + [[0x61, a], [b, 0x61, a]]
        out.append(([ord(c) for c in body], strs, "boundary"))
    return out, total


def shrink_string(orig_rx, fixed_rx, s):
    def failing(t):
        if not G.valid_string(t):
            return False
        return py_match(orig_rx, t) != py_match(fixed_rx, G.enc16(t))
    cur = list(s)
    changed = True
    while changed:
        changed = False
        for i in range(len(cur)):
            cand = cur[:i] + cur[i + 1:]
            if failing(cand):
                cur = cand
                changed = True
                break
    return cur


def show(codes) -> str:
    return to_str(codes).encode("unicode_escape").decode("ascii")


def evaluate(ctx, items, stream):
    """items: list of (pattern codes, strings, note). Runs the implementation, the engines,
    the property oracle and the in-Coq correspondence. Returns list of indices with a
    correspondence break."""
    t0 = time.time()
    results = []
    B = 5000
    for k in range(0, len(items), B):
        results += lib.impl_call("utf16.py", [p for p, _s, _n in items[k:k + B]], timeout=1200)
    t_impl = time.time() - t0

    stats = {"parse_err": 0, "parse_exc": 0, "fix_exc": 0, "ok": 0, "changed": 0,
             "strings": 0, "orig_matches": 0, "astral_strings": 0, "engine_rejects": 0}
    feats: dict = {}
    node_jobs = []
    node_index = []
    prepared = []
    for idx, ((pat, strs, note), res) in enumerate(zip(items, results)):
        if res["parse"] != "ok":
            stats["parse_exc" if res["parse"].startswith("exc") else "parse_err"] += 1
            prepared.append(None)
            continue
        orig = res["orig"]
        for f in G.features(orig):
            feats[f] = feats.get(f, 0) + 1
        orig_rx = py_compile(pat)
        if orig_rx is None:
            stats["engine_rejects"] += 1
        entry = {"orig": orig, "orig_rx": orig_rx, "tests": [], "fixed": None, "fixed_rx": None}
        if res["fix"] != "ok":
            stats["fix_exc"] += 1
            ctx.impl_failure(
                f"fix-crash:{res['fix'][4:]}:{show(pat)}",
                f"fix_for_utf16_regex_in_place raised {res['fix'][4:]} on a pattern the front end accepts",
                {"pattern": show(pat), "pattern_codes": pat}, res["fix"], stream,
                f"PYTHONPATH={lib.REPO} {lib.PY} -c \"from aas_core_codegen.jsonschema.main import "
                f"fix_pattern_for_utf16 as f; print(f('{show(pat)}'))\"")
        else:
            stats["ok"] += 1
            entry["fixed"] = res["fixed"]
            entry["render"] = res["render"]
            entry["fixed_rx"] = py_compile(res["render"])
            if res["fixed"] != orig:
                stats["changed"] += 1
            if res.get("public") != "same":
                ctx.corr_break(stream + ":public", {"pattern": show(pat)},
                               "fix_pattern_for_utf16 == render(fix(parse))", res.get("public"))
        for s in strs:
            units = G.enc16(s)
            mo = py_match(orig_rx, s)
            mf = py_match(entry["fixed_rx"], units) if entry["fixed"] is not None else None
            entry["tests"].append([s, units, mo, mf, None])
        if entry["fixed"] is not None:
            node_index.append(idx)
            node_jobs.append([res["render"], [t[1] for t in entry["tests"]]])
        prepared.append(entry)

    t0 = time.time()
    node_out = run_node(ctx, node_jobs)
    t_node = time.time() - t0
    if node_out is not None:
        for idx, answers in zip(node_index, node_out):
            for t, a in zip(prepared[idx]["tests"], answers):
                t[4] = a
    ctx.coverage["node"] = "used" if node_out is not None else "unavailable"

    # ---- the property, run on the implementation's output with real engines ----------
    for idx, entry in enumerate(prepared):
        if entry is None or entry["fixed"] is None:
            continue
        pat = items[idx][0]
        orig = entry["orig"]
        is_clean = G.clean(orig)
        reported = set()
        for s, units, mo, mf, mj in entry["tests"]:
            stats["strings"] += 1
            if mo:
                stats["orig_matches"] += 1
            if not G.valid_string(s) or mo is None:
                continue
            astral_s = any(c >= G.PS for c in s)
            if astral_s:
                stats["astral_strings"] += 1
            bad_py = mf is not None and mf != mo
            bad_js = mj is not None and mj != mo
            if not (bad_py or bad_js):
                continue
            if (not is_clean) and astral_s:
                key = KEY_DOT if G.has_dot_or_complement(orig) else KEY_HI
                if key in reported:
                    continue
                reported.add(key)
                ctx.impl_failure(key, "unclean pattern on a string with a supplementary character",
                                 {"pattern": show(pat), "string": show(s), "string_codes": s},
                                 {"fixed": show(entry["render"]), "orig_matches": mo,
                                  "fixed_matches_units_python": mf, "fixed_matches_units_node": mj},
                                 stream,
                                 f"PYTHONPATH={lib.REPO} {lib.PY} -c \"import re; from aas_core_codegen.jsonschema.main "
                                 f"import fix_pattern_for_utf16 as f; p='{show(pat)}'; s='{show(s)}'; "
                                 f"u=''.join(map(chr,{units})); "
                                 f"print(bool(re.fullmatch(p,s)), bool(re.fullmatch(f(p),u)))\"")
                continue
            if "new" in reported:
                continue
            reported.add("new")
            s2 = shrink_string(entry["orig_rx"], entry["fixed_rx"], s) if bad_py else s
            ctx.impl_failure(
                f"lang:{show(pat)}:{show(s2)}",
                "rewritten pattern and original disagree (engine: "
                + ("python re" if bad_py else "node RegExp") + ")",
                {"pattern": show(pat), "pattern_codes": pat, "string": show(s2), "string_codes": s2},
                {"fixed": show(entry["render"]), "orig_matches_string": py_match(entry["orig_rx"], s2),
                 "fixed_matches_units_python": py_match(entry["fixed_rx"], G.enc16(s2)),
                 "units": G.enc16(s2)},
                stream,
                f"PYTHONPATH={lib.REPO} {lib.PY} -c \"import re; from aas_core_codegen.jsonschema.main import "
                f"fix_pattern_for_utf16 as f; p='{show(pat)}'; s='{show(s2)}'; "
                f"u=''.join(map(chr,{G.enc16(s2)})); "
                f"print(bool(re.fullmatch(p,s)), bool(re.fullmatch(f(p),u)))\"")

    # ---- correspondence inside Coq ---------------------------------------------------
    coq_cases = []
    coq_index = []
    ob = lambda b: "None" if b is None else ("(Some true)" if b else "(Some false)")
    for idx, entry in enumerate(prepared):
        if entry is None:
            continue
        tests = "; ".join(
            f"({G.coq_codes(s)}, {G.coq_codes(u)}, {ob(mo)}, {ob(mf)}, {ob(mj)})"
            for s, u, mo, mf, mj in entry["tests"])
        impl = "None" if entry["fixed"] is None else f"(Some {G.coq_union(entry['fixed'])})"
        coq_cases.append(f"({G.coq_union(entry['orig'])}, {impl}, [{tests}])")
        coq_index.append(idx)
    t0 = time.time()
    bad, _log = lib.run_cases(ctx.work, "cases_" + stream, HEADER, CASE_TYPE, "bad", coq_cases,
                              shard=120)
    stats["seconds"] = {"impl": round(t_impl, 1), "node": round(t_node, 1),
                        "coq": round(time.time() - t0, 1)}
    bad_items = [coq_index[i] for i in bad]
    for k_bad, idx in enumerate(bad_items[:12]):
        entry = prepared[idx]
        model = "(model output shown for the first 2 disagreements of a stream only)" if k_bad >= 2 else lib.coq_eval(
            ctx.work, "show", HEADER,
            f"let o := {G.coq_union(entry['orig'])} in (accepted_union o, fix_utf16 o, "
            f"map (fun t : tcase => match t with (s,u,_,_,_) => (enc16 s, matchesb o s) end) "
            f"[{'; '.join('(%s, %s, None, None, None)' % (G.coq_codes(t[0]), G.coq_codes(t[1])) for t in entry['tests'][:6])}])")
        ctx.corr_break(stream, {"pattern": show(items[idx][0]), "pattern_codes": items[idx][0]},
                       model[-3000:],
                       {"fixed": entry["fixed"], "render": show(entry.get("render", [])),
                        "tests": entry["tests"][:6]})

    nontrivial = [show(items[i][0]) for i, e in enumerate(prepared)
                  if e is not None and e["fixed"] is not None and e["fixed"] != e["orig"]]
    ctx.count(stream, len(items), nontrivial_keys=nontrivial, validated=len(coq_cases),
              features=feats, **stats)
    return bad_items, prepared


def streams(ctx: lib.Ctx) -> None:
    rng = ctx.rng
    # 1. corpus: witnesses of the refutation theorems, past disagreements, suspects
    items = list(corpus())
    for it in items:
        if not it[1]:
            pass
    evaluate_items = []
    for pat, strs, note in items:
        evaluate_items.append((pat, strs, note))
    bad0, _ = evaluate(ctx, evaluate_items, "corpus")

    # 2. random trees: clean patterns x any strings, unclean patterns x any strings
    n_clean = ctx.n(600, 5000)
    n_unclean = ctx.n(220, 1500)
    n_str = ctx.n(7, 10)
    rnd = []
    seen = set()
    for i in range(n_clean + n_unclean):
        unclean = i >= n_clean
        u = G.gen_union(rng, rng.choice([0, 1, 1, 2]), unclean)
        text = G.render_union(u)
        if text in seen:
            continue
        seen.add(text)
        strs = G.strings_for(rng, u, n_str)
        rnd.append(([ord(c) for c in text], strs, "unclean" if unclean else "clean"))
    bad1, prep1 = evaluate(ctx, rnd, "random")

    # 3. exhaustive boundary ranges
    bnd, total = boundary_cases(ctx)
    bad2, prep2 = evaluate(ctx, bnd, "boundary")
    ctx.coverage["streams"]["boundary"]["scope"] = (
        f"{len(bnd)} of {total} astral ranges with both end points in the boundary set"
        + ("" if ctx.thorough else " (sampled)"))
    if ctx.thorough:
        ctx.coverage["exhaustive"] = True

    # 4. correspondence broke: search the neighbourhood of the disagreeing patterns for
    #    an input on which the property itself fails
    neigh = []
    for src, bad in ((evaluate_items, bad0), (rnd, bad1), (bnd, bad2)):
        for idx in bad[:4]:
            pat = src[idx][0]
            res = lib.impl_call("utf16.py", [pat])[0]
            if res.get("parse") != "ok":
                continue
            strs = G.strings_for(rng, res["orig"], 120, lone_surrogates=False)
            neigh.append((pat, strs, "neighbourhood"))
    if neigh:
        evaluate(ctx, neigh, "neighbourhood")

    for it in (evaluate_items[:4] + rnd[:5] + bnd[:3]):
        ctx.sample({"pattern": show(it[0]), "strings": [show(s) for s in it[1][:4]], "note": it[2]})
