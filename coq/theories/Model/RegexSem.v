(** Matching semantics of the regex trees of [Model/Retree.v], executable.

    [ends t w i] is the (duplicate-free, sorted) list of positions [j] such that the
    tree matches the slice [w[i..j)] of the whole word [w]; [matches t w] says the
    tree matches the whole word ([re.fullmatch]). Anchors are zero-width tests on the
    position; greedy and non-greedy quantifiers have the same language.

    Parameters of the section:
    - [fv_ends f w i]: how the opaque formatted value [f] matches (end positions);
    - [py_dollar]: with [true], [$] also holds just before a final line feed and [.]
      does not match a line feed — the behaviour of Python's [re] without flags,
      which is what the correspondence streams compare against; with [false], [$] is
      the very end of input and [.] matches every character.

    No proofs in this file. *)
From Coq Require Import List NArith Bool Arith.
From Acg Require Import Base.Str Model.Retree.
Import ListNotations.
Local Open Scope nat_scope.

Section Sem.
  Variable fv_ends : fv -> text -> nat -> list nat.
  Variable py_dollar : bool.

  (** Sorted duplicate-free sets of positions. *)
  Fixpoint ins (x : nat) (l : list nat) : list nat :=
    match l with
    | [] => [x]
    | y :: r => if x <? y then x :: l else if x =? y then l else y :: ins x r
    end.
  Definition union_pos (a b : list nat) : list nat := fold_right ins b a.
  Definition bind_pos (s : list nat) (f : nat -> list nat) : list nat :=
    fold_right (fun p acc => union_pos (f p) acc) [] s.

  Definition in_range (c : N) (r : range) : bool :=
    match rg_end r with
    | None => N.eqb c (ch_code (rg_start r))
    | Some e => N.leb (ch_code (rg_start r)) c && N.leb c (ch_code e)
    end.

  Definition at_end (w : text) (i : nat) : bool :=
    (i =? length w)
    || (py_dollar && (S i =? length w)
        && match nth_error w i with Some c => N.eqb c 10 | None => false end).

  (** Positions reachable by exactly [n] applications of [step]. *)
  Definition iter_exact (step : nat -> list nat) (n : N) (s : list nat) : list nat :=
    N.iter n (fun s => bind_pos s step) s.

  (** Positions reachable by at most [fuel] further applications of [step]. *)
  Fixpoint iter_upto (step : nat -> list nat) (fuel : nat) (s : list nat) : list nat :=
    match fuel with
    | O => s
    | S f => iter_upto step f (union_pos s (bind_pos s step))
    end.

  (** [{mn,mx}]: the reachable sets grow monotonically inside [0..length w], so
      [length w + 1] further rounds reach the fixpoint of an unbounded quantifier. *)
  Definition quantified (step : nat -> list nat) (q : quantifier) (w : text) (i : nat)
    : list nat :=
    let s := iter_exact step (q_min q) [i] in
    let cap := S (length w) in
    let extra :=
      match q_max q with
      | None => cap
      | Some mx => if N.ltb (N.of_nat cap) (mx - q_min q) then cap
                   else N.to_nat (mx - q_min q)
      end in
    iter_upto step extra s.

  Fixpoint ends_value (v : tvalue) (w : text) (i : nat) {struct v} : list nat :=
    match v with
    | VGroup u =>
        (fix eu (u : list (list (tvalue * option quantifier))) : list nat :=
           match u with
           | [] => []
           | c0 :: rest =>
               union_pos
                 ((fix ec (c : list (tvalue * option quantifier)) (s : list nat)
                     : list nat :=
                     match c with
                     | [] => s
                     | (v', q) :: c' =>
                         ec c' (bind_pos s (fun p =>
                                  match q with
                                  | None => ends_value v' w p
                                  | Some q => quantified (ends_value v' w) q w p
                                  end))
                     end) c0 [i])
                 (eu rest)
           end) u
    | VChar c =>
        match nth_error w i with
        | Some x => if N.eqb x (ch_code c) then [S i] else []
        | None => []
        end
    | VCharSet compl rs =>
        match nth_error w i with
        | Some x => if xorb compl (existsb (in_range x) rs) then [S i] else []
        | None => []
        end
    | VFormatted f => fv_ends f w i
    | VSymbol SymStart => if i =? 0 then [i] else []
    | VSymbol SymEnd => if at_end w i then [i] else []
    | VSymbol SymDot =>
        match nth_error w i with
        | Some x => if py_dollar && N.eqb x 10 then [] else [S i]
        | None => []
        end
    end.

  Definition ends_term (t : term) (w : text) (i : nat) : list nat :=
    match snd t with
    | None => ends_value (fst t) w i
    | Some q => quantified (ends_value (fst t) w) q w i
    end.

  Fixpoint ends_concat (c : concatenation) (w : text) (s : list nat) : list nat :=
    match c with
    | [] => s
    | t :: c' => ends_concat c' w (bind_pos s (ends_term t w))
    end.

  Fixpoint ends_union (u : union_expr) (w : text) (i : nat) : list nat :=
    match u with
    | [] => []
    | c0 :: rest => union_pos (ends_concat c0 w [i]) (ends_union rest w i)
    end.

  (** The empty union (the empty pattern) matches the empty slice, as Python's
      [re.compile("")] does; [parse] produces it only for the empty pattern. *)
  Definition ends (t : regex) (w : text) (i : nat) : list nat :=
    match t with
    | [] => [i]
    | _ => ends_union t w i
    end.

  Definition matches (t : regex) (w : text) : bool :=
    existsb (Nat.eqb (length w)) (ends t w 0).
End Sem.
