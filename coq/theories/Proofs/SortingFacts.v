(** Sorting normalises away the input order (C22). *)
From Coq Require Import List NArith Bool Permutation Sorted Lia.
From Acg Require Import Base.Str Model.Sorting.
Import ListNotations.

Lemma text_leb_refl a : text_leb a a = true.
Proof.
  induction a as [|x a IH]; [reflexivity|]. cbn.
  rewrite N.ltb_irrefl, N.eqb_refl. exact IH.
Qed.

Lemma text_leb_total a b : text_leb a b = true \/ text_leb b a = true.
Proof.
  revert b. induction a as [|x a IH]; intros [|y b]; cbn; auto.
  destruct (N.ltb_spec x y) as [Hlt|Hge]; [now left|].
  destruct (N.eqb_spec x y) as [->|Hne].
  - rewrite N.ltb_irrefl, N.eqb_refl. apply IH.
  - right. assert (Hyx : (y < x)%N) by lia. apply N.ltb_lt in Hyx. now rewrite Hyx.
Qed.

Lemma text_leb_antisym a b : text_leb a b = true -> text_leb b a = true -> a = b.
Proof.
  revert b. induction a as [|x a IH]; intros [|y b]; cbn; try discriminate; auto.
  destruct (N.ltb_spec x y) as [Hlt|Hge].
  - intros _. destruct (N.ltb_spec y x) as [H2|H2]; [lia|].
    destruct (N.eqb_spec y x); [lia|discriminate].
  - destruct (N.eqb_spec x y) as [->|Hne]; [|discriminate].
    rewrite N.ltb_irrefl, N.eqb_refl. intros H1 H2. f_equal. now apply IH.
Qed.

Lemma text_leb_trans a b c : text_leb a b = true -> text_leb b c = true -> text_leb a c = true.
Proof.
  revert b c. induction a as [|x a IH]; intros [|y b] [|z c]; cbn; try discriminate; auto.
  destruct (N.ltb_spec x y) as [Hxy|Hxy].
  - intros _. destruct (N.ltb_spec y z) as [Hyz|Hyz].
    + intros _. assert (H : (x < z)%N) by lia. apply N.ltb_lt in H. now rewrite H.
    + destruct (N.eqb_spec y z) as [->|Hne]; [|discriminate].
      intros _. apply N.ltb_lt in Hxy. now rewrite Hxy.
  - destruct (N.eqb_spec x y) as [->|Hne]; [|discriminate].
    intros H1. destruct (N.ltb_spec y z) as [Hyz|Hyz]; [auto|].
    destruct (N.eqb_spec y z) as [->|Hne2]; [|discriminate].
    intros H2. now apply (IH b c).
Qed.

Section SortFacts.
  Context {A : Type}.
  Variable leb : A -> A -> bool.
  Hypothesis leb_total : forall a b, leb a b = true \/ leb b a = true.
  Hypothesis leb_trans : forall a b c, leb a b = true -> leb b c = true -> leb a c = true.

  Notation sorted := (StronglySorted (fun a b => leb a b = true)).

  Lemma insert_perm x l : Permutation (x :: l) (insert leb x l).
  Proof.
    induction l as [|y r IH]; cbn; [reflexivity|].
    destruct (leb x y); [reflexivity|].
    rewrite perm_swap. now constructor.
  Qed.

  Lemma isort_perm l : Permutation l (isort leb l).
  Proof.
    induction l as [|x r IH]; cbn; [constructor|].
    rewrite <- insert_perm. now constructor.
  Qed.

  Lemma insert_sorted x l : sorted l -> sorted (insert leb x l).
  Proof.
    induction l as [|y r IH]; intros Hs; cbn.
    - constructor; constructor.
    - inversion Hs as [|? ? Hr Hy]; subst.
      destruct (leb x y) eqn:E.
      + constructor; [exact Hs|]. constructor; [exact E|].
        rewrite Forall_forall in *. intros z Hz. eapply leb_trans; [exact E|]. now apply Hy.
      + constructor; [now apply IH|].
        assert (Hyx : leb y x = true) by (destruct (leb_total x y) as [H|H]; [congruence|exact H]).
        rewrite Forall_forall in *. intros z Hz.
        apply (Permutation_in _ (Permutation_sym (insert_perm x r))) in Hz.
        destruct Hz as [<-|Hz]; [exact Hyx|now apply Hy].
  Qed.

  Lemma isort_sorted l : sorted (isort leb l).
  Proof. induction l as [|x r IH]; cbn; [constructor|now apply insert_sorted]. Qed.

  (** Two sorted permutations of each other are equal when the order is antisymmetric
      on the members. *)
  Lemma sorted_perm_unique l1 l2 :
    (forall a b, In a l1 -> In b l1 -> leb a b = true -> leb b a = true -> a = b) ->
    sorted l1 -> sorted l2 -> Permutation l1 l2 -> l1 = l2.
  Proof.
    revert l2. induction l1 as [|a r1 IH]; intros l2 Hanti H1 H2 Hp.
    - apply Permutation_nil in Hp. now subst.
    - destruct l2 as [|b r2].
      + apply Permutation_sym, Permutation_nil in Hp. discriminate.
      + inversion H1 as [|? ? Hr1 Ha]; subst. inversion H2 as [|? ? Hr2 Hb]; subst.
        rewrite Forall_forall in Ha, Hb.
        assert (Hab : a = b).
        { assert (Hin_b : In b (a :: r1)) by (apply (Permutation_in _ (Permutation_sym Hp)); now left).
          assert (Hin_a : In a (b :: r2)) by (apply (Permutation_in _ Hp); now left).
          destruct Hin_b as [E|Hin_b]; [exact E|].
          destruct Hin_a as [E|Hin_a]; [now symmetry|].
          apply Hanti; [now left|now right|now apply Ha|now apply Hb]. }
        subst b. f_equal. apply IH; [|exact Hr1|exact Hr2|now apply Permutation_cons_inv in Hp].
        intros x y Hx Hy. apply Hanti; now right.
  Qed.

  Theorem isort_perm_invariant l l' :
    (forall a b, In a l -> In b l -> leb a b = true -> leb b a = true -> a = b) ->
    Permutation l l' -> isort leb l = isort leb l'.
  Proof.
    intros Hanti Hp. apply sorted_perm_unique.
    - intros a b Ha Hb. apply Hanti; eapply Permutation_in; try apply Permutation_sym, isort_perm; assumption.
    - apply isort_sorted.
    - apply isort_sorted.
    - rewrite <- (isort_perm l), <- (isort_perm l'). exact Hp.
  Qed.
End SortFacts.

Theorem sort_text_perm l l' : Permutation l l' -> sort_text l = sort_text l'.
Proof.
  apply isort_perm_invariant.
  - apply text_leb_total.
  - apply text_leb_trans.
  - intros a b _ _. apply text_leb_antisym.
Qed.

Theorem sort_by_key_perm {A} (key : A -> text) l l' :
  NoDup (map key l) -> Permutation l l' -> sort_by_key key l = sort_by_key key l'.
Proof.
  intros Hnd. apply isort_perm_invariant.
  - intros a b. apply text_leb_total.
  - intros a b c. apply text_leb_trans.
  - intros a b Ha Hb H1 H2. pose proof (text_leb_antisym _ _ H1 H2) as Hk.
    clear H1 H2. induction l as [|x r IH]; [contradiction|].
    cbn in Hnd. inversion Hnd as [|? ? Hnx Hr]; subst.
    destruct Ha as [->|Ha], Hb as [->|Hb]; auto.
    + exfalso. apply Hnx. rewrite Hk. now apply in_map.
    + exfalso. apply Hnx. rewrite <- Hk. now apply in_map.
Qed.

Theorem sort_text_sorted l : StronglySorted (fun a b => text_leb a b = true) (sort_text l).
Proof. apply isort_sorted; [apply text_leb_total|apply text_leb_trans]. Qed.

Theorem sort_text_is_perm l : Permutation l (sort_text l).
Proof. apply isort_perm. Qed.
