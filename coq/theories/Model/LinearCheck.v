(** C26: an executable validator for "machine 2 simulates machine 1 by deleting
    no-ops and renaming labels" (the hypotheses of [Proofs/LinearSem.v], made
    decidable). [Proofs/LinearCheck.v] proves it sound. It is used (a) as the
    hypothesis of the end-to-end theorem for the clean-up passes that are not yet
    proved for all flows, and (b) by the harness, which evaluates it inside Coq on
    every flow of the correspondence stream. Executable definitions only. *)
From Coq Require Import List NArith Bool Arith.
From Acg Require Import Base.Outcome Base.Str Model.Flow Model.Linear.
Import ListNotations.
Open Scope nat_scope.

Definition same_shape (k1 k2 : skind) : bool :=
  match k1, k2 with
  | KCommand a, KCommand b => text_eqb a b
  | KIf c a b, KIf c' a' b' =>
      text_eqb c c' && Bool.eqb (is_some a) (is_some a') && Bool.eqb (is_some b) (is_some b')
  | KJump _, KJump _ => true
  | KYield, KYield => true
  | KNoop, KNoop => true
  | _, _ => false
  end.

(** Greedy alignment: which statements of [c1] are kept ([true]) or deleted no-ops. *)
Fixpoint align (c1 c2 : list stmt) : option (list bool) :=
  match c1 with
  | [] => match c2 with [] => Some [] | _ => None end
  | s1 :: r1 =>
      match c2 with
      | s2 :: r2 =>
          if same_shape (s_kind s1) (s_kind s2)
          then option_map (cons true) (align r1 r2)
          else if is_noop s1 then option_map (cons false) (align r1 c2) else None
      | [] => if is_noop s1 then option_map (cons false) (align r1 []) else None
      end
  end.

(** [phi_of ks p] = number of kept statements among the first [p]. *)
Fixpoint phi_of (ks : list bool) (p : nat) : nat :=
  match p, ks with
  | S p', k :: r => (if k then 1 else 0) + phi_of r p'
  | _, _ => 0
  end.

Definition all_noops (code : list stmt) (a b : nat) : bool :=
  forallb is_noop (firstn (b - a) (skipn a code)) && (b <=? length code).

Section Check.
  Variables M1 M2 : machine.
  Variable ks : list bool.

  Definition pos_ok (p1 q2 : nat) : bool :=
    (p1 <=? length (m_code M1)) && (q2 <=? phi_of ks p1)
    && all_noops (m_code M2) q2 (phi_of ks p1).

  Definition tgt_ok (t1 t2 : nat) : bool :=
    match m_resolve M1 t1, m_resolve M2 t2 with
    | Some q1, Some q2 => pos_ok q1 q2
    | _, _ => false
    end.

  Definition otgt_ok (a b : option nat) : bool :=
    match a, b with
    | None, None => true
    | Some x, Some y => tgt_ok x y
    | _, _ => false
    end.

  Definition conf_ok (c1 c2 : lconf) : bool :=
    match c1, c2 with
    | LRun p1, LRun p2 => pos_ok p1 p2
    | LRun p1, LGoto t2 =>
        match m_resolve M2 t2 with Some q2 => pos_ok p1 q2 | None => false end
    | LGoto t1, LGoto t2 => tgt_ok t1 t2
    | LHalt, LHalt => true
    | _, _ => false
    end.

  Definition kind_ok (k1 k2 : skind) : bool :=
    match k1, k2 with
    | KCommand a, KCommand b => text_eqb a b
    | KIf c a b, KIf c' a' b' => text_eqb c c' && otgt_ok a a' && otgt_ok b b'
    | KJump t, KJump t' => tgt_ok t t'
    | KYield, KYield => true
    | KNoop, KNoop => true
    | _, _ => false
    end.

  (** [p] is the position in machine 1 of the head of [c1]; [q] in machine 2. *)
  Fixpoint check_pairs (c1 : list stmt) (k : list bool) (c2 : list stmt) (p q : nat) : bool :=
    match c1, k with
    | [], [] => is_nil c2
    | s1 :: r1, true :: kr =>
        match c2 with
        | s2 :: r2 =>
            kind_ok (s_kind s1) (s_kind s2)
            && (if is_yield s1 then conf_ok (m_yield M1 p) (m_yield M2 q) else true)
            && check_pairs r1 kr r2 (S p) (S q)
        | [] => false
        end
    | s1 :: r1, false :: kr => is_noop s1 && check_pairs r1 kr c2 (S p) q
    | _, _ => false
    end.
End Check.

Definition sim_check (M1 M2 : machine) (c1 c2 : lconf) : bool :=
  match align (m_code M1) (m_code M2) with
  | Some ks =>
      check_pairs M1 M2 ks (m_code M1) ks (m_code M2) 0 0 && conf_ok M1 M2 ks c1 c2
  | None => false
  end.

(** The validation used for C26: the generated C++ machine of the subroutines,
    started in state 0, simulates the raw linearisation started at position 0. *)
Definition validate (f : list node) (subs : list (list stmt)) : bool :=
  sim_check (flat_machine (linearize_control_flow f)) (cpp_machine subs) (LRun 0) (LGoto 0).

Definition validate_flow (f : list node) : bool :=
  match linearize_to_subroutines f with
  | Ok subs => validate f subs
  | _ => false
  end.
