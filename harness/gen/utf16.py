"""Generators and tree utilities for C17 (UTF-16 rewriting of regex trees).

Trees use the JSON shape of harness/impl/utf16.py:
  union = [concat,...]; concat = [term,...];
  term  = {"k":"char","c":code,"e":bool,"q":q} | {"k":"set","n":bool,"rs":[[c,e,c2,e2],..],"q":q}
        | {"k":"sym","y":"^"|"$"|".","q":q}    | {"k":"group","u":union,"q":q}
  q     = None | [non_greedy, min, max|None]
"""
from __future__ import annotations

from typing import Any, Dict, Iterable, List, Optional

PS = 0x10000
PE = 0x10FFFF

BMP = [0x61, 0x62, 0x63, 0x30, 0x20, 0xE9, 0x4E2D, 0xD7FF, 0xE000, 0xFFFD, 0xFFFF, 0x7A, 0x2D]
SURR = [0xD800, 0xDBFF, 0xDC00, 0xDFFF, 0xD83D, 0xDE00, 0xD801]
ASTRAL = [0x10000, 0x10001, 0x103FF, 0x10400, 0x10401, 0x107FF, 0x10800, 0x10801, 0x10BFF,
          0x10C00, 0x1F600, 0x1F64F, 0x1FFFF, 0x20000, 0x20001, 0x2FFFF, 0xE0000, 0xFFFFF,
          0x100000, 0x10FBFF, 0x10FC00, 0x10FC01, 0x10FFFE, 0x10FFFF]
LINE_BREAKS = {0x0A, 0x0D, 0x0B, 0x0C, 0x85, 0x1C, 0x1D, 0x1E, 0x2028, 0x2029}

ESC_LIT = set(map(ord, ".^$*+?()[]\\"))
BAD_LIT = set(map(ord, "{}|#"))
ESC_SET = set(map(ord, "[]\\^-"))


def is_surrogate(c: int) -> bool:
    return 0xD800 <= c <= 0xDFFF


def is_hi(c: int) -> bool:
    return 0xD800 <= c <= 0xDBFF


def valid_string(s: Iterable[int]) -> bool:
    return all((not is_surrogate(c)) and 0 <= c <= PE for c in s)


def enc16(s: Iterable[int]) -> List[int]:
    out = []
    for c in s:
        if c < PS:
            out.append(c)
        else:
            out.append((c - 0x10000) // 0x400 + 0xD800)
            out.append((c - 0x10000) % 0x400 + 0xDC00)
    return out


# ---------------------------------------------------------------------------------
# rendering of generated trees into pattern text (canonical retree syntax)
# ---------------------------------------------------------------------------------
def _enc(c: int) -> str:
    if c < 256:
        return f"\\x{c:02x}"
    if c < PS:
        return f"\\u{c:04x}"
    return f"\\U{c:08x}"


def render_char(c: int, e: bool, in_set: bool) -> str:
    if e:
        return _enc(c)
    if in_set:
        return ("\\" + chr(c)) if c in ESC_SET else chr(c)
    return ("\\" + chr(c)) if c in ESC_LIT else chr(c)


def render_q(q) -> str:
    if q is None:
        return ""
    lazy, mn, mx = q
    if mx is None:
        s = "*" if mn == 0 else "+" if mn == 1 else f"{{{mn},}}"
    elif mn == mx:
        s = f"{{{mn}}}"
    elif mn == 0 and mx == 1:
        s = "?"
    else:
        s = f"{{{mn},{mx}}}"
    return s + ("?" if lazy else "")


def render_term(t) -> str:
    k = t["k"]
    if k == "char":
        body = render_char(t["c"], t["e"], False)
    elif k == "set":
        body = "[" + ("^" if t["n"] else "")
        for a, ae, b, be in t["rs"]:
            body += render_char(a, ae, True)
            if b is not None:
                body += "-" + render_char(b, be, True)
        body += "]"
    elif k == "sym":
        body = t["y"]
    else:
        body = "(" + render_union(t["u"]) + ")"
    return body + render_q(t["q"])


def render_union(u) -> str:
    return "|".join("".join(render_term(t) for t in c) for c in u)


# ---------------------------------------------------------------------------------
# tree predicates mirroring Model/Utf16Fix.v (clean_union)
# ---------------------------------------------------------------------------------
def terms_of(u):
    for c in u:
        for t in c:
            yield t
            if t["k"] == "group":
                yield from terms_of(t["u"])


def has_dot_or_complement(u) -> bool:
    return any((t["k"] == "sym" and t["y"] == ".") or (t["k"] == "set" and t["n"])
               for t in terms_of(u))


def touches_hi(u) -> bool:
    for t in terms_of(u):
        if t["k"] == "char" and is_hi(t["c"]):
            return True
        if t["k"] == "set":
            for a, _ae, b, _be in t["rs"]:
                hi = a if b is None else b
                if a <= 0xDBFF and 0xD800 <= hi:
                    return True
    return False


def clean(u) -> bool:
    return not has_dot_or_complement(u) and not touches_hi(u)


def has_astral(u) -> bool:
    for t in terms_of(u):
        if t["k"] == "char" and t["c"] >= PS:
            return True
        if t["k"] == "set" and any(a >= PS or (b is not None and b >= PS) for a, _x, b, _y in t["rs"]):
            return True
    return False


def features(u) -> List[str]:
    f = set()
    for t in terms_of(u):
        q = "q" if t["q"] is not None else ""
        if t["k"] == "char" and t["c"] >= PS:
            f.add("astral-literal" + ("-quantified" if q else ""))
        if t["k"] == "set":
            for a, _x, b, _y in t["rs"]:
                if a >= PS and b is None:
                    f.add("astral-single-in-set")
                elif a >= PS:
                    f.add("astral-range" + ("-quantified" if q else ""))
                elif b is not None and b >= PS:
                    f.add("mixed-range")
            if t["n"]:
                f.add("complement")
        if t["k"] == "sym" and t["y"] == ".":
            f.add("dot")
        if t["k"] == "group":
            f.add("group")
    return sorted(f)


# ---------------------------------------------------------------------------------
# random trees
# ---------------------------------------------------------------------------------
QUANTS = [[False, 0, None], [False, 1, None], [False, 0, 1], [False, 2, 2], [False, 1, 3],
          [False, 0, 2], [False, 2, None], [True, 0, None], [True, 1, None], [True, 0, 1],
          [True, 1, 2], [False, 3, 3]]


def gen_q(rng):
    return None if rng.random() < 0.55 else list(rng.choice(QUANTS))


def pick_bmp(rng, unclean: bool) -> int:
    if unclean and rng.random() < 0.3:
        return rng.choice(SURR)
    return rng.choice(BMP)


def pick_astral(rng) -> int:
    if rng.random() < 0.7:
        return rng.choice(ASTRAL)
    base = rng.choice([0x10000, 0x10400, 0x1F400, 0x20000, 0x10FC00])
    return min(PE, base + rng.randrange(0, 0x800))


def gen_set(rng, unclean: bool, astral_p: float, allow_mixed: bool):
    n_pts = rng.choice([1, 1, 2, 2, 3, 4, 5])
    pts = set()
    for _ in range(n_pts * 2):
        pts.add(pick_astral(rng) if rng.random() < astral_p else pick_bmp(rng, unclean))
    pts = sorted(pts)
    rs = []
    i = 0
    while i < len(pts):
        a = pts[i]
        ae = a >= 0x80 and rng.random() < 0.8 or a in ESC_SET and rng.random() < 0.5
        if a in LINE_BREAKS:
            ae = True
        if i + 1 < len(pts) and rng.random() < 0.6:
            b = pts[i + 1]
            mixed = a < PS <= b
            hits = a <= 0xDBFF and 0xD800 <= b
            if (mixed and not allow_mixed) or (hits and not unclean):
                rs.append([a, bool(ae), None, None])
                i += 1
                continue
            be = b >= 0x80 and rng.random() < 0.8
            rs.append([a, bool(ae), b, bool(be)])
            i += 2
        else:
            rs.append([a, bool(ae), None, None])
            i += 1
    rng.shuffle(rs)
    compl = unclean and rng.random() < 0.35
    if compl:
        # the front end rejects complemented sets with astral end points; keep a few
        # (they must be rejected / crash consistently) but mostly BMP ones
        if rng.random() < 0.85:
            rs = [r for r in rs if r[0] < PS and (r[2] is None or r[2] < PS)] or [[0x61, False, None, None]]
    return {"k": "set", "n": compl, "rs": rs, "q": gen_q(rng)}


def gen_term(rng, depth: int, unclean: bool):
    x = rng.random()
    if x < 0.22:
        c = pick_bmp(rng, unclean)
        e = (c >= 0x80 and rng.random() < 0.7) or is_surrogate(c)
        if c in ESC_LIT or c in BAD_LIT:
            e = True
        return {"k": "char", "c": c, "e": bool(e), "q": gen_q(rng)}
    if x < 0.45:
        c = pick_astral(rng)
        return {"k": "char", "c": c, "e": rng.random() < 0.7, "q": gen_q(rng)}
    if x < 0.75:
        return gen_set(rng, unclean, rng.choice([0.0, 0.5, 0.8, 1.0]), allow_mixed=rng.random() < 0.75)
    if x < 0.87 and depth > 0:
        return {"k": "group", "u": gen_union(rng, depth - 1, unclean), "q": gen_q(rng)}
    if x < 0.91:
        return {"k": "sym", "y": rng.choice("^$"), "q": None}
    if unclean and x < 0.97:
        return {"k": "sym", "y": ".", "q": gen_q(rng)}
    c = rng.choice(BMP)
    return {"k": "char", "c": c, "e": c >= 0x80, "q": gen_q(rng)}


def gen_concat(rng, depth: int, unclean: bool):
    n = rng.choice([1, 1, 2, 2, 3, 4]) if depth > 0 else rng.choice([1, 1, 2])
    return [gen_term(rng, depth, unclean) for _ in range(n)]


def gen_union(rng, depth: int, unclean: bool):
    n = rng.choice([1, 1, 1, 2, 3])
    return [gen_concat(rng, depth, unclean) for _ in range(n)]


# ---------------------------------------------------------------------------------
# strings: samples of the language (end-point biased) and their mutants
# ---------------------------------------------------------------------------------
def _pick_in_range(rng, a: int, b: int) -> int:
    cands = [a, b, a + 1, b - 1, (a + b) // 2]
    if a >= PS:
        # same high surrogate / next block, low unit at its extremes
        cands += [(a | 0x3FF), (a | 0x3FF) + 1, (b & ~0x3FF), (b & ~0x3FF) - 1,
                  a + 0x400, b - 0x400]
    cands = [c for c in cands if a <= c <= b]
    return rng.choice(cands) if cands else a


def sample_term(rng, t, out: List[int]) -> None:
    q = t["q"]
    if q is None:
        n = 1
    else:
        _lazy, mn, mx = q
        hi = mn + 2 if mx is None else min(mx, mn + 2)
        n = rng.randint(mn, hi)
    for _ in range(n):
        k = t["k"]
        if k == "char":
            out.append(t["c"])
        elif k == "set":
            if t["n"]:
                inside = lambda c: any(a == c if b is None else a <= c <= b for a, _x, b, _y in t["rs"])
                cands = [c for c in BMP + ASTRAL if not inside(c)]
                if cands:
                    out.append(rng.choice(cands))
            elif t["rs"]:
                a, _ae, b, _be = rng.choice(t["rs"])
                out.append(a if b is None else _pick_in_range(rng, a, b))
        elif k == "sym":
            if t["y"] == ".":
                out.append(rng.choice(BMP + ASTRAL))
        else:
            if t["u"]:
                for tt in rng.choice(t["u"]):
                    sample_term(rng, tt, out)


def sample_match(rng, u) -> List[int]:
    out: List[int] = []
    if u:
        for t in rng.choice(u):
            sample_term(rng, t, out)
    return out[:12]


def interesting_points(u) -> List[int]:
    pts = set()
    for t in terms_of(u):
        if t["k"] == "char":
            pts.update([t["c"], t["c"] + 1, t["c"] - 1, t["c"] ^ 0x400])
        elif t["k"] == "set":
            for a, _x, b, _y in t["rs"]:
                for c in ([a] if b is None else [a, b]):
                    pts.update([c - 1, c, c + 1, c + 0x400, c - 0x400, c | 0x3FF, c & ~0x3FF,
                                (c | 0x3FF) + 1, (c & ~0x3FF) - 1])
    return sorted(p for p in pts if 0 <= p <= PE and p not in LINE_BREAKS)


def mutate(rng, s: List[int], pts: List[int]) -> List[int]:
    s = list(s)
    op = rng.random()
    pool = pts or BMP
    if not s or op < 0.2:
        s.insert(rng.randint(0, len(s)), rng.choice(pool))
    elif op < 0.35:
        del s[rng.randrange(len(s))]
    elif op < 0.75:
        i = rng.randrange(len(s))
        c = s[i]
        s[i] = rng.choice([c + 1, c - 1, c + 0x400, c - 0x400, c ^ 0x3FF, rng.choice(pool)])
        if not (0 <= s[i] <= PE):
            s[i] = c
    else:
        i = rng.randrange(len(s))
        s[i] = rng.choice(pool)
    return [c for c in s if c not in LINE_BREAKS][:12]


def strings_for(rng, u, n: int, lone_surrogates: bool = True) -> List[List[int]]:
    pts = interesting_points(u)
    out = [[]]
    seen = {()}
    tries = 0
    while len(out) < n and tries < n * 6:
        tries += 1
        s = sample_match(rng, u)
        if rng.random() < 0.5:
            s = mutate(rng, s, pts)
        if rng.random() < 0.15:
            s = mutate(rng, s, pts)
        if lone_surrogates and rng.random() < 0.06 and s:
            # a supplementary character replaced by its two halves as separate code points
            i = rng.randrange(len(s))
            if s[i] >= PS:
                s = s[:i] + enc16([s[i]]) + s[i + 1:]
        s = [c for c in s if c not in LINE_BREAKS]
        if not lone_surrogates and not valid_string(s):
            continue
        key = tuple(s)
        if key not in seen:
            seen.add(key)
            out.append(s)
    return out


# ---------------------------------------------------------------------------------
# exhaustive boundary ranges
# ---------------------------------------------------------------------------------
def boundary_points() -> List[int]:
    pts = set()
    for plane in range(1, 17):
        base = plane * 0x10000
        for d in (0, 1, 0x3FF, 0x400, 0x401, 0xFFFF, 0xFFFE, 0xFC00, 0xFBFF, 0xFC01):
            pts.add(base + d)
    return sorted(p for p in pts if PS <= p <= PE)


def range_probe_strings(a: int, b: int) -> List[List[int]]:
    pts = set()
    for c in (a, b):
        pts.update([c - 1, c, c + 1, c | 0x3FF, (c | 0x3FF) + 1, c & ~0x3FF, (c & ~0x3FF) - 1,
                    c + 0x400, c - 0x400])
    pts.add((a + b) // 2)
    pts = sorted(p for p in pts if (PS <= p <= PE) or p == 0xFFFF)
    return [[p] for p in pts] + [[a, b], []]


# ---------------------------------------------------------------------------------
# Coq printing
# ---------------------------------------------------------------------------------
def coq_bool(b: bool) -> str:
    return "true" if b else "false"


def coq_chr(c: int, e: bool) -> str:
    return f"(mkchr {c} {coq_bool(e)})"


def coq_q(q) -> str:
    if q is None:
        return "None"
    lazy, mn, mx = q
    assert 0 <= mn < 1000 and (mx is None or 0 <= mx < 1000)
    mxs = "None" if mx is None else f"(Some {mx}%nat)"
    return f"(Some (mkq {coq_bool(lazy)} {mn}%nat {mxs}))"


def coq_term(t) -> str:
    k = t["k"]
    q = coq_q(t["q"])
    if k == "char":
        return f"(TChar {coq_chr(t['c'], t['e'])} {q})"
    if k == "set":
        rs = "; ".join(
            f"(mkrng {coq_chr(a, ae)} " + ("None" if b is None else f"(Some {coq_chr(b, be)})") + ")"
            for a, ae, b, be in t["rs"])
        return f"(TSet {coq_bool(t['n'])} [{rs}] {q})"
    if k == "sym":
        y = {"^": "SStart", "$": "SEnd", ".": "SDot"}[t["y"]]
        return f"(TSym {y} {q})"
    return f"(TGroup {coq_union(t['u'])} {q})"


def coq_concat(c) -> str:
    return "(concat_of_list [" + "; ".join(coq_term(t) for t in c) + "])"


def coq_union(u) -> str:
    return "(union_of_list [" + "; ".join(coq_concat(c) for c in u) + "])"


def coq_codes(s: Iterable[int]) -> str:
    return "[" + ";".join(str(c) for c in s) + "]"
