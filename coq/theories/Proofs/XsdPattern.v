(** Proofs about [Model/XsdPattern.v] (C13 / C14): anchor removal, character decoding,
    the escape tables of the XSD renderer. *)
From Coq Require Import List NArith Bool Arith Lia.
From Acg Require Import Base.Str Base.Outcome Model.Retree Model.RetreeParse
  Model.RetreeRender Model.RegexSem Model.XsdPattern.
Import ListNotations.
Local Open Scope nat_scope.

(* ------------------------------------------------------------------------------------ *)
(** * Induction principle for the nested tree type *)
Section TvalueInd.
  Variable P : tvalue -> Prop.
  Hypothesis HG : forall u,
    Forall (Forall (fun t : tvalue * option quantifier => P (fst t))) u -> P (VGroup u).
  Hypothesis HC : forall c, P (VChar c).
  Hypothesis HS : forall k rs, P (VCharSet k rs).
  Hypothesis HF : forall f, P (VFormatted f).
  Hypothesis HY : forall k, P (VSymbol k).

  Fixpoint tvalue_ind2 (v : tvalue) : P v :=
    match v with
    | VGroup u =>
        HG u
          ((fix fu (u : list (list (tvalue * option quantifier)))
              : Forall (Forall (fun t : tvalue * option quantifier => P (fst t))) u :=
              match u with
              | [] => Forall_nil _
              | c :: r =>
                  Forall_cons c
                    ((fix fc (c : list (tvalue * option quantifier))
                        : Forall (fun t : tvalue * option quantifier => P (fst t)) c :=
                        match c with
                        | [] => Forall_nil _
                        | t :: c' => Forall_cons t (tvalue_ind2 (fst t)) (fc c')
                        end) c)
                    (fu r)
              end) u)
    | VChar c => HC c
    | VCharSet k rs => HS k rs
    | VFormatted f => HF f
    | VSymbol k => HY k
    end.
End TvalueInd.

(* ------------------------------------------------------------------------------------ *)
(** * Unfolding the nested fixpoints *)

Lemma remove_value_group : forall u, remove_value (VGroup u) = VGroup (remove_union u).
Proof. intros u. induction u as [|c r IH]; reflexivity. Qed.

Lemma decode_value_group : forall u, decode_value (VGroup u) = VGroup (decode_union u).
Proof.
  intros u. cbn [decode_value]. f_equal.
  induction u as [|c r IH]; [reflexivity|].
  cbn [decode_union map]. unfold decode_union in IH. rewrite <- IH. f_equal.
  induction c as [|[v q] c' IHc]; [reflexivity|].
  cbn [decode_concat map decode_term fst snd]. unfold decode_concat in IHc.
  rewrite <- IHc. reflexivity.
Qed.

Lemma anchor_free_value_group : forall u,
  anchor_free_value (VGroup u) = anchor_free_union u.
Proof. intros u. induction u as [|c r IH]; reflexivity. Qed.

Section SemFacts.
  Variable fvE : fv -> text -> nat -> list nat.

  Lemma ends_value_group : forall b u w i,
    ends_value fvE b (VGroup u) w i = ends_union fvE b u w i.
  Proof.
    intros b u w i. cbn [ends_value].
    induction u as [|c r IH]; [reflexivity|].
    cbn [ends_union]. rewrite <- IH. f_equal.
    generalize [i] as s.
    induction c as [|[v q] c' IHc]; intros s; [reflexivity|].
    cbn [ends_concat]. rewrite <- IHc. reflexivity.
  Qed.
End SemFacts.

(* ------------------------------------------------------------------------------------ *)
(** * Position sets *)

Lemma in_ins : forall x y l, In x (ins y l) <-> x = y \/ In x l.
Proof.
  intros x y l. induction l as [|z r IH]; cbn [ins].
  - cbn. intuition.
  - destruct (y <? z) eqn:E1; [cbn; intuition|].
    destruct (y =? z) eqn:E2.
    + apply Nat.eqb_eq in E2. subst. cbn. intuition.
    + cbn [In]. rewrite IH. intuition.
Qed.

Lemma in_union_pos : forall x a b, In x (union_pos a b) <-> In x a \/ In x b.
Proof.
  intros x a b. unfold union_pos. induction a as [|y r IH]; cbn [fold_right].
  - cbn. intuition.
  - rewrite in_ins, IH. cbn [In]. intuition.
Qed.

Lemma in_bind_pos : forall x s f, In x (bind_pos s f) <-> exists p, In p s /\ In x (f p).
Proof.
  intros x s f. unfold bind_pos. induction s as [|y r IH]; cbn [fold_right].
  - cbn. split; [tauto|]. intros [p [[] _]].
  - rewrite in_union_pos, IH. cbn [In]. split.
    + intros [H|[p [Hp Hx]]]; [exists y; auto|exists p; auto].
    + intros [p [[->|Hp] Hx]]; [left; exact Hx|right; exists p; auto].
Qed.

Lemma bind_pos_ext : forall s f g, (forall p, f p = g p) -> bind_pos s f = bind_pos s g.
Proof.
  intros s f g H. unfold bind_pos. induction s as [|y r IH]; [reflexivity|].
  cbn [fold_right]. rewrite IH, H. reflexivity.
Qed.

Lemma nonempty_iff : forall (l : list nat),
  (match l with [] => false | _ => true end) = true <-> exists x, In x l.
Proof.
  intros [|x r]; cbn; split; try discriminate; auto.
  - intros [x []].
  - intros _. exists x. auto.
Qed.

Lemma existsb_eqb_in : forall n l, existsb (Nat.eqb n) l = true <-> In n l.
Proof.
  intros n l. rewrite existsb_exists. split.
  - intros [x [Hx E]]. apply Nat.eqb_eq in E. subst. exact Hx.
  - intros H. exists n. split; [exact H|apply Nat.eqb_refl].
Qed.

(* ------------------------------------------------------------------------------------ *)
(** * Congruence of the semantics in the step function *)
Section Congruence.
  Lemma iter_exact_ext : forall f g n s,
    (forall p, f p = g p) -> iter_exact f n s = iter_exact g n s.
  Proof.
    intros f g n s H. unfold iter_exact. revert s.
    induction n as [|n IH] using N.peano_ind; intros s; [reflexivity|].
    rewrite !N.iter_succ. rewrite IH. apply bind_pos_ext. exact H.
  Qed.

  Lemma iter_upto_ext : forall f g fuel s,
    (forall p, f p = g p) -> iter_upto f fuel s = iter_upto g fuel s.
  Proof.
    intros f g fuel. induction fuel as [|k IH]; intros s H; [reflexivity|].
    cbn [iter_upto]. rewrite (bind_pos_ext s f g H). apply IH. exact H.
  Qed.

  Lemma quantified_ext : forall f g q w i,
    (forall p, f p = g p) -> quantified f q w i = quantified g q w i.
  Proof.
    intros f g q w i H. unfold quantified.
    rewrite (iter_exact_ext f g _ _ H). apply iter_upto_ext. exact H.
  Qed.
End Congruence.

Section Sem2.
  Variable fvE : fv -> text -> nat -> list nat.

  Lemma ends_concat_app : forall b c1 c2 w s,
    ends_concat fvE b (c1 ++ c2) w s = ends_concat fvE b c2 w (ends_concat fvE b c1 w s).
  Proof.
    intros b c1. induction c1 as [|t c IH]; intros c2 w s; [reflexivity|].
    cbn [app ends_concat]. apply IH.
  Qed.

  (** ** The two readings agree on trees without anchors and words without line feeds *)
  Variable w : text.
  Hypothesis Hw : memN 10 w = false.

  Lemma nth_not_lf : forall i x, nth_error w i = Some x -> N.eqb x 10 = false.
  Proof.
    intros i x H. apply nth_error_In in H.
    destruct (N.eqb x 10) eqn:E; [|reflexivity].
    apply N.eqb_eq in E. subst x. exfalso.
    clear -H Hw. induction w as [|y r IH]; [destruct H|].
    cbn [memN] in Hw. destruct (N.eqb 10 y) eqn:E; [discriminate|].
    destruct H as [->|H]; [rewrite N.eqb_refl in E; discriminate|auto].
  Qed.

  Definition agree_value (v : tvalue) : Prop :=
    anchor_free_value v = true ->
    forall i, ends_value fvE true v w i = ends_value fvE false v w i.

  Lemma agree_concat_from : forall c,
    Forall (fun t : tvalue * option quantifier => agree_value (fst t)) c ->
    anchor_free_concat c = true ->
    forall s, ends_concat fvE true c w s = ends_concat fvE false c w s.
  Proof.
    intros c HF. induction HF as [|[v q] c' Hv _ IH]; intros Hc s; [reflexivity|].
    cbn [anchor_free_concat] in Hc. apply andb_true_iff in Hc as [Hv' Hc'].
    cbn [ends_concat]. rewrite (IH Hc').
    f_equal. apply bind_pos_ext. intros p. unfold ends_term. cbn [fst snd] in *.
    destruct q as [q|].
    - apply quantified_ext. intros p'. apply Hv. exact Hv'.
    - apply Hv. exact Hv'.
  Qed.

  Lemma agree_union_from : forall u,
    Forall (Forall (fun t : tvalue * option quantifier => agree_value (fst t))) u ->
    anchor_free_union u = true ->
    forall i, ends_union fvE true u w i = ends_union fvE false u w i.
  Proof.
    intros u HF. induction HF as [|c r Hc _ IH]; intros Hu i; [reflexivity|].
    cbn [anchor_free_union] in Hu. apply andb_true_iff in Hu as [Hc' Hr].
    cbn [ends_union]. rewrite (IH Hr). f_equal. apply agree_concat_from; assumption.
  Qed.

  Lemma agree_all : forall v, agree_value v.
  Proof.
    apply tvalue_ind2; unfold agree_value.
    - intros u HF Hfree i. rewrite !ends_value_group.
      rewrite anchor_free_value_group in Hfree. apply agree_union_from; assumption.
    - reflexivity.
    - reflexivity.
    - reflexivity.
    - intros [| |] Hfree i; cbn in Hfree; try discriminate.
      cbn [ends_value]. destruct (nth_error w i) as [x|] eqn:E; [|reflexivity].
      rewrite (nth_not_lf i x E). reflexivity.
  Qed.

  Lemma agree_concat : forall c s,
    anchor_free_concat c = true ->
    ends_concat fvE true c w s = ends_concat fvE false c w s.
  Proof.
    intros c s H. apply agree_concat_from; [|exact H].
    apply Forall_forall. intros t _. apply agree_all.
  Qed.
End Sem2.

(* ------------------------------------------------------------------------------------ *)
(** * [_CharacterDecoder] does not change the language (all trees, both readings) *)
Section Decode.
  Variable fvE : fv -> text -> nat -> list nat.
  Variable b : bool.
  Variable w : text.

  Lemma in_range_decode : forall x r, in_range x (decode_range r) = in_range x r.
  Proof.
    intros x [st [e|]]; unfold in_range, decode_range; cbn; reflexivity.
  Qed.

  Definition dec_value (v : tvalue) : Prop :=
    forall i, ends_value fvE b (decode_value v) w i = ends_value fvE b v w i.

  Lemma dec_concat_from : forall c,
    Forall (fun t : tvalue * option quantifier => dec_value (fst t)) c ->
    forall s, ends_concat fvE b (decode_concat c) w s = ends_concat fvE b c w s.
  Proof.
    intros c HF. induction HF as [|[v q] c' Hv _ IH]; intros s; [reflexivity|].
    cbn [decode_concat map ends_concat]. fold (decode_concat c'). rewrite IH.
    f_equal. apply bind_pos_ext. intros p. unfold ends_term, decode_term. cbn [fst snd] in *.
    destruct q as [q|]; cbn [decode_quant option_map];
      [change (quantified (ends_value fvE b (decode_value v) w)
                 (mkQuant false (q_min q) (q_max q)) w p)
         with (quantified (ends_value fvE b (decode_value v) w) q w p);
       apply quantified_ext; intros p'|]; apply Hv.
  Qed.

  Lemma dec_union_from : forall u,
    Forall (Forall (fun t : tvalue * option quantifier => dec_value (fst t))) u ->
    forall i, ends_union fvE b (decode_union u) w i = ends_union fvE b u w i.
  Proof.
    intros u HF. induction HF as [|c r Hc _ IH]; intros i; [reflexivity|].
    cbn [decode_union map ends_union]. fold (decode_union r). rewrite IH.
    f_equal. apply dec_concat_from. exact Hc.
  Qed.

  Lemma dec_all : forall v, dec_value v.
  Proof.
    apply tvalue_ind2; unfold dec_value.
    - intros u HF i. rewrite decode_value_group, !ends_value_group.
      apply dec_union_from. exact HF.
    - reflexivity.
    - intros k rs i. cbn [decode_value ends_value].
      destruct (nth_error w i) as [x|]; [|reflexivity].
      replace (existsb (in_range x) (map decode_range rs)) with (existsb (in_range x) rs);
        [reflexivity|].
      induction rs as [|r rs IH]; [reflexivity|].
      cbn [map existsb]. rewrite in_range_decode, IH. reflexivity.
    - reflexivity.
    - reflexivity.
  Qed.

  Lemma ends_decode_union : forall u i,
    ends_union fvE b (decode_union u) w i = ends_union fvE b u w i.
  Proof.
    intros u i. apply dec_union_from.
    apply Forall_forall. intros c _. apply Forall_forall. intros t _. apply dec_all.
  Qed.

  Lemma ends_decode : forall t i, ends fvE b (decode_union t) w i = ends fvE b t w i.
  Proof.
    intros t i. unfold ends. destruct t as [|c r]; [reflexivity|].
    cbn [decode_union map]. fold (decode_union r).
    change (decode_concat c :: decode_union r) with (decode_union (c :: r)).
    apply ends_decode_union.
  Qed.
End Decode.

Theorem decode_preserves_matches : forall fvE b t s,
  matches fvE b (decode_union t) s = matches fvE b t s.
Proof. intros. unfold matches. rewrite ends_decode. reflexivity. Qed.

(* ------------------------------------------------------------------------------------ *)
(** * [_AnchorRemover] on trees without anchors is the identity *)

Definition rm_value (v : tvalue) : Prop := anchor_free_value v = true -> remove_value v = v.

Lemma is_anchor_free : forall v, anchor_free_value v = true -> is_anchor v = false.
Proof. intros [u|c|k rs|f|[| |]]; cbn; intros H; try reflexivity; discriminate. Qed.

Lemma rm_concat_from : forall c,
  Forall (fun t : tvalue * option quantifier => rm_value (fst t)) c ->
  anchor_free_concat c = true -> remove_concat c = c.
Proof.
  intros c HF. induction HF as [|[v q] c' Hv _ IH]; intros Hc; [reflexivity|].
  cbn [anchor_free_concat] in Hc. apply andb_true_iff in Hc as [Hv' Hc'].
  cbn [remove_concat fst] in *. rewrite (is_anchor_free v Hv'), (Hv Hv'), (IH Hc'). reflexivity.
Qed.

Lemma rm_union_from : forall u,
  Forall (Forall (fun t : tvalue * option quantifier => rm_value (fst t))) u ->
  anchor_free_union u = true -> remove_union u = u.
Proof.
  intros u HF. induction HF as [|c r Hc _ IH]; intros Hu; [reflexivity|].
  cbn [anchor_free_union] in Hu. apply andb_true_iff in Hu as [Hc' Hr].
  cbn [remove_union map]. fold (remove_union r). rewrite (IH Hr), (rm_concat_from c Hc Hc').
  reflexivity.
Qed.

Lemma rm_all : forall v, rm_value v.
Proof.
  apply tvalue_ind2; unfold rm_value; try reflexivity.
  intros u HF Hfree. rewrite remove_value_group. rewrite anchor_free_value_group in Hfree.
  rewrite (rm_union_from u HF Hfree). reflexivity.
Qed.

Lemma remove_concat_free : forall c, anchor_free_concat c = true -> remove_concat c = c.
Proof.
  intros c H. apply rm_concat_from; [|exact H].
  apply Forall_forall. intros t _. apply rm_all.
Qed.

Lemma remove_concat_app : forall a b,
  remove_concat (a ++ b) = remove_concat a ++ remove_concat b.
Proof.
  intros a b. induction a as [|[v q] a' IH]; [reflexivity|].
  cbn [app remove_concat]. rewrite IH. destruct (is_anchor v); reflexivity.
Qed.

(* ------------------------------------------------------------------------------------ *)
(** * Anchor removal *)

Lemma memN_false_app : forall x a, memN x a = false -> forall y, In y a -> y <> x.
Proof.
  intros x a. induction a as [|z r IH]; intros H y Hy; [destruct Hy|].
  cbn [memN] in H. destruct (N.eqb x z) eqn:E; [discriminate|].
  destruct Hy as [->|Hy]; [|auto].
  intros ->. rewrite N.eqb_refl in E. discriminate.
Qed.

Lemma at_end_no_lf : forall w i, memN 10 w = false -> at_end true w i = (i =? length w).
Proof.
  intros w i Hw. unfold at_end.
  destruct (nth_error w i) as [x|] eqn:E.
  - rewrite (nth_not_lf w Hw i x E). rewrite andb_false_r, orb_false_r. reflexivity.
  - rewrite andb_false_r, orb_false_r. reflexivity.
Qed.

Theorem anchor_removal_language_tree : forall t mid s,
  top_anchored t mid -> no_linebreak s = true ->
  xsd_match (remove_union t) s = py_match t s.
Proof.
  intros t mid s [-> Hfree] Hs.
  unfold no_linebreak in Hs. apply andb_true_iff in Hs as [Hlf _].
  apply negb_true_iff in Hlf.
  (* the removed tree is [mid] *)
  assert (Hrm : remove_union [start_term :: mid ++ [end_term]] = [mid]).
  { cbn [remove_union map]. f_equal.
    change (start_term :: mid ++ [end_term]) with ([start_term] ++ mid ++ [end_term]).
    rewrite !remove_concat_app. cbn. rewrite app_nil_r. apply remove_concat_free. exact Hfree. }
  rewrite Hrm.
  apply eq_true_iff_eq.
  unfold xsd_match, matches, py_match.
  rewrite existsb_eqb_in, nonempty_iff.
  unfold ends. cbn [ends_union].
  (* Python side: start holds at 0, then mid, then the end test *)
  assert (Hpy : forall x,
             In x (ends_concat no_fv true (start_term :: mid ++ [end_term]) s [0])
             <-> x = length s /\ In x (ends_concat no_fv false mid s [0])).
  { intros x. cbn [ends_concat].
    assert (H0 : bind_pos [0] (ends_term no_fv true start_term s) = [0]) by reflexivity.
    rewrite H0. rewrite ends_concat_app. cbn [ends_concat].
    rewrite in_bind_pos. rewrite (agree_concat no_fv s Hlf mid [0] Hfree).
    unfold ends_term, end_term. cbn [fst snd ends_value]. split.
    - intros [p [Hp Hx]]. rewrite (at_end_no_lf s p Hlf) in Hx.
      destruct (p =? length s) eqn:E; [|destruct Hx].
      apply Nat.eqb_eq in E. destruct Hx as [<-|[]]. subst p. auto.
    - intros [-> Hp]. exists (length s). split; [exact Hp|].
      rewrite (at_end_no_lf s (length s) Hlf), Nat.eqb_refl. left. reflexivity. }
  rewrite in_union_pos. cbn [In]. split.
  - intros [H|[]]. exists (length s). apply in_union_pos. left. apply Hpy. auto.
  - intros [x H]. apply in_union_pos in H as [H|[]]. apply Hpy in H as [-> H]. left. exact H.
Qed.

(** The same for the tree that is actually rendered (anchors removed, characters decoded). *)
Theorem anchor_removal_language_full : forall t mid s,
  top_anchored t mid -> no_linebreak s = true ->
  xsd_match (xsd_tree t) s = py_match t s.
Proof.
  intros t mid s Ht Hs. unfold xsd_tree, xsd_match.
  rewrite decode_preserves_matches. apply (anchor_removal_language_tree t mid s Ht Hs).
Qed.

(* ------------------------------------------------------------------------------------ *)
(** * [_undo_escaping_backslash_x_in_pattern] is the identity without [\xHH]-like text *)

Local Open Scope N_scope.
Fixpoint has_x_escape (p : text) : bool :=
  match p with
  | [] => false
  | c :: tl =>
      match tl with
      | x :: a :: b :: rest =>
          ((c =? 92) && (x =? 120) && in_x_class a && in_x_class b) || has_x_escape tl
      | _ => has_x_escape tl
      end
  end.

Lemma undo_x_eq4 : forall c x a b rest,
  undo_x (c :: x :: a :: b :: rest) =
  if (c =? 92) && (x =? 120) && in_x_class a && in_x_class b then
    match hex_digit a, hex_digit b with
    | Some u, Some v => do r <- undo_x rest; Ok (16 * u + v :: r)
    | _, _ => Crash ValueError
    end
  else do r <- undo_x (x :: a :: b :: rest); Ok (c :: r).
Proof. reflexivity. Qed.

Theorem undo_x_identity : forall p, has_x_escape p = false -> undo_x p = Ok p.
Proof.
  induction p as [|c tl IH]; intros H; [reflexivity|].
  destruct tl as [|x [|a [|b rest]]].
  - reflexivity.
  - cbn in *. reflexivity.
  - cbn [undo_x has_x_escape] in *. rewrite (IH H). reflexivity.
  - cbn [has_x_escape] in H. apply orb_false_iff in H as [Hc Htl].
    rewrite undo_x_eq4, Hc, (IH Htl). reflexivity.
Qed.

(* ------------------------------------------------------------------------------------ *)
(** * Escapes of the XSD renderer *)

Definition esc_table_ok (tbl : list (N * text)) : bool :=
  forallb (fun e => xsd_escapes_ok (snd e)) tbl
  && match assocN 92 tbl with Some _ => true | None => false end.

Lemma assocN_in : forall (tbl : list (N * text)) k v, assocN k tbl = Some v -> In (k, v) tbl.
Proof.
  induction tbl as [|[k' v'] r IH]; intros k v H; [discriminate|].
  cbn [assocN] in H. destruct (N.eqb k k') eqn:E.
  - apply N.eqb_eq in E. injection H as <-. subst. left. reflexivity.
  - right. apply IH. exact H.
Qed.

(** every unencoded character is rendered either as itself (and is no backslash) or as an
    escape sequence that the XSD grammar defines *)
Theorem render_char_escape_safe : forall tbl c,
  esc_table_ok tbl = true -> xsd_escapes_ok (render_char tbl (mkChar c false)) = true.
Proof.
  intros tbl c H. unfold esc_table_ok in H. apply andb_true_iff in H as [Hall Hbs].
  unfold render_char. cbn [ch_enc ch_code].
  destruct (assocN c tbl) as [e|] eqn:E.
  - apply assocN_in in E. rewrite forallb_forall in Hall. apply (Hall _ E).
  - cbn [xsd_escapes_ok]. destruct (c =? 92) eqn:E92; [|reflexivity].
    apply N.eqb_eq in E92. subst c. rewrite E in Hbs. discriminate.
Qed.
