(** Facts about [Model/VerifySpec.v] (C08): the list of errors produced by [verify_spec] is
    exactly the set of (description, path) pairs of falsy invariants at reachable positions
    ([verify_spec_exact]); an exception comes from a reachable invariant
    ([verify_spec_raises]); a completed verification means that no reachable invariant
    raised ([verify_spec_no_raise]); [S (value_depth root)] is enough fuel
    ([verify_spec_fuel]). *)
From Coq Require Import List NArith ZArith Bool Lia.
From Coq Require Strings.String.
Import Coq.Strings.String.StringSyntax.
From Acg Require Import Base.Str Model.Tree Model.PyEval Model.VerifySpec.
Import ListNotations.
Local Open Scope nat_scope.

(** * Reachable positions *)

(** [at_path m root p owner v]: walking from [root] along [p] reaches the value [v], which
    is verified against the invariants of [owner] ([inl] runtime class of an object,
    [inr] declared constrained primitive). *)
Inductive at_path (m : vmm) (root : value) : path -> (text + text) -> value -> Prop :=
| AP_root : forall o c fs,
    root = VObj o c fs ->
    at_path m root [] (inl c) root
| AP_class : forall p o c fs n o' c' fs',
    at_path m root p (inl c) (VObj o c fs) ->
    In (n, VtClass) (class_props m c) ->
    lookup n fs = Some (VObj o' c' fs') ->
    at_path m root (p ++ [SPName n]) (inl c') (VObj o' c' fs')
| AP_cprim : forall p o c fs n t v,
    at_path m root p (inl c) (VObj o c fs) ->
    In (n, VtCPrim t) (class_props m c) ->
    lookup n fs = Some v ->
    v <> VNone ->
    at_path m root (p ++ [SPName n]) (inr t) v
| AP_list_class : forall p o c fs n items i o' c' fs',
    at_path m root p (inl c) (VObj o c fs) ->
    In (n, VtListClass) (class_props m c) ->
    lookup n fs = Some (VList items) ->
    nth_error items i = Some (VObj o' c' fs') ->
    at_path m root (p ++ [SPName n; SIdx i]) (inl c') (VObj o' c' fs')
| AP_list_cprim : forall p o c fs n t items i v,
    at_path m root p (inl c) (VObj o c fs) ->
    In (n, VtListCPrim t) (class_props m c) ->
    lookup n fs = Some (VList items) ->
    nth_error items i = Some v ->
    at_path m root (p ++ [SPName n; SIdx i]) (inr t) v.

Definition owner_invs (m : vmm) (o : text + text) : list (nat * text) :=
  match o with
  | inl c => class_invs m c
  | inr t => cprim_invs m t
  end.

(** One step from an object of runtime class [c] with fields [fs]. *)
Inductive child (m : vmm) (c : text) (fs : list (text * value)) :
    path -> (text + text) -> value -> Prop :=
| Ch_class : forall n o' c' fs',
    In (n, VtClass) (class_props m c) ->
    lookup n fs = Some (VObj o' c' fs') ->
    child m c fs [SPName n] (inl c') (VObj o' c' fs')
| Ch_cprim : forall n t v,
    In (n, VtCPrim t) (class_props m c) ->
    lookup n fs = Some v ->
    v <> VNone ->
    child m c fs [SPName n] (inr t) v
| Ch_list_class : forall n items i o' c' fs',
    In (n, VtListClass) (class_props m c) ->
    lookup n fs = Some (VList items) ->
    nth_error items i = Some (VObj o' c' fs') ->
    child m c fs [SPName n; SIdx i] (inl c') (VObj o' c' fs')
| Ch_list_cprim : forall n t items i v,
    In (n, VtListCPrim t) (class_props m c) ->
    lookup n fs = Some (VList items) ->
    nth_error items i = Some v ->
    child m c fs [SPName n; SIdx i] (inr t) v.

Lemma at_path_child m root p o c fs segs owner v :
  at_path m root p (inl c) (VObj o c fs) ->
  child m c fs segs owner v ->
  at_path m root (p ++ segs) owner v.
Proof.
  intros Hp Hc. destruct Hc as [n o' c' fs' Hin Hl | n t v Hin Hl Hn
                               | n items i o' c' fs' Hin Hl Hi | n t items i v Hin Hl Hi].
  - eapply AP_class; eassumption.
  - eapply AP_cprim; eassumption.
  - eapply AP_list_class; eassumption.
  - eapply AP_list_cprim; eassumption.
Qed.

Lemma child_inl m c fs segs c' v :
  child m c fs segs (inl c') v -> exists o' fs', v = VObj o' c' fs'.
Proof.
  intros Hc. inversion Hc; subst; eauto.
Qed.

(** Induction on [at_path] in "root / parent + one step" form. *)
Lemma at_path_step_ind (m : vmm) (root : value) (P : path -> (text + text) -> value -> Prop) :
  (forall o c fs, root = VObj o c fs -> P [] (inl c) root) ->
  (forall p o c fs segs owner v,
      at_path m root p (inl c) (VObj o c fs) ->
      P p (inl c) (VObj o c fs) ->
      child m c fs segs owner v ->
      P (p ++ segs) owner v) ->
  forall p owner v, at_path m root p owner v -> P p owner v.
Proof.
  intros Hroot Hstep p owner v Hp.
  induction Hp as [o c fs Hr
                  | p o c fs n o' c' fs' Hp IH Hin Hl
                  | p o c fs n t v Hp IH Hin Hl Hn
                  | p o c fs n items i o' c' fs' Hp IH Hin Hl Hi
                  | p o c fs n t items i v Hp IH Hin Hl Hi].
  - eapply Hroot; eassumption.
  - eapply Hstep; [exact Hp | exact IH | eapply Ch_class; eassumption].
  - eapply Hstep; [exact Hp | exact IH | eapply Ch_cprim; eassumption].
  - eapply Hstep; [exact Hp | exact IH | eapply Ch_list_class; eassumption].
  - eapply Hstep; [exact Hp | exact IH | eapply Ch_list_cprim; eassumption].
Qed.

Lemma at_path_inl m root p c v :
  at_path m root p (inl c) v -> exists o fs, v = VObj o c fs.
Proof.
  intros Hp. inversion Hp; subst; eauto.
Qed.

(** * Sequencing *)

Lemma vseq_errors a b l :
  vseq a b = VErrors l ->
  exists l1 l2, a = VErrors l1 /\ b = VErrors l2 /\ l = l1 ++ l2.
Proof.
  destruct a as [l1|x1|]; destruct b as [l2|x2|]; cbn; intros H; try discriminate.
  inversion H; subst. exists l1, l2. auto.
Qed.

Lemma vseq_raise a b x :
  vseq a b = VRaise x -> a = VRaise x \/ b = VRaise x.
Proof.
  destruct a as [l1|x1|]; destruct b as [l2|x2|]; cbn; intros H; try discriminate; auto.
Qed.

Lemma vseq_oof a b :
  vseq a b = VOutOfFuel -> a = VOutOfFuel \/ b = VOutOfFuel.
Proof.
  destruct a as [l1|x1|]; destruct b as [l2|x2|]; cbn; intros H; try discriminate; auto.
Qed.

Lemma vseq_all_cons r rs : vseq_all (r :: rs) = vseq r (vseq_all rs).
Proof. reflexivity. Qed.

Lemma vseq_all_errors rs : forall l,
  vseq_all rs = VErrors l ->
  (forall r, In r rs -> exists l', r = VErrors l' /\ incl l' l) /\
  (forall e, In e l -> exists l', In (VErrors l') rs /\ In e l').
Proof.
  induction rs as [|r rs IH]; intros l H.
  - cbn in H. inversion H; subst. split.
    + intros r Hin. destruct Hin.
    + intros e Hin. destruct Hin.
  - rewrite vseq_all_cons in H. apply vseq_errors in H.
    destruct H as (l1 & l2 & Hr & Hrs & Hl). subst r l.
    destruct (IH _ Hrs) as [IH1 IH2]. split.
    + intros r' Hin. destruct Hin as [Heq | Hin].
      * subst r'. exists l1. split; [reflexivity | apply incl_appl, incl_refl].
      * destruct (IH1 _ Hin) as (l' & E & I). exists l'.
        split; [exact E | apply incl_appr; exact I].
    + intros e He. apply in_app_or in He. destruct He as [He|He].
      * exists l1. split; [left; reflexivity | exact He].
      * destruct (IH2 _ He) as (l' & I1 & I2). exists l'.
        split; [right; exact I1 | exact I2].
Qed.

(** [explains S r]: every error of [r], an exception of [r] and fuel exhaustion of [r] come
    from some sub-result satisfying [S]. *)
Definition explains (S : vres -> Prop) (r : vres) : Prop :=
  (forall l e, r = VErrors l -> In e l -> exists l', S (VErrors l') /\ In e l') /\
  (forall x, r = VRaise x -> S (VRaise x)) /\
  (r = VOutOfFuel -> S VOutOfFuel).

Lemma explains_nil S : explains S (VErrors []).
Proof.
  split; [|split].
  - intros l e H Hin. inversion H; subst. destruct Hin.
  - intros x H. discriminate.
  - intros H. discriminate.
Qed.

Lemma explains_self (S : vres -> Prop) r : S r -> explains S r.
Proof.
  intros HS. split; [|split].
  - intros l e H Hin. subst r. exists l. auto.
  - intros x H. subst r. exact HS.
  - intros H. subst r. exact HS.
Qed.

Lemma explains_seq S a b : explains S a -> explains S b -> explains S (vseq a b).
Proof.
  intros (A1 & A2 & A3) (B1 & B2 & B3). split; [|split].
  - intros l e H Hin. apply vseq_errors in H. destruct H as (l1 & l2 & Ha & Hb & Hl).
    subst l. apply in_app_or in Hin. destruct Hin as [Hin|Hin].
    + eapply A1; eassumption.
    + eapply B1; eassumption.
  - intros x H. apply vseq_raise in H. destruct H as [H|H]; auto.
  - intros H. apply vseq_oof in H. destruct H as [H|H]; auto.
Qed.

Lemma explains_all S rs :
  (forall r, In r rs -> explains S r) -> explains S (vseq_all rs).
Proof.
  induction rs as [|r rs IH]; intros H.
  - apply explains_nil.
  - rewrite vseq_all_cons. apply explains_seq.
    + apply H. left. reflexivity.
    + apply IH. intros r' Hin. apply H. right. exact Hin.
Qed.

Lemma explains_mono (S S' : vres -> Prop) r :
  (forall r', S r' -> S' r') -> explains S r -> explains S' r.
Proof.
  intros Himp (A1 & A2 & A3). split; [|split].
  - intros l e H Hin. destruct (A1 _ _ H Hin) as (l' & HS & Hin'). exists l'. auto.
  - intros x H. auto.
  - intros H. auto.
Qed.

Lemma indexed_in {A : Type} (l : list A) : forall k i x,
  In (i, x) (indexed k l) <-> exists j, i = k + j /\ nth_error l j = Some x.
Proof.
  induction l as [|y r IH]; intros k i x; cbn [indexed In].
  - split.
    + intros H. destruct H.
    + intros (j & _ & H). destruct j; discriminate.
  - rewrite IH. split.
    + intros H. destruct H as [E | (j & E & H)].
      * inversion E; subst. exists 0. split; [lia | reflexivity].
      * exists (S j). split; [lia | exact H].
    + intros (j & E & H). destruct j as [|j].
      * left. cbn in H. inversion H; subst. f_equal. lia.
      * right. exists j. split; [lia | exact H].
Qed.

(** * Invariants of one position *)

Lemma check_invs_errors ev invs v p l :
  check_invs ev invs v p = VErrors l ->
  (forall id d, In (id, d) invs ->
     exists w, ev id v = Val w /\ (truthy w = false -> In (d, p) l)) /\
  (forall d q, In (d, q) l ->
     q = p /\ exists id w, In (id, d) invs /\ ev id v = Val w /\ truthy w = false).
Proof.
  unfold check_invs. intros H. apply vseq_all_errors in H. destruct H as [H1 H2]. split.
  - intros id d Hin.
    destruct (H1 (check_inv ev v p (id, d))) as (l' & E & I).
    { apply in_map. exact Hin. }
    unfold check_inv in E. cbn [fst snd] in E.
    destruct (ev id v) as [w|x] eqn:Ev; [|discriminate].
    exists w. split; [reflexivity|]. intros Ht. rewrite Ht in E.
    inversion E; subst l'. apply I. left. reflexivity.
  - intros d q Hin. destruct (H2 _ Hin) as (l' & I1 & I2).
    apply in_map_iff in I1. destruct I1 as ([id d'] & E & Hin').
    unfold check_inv in E. cbn [fst snd] in E.
    destruct (ev id v) as [w|x] eqn:Ev; [|discriminate].
    destruct (truthy w) eqn:Ht; inversion E; subst l'.
    + destruct I2.
    + destruct I2 as [I2|I2]; [|destruct I2]. inversion I2; subst.
      split; [reflexivity|]. exists id, w. auto.
Qed.

Lemma check_invs_raise ev invs v p x :
  check_invs ev invs v p = VRaise x ->
  exists id d, In (id, d) invs /\ ev id v = Raise x.
Proof.
  unfold check_invs. induction invs as [|[id d] invs IH]; intros H.
  - cbn in H. discriminate.
  - cbn [map] in H. rewrite vseq_all_cons in H. apply vseq_raise in H.
    destruct H as [H|H].
    + unfold check_inv in H. cbn [fst snd] in H.
      destruct (ev id v) as [w|y] eqn:Ev.
      * destruct (truthy w); discriminate.
      * inversion H; subst. exists id, d. split; [left; reflexivity | exact Ev].
    + destruct (IH H) as (id' & d' & Hin & Ev). exists id', d'.
      split; [right; exact Hin | exact Ev].
Qed.

Lemma check_invs_no_oof ev invs v p : check_invs ev invs v p <> VOutOfFuel.
Proof.
  unfold check_invs. induction invs as [|[id d] invs IH]; intros H.
  - cbn in H. discriminate.
  - cbn [map] in H. rewrite vseq_all_cons in H. apply vseq_oof in H.
    destruct H as [H|H].
    + unfold check_inv in H. cbn [fst snd] in H.
      destruct (ev id v) as [w|y]; [destruct (truthy w)|]; discriminate.
    + exact (IH H).
Qed.

Lemma is_none_false v : is_none v = false -> v <> VNone.
Proof.
  intros H E. subst v. cbn in H. discriminate.
Qed.

Lemma is_none_false_of v : v <> VNone -> is_none v = false.
Proof.
  intros H. destruct v; try reflexivity. contradiction H. reflexivity.
Qed.

(** * One property, one object level *)

(** What is verified at a child position: a recursive call for objects, the constrained
    primitive's invariants otherwise. *)
Definition visit (m : vmm) (ev : nat -> value -> pyresult) (rec : path -> value -> vres)
    (p : path) (owner : text + text) (v : value) : vres :=
  match owner with
  | inl _ => rec p v
  | inr t => check_invs ev (cprim_invs m t) v p
  end.

Definition child_result m ev rec p c fs : vres -> Prop :=
  fun r' => exists segs owner v,
      child m c fs segs owner v /\ visit m ev rec (p ++ segs) owner v = r'.

Lemma verify_prop_explains m ev rec p c fs pr :
  In pr (class_props m c) ->
  explains (child_result m ev rec p c fs) (verify_prop m ev rec p fs pr).
Proof.
  intros Hin. destruct pr as [n ty]. unfold verify_prop. cbn [fst snd].
  destruct (lookup n fs) as [v|] eqn:L; [|apply explains_nil].
  destruct (is_none v) eqn:N; [apply explains_nil|].
  apply is_none_false in N.
  destruct ty as [|t| |t|].
  - apply explains_nil.
  - apply explains_self. exists [SPName n], (inr t), v.
    split; [eapply Ch_cprim; eassumption | reflexivity].
  - unfold rec_obj. destruct v as [| | | | | | | | |oid cls fields| |]; try apply explains_nil.
    apply explains_self. exists [SPName n], (inl cls), (VObj oid cls fields).
    split; [eapply Ch_class; eassumption | reflexivity].
  - destruct v as [| | | | | |items| | | | |]; try apply explains_nil.
    apply explains_all. intros r Hr. apply in_map_iff in Hr.
    destruct Hr as ([i x] & E & Hix). cbn [fst snd] in E.
    apply indexed_in in Hix. destruct Hix as (j & Ej & Hn). cbn in Ej. subst i r.
    apply explains_self. exists [SPName n; SIdx j], (inr t), x.
    split; [eapply Ch_list_cprim; eassumption | reflexivity].
  - destruct v as [| | | | | |items| | | | |]; try apply explains_nil.
    apply explains_all. intros r Hr. apply in_map_iff in Hr.
    destruct Hr as ([i x] & E & Hix). cbn [fst snd] in E.
    apply indexed_in in Hix. destruct Hix as (j & Ej & Hn). cbn in Ej. subst i r.
    unfold rec_obj. destruct x as [| | | | | | | | |oid cls fields| |]; try apply explains_nil.
    apply explains_self. exists [SPName n; SIdx j], (inl cls), (VObj oid cls fields).
    split; [eapply Ch_list_class; eassumption | reflexivity].
Qed.

Lemma verify_prop_complete m ev rec p c fs segs owner v :
  child m c fs segs owner v ->
  exists pr, In pr (class_props m c) /\
    forall l, verify_prop m ev rec p fs pr = VErrors l ->
      exists l', visit m ev rec (p ++ segs) owner v = VErrors l' /\ incl l' l.
Proof.
  intros Hc. destruct Hc as [n o' c' fs' Hin Hl | n t v Hin Hl Hn
                            | n items i o' c' fs' Hin Hl Hi | n t items i v Hin Hl Hi].
  - exists (n, VtClass). split; [exact Hin|]. intros l H.
    unfold verify_prop in H. cbn [fst snd] in H. rewrite Hl in H.
    cbn [is_none rec_obj] in H. exists l. split; [exact H | apply incl_refl].
  - exists (n, VtCPrim t). split; [exact Hin|]. intros l H.
    unfold verify_prop in H. cbn [fst snd] in H. rewrite Hl in H.
    rewrite (is_none_false_of _ Hn) in H. exists l. split; [exact H | apply incl_refl].
  - exists (n, VtListClass). split; [exact Hin|]. intros l H.
    unfold verify_prop in H. cbn [fst snd] in H. rewrite Hl in H.
    cbn [is_none] in H. apply vseq_all_errors in H. destruct H as [H1 _].
    destruct (H1 (rec_obj rec (p ++ [SPName n; SIdx i]) (VObj o' c' fs'))) as (l' & E & I).
    { apply in_map_iff. exists (i, VObj o' c' fs'). split; [reflexivity|].
      apply indexed_in. exists i. split; [reflexivity | exact Hi]. }
    exists l'. split; [exact E | exact I].
  - exists (n, VtListCPrim t). split; [exact Hin|]. intros l H.
    unfold verify_prop in H. cbn [fst snd] in H. rewrite Hl in H.
    cbn [is_none] in H. apply vseq_all_errors in H. destruct H as [H1 _].
    destruct (H1 (check_invs ev (cprim_invs m t) v (p ++ [SPName n; SIdx i])))
      as (l' & E & I).
    { apply in_map_iff. exists (i, v). split; [reflexivity|].
      apply indexed_in. exists i. split; [reflexivity | exact Hi]. }
    exists l'. split; [exact E | exact I].
Qed.

Definition step_result m ev rec p o c fs : vres -> Prop :=
  fun r' => check_invs ev (class_invs m c) (VObj o c fs) p = r'
            \/ child_result m ev rec p c fs r'.

Lemma verify_step_explains m ev rec p o c fs :
  explains (step_result m ev rec p o c fs) (verify_step m ev rec p (VObj o c fs)).
Proof.
  unfold verify_step. apply explains_seq.
  - apply explains_self. left. reflexivity.
  - apply explains_all. intros r Hr. apply in_map_iff in Hr. destruct Hr as (pr & E & Hin).
    subst r. eapply explains_mono; [|eapply verify_prop_explains; exact Hin].
    intros r' Hr'. right. exact Hr'.
Qed.

Lemma verify_step_own m ev rec p o c fs l :
  verify_step m ev rec p (VObj o c fs) = VErrors l ->
  exists l', check_invs ev (class_invs m c) (VObj o c fs) p = VErrors l' /\ incl l' l.
Proof.
  unfold verify_step. intros H. apply vseq_errors in H.
  destruct H as (l1 & l2 & H1 & H2 & Hl). subst l.
  exists l1. split; [exact H1 | apply incl_appl, incl_refl].
Qed.

Lemma verify_step_child m ev rec p o c fs l segs owner v :
  verify_step m ev rec p (VObj o c fs) = VErrors l ->
  child m c fs segs owner v ->
  exists l', visit m ev rec (p ++ segs) owner v = VErrors l' /\ incl l' l.
Proof.
  unfold verify_step. intros H Hc. apply vseq_errors in H.
  destruct H as (l1 & l2 & H1 & H2 & Hl). subst l.
  destruct (verify_prop_complete m ev rec p c fs segs owner v Hc) as (pr & Hin & Hpr).
  apply vseq_all_errors in H2. destruct H2 as [H2 _].
  destruct (H2 (verify_prop m ev rec p fs pr)) as (l3 & E3 & I3).
  { apply in_map. exact Hin. }
  destruct (Hpr _ E3) as (l' & E' & I'). exists l'. split; [exact E'|].
  apply incl_appr. eapply incl_tran; eassumption.
Qed.

(** * Soundness: errors and exceptions come from reachable invariants *)

Definition falsy_at m ev root (d : text) (p : path) : Prop :=
  exists owner v id,
    at_path m root p owner v /\ In (id, d) (owner_invs m owner) /\
    exists w, ev id v = Val w /\ truthy w = false.

Definition raises_at m ev root (x : exn) : Prop :=
  exists owner v id d p,
    at_path m root p owner v /\ In (id, d) (owner_invs m owner) /\ ev id v = Raise x.

Definition good m ev root (r : vres) : Prop :=
  (forall l d p, r = VErrors l -> In (d, p) l -> falsy_at m ev root d p) /\
  (forall x, r = VRaise x -> raises_at m ev root x).

Lemma explains_good m ev root S r :
  explains S r -> (forall r', S r' -> good m ev root r') -> good m ev root r.
Proof.
  intros (A1 & A2 & _) HS. split.
  - intros l d p H Hin. destruct (A1 _ _ H Hin) as (l' & HS' & Hin').
    destruct (HS _ HS') as [G1 _]. eapply G1; [reflexivity | exact Hin'].
  - intros x H. destruct (HS _ (A2 _ H)) as [_ G2]. apply G2. reflexivity.
Qed.

Lemma check_invs_good m ev root p owner v :
  at_path m root p owner v ->
  good m ev root (check_invs ev (owner_invs m owner) v p).
Proof.
  intros Hp. split.
  - intros l d q H Hin. apply check_invs_errors in H. destruct H as [_ H2].
    destruct (H2 _ _ Hin) as (Eq & id & w & Hinv & Ev & Ht). subst q.
    exists owner, v, id. split; [exact Hp|]. split; [exact Hinv|]. exists w. auto.
  - intros x H. apply check_invs_raise in H. destruct H as (id & d & Hinv & Ev).
    exists owner, v, id, d, p. auto.
Qed.

Lemma verify_at_good m ev root : forall fuel p o c fs,
  at_path m root p (inl c) (VObj o c fs) ->
  good m ev root (verify_at m ev fuel p (VObj o c fs)).
Proof.
  induction fuel as [|f IH]; intros p o c fs Hp.
  - cbn. split.
    + intros l d q H. discriminate.
    + intros x H. discriminate.
  - cbn [verify_at]. eapply explains_good; [apply verify_step_explains|].
    intros r' Hr'. destruct Hr' as [Hown | (segs & owner & v & Hc & Hv)].
    + subst r'. apply (check_invs_good m ev root p (inl c)). exact Hp.
    + pose proof (at_path_child _ _ _ _ _ _ _ _ _ Hp Hc) as Hp'.
      subst r'. destruct owner as [c'|t].
      * destruct (child_inl _ _ _ _ _ _ Hc) as (o' & fs' & Ev). subst v.
        cbn [visit]. apply IH. exact Hp'.
      * cbn [visit]. apply (check_invs_good m ev root (p ++ segs) (inr t)). exact Hp'.
Qed.

(** * Completeness: every reachable position was visited *)

Lemma reach_visited m ev root fuel errs :
  verify_at m ev fuel [] root = VErrors errs ->
  forall p owner v, at_path m root p owner v ->
    exists f' l', visit m ev (verify_at m ev f') p owner v = VErrors l' /\ incl l' errs.
Proof.
  intros Hrun. apply at_path_step_ind.
  - intros o c fs Hr. exists fuel, errs. split; [exact Hrun | apply incl_refl].
  - intros p o c fs segs owner v Hp IH Hc.
    destruct IH as (f' & l' & Hv & Hincl). cbn [visit] in Hv.
    destruct f' as [|f'']; [cbn in Hv; discriminate|].
    cbn [verify_at] in Hv.
    destruct (verify_step_child _ _ _ _ _ _ _ _ _ _ _ Hv Hc) as (l'' & E & I).
    exists f'', l''. split; [exact E | eapply incl_tran; eassumption].
Qed.

Lemma reach_checked m ev root fuel errs :
  verify_at m ev fuel [] root = VErrors errs ->
  forall p owner v, at_path m root p owner v ->
    exists l', check_invs ev (owner_invs m owner) v p = VErrors l' /\ incl l' errs.
Proof.
  intros Hrun p owner v Hp.
  destruct (reach_visited _ _ _ _ _ Hrun _ _ _ Hp) as (f' & l' & Hv & Hincl).
  destruct owner as [c|t].
  - destruct (at_path_inl _ _ _ _ _ Hp) as (o & fs & Ev). subst v.
    cbn [visit] in Hv. destruct f' as [|f'']; [cbn in Hv; discriminate|].
    cbn [verify_at] in Hv. apply verify_step_own in Hv. destruct Hv as (l'' & E & I).
    exists l''. split; [exact E | eapply incl_tran; eassumption].
  - cbn [visit] in Hv. exists l'. split; [exact Hv | exact Hincl].
Qed.

(** * Main theorems *)

Theorem verify_spec_exact : forall m ev fuel root errs,
  verify_spec m ev fuel root = VErrors errs ->
  forall d p,
    In (d, p) errs <->
    exists owner v id,
      at_path m root p owner v /\ In (id, d) (owner_invs m owner) /\
      exists w, ev id v = Val w /\ truthy w = false.
Proof.
  intros m ev fuel root errs Hrun d p. unfold verify_spec in Hrun. split.
  - intros Hin. destruct root as [| | | | | | | | |o c fs| |];
      try (destruct fuel; cbn in Hrun; inversion Hrun; subst errs; destruct Hin).
    assert (Hp : at_path m (VObj o c fs) [] (inl c) (VObj o c fs)).
    { eapply AP_root. reflexivity. }
    destruct (verify_at_good m ev (VObj o c fs) fuel [] o c fs Hp) as [G1 _].
    exact (G1 _ _ _ Hrun Hin).
  - intros (owner & v & id & Hp & Hinv & w & Ev & Ht).
    destruct (reach_checked _ _ _ _ _ Hrun _ _ _ Hp) as (l' & E & I).
    apply check_invs_errors in E. destruct E as [E1 _].
    destruct (E1 _ _ Hinv) as (w' & Ev' & Himp).
    rewrite Ev in Ev'. inversion Ev'; subst w'. apply I. apply Himp. exact Ht.
Qed.

Theorem verify_spec_raises : forall m ev fuel root x,
  verify_spec m ev fuel root = VRaise x ->
  exists owner v id d p,
    at_path m root p owner v /\ In (id, d) (owner_invs m owner) /\ ev id v = Raise x.
Proof.
  intros m ev fuel root x Hrun. unfold verify_spec in Hrun.
  destruct root as [| | | | | | | | |o c fs| |];
    try (destruct fuel; cbn in Hrun; discriminate).
  assert (Hp : at_path m (VObj o c fs) [] (inl c) (VObj o c fs)).
  { eapply AP_root. reflexivity. }
  destruct (verify_at_good m ev (VObj o c fs) fuel [] o c fs Hp) as [_ G2].
  exact (G2 _ Hrun).
Qed.

Theorem verify_spec_no_raise : forall m ev fuel root errs,
  verify_spec m ev fuel root = VErrors errs ->
  forall owner v id d p,
    at_path m root p owner v -> In (id, d) (owner_invs m owner) ->
    exists w, ev id v = Val w.
Proof.
  intros m ev fuel root errs Hrun owner v id d p Hp Hinv. unfold verify_spec in Hrun.
  destruct (reach_checked _ _ _ _ _ Hrun _ _ _ Hp) as (l' & E & I).
  apply check_invs_errors in E. destruct E as [E1 _].
  destruct (E1 _ _ Hinv) as (w & Ev & _). exists w. exact Ev.
Qed.

(** * Fuel *)

Lemma value_depth_obj o c fs :
  value_depth (VObj o c fs)
  = S (fold_right Nat.max 0 (map (fun kv => value_depth (snd kv)) fs)).
Proof. reflexivity. Qed.

Lemma value_depth_list vs :
  value_depth (VList vs) = S (fold_right Nat.max 0 (map value_depth vs)).
Proof. reflexivity. Qed.

Lemma max_fold_in (l : list nat) x : In x l -> x <= fold_right Nat.max 0 l.
Proof.
  induction l as [|y r IH]; intros Hin.
  - destruct Hin.
  - cbn [fold_right]. destruct Hin as [E|Hin].
    + subst y. lia.
    + specialize (IH Hin). lia.
Qed.

Lemma lookup_in {A : Type} (n : text) (fs : list (text * A)) (x : A) :
  lookup n fs = Some x -> exists k, In (k, x) fs.
Proof.
  induction fs as [|[k a] r IH]; intros H.
  - cbn in H. discriminate.
  - cbn [lookup] in H. destruct (text_eqb n k).
    + inversion H; subst. exists k. left. reflexivity.
    + destruct (IH H) as (k' & Hin). exists k'. right. exact Hin.
Qed.

Lemma lookup_depth o c fs n x :
  lookup n fs = Some x -> value_depth x < value_depth (VObj o c fs).
Proof.
  intros H. destruct (lookup_in _ _ _ H) as (k & Hin).
  rewrite value_depth_obj.
  assert (Hle : value_depth x
                <= fold_right Nat.max 0 (map (fun kv => value_depth (snd kv)) fs)).
  { apply max_fold_in.
    apply (in_map (fun kv : text * value => value_depth (snd kv)) fs (k, x) Hin). }
  lia.
Qed.

Lemma item_depth items i x :
  nth_error items i = Some x -> value_depth x < value_depth (VList items).
Proof.
  intros H. apply nth_error_In in H. rewrite value_depth_list.
  assert (Hle : value_depth x <= fold_right Nat.max 0 (map value_depth items)).
  { apply max_fold_in. apply in_map. exact H. }
  lia.
Qed.

Lemma child_depth m o c fs segs owner v :
  child m c fs segs owner v -> value_depth v < value_depth (VObj o c fs).
Proof.
  intros Hc. destruct Hc as [n o' c' fs' Hin Hl | n t v Hin Hl Hn
                            | n items i o' c' fs' Hin Hl Hi | n t items i v Hin Hl Hi].
  - eapply lookup_depth; eassumption.
  - eapply lookup_depth; eassumption.
  - pose proof (lookup_depth o c fs _ _ Hl) as H1.
    pose proof (item_depth _ _ _ Hi) as H2. lia.
  - pose proof (lookup_depth o c fs _ _ Hl) as H1.
    pose proof (item_depth _ _ _ Hi) as H2. lia.
Qed.

Lemma verify_at_fuel m ev : forall fuel p v,
  value_depth v < fuel -> verify_at m ev fuel p v <> VOutOfFuel.
Proof.
  induction fuel as [|f IH]; intros p v Hd.
  - lia.
  - cbn [verify_at].
    destruct v as [| | | | | | | | |o c fs| |]; try (cbn; discriminate).
    intros H. destruct (verify_step_explains m ev (verify_at m ev f) p o c fs) as (_ & _ & A3).
    destruct (A3 H) as [Hown | (segs & owner & v & Hc & Hv)].
    + exact (check_invs_no_oof _ _ _ _ Hown).
    + destruct owner as [c'|t].
      * cbn [visit] in Hv. pose proof (child_depth m o c fs _ _ _ Hc) as Hlt.
        apply (IH (p ++ segs) v); [lia | exact Hv].
      * cbn [visit] in Hv. exact (check_invs_no_oof _ _ _ _ Hv).
Qed.

Theorem verify_spec_fuel : forall m ev root,
  verify_spec m ev (S (value_depth root)) root <> VOutOfFuel.
Proof.
  intros m ev root. unfold verify_spec. apply verify_at_fuel. lia.
Qed.

(** * Demonstration (non-vacuity) *)

Definition demo_m : vmm :=
  mkVmm
    (fun c => if text_eqb c (s2l "A") then [(0, s2l "a0")]
              else if text_eqb c (s2l "B") then [(1, s2l "b1")] else [])
    (fun c => if text_eqb c (s2l "A")
              then [(s2l "b", VtClass); (s2l "ns", VtListCPrim (s2l "T"))] else [])
    (fun t => if text_eqb t (s2l "T") then [(2, s2l "t2")] else []).

(** Invariant 0 holds, invariant 1 fails, invariant 2 is [v >= 0] on integers. *)
Definition demo_ev (id : nat) (v : value) : pyresult :=
  match id with
  | 0 => Val (VBool true)
  | 1 => Val (VBool false)
  | 2 => match v with
         | VInt z => Val (VBool (0 <=? z)%Z)
         | VNone => Raise NoneDeref
         | _ => Raise TypeErr
         end
  | _ => Raise NameErr
  end.

Definition demo_instance (item1 : value) : value :=
  VObj 0 (s2l "A")
    [(s2l "b", VObj 1 (s2l "B") []);
     (s2l "ns", VList [VInt 1; item1; VInt 2])].

Example verify_spec_demo :
  verify_spec demo_m demo_ev 3 (demo_instance (VInt (-1)))
  = VErrors [(s2l "b1", [SPName (s2l "b")]);
             (s2l "t2", [SPName (s2l "ns"); SIdx 1])].
Proof. vm_compute; reflexivity. Qed.

(** A [None] item inside a list of constrained primitives is not skipped: its invariant is
    evaluated and here raises; the error found before is lost. *)
Example verify_spec_demo_raise :
  verify_spec demo_m demo_ev 3 (demo_instance VNone) = VRaise NoneDeref.
Proof. vm_compute; reflexivity. Qed.

Example verify_spec_demo_fuel :
  verify_spec demo_m demo_ev 1 (demo_instance (VInt 0)) = VOutOfFuel
  /\ value_depth (demo_instance (VInt 0)) = 2.
Proof. vm_compute. split; reflexivity. Qed.
