(** C18 — correctness of the label-free compilation [comp_*] (Model/RevmComp.v) with
    respect to the matching semantics of Model/RevmTree.v, by fragment invariants. *)
From Coq Require Import List NArith Bool Arith Lia.
From Acg Require Import Base.Outcome Model.RevmTree Model.Revm Model.RevmVM Model.RevmComp Model.RevmShape
  Proofs.RevmFrag.
Import ListNotations.

Scheme value_mind := Induction for value Sort Prop
  with term_mind := Induction for term Sort Prop
  with concat_mind := Induction for concat Sort Prop
  with union_mind := Induction for union Sort Prop.
Combined Scheme tree_mutind from value_mind, term_mind, concat_mind, union_mind.

(** * lengths *)
Section QuantLen.
  Variable body : nat -> list instr.
  Variable blen : nat.
  Hypothesis Hlen : forall a, length (body a) = blen.

  Lemma copies_length : forall k a, length (copies body blen k a) = k * blen.
  Proof.
    induction k as [|k IH]; intros a; cbn [copies]; [reflexivity|].
    rewrite app_length, Hlen, IH. lia.
  Qed.

  Lemma optionals_length : forall k final a,
    length (optionals body blen k final a) = k * S blen.
  Proof.
    induction k as [|k IH]; intros final a; cbn [optionals]; [reflexivity|].
    cbn [length]. rewrite app_length, Hlen, IH. lia.
  Qed.

  Lemma comp_quant_length : forall q a, length (comp_quant body blen q a) = qlen blen q.
  Proof.
    intros q a. unfold comp_quant, qlen.
    destruct (Nat.eqb (q_min q) 1 && match q_max q with Some 1 => true | _ => false end);
      [apply Hlen|].
    destruct (q_max q) as [mx|].
    - rewrite app_length, copies_length, optionals_length. reflexivity.
    - destruct (q_min q) as [|m].
      + cbn [length]. rewrite app_length, Hlen. cbn [length]. lia.
      + rewrite app_length, copies_length, app_length, Hlen. cbn [length]. lia.
  Qed.
End QuantLen.

Lemma comp_u_alts : forall u a, comp_u u a = comp_alts u (a + ulen u) a.
Proof. intros u a. destruct u as [|c u']; [reflexivity|]. destruct u'; reflexivity. Qed.

Lemma comp_lengths :
  (forall v a, length (comp_v v a) = vlen v)
  /\ (forall t a, length (comp_t t a) = tlen t)
  /\ (forall c a, length (comp_c c a) = clen c)
  /\ (forall u final a, length (comp_alts u final a) = ulen u).
Proof.
  apply tree_mutind.
  - intros s a. destruct s; reflexivity.
  - reflexivity.
  - reflexivity.
  - intros u IH a. cbn [comp_v vlen]. rewrite comp_u_alts. apply IH.
  - intros v IHv q a. destruct q as [q|]; cbn [comp_t tlen]; [|apply IHv].
    apply comp_quant_length. exact IHv.
  - reflexivity.
  - intros t IHt c IHc a. cbn [comp_c clen]. rewrite app_length, IHt, IHc. reflexivity.
  - reflexivity.
  - intros c IHc u IHu final a. destruct u as [|c2 u2].
    + cbn [comp_alts ulen]. apply IHc.
    + change (comp_alts (UCons c (UCons c2 u2)) final a)
        with (ISplit (S a) (a + S (S (clen c))) :: comp_c c (S a)
                ++ IJump final :: comp_alts (UCons c2 u2) final (a + S (S (clen c)))).
      change (ulen (UCons c (UCons c2 u2))) with (S (clen c) + S (ulen (UCons c2 u2))).
      cbn [length]. rewrite app_length. cbn [length]. rewrite IHc, IHu. lia.
Qed.

Definition comp_v_length := proj1 comp_lengths.
Definition comp_t_length := proj1 (proj2 comp_lengths).
Definition comp_c_length := proj1 (proj2 (proj2 comp_lengths)).
Definition comp_alts_length := proj2 (proj2 (proj2 comp_lengths)).

(** * relation algebra for quantifiers *)
Definition ropt (R : rel) : nat -> rel :=
  fix go k := match k with O => rid | S k' => ror (rseq R (go k')) rid end.

Lemma ropt_spec : forall R k i j, ropt R k i j <-> exists n, n <= k /\ rpow R n i j.
Proof.
  intros R k. induction k as [|k IH]; intros i j; cbn [ropt].
  - unfold rid. split.
    + intros H. exists 0. split; [lia|exact H].
    + intros [n [Hn H]]. assert (n = 0) by lia. subst. exact H.
  - unfold ror, rseq, rid. split.
    + intros [[m [H1 H2]]|H].
      * apply IH in H2. destruct H2 as [n [Hn H2]]. exists (S n). split; [lia|].
        exists m. split; assumption.
      * exists 0. split; [lia|exact H].
    + intros [n [Hn H]]. destruct n as [|n].
      * right. exact H.
      * left. destruct H as [m [H1 H2]]. exists m. split; [exact H1|].
        apply IH. exists n. split; [lia|exact H2].
Qed.

Lemma rrep_bounded : forall R mn k,
  req (rseq (rpow R mn) (ropt R k)) (rrep R mn (Some (mn + k))).
Proof.
  intros R mn k i j. unfold rseq, rrep. split.
  - intros [m [H1 H2]]. apply ropt_spec in H2. destruct H2 as [n [Hn H2]].
    exists (mn + n). split; [lia|]. split; [lia|]. eapply rpow_app; eassumption.
  - intros [n [H1 [H2 H3]]]. replace n with (mn + (n - mn)) in H3 by lia.
    apply rpow_split in H3. destruct H3 as [m [K1 K2]]. exists m. split; [exact K1|].
    apply ropt_spec. exists (n - mn). split; [lia|exact K2].
Qed.

Lemma rrep_star : forall R, req (rstar R) (rrep R 0 None).
Proof.
  intros R i j. unfold rstar, rrep. split.
  - intros [n H]. exists n. split; [lia|]. split; [exact I|exact H].
  - intros [n [_ [_ H]]]. exists n. exact H.
Qed.

Lemma rrep_plus : forall R m, req (rseq (rpow R m) (rplus R)) (rrep R (S m) None).
Proof.
  intros R m i j. unfold rseq, rplus, rrep. split.
  - intros [x [H1 [n H2]]]. exists (m + S n). split; [lia|]. split; [exact I|].
    eapply rpow_app; eassumption.
  - intros [n [H1 [_ H3]]]. replace n with (m + S (n - S m)) in H3 by lia.
    apply rpow_split in H3. destruct H3 as [x [K1 K2]]. exists x. split; [exact K1|].
    exists (n - S m). exact K2.
Qed.

Lemma rrep_one : forall R, req R (rrep R 1 (Some 1)).
Proof.
  intros R i j. unfold rrep. split.
  - intros H. exists 1. split; [lia|]. split; [lia|]. exists j. split; [exact H|reflexivity].
  - intros [n [H1 [H2 H3]]]. assert (n = 1) by lia. subst. destruct H3 as [m [K1 K2]].
    cbn in K2. subst. exact K1.
Qed.

(** * fragments of quantified code *)
Section QuantFrag.
  Variable p : list instr.
  Variable w : list N.
  Variable body : nat -> list instr.
  Variable blen : nat.
  Variable R : rel.
  Hypothesis Hlen : forall a, length (body a) = blen.
  Hypothesis Hbody : forall a, at_off p a (body a) -> frag p w a (a + blen) R.

  Lemma frag_copies : forall k a, at_off p a (copies body blen k a) ->
    frag p w a (a + k * blen) (rpow R k).
  Proof.
    induction k as [|k IH]; intros a Hat.
    - cbn [rpow]. replace (a + 0 * blen) with a by lia. apply frag_id.
    - cbn [copies] in Hat. apply at_off_app in Hat. destruct Hat as [H1 H2].
      rewrite Hlen in H2. cbn [rpow].
      apply frag_ext with (R := rseq R (rpow R k)); [intros i j; reflexivity|].
      apply frag_seq with (b := a + blen); [apply Hbody; exact H1| |lia|lia].
      replace (a + S k * blen) with (a + blen + k * blen) by lia. apply IH. exact H2.
  Qed.

  Lemma frag_optionals : forall k final a, final = a + k * S blen ->
    at_off p a (optionals body blen k final a) -> frag p w a final (ropt R k).
  Proof.
    induction k as [|k IH]; intros final a Hf Hat.
    - cbn [ropt]. replace final with a by lia. apply frag_id.
    - cbn [optionals] in Hat. apply at_off_cons in Hat. destruct Hat as [H0 Hat].
      apply at_off_app in Hat. destruct Hat as [H1 H2]. rewrite Hlen in H2.
      cbn [ropt]. apply frag_opt; [exact H0| |lia].
      apply frag_seq with (b := S a + blen); [apply Hbody; exact H1| |lia|lia].
      apply IH; [lia|exact H2].
  Qed.

  Lemma frag_quant : forall q a, okq q = true ->
    at_off p a (comp_quant body blen q a) ->
    frag p w a (a + qlen blen q) (rrep R (q_min q) (q_max q)).
  Proof.
    intros q a Hok Hat. unfold comp_quant in Hat. unfold qlen. unfold okq in Hok.
    destruct (Nat.eqb (q_min q) 1 && match q_max q with Some 1 => true | _ => false end) eqn:E11.
    - apply andb_prop in E11. destruct E11 as [E1 E2]. apply Nat.eqb_eq in E1.
      destruct (q_max q) as [[|[|mx]]|]; try discriminate. rewrite E1.
      apply frag_ext with (R := R); [apply rrep_one|]. apply Hbody. exact Hat.
    - destruct (q_max q) as [mx|].
      + apply Nat.leb_le in Hok.
        apply at_off_app in Hat. destruct Hat as [H1 H2]. rewrite copies_length in H2 by exact Hlen.
        apply frag_ext with (R := rseq (rpow R (q_min q)) (ropt R (mx - q_min q))).
        { replace (Some mx) with (Some (q_min q + (mx - q_min q))) by (f_equal; lia).
          apply rrep_bounded. }
        apply frag_seq with (b := a + q_min q * blen); [apply frag_copies; exact H1| |lia|lia].
        apply frag_optionals; [lia|].
        replace (a + (q_min q * blen + (mx - q_min q) * S blen))
          with (a + q_min q * blen + (mx - q_min q) * S blen) by lia. exact H2.
      + destruct (q_min q) as [|m].
        * apply at_off_cons in Hat. destruct Hat as [H0 Hat]. apply at_off_app in Hat.
          destruct Hat as [H1 H2]. rewrite Hlen in H2. apply at_off_cons in H2. destruct H2 as [H2 _].
          apply frag_ext with (R := rstar R); [apply rrep_star|].
          replace (a + S (S blen)) with (S (S a + blen)) in * by lia.
          apply frag_star; [exact H0|apply Hbody; exact H1|lia|exact H2].
        * apply at_off_app in Hat. destruct Hat as [H1 H2]. rewrite copies_length in H2 by exact Hlen.
          apply at_off_app in H2. destruct H2 as [H2 H3]. rewrite Hlen in H3.
          apply at_off_cons in H3. destruct H3 as [H3 _].
          apply frag_ext with (R := rseq (rpow R m) (rplus R)); [apply rrep_plus|].
          apply frag_seq with (b := a + m * blen); [apply frag_copies; exact H1| |lia|lia].
          replace (a + (m * blen + S blen)) with (S (a + m * blen + blen)) by lia.
          apply frag_plus; [apply Hbody; exact H2|lia|].
          replace (S (a + m * blen + blen)) with (a + m * blen + S blen) by lia. exact H3.
  Qed.
End QuantFrag.

(** * sets *)
Lemma in_rs_insert : forall c x l, in_rs c (insert_range x l) = in_rs c (x :: l).
Proof.
  intros c x l. induction l as [|y r IH]; [reflexivity|].
  cbn [insert_range]. destruct (N.leb (fst x) (fst y)); [reflexivity|].
  cbn [in_rs] in *. destruct x as [xa xb], y as [ya yb]. rewrite IH.
  destruct (N.leb xa c && N.leb c xb), (N.leb ya c && N.leb c yb); reflexivity.
Qed.

Lemma in_rs_sort : forall c l, in_rs c (sort_ranges l) = in_rs c l.
Proof.
  intros c l. induction l as [|x r IH]; [reflexivity|].
  cbn [sort_ranges]. rewrite in_rs_insert. cbn [in_rs]. destruct x. rewrite IH. reflexivity.
Qed.

Lemma in_rs_norm : forall c rs,
  in_rs c (map (fun r : N * option N => (fst r, match snd r with Some b => b | None => fst r end)) rs)
  = in_ranges c rs.
Proof.
  intros c rs. induction rs as [|[a [b|]] r IH]; [reflexivity| |]; cbn [map in_rs in_ranges existsb in_range fst snd].
  - unfold in_ranges in IH. rewrite IH. reflexivity.
  - unfold in_ranges in IH. rewrite IH. f_equal.
    destruct (N.eqb_spec c a) as [->|Hne].
    + rewrite N.leb_refl. reflexivity.
    + destruct (N.leb_spec a c), (N.leb_spec c a); try reflexivity. lia.
Qed.

Lemma consumes_set : forall compl rs c,
  consumes (set_instr compl rs) c = xorb compl (in_ranges c rs).
Proof.
  intros compl rs c. unfold set_instr. destruct compl; cbn [consumes];
    rewrite in_rs_sort, in_rs_norm; destruct (in_ranges c rs); reflexivity.
Qed.

(** * the fragment theorem *)
Section Main.
  Variable p : list instr.
  Variable w : list N.
  Hypothesis Hnl : no_linebreak w.

  Lemma nth_not_lf : forall i c, nth_error w i = Some c -> c <> LF.
  Proof. intros i c H Hc. subst. apply Hnl. eapply nth_error_In. exact H. Qed.

  Lemma at_end_iff : forall i, at_end w i <-> i = length w.
  Proof.
    intros i. unfold at_end. split; [|tauto].
    intros [H|[_ H]]; [exact H|]. exfalso. eapply nth_not_lf; [exact H|reflexivity].
  Qed.

  Lemma comp_frag :
    (forall v, okv v = true -> forall a, at_off p a (comp_v v a) ->
               frag p w a (a + vlen v) (dv w v))
    /\ (forall t, okt t = true -> forall a, at_off p a (comp_t t a) ->
                  frag p w a (a + tlen t) (dt w t))
    /\ (forall c, okc c = true -> forall a, at_off p a (comp_c c a) ->
                  frag p w a (a + clen c) (dc w c))
    /\ (forall u, oku u = true -> forall a, at_off p a (comp_alts u (a + ulen u) a) ->
                  frag p w a (a + ulen u) (du w u)).
  Proof.
    apply tree_mutind.
    - (* symbols *)
      intros s Hok a Hat. destruct s; [discriminate| |].
      + cbn [comp_v] in Hat. apply at_off_cons in Hat. destruct Hat as [H0 _].
        cbn [vlen dv dsym]. replace (a + 1) with (S a) by lia.
        eapply frag_ext; [|apply frag_end; exact H0].
        intros i j. rewrite at_end_iff. tauto.
      + cbn [comp_v] in Hat. apply at_off_cons in Hat. destruct Hat as [H0 _].
        cbn [vlen dv dsym]. replace (a + 1) with (S a) by lia.
        eapply frag_ext; [|apply (frag_consume p w a IAny H0 I)].
        intros i j. cbn [consumes]. split.
        * intros [Hj [c [Hc _]]]. split; [exact Hj|]. exists c. split; [exact Hc|].
          eapply nth_not_lf. exact Hc.
        * intros [Hj [c [Hc _]]]. split; [exact Hj|]. exists c. split; [exact Hc|reflexivity].
    - (* char *)
      intros c _ a Hat. cbn [comp_v] in Hat. apply at_off_cons in Hat. destruct Hat as [H0 _].
      cbn [vlen dv]. replace (a + 1) with (S a) by lia.
      eapply frag_ext; [|apply (frag_consume p w a (IChar c) H0 I)].
      intros i j. cbn [consumes]. split.
      + intros [Hj [d [Hd He]]]. apply N.eqb_eq in He. subst d. split; assumption.
      + intros [Hj Hc]. split; [exact Hj|]. exists c. split; [exact Hc|apply N.eqb_refl].
    - (* set *)
      intros compl rs _ a Hat. cbn [comp_v] in Hat. apply at_off_cons in Hat.
      destruct Hat as [H0 _]. cbn [vlen dv]. replace (a + 1) with (S a) by lia.
      assert (Hk : consuming (set_instr compl rs)) by (unfold set_instr; destruct compl; exact I).
      eapply frag_ext; [|apply (frag_consume p w a _ H0 Hk)].
      intros i j. split; intros [Hj [c [Hc Hx]]]; (split; [exact Hj|]); exists c;
        (split; [exact Hc|]); rewrite consumes_set in *; exact Hx.
    - (* group *)
      intros u IH Hok a Hat. cbn [comp_v] in Hat. rewrite comp_u_alts in Hat.
      cbn [vlen dv]. apply IH; assumption.
    - (* term *)
      intros v IHv q Hok a Hat. destruct q as [q|].
      + cbn [okt] in Hok. apply andb_prop in Hok. destruct Hok as [Hv Hq].
        cbn [comp_t] in Hat. cbn [tlen dt].
        apply frag_quant with (body := comp_v v); try assumption.
        * apply comp_v_length.
        * intros a' Ha'. apply IHv; assumption.
      + cbn [okt] in Hok. cbn [comp_t] in Hat. cbn [tlen dt]. apply IHv; assumption.
    - (* CNil *)
      intros _ a _. cbn [clen dc]. replace (a + 0) with a by lia. apply frag_id.
    - (* CCons *)
      intros t IHt c IHc Hok a Hat. cbn [okc] in Hok. apply andb_prop in Hok.
      destruct Hok as [Ht Hc]. cbn [comp_c] in Hat. apply at_off_app in Hat.
      destruct Hat as [H1 H2]. rewrite comp_t_length in H2. cbn [clen dc].
      apply frag_ext with (R := rseq (dt w t) (dc w c)); [intros i j; reflexivity|].
      apply frag_seq with (b := a + tlen t); [apply IHt; assumption| |lia|lia].
      replace (a + (tlen t + clen c)) with (a + tlen t + clen c) by lia. apply IHc; assumption.
    - (* UNil *)
      intros _ a _. cbn [ulen du]. replace (a + 0) with a by lia. apply frag_id.
    - (* UCons *)
      intros c IHc u IHu Hok a Hat. cbn [oku] in Hok. apply andb_prop in Hok.
      destruct Hok as [Hc Hu]. destruct u as [|c2 u2].
      + cbn [comp_alts ulen] in *. cbn [du]. apply IHc; assumption.
      + change (du w (UCons c (UCons c2 u2))) with (ror (dc w c) (du w (UCons c2 u2))).
        change (ulen (UCons c (UCons c2 u2))) with (S (clen c) + S (ulen (UCons c2 u2))) in *.
        set (u' := UCons c2 u2) in *.
        change (comp_alts (UCons c u') (a + (S (clen c) + S (ulen u'))) a)
          with (ISplit (S a) (a + S (S (clen c))) :: comp_c c (S a)
                  ++ IJump (a + (S (clen c) + S (ulen u')))
                  :: comp_alts u' (a + (S (clen c) + S (ulen u'))) (a + S (S (clen c)))) in Hat.
        apply at_off_cons in Hat. destruct Hat as [H0 Hat]. apply at_off_app in Hat.
        destruct Hat as [H1 H2]. rewrite comp_c_length in H2.
        apply at_off_cons in H2. destruct H2 as [H2 H3].
        replace (a + S (S (clen c))) with (S (S a + clen c)) in * by lia.
        apply frag_alt with (m := S a + clen c).
        * exact H0.
        * apply IHc; assumption.
        * lia.
        * exact H2.
        * replace (a + (S (clen c) + S (ulen u'))) with (S (S a + clen c) + ulen u') in * by lia.
          apply IHu; assumption.
        * lia.
  Qed.
End Main.
