(** Model of [aas_core_codegen.common.wrap_text_into_lines] (C27, used by C08).

    Hand-written; tied to the code by the correspondence stream of
    [harness/props/c27.py]. The article tuples and default width are additionally
    regenerated from the source into [Gen/GenWrap.v]. Executable definitions only. *)
From Coq Require Import List NArith ZArith Bool.
From Acg Require Import Base.Str.
Import ListNotations.
Open Scope Z_scope.

Definition is_empty {A} (p : list A) : bool := match p with [] => true | _ => false end.

Section Wrap.
  (** The tuples of the two [part in ("a", "an", "the")] tests, in source order. *)
  Variable articles1 articles2 : list text.

  Definition is_article1 (p : text) : bool := mem_text p articles1.
  Definition is_article2 (p : text) : bool := mem_text p articles2.

  (** First loop; [article] is the pending article (with the blanks that followed it). *)
  Fixpoint tokens_loop (parts : list text) (article : option text) : list text :=
    match parts with
    | [] => match article with Some a => [a] | None => [] end
    | p :: ps =>
        match article with
        | None =>
            if is_article1 p then tokens_loop ps (Some p)
            else p :: tokens_loop ps None
        | Some a =>
            if is_article2 p then a :: tokens_loop ps (Some p)
            else if is_empty p then tokens_loop ps (Some (a ++ [SP])%list)
            else (a ++ [SP] ++ p)%list :: tokens_loop ps None
        end
    end.

  (** [f"{token} " if i < len(tokens) - 1 else token]. *)
  Fixpoint add_spaces (tokens : list text) : list text :=
    match tokens with
    | [] => []
    | [t] => [t]
    | t :: r => (t ++ [SP])%list :: add_spaces r
    end.

  (** Second loop. State: [accumulation_len], ["".join(accumulation)]. *)
  Fixpoint segments_loop (w : Z) (tokens : list text) (acc_len : Z) (acc : text)
    : list text :=
    match tokens with
    | [] => if 0 <? acc_len then [acc] else []
    | t :: r =>
        if w <? zlen t then acc :: t :: segments_loop w r 0 []
        else if w <? acc_len + zlen t then acc :: segments_loop w r (zlen t) t
        else segments_loop w r (acc_len + zlen t) (acc ++ t)%list
    end.

  Definition tokens_of (t : text) : list text :=
    add_spaces (tokens_loop (split_on SP t) None).

  Definition wrap (w : Z) (t : text) : list text :=
    match split_on SP t with
    | [_] => [t]
    | _ => segments_loop w (tokens_of t) 0 []
    end.

  (** The word a text ends with / starts with (blanks skipped). *)
  Fixpoint drop_blanks (r : text) : text :=
    match r with
    | x :: r' => if N.eqb x SP then drop_blanks r' else r
    | [] => []
    end.
  Fixpoint take_word (r : text) : text :=
    match r with
    | x :: r' => if N.eqb x SP then [] else x :: take_word r'
    | [] => []
    end.
  Definition last_word (seg : text) : text := rev (take_word (drop_blanks (rev seg))).
  Definition first_word (seg : text) : text := take_word (drop_blanks seg).

  (** The article rule on a list of segments: a segment whose last word is an article
      is followed (blanks skipped) by nothing or by another article (consecutive
      articles are split by design; the repository's own unit test
      [test_only_articles] pins that). *)
  Definition seg_ok (s rest : text) : bool :=
    negb (is_article1 (last_word s))
    || is_empty (first_word rest) || is_article1 (first_word rest).
  Fixpoint article_rule (segs : list text) : bool :=
    match segs with
    | [] => true
    | s :: r => seg_ok s (concat r) && article_rule r
    end.
End Wrap.
