(** C01 — positional / keyword argument unpacking of the constant markers
    ([parse/_translate.py]: [_parse_constant_set], [_parse_constant_primitive]) and the
    atomic type annotation given as a string constant ([_type_annotation]).

    The index arithmetic of the code is data-like: a list of guarded index accesses

        if len(node.value.args) > K:  slot = node.value.args[I]         (assignment)
        if len(node.value.args) > K:  return None, Error(node.value.args[I], ...)

    followed by a keyword loop  [if kwarg.arg == "name": slot = kwarg.value ... else: Error].
    The guard list and the keyword table are re-translated from the source on every run
    ([Gen/GenLoadModel.v]); this file gives them their meaning with explicit [Crash].
    Nothing is totalised: [args[I]] with [I >= len(args)] is [Crash IndexError].

    No proofs here (see Proofs/ArgUnpackFacts.v). *)
From Coq Require Import List NArith Arith Bool.
From Acg Require Import Base.Outcome Base.Str.
Import ListNotations.

(** One guarded access: [if len(args) > g_gt: ... args[g_idx] ...]. [g_slot = None]
    means the access builds the "too many arguments" error and returns it. *)
Record guard : Type := mkGuard {
  g_gt : nat;
  g_idx : nat;
  g_slot : option nat
}.

Record unpack_spec : Type := mkSpec {
  sp_slots : nat;                       (* number of argument slots, all start as None *)
  sp_guards : list guard;               (* in source order *)
  sp_keywords : list (text * nat);      (* keyword name -> slot *)
  sp_required : list nat                (* slots that must be set: otherwise reported *)
}.

Inductive unpack_error : Type :=
| TooManyArguments
| UnexpectedKeyword
| MissingRequired.

Definition unpack_error_eqb (a b : unpack_error) : bool :=
  match a, b with
  | TooManyArguments, TooManyArguments | UnexpectedKeyword, UnexpectedKeyword
  | MissingRequired, MissingRequired => true
  | _, _ => false
  end.

Section Unpack.
  Variable A : Type.   (* argument nodes of the call *)

  (** Python's [xs[i]] for a non-negative literal [i]. *)
  Definition index (xs : list A) (i : nat) : outcome A unpack_error :=
    match nth_error xs i with
    | Some a => Ok a
    | None => Crash IndexError
    end.

  Fixpoint set_slot (slots : list (option A)) (i : nat) (a : A) : list (option A) :=
    match slots, i with
    | [], _ => []
    | _ :: r, O => Some a :: r
    | s :: r, S j => s :: set_slot r j a
    end.

  Fixpoint run_guards (gs : list guard) (args : list A) (slots : list (option A))
    : outcome (list (option A)) unpack_error :=
    match gs with
    | [] => Ok slots
    | g :: r =>
        if Nat.ltb (g_gt g) (length args) then
          do a <- index args (g_idx g);
          match g_slot g with
          | Some s => run_guards r args (set_slot slots s a)
          | None => Err TooManyArguments
          end
        else run_guards r args slots
    end.

  Fixpoint lookup_kw (tbl : list (text * nat)) (name : text) : option nat :=
    match tbl with
    | [] => None
    | (k, s) :: r => if text_eqb k name then Some s else lookup_kw r name
    end.

  (** [kwarg.arg] is [None] for [**mapping]; it then equals no expected name. *)
  Fixpoint run_keywords (tbl : list (text * nat)) (kws : list (option text * A))
           (slots : list (option A)) : outcome (list (option A)) unpack_error :=
    match kws with
    | [] => Ok slots
    | (name, v) :: r =>
        match match name with Some n => lookup_kw tbl n | None => None end with
        | Some s => run_keywords tbl r (set_slot slots s v)
        | None => Err UnexpectedKeyword
        end
    end.

  Definition slot_set (slots : list (option A)) (i : nat) : bool :=
    match nth_error slots i with
    | Some (Some _) => true
    | _ => false          (* reading a local variable that is None: just a test *)
    end.

  Definition unpack (sp : unpack_spec) (args : list A) (kws : list (option text * A))
    : outcome (list (option A)) unpack_error :=
    do s1 <- run_guards (sp_guards sp) args (repeat None (sp_slots sp));
    do s2 <- run_keywords (sp_keywords sp) kws s1;
    if forallb (slot_set s2) (sp_required sp) then Ok s2 else Err MissingRequired.
End Unpack.

Arguments index {A}.
Arguments set_slot {A}.
Arguments run_guards {A}.
Arguments run_keywords {A}.
Arguments unpack {A}.
Arguments slot_set {A}.

(** Decidable side condition under which no guarded access can be out of range. *)
Definition guard_ok (g : guard) : bool := Nat.leb (g_idx g) (g_gt g).
Definition spec_ok (sp : unpack_spec) : bool := forallb guard_ok (sp_guards sp).

(** Witness search for a broken specification: the smallest number of positional
    arguments on which some access is out of range. *)
Fixpoint crash_witness_from (sp : unpack_spec) (n fuel : nat) : option nat :=
  match fuel with
  | O => None
  | S f =>
      match run_guards (sp_guards sp) (seq 0 n) (repeat None (sp_slots sp)) with
      | Crash _ => Some n
      | _ => crash_witness_from sp (S n) f
      end
  end.
Definition crash_witness (sp : unpack_spec) : option nat := crash_witness_from sp 0 12.

(** * Atomic type annotation given as a constant ([_type_annotation], [ast.Constant]
    branch, and the same shape for the other places that build an [Identifier] from
    user-controlled text).

    [Identifier(value)] carries the icontract precondition [IDENTIFIER_RE.fullmatch];
    the checks executed before the construction are translated from the source. *)
Inductive pre_check : Type :=
| CheckIsStr          (* isinstance(node.value, str), else reported *)
| CheckIsIdentifier.  (* IDENTIFIER_RE.fullmatch(node.value), else reported *)

Record const_value : Type := mkConst { cv_is_str : bool; cv_is_identifier : bool }.

Fixpoint run_checks (cs : list pre_check) (v : const_value) : bool :=
  match cs with
  | [] => true
  | CheckIsStr :: r => cv_is_str v && run_checks r v
  | CheckIsIdentifier :: r => cv_is_identifier v && run_checks r v
  end.

(** [Identifier(x)]: a [str] subclass whose [__new__] requires the regular expression;
    [fullmatch] on a non-string raises TypeError. *)
Definition make_identifier (v : const_value) : outcome unit unit :=
  if negb (cv_is_str v) then Crash TypeError
  else if cv_is_identifier v then Ok tt else Crash Violation.

Definition annotation_of_constant (cs : list pre_check) (v : const_value) : outcome unit unit :=
  if run_checks cs v then make_identifier v else Err tt.

Definition has_check (c : pre_check) (cs : list pre_check) : bool :=
  existsb (fun x => match x, c with
                    | CheckIsStr, CheckIsStr | CheckIsIdentifier, CheckIsIdentifier => true
                    | _, _ => false end) cs.
Definition checks_ok (cs : list pre_check) : bool :=
  has_check CheckIsStr cs && has_check CheckIsIdentifier cs.
