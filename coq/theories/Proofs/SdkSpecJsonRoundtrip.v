(** [from_json (to_json i) = Ok i] for the specification of Model/SdkSpec.v (C10). *)
From Coq Require Import List NArith ZArith Bool Lia.
From Acg Require Import Base.Str Base.Outcome Model.SdkSpec Proofs.SdkSpecConstFacts
  Proofs.SdkSpecFacts Proofs.SdkSpecJsonFacts.
Import ListNotations.
Local Open Scope nat_scope.

Section value_ind'.
  Variable P : value -> Prop.
  Hypothesis HNone : P VNone.
  Hypothesis HBool : forall b, P (VBool b).
  Hypothesis HInt : forall z, P (VInt z).
  Hypothesis HFloat : forall f, P (VFloat f).
  Hypothesis HStr : forall s, P (VStr s).
  Hypothesis HBytes : forall b, P (VBytes b).
  Hypothesis HEnum : forall e l, P (VEnum e l).
  Hypothesis HList : forall vs, Forall P vs -> P (VList vs).
  Hypothesis HObj : forall c fs, Forall P fs -> P (VObj c fs).
  Fixpoint value_ind' (v : value) : P v :=
    match v with
    | VNone => HNone | VBool b => HBool b | VInt z => HInt z | VFloat f => HFloat f
    | VStr s => HStr s | VBytes b => HBytes b | VEnum e l => HEnum e l
    | VList vs =>
        HList vs ((fix go (l : list value) : Forall P l :=
                     match l with [] => Forall_nil _ | x :: r => Forall_cons x (value_ind' x) (go r) end) vs)
    | VObj c fs =>
        HObj c fs ((fix go (l : list value) : Forall P l :=
                      match l with [] => Forall_nil _ | x :: r => Forall_cons x (value_ind' x) (go r) end) fs)
    end.
End value_ind'.

Lemma nodup_text_NoDup : forall l, nodup_text l = true -> NoDup l.
Proof.
  induction l as [|x l IH]; cbn; intros H; [constructor|].
  apply andb_true_iff in H as [H1 H2]. constructor; [|auto].
  intros Hin. apply mem_text_in in Hin. rewrite Hin in H1. discriminate.
Qed.

Lemma find_cls_in_In : forall cs n k, find_cls_in cs n = Some k -> In k cs.
Proof.
  induction cs as [|c cs IH]; cbn; intros n k H; [discriminate|].
  destruct (text_eqb (c_name c) n); [inversion H; now left|right; eauto].
Qed.
Lemma find_enum_in_In : forall es n e, find_enum_in es n = Some e -> In e es.
Proof.
  induction es as [|c cs IH]; cbn; intros n k H; [discriminate|].
  destruct (text_eqb (e_name c) n); [inversion H; now left|right; eauto].
Qed.

Lemma last_assoc_app : forall k (a b : list (text * value)),
  last_assoc k (a ++ b) = match last_assoc k b with Some v => Some v | None => last_assoc k a end.
Proof.
  intros k a b. induction a as [|[k' v] a IH]; cbn; [destruct (last_assoc k b); reflexivity|].
  rewrite IH. destruct (last_assoc k b); [reflexivity|]. reflexivity.
Qed.

(** the (key, value) pairs the setters record: one per set property *)
Fixpoint present (ps : list prop) (fs : list value) : list (text * value) :=
  match ps, fs with
  | p :: ps', f :: fs' => (if is_none f then [] else [(p_json p, f)]) ++ present ps' fs'
  | _, _ => []
  end.

Lemma last_assoc_present_notin : forall k ps fs,
  ~ In k (map p_json ps) -> last_assoc k (present ps fs) = None.
Proof.
  intros k ps. induction ps as [|p ps IH]; intros [|f fs] H; try reflexivity.
  cbn [present]. rewrite last_assoc_app. rewrite IH by (intros Hin; apply H; now right).
  destruct (is_none f); [reflexivity|]. cbn.
  destruct (text_eqb (p_json p) k) eqn:E; [|reflexivity].
  apply text_eqb_eq in E. exfalso. apply H. now left.
Qed.

Lemma build_present : forall m ps fs pre,
  NoDup (map p_json ps) -> wf_fields m ps fs = true ->
  (forall p, In p ps -> last_assoc (p_json p) pre = None) ->
  build_fields ps (pre ++ present ps fs) = Ok fs.
Proof.
  intros m ps. induction ps as [|p ps IH]; intros [|f fs] pre Hnd Hwf Hpre; try discriminate; [reflexivity|].
  rewrite wf_fields_cons in Hwf. apply andb_true_iff in Hwf as [Hf Hr].
  inversion Hnd as [|? ? Hnot Hnd']; subst.
  cbn [build_fields present].
  assert (Hlast : last_assoc (p_json p) (pre ++ (if is_none f then [] else [(p_json p, f)]) ++ present ps fs)
                  = if is_none f then None else Some f).
  { rewrite last_assoc_app, last_assoc_app, (last_assoc_present_notin _ _ _ Hnot).
    destruct (is_none f); cbn; [apply Hpre; now left|now rewrite text_eqb_refl]. }
  rewrite Hlast.
  assert (Hrest : build_fields ps (pre ++ (if is_none f then [] else [(p_json p, f)]) ++ present ps fs) = Ok fs).
  { rewrite app_assoc. apply IH; try assumption.
    intros q Hq. rewrite last_assoc_app. destruct (is_none f); cbn.
    - apply Hpre. now right.
    - destruct (text_eqb (p_json p) (p_json q)) eqn:E.
      + apply text_eqb_eq in E. exfalso. apply Hnot. rewrite E. now apply in_map.
      + apply Hpre. now right. }
  rewrite Hrest. destruct (is_none f) eqn:En; [|reflexivity].
  destruct f; try discriminate. cbn in Hf. now rewrite Hf.
Qed.

Lemma find_prop_nodup : forall ps p, NoDup (map p_json ps) -> In p ps -> find_prop ps (p_json p) = Some p.
Proof.
  induction ps as [|q ps IH]; intros p Hnd Hin; [contradiction|].
  inversion Hnd as [|? ? Hnot Hnd']; subst. cbn.
  destruct Hin as [->|Hin]; [now rewrite text_eqb_refl|].
  destruct (text_eqb (p_json q) (p_json p)) eqn:E; [|auto].
  apply text_eqb_eq in E. exfalso. apply Hnot. rewrite E. now apply in_map.
Qed.

Lemma assoc_members_skip : forall {A} (k : text) ps fs (js : list A) tail,
  ~ In k (map p_json ps) ->
  assoc k ((fix mem (ps : list prop) (fs : list value) (js : list A) : list (text * A) :=
              match ps, fs, js with
              | p :: ps', f :: fs', j :: js' => (if is_none f then [] else [(p_json p, j)]) ++ mem ps' fs' js'
              | _, _, _ => []
              end) ps fs js ++ tail) = assoc k tail.
Proof.
  intros A k ps. induction ps as [|p ps IH]; intros [|f fs] [|j js] tail H; try reflexivity.
  cbn. rewrite <- app_assoc. destruct (is_none f); cbn.
  - apply IH. intros Hin. apply H. now right.
  - destruct (text_eqb (p_json p) k) eqn:E.
    + apply text_eqb_eq in E. exfalso. apply H. now left.
    + apply IH. intros Hin. apply H. now right.
Qed.

Lemma lit_of_value_rev_some : forall r l s,
  NoDup (map snd r) -> In (l, s) r -> lit_of_value_rev r s = Some l.
Proof.
  induction r as [|[n v] r IH]; intros l s Hnd Hin; [contradiction|].
  inversion Hnd as [|? ? Hnot Hnd']; subst. cbn.
  destruct Hin as [Heq|Hin].
  - inversion Heq; subst. now rewrite text_eqb_refl.
  - destruct (text_eqb v s) eqn:E; [|auto].
    apply text_eqb_eq in E. subst. exfalso. apply Hnot. change s with (snd (l, s)). now apply in_map.
Qed.

Lemma assoc_in : forall {A} k (l : list (text * A)) v, assoc k l = Some v -> In (k, v) l.
Proof.
  intros A k l. induction l as [|[k' v'] l IH]; intros v H; [discriminate|]. cbn in H.
  destruct (text_eqb k' k) eqn:E; [inversion H; subst; apply text_eqb_eq in E; subst; now left|right; auto].
Qed.

Section RT.
  Variable enc : list N -> text.
  Variable dec : text -> outcome (list N) unit.
  Variable m : mm.
  Hypothesis Hb : forall b, forallb byte_ok b = true -> dec (enc b) = Ok b.
  Hypothesis Hok : mm_ok m = true.

  Notation TJ := (to_json enc m).
  Notation FJ := (from_json dec m).

  Lemma mm_cls_ok : forall c k, find_cls m c = Some k -> cls_ok m k = true.
  Proof.
    intros c k H. unfold mm_ok in Hok. apply andb_true_iff in Hok as [_ Hc].
    rewrite forallb_forall in Hc. apply Hc. eapply find_cls_in_In. exact H.
  Qed.

  Lemma enum_ok : forall e en, find_enum m e = Some en -> NoDup (map snd (e_lits en)).
  Proof.
    intros e en H. unfold mm_ok in Hok. apply andb_true_iff in Hok as [Hok' _].
    apply andb_true_iff in Hok' as [_ He]. rewrite forallb_forall in He.
    specialize (He en (find_enum_in_In _ _ _ H)). apply andb_true_iff in He as [He _].
    now apply nodup_text_NoDup.
  Qed.

  Definition Q (v : value) : Prop := forall a, wf_atom m a v = true -> FJ a (TJ v) = Ok v.
  Definition Qd (v : value) : Prop := Q v /\ match v with VList vs => Forall Q vs | _ => True end.

  Lemma items_rt : forall a vs,
    Forall Q vs -> forallb (wf_atom m a) vs = true -> parse_items (FJ a) (map TJ vs) = Ok vs.
  Proof.
    intros a vs H. induction H as [|x r Hx Hr IH]; cbn; intros Hw; [reflexivity|].
    apply andb_true_iff in Hw as [H1 H2]. rewrite (Hx a H1), (IH H2). reflexivity.
  Qed.

  Lemma to_json_list : forall vs, TJ (VList vs) = JArr (map TJ vs).
  Proof. reflexivity. Qed.

  Lemma field_rt : forall p f, Qd f -> field_wf m p f = true -> is_none f = false ->
    field_value FJ p (TJ f) = Ok f.
  Proof.
    intros p f [Hq Hd] Hw Hn. unfold field_value.
    destruct f as [| | | | | | |vs|c fs] eqn:Ef; try discriminate.
    8: { destruct (field_wf_atom m p _ Hw Hn) as [a [Ha Hwa]]; [intros vs; discriminate|]. rewrite Ha. now apply Hq. }
    7: { cbn in Hw. destruct (p_ty p) as [a|a]; [discriminate|].
         rewrite to_json_list. now rewrite (items_rt a vs Hd Hw). }
    all: destruct (field_wf_atom m p _ Hw Hn) as [a [Ha Hwa]]; [intros vs; discriminate|]; rewrite Ha; now apply Hq.
  Qed.

  Lemma fields_rt : forall all ps fs tail,
    (forall p, In p ps -> find_prop all (p_json p) = Some p) ->
    (forall p, In p ps -> text_eqb (p_json p) MODEL_TYPE = false) ->
    wf_fields m ps fs = true -> Forall Qd fs ->
    parse_fields FJ all tail = Ok [] ->
    parse_fields FJ all (members ps fs (map TJ fs) ++ tail) = Ok (present ps fs).
  Proof.
    intros all ps. induction ps as [|p ps IH]; intros [|f fs] tail Hfind Hmt Hwf HQ Htail; try discriminate.
    - exact Htail.
    - rewrite wf_fields_cons in Hwf. apply andb_true_iff in Hwf as [Hf Hr].
      inversion HQ as [|? ? Hqf HQr]; subst.
      assert (IH' : parse_fields FJ all (members ps fs (map TJ fs) ++ tail) = Ok (present ps fs)).
      { apply IH; auto; intros q Hq; [apply Hfind|apply Hmt]; now right. }
      cbn [members map present]. destruct (is_none f) eqn:En; [exact IH'|].
      cbn [app]. rewrite parse_fields_cons, (Hmt p (or_introl eq_refl)), (Hfind p (or_introl eq_refl)).
      rewrite (field_rt p f Hqf Hf En), IH'. reflexivity.
  Qed.

  Lemma to_json_obj : forall c fs,
    TJ (VObj c fs) =
    match find_cls m c with
    | Some k => JObj (members (c_props k) fs (map TJ fs)
                      ++ (if c_with_mt k then [(MODEL_TYPE, JStr (c_mt k))] else []))
    | None => JNull
    end.
  Proof. reflexivity. Qed.

  Definition mt_of (d : text) : text := match find_cls m d with Some kd => c_mt kd | None => [] end.

  Lemma find_by_mt_nodup : forall names d kd,
    NoDup (map mt_of names) -> In d names -> find_cls m d = Some kd ->
    find_by_mt m names (c_mt kd) = Some kd.
  Proof.
    induction names as [|n names IH]; intros d kd Hnd Hin Hk; [contradiction|].
    inversion Hnd as [|? ? Hnot Hnd']; subst. cbn.
    destruct Hin as [->|Hin].
    - now rewrite Hk, text_eqb_refl.
    - destruct (find_cls m n) as [k'|] eqn:Ek'; [|eauto].
      destruct (text_eqb (c_mt k') (c_mt kd)) eqn:E; [|eauto].
      apply text_eqb_eq in E. exfalso. apply Hnot.
      assert (Hm : mt_of n = mt_of d) by (unfold mt_of; now rewrite Ek', Hk).
      rewrite Hm. now apply in_map.
  Qed.

  Lemma resolve_rt : forall c d kd fs,
    mem_text d (options m c) = true -> find_cls m d = Some kd -> c_abstract kd = false ->
    resolve_cls m c
      (members (c_props kd) fs (map TJ fs)
       ++ (if c_with_mt kd then [(MODEL_TYPE, JStr (c_mt kd))] else [])) = Ok kd.
  Proof.
    intros c d kd fs Hmem Hkd Habs. unfold resolve_cls.
    pose proof (mm_cls_ok _ _ Hkd) as Hokd. unfold cls_ok in Hokd.
    apply andb_true_iff in Hokd as [Hokd _]. apply andb_true_iff in Hokd as [Hokd _].
    apply andb_true_iff in Hokd as [Hokd _]. apply andb_true_iff in Hokd as [_ Hnomt].
    apply negb_true_iff in Hnomt.
    assert (Hskip : ~ In MODEL_TYPE (map p_json (c_props kd))).
    { intros Hin. apply mem_text_in in Hin. congruence. }
    unfold members. rewrite (assoc_members_skip MODEL_TYPE _ _ _ _ Hskip).
    unfold options in Hmem.
    destruct (find_cls m c) as [k|] eqn:Ek; [|discriminate].
    pose proof (mm_cls_ok _ _ Ek) as Hokc. unfold cls_ok in Hokc.
    apply andb_true_iff in Hokc as [Hokc Hnd]. apply andb_true_iff in Hokc as [_ Hmt].
    pose proof (find_cls_in_name _ _ _ Ek) as Hname. rewrite Hname in *.
    apply mem_text_in in Hmem.
    destruct (c_desc k) as [|d0 ds] eqn:Ed.
    - (* no dispatch: d = c *)
      rewrite app_nil_r in Hmem. destruct (c_abstract k) eqn:Ea; [contradiction|].
      destruct Hmem as [<-|[]]. rewrite Hkd in Ek. inversion Ek; subst k.
      destruct (c_with_mt kd); cbn; [now rewrite text_eqb_refl|reflexivity].
    - unfold options in Hmt, Hnd. rewrite Ek, Ed in Hmt, Hnd. rewrite <- Ed in *.
      rewrite forallb_forall in Hmt. specialize (Hmt d Hmem). rewrite Hkd in Hmt. rewrite Hmt. cbn.
      unfold options. rewrite Ek.
      erewrite find_by_mt_nodup; [reflexivity| |exact Hmem|exact Hkd].
      apply nodup_text_NoDup in Hnd. exact Hnd.
  Qed.

  Lemma all_Qd : forall v, Qd v.
  Proof.
    induction v using value_ind'; (split; [intros a Hw|try exact I]).
    - destruct a as [[]| |]; discriminate.
    - destruct a as [[]| |]; try discriminate. reflexivity.
    - destruct a as [[]| |]; try discriminate. reflexivity.
    - destruct a as [[]| |]; try discriminate. reflexivity.
    - destruct a as [[]| |]; try discriminate. reflexivity.
    - destruct a as [[]| |]; try discriminate. cbn in Hw |- *. now rewrite (Hb _ Hw).
    - destruct a as [[]|e'|]; try discriminate. cbn in Hw.
      apply andb_true_iff in Hw as [He Hv]. apply text_eqb_eq in He. subst e'.
      cbn. unfold enum_value in *. destruct (find_enum m e) as [en|] eqn:Een; [|discriminate].
      destruct (assoc l (e_lits en)) as [s|] eqn:Es; [|discriminate].
      cbn. unfold enum_from_str. rewrite Een.
      rewrite (lit_of_value_rev_some (rev (e_lits en)) l s); [reflexivity| |].
      + rewrite map_rev. apply NoDup_rev. eapply enum_ok; eassumption.
      + apply -> in_rev. now apply assoc_in.
    - destruct a as [[]| |]; discriminate.
    - eapply Forall_impl; [|exact H]. intros x [Hx _]. exact Hx.
    - (* object *)
      destruct a as [[]| |c0]; try discriminate.
      rewrite wf_atom_obj in Hw. apply andb_true_iff in Hw as [Hmem Hw].
      destruct (find_cls m c) as [kd|] eqn:Ekd; [|discriminate].
      apply andb_true_iff in Hw as [Habs Hwf]. apply negb_true_iff in Habs.
      rewrite to_json_obj, Ekd, from_json_cls_obj.
      rewrite (resolve_rt c0 c kd fs Hmem Ekd Habs).
      pose proof (mm_cls_ok _ _ Ekd) as Hokd. unfold cls_ok in Hokd.
      apply andb_true_iff in Hokd as [Hokd _]. apply andb_true_iff in Hokd as [Hokd _].
      apply andb_true_iff in Hokd as [Hokd _]. apply andb_true_iff in Hokd as [Hnd Hnomt].
      apply nodup_text_NoDup in Hnd. apply negb_true_iff in Hnomt.
      rewrite (fields_rt (c_props kd) (c_props kd) fs); try assumption.
      + change (present (c_props kd) fs) with ([] ++ present (c_props kd) fs).
        rewrite (build_present m); try assumption; [|intros; reflexivity].
        now rewrite (find_cls_in_name _ _ _ Ekd).
      + intros p Hp. now apply find_prop_nodup.
      + intros p Hp. destruct (text_eqb (p_json p) MODEL_TYPE) eqn:E; [|reflexivity].
        apply text_eqb_eq in E. exfalso.
        assert (Hin : In MODEL_TYPE (map p_json (c_props kd))) by (rewrite <- E; now apply in_map).
        apply mem_text_in in Hin. congruence.
      + destruct (c_with_mt kd); [|reflexivity]. rewrite parse_fields_cons. now rewrite text_eqb_refl.
  Qed.

  Theorem json_roundtrip_atom : forall a v, wf_atom m a v = true -> FJ a (TJ v) = Ok v.
  Proof. intros a v. apply (proj1 (all_Qd v)). Qed.

  Theorem json_roundtrip : forall i, wf_instance m i = true -> FJ (ACls (cls_of i)) (TJ i) = Ok i.
  Proof. intros i H. destruct i; try discriminate. now apply json_roundtrip_atom. Qed.
End RT.
