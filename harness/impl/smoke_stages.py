"""Adapter for C28. stdin: {"models": [text...], "recorded": bool}. For every model text:
run smoke execute (rc, stderr, escaped exception) and, independently, each stage the
smoke tool is supposed to cover, recording the index of the first failing stage."""
import io, json, pathlib, sys, tempfile, traceback

import aas_core_codegen.smoke.main as smoke_main
from aas_core_codegen import parse, intermediate, infer_for_schema, specific_implementations
from aas_core_codegen.common import Stripped
from aas_core_codegen.csharp import common as csharp_common, lib as csharp_lib


def stages_of(text):
    """index of the first failing stage (0..5) or None; or {"exc": ...}."""
    try:
        atok, exc = parse.source_to_atok(source=text)
        if exc:
            return 0
        if parse.check_expected_imports(atok=atok):
            return 1
        pst, err = parse.atok_to_symbol_table(atok=atok)
        if err is not None:
            return 2
        st, err = intermediate.translate(parsed_symbol_table=pst, atok=atok)
        if err is not None:
            return 3
        _, errs = infer_for_schema.infer_constraints_by_class(symbol_table=st)
        if errs is not None:
            return 4
        verified, errs = csharp_lib.verify_for_types(st)
        if errs is not None:
            return 5
        spec = {}
        dummy = Stripped("DUMMY IMPLEMENTATION")
        for cls in st.classes:
            if cls.is_implementation_specific:
                spec[specific_implementations.ImplementationKey(f"Types/{cls.name}/{cls.name}.cs")] = dummy
                continue
            for m in cls.methods:
                if isinstance(m, intermediate.ImplementationSpecificMethod):
                    spec[specific_implementations.ImplementationKey(f"Types/{cls.name}/{m.name}.cs")] = dummy
        for v in st.verification_functions:
            if isinstance(v, intermediate.ImplementationSpecificVerification):
                spec[specific_implementations.ImplementationKey(f"Verification/{v.name}.cs")] = dummy
        ns = csharp_common.NamespaceIdentifier("DummyNamespace")
        failed = False
        _, e1 = csharp_lib.generate_types(symbol_table=verified, namespace=ns, spec_impls=spec)
        failed = failed or e1 is not None
        _, e2 = csharp_lib.generate_verification(symbol_table=st, namespace=ns, spec_impls=spec)
        failed = failed or e2 is not None
        return 5 if failed else None
    except BaseException as exc:  # noqa
        return {"exc": type(exc).__name__, "tb": traceback.format_exc()[-1200:]}


def main():
    payload = json.load(sys.stdin)
    out = []
    d = pathlib.Path(tempfile.mkdtemp())
    for i, text in enumerate(payload["models"]):
        mp = d / f"m{i}" / "meta_model.py"
        mp.parent.mkdir()
        mp.write_text(text, encoding="utf-8")
        se = io.StringIO()
        res = {}
        try:
            res["rc"] = smoke_main.execute(model_path=mp, stderr=se)
            res["exc"] = None
        except BaseException as exc:  # noqa
            res["rc"] = None
            res["exc"] = {"class": type(exc).__name__, "tb": traceback.format_exc()[-1200:]}
        res["stderr"] = se.getvalue().replace(str(mp), "<meta_model.py>")
        res["first_fail"] = stages_of(text)
        out.append(res)
    json.dump(out, sys.stdout)


main()
