(** Model of [infer_for_schema/_len.py] (matchers, [min/max_with_none],
    [_reduce_constraints]), of [_types.LenConstraint.__init__] (its icontract
    precondition is an explicit [Crash Violation]) and of
    [_inline._merge_len_constraints] (C15, shared with C02).

    The model follows the code *with the C15 fixes applied* (work/fixes/C15-*.patch):
    a guard on another property makes the invariant unrecognised; two equal exact
    lengths do not contradict; a negative maximum / exact length is reported; a
    minimum <= 0 is dropped (always true of a length).
    Executable definitions only. *)
From Coq Require Import List NArith ZArith Bool.
From Acg Require Import Base.Str Base.Outcome Model.InferExpr.
Import ListNotations.
Open Scope Z_scope.

(** [_MinLength | _MaxLength | _ExactLength]. *)
Inductive lc : Type := MinL (v : Z) | MaxL (v : Z) | ExactL (v : Z).

(** [LenConstraint(min_value, max_value)]: both inclusive, both optional. *)
Definition lenc : Type := (option Z * option Z)%type.

(** [LenConstraint.__init__] with its precondition
    [not (min is not None and max is not None) or 0 < min <= max]. *)
Definition mk_lenc {E} (lo hi : option Z) : outcome lenc E :=
  match lo, hi with
  | Some l, Some h => if (0 <? l) && (l <=? h) then Ok (lo, hi) else Crash Violation
  | _, _ => Ok (lo, hi)
  end.

(** [_match_len_on_member_or_name]: [len(<member or name>)]. *)
Definition match_len_on_mn (e : expr) : option expr :=
  match try_single_arg_fn e with
  | Some (f, a) => if text_eqb f len_id then Some a else None
  | None => None
  end.

Definition match_int_constant (e : expr) : option Z :=
  match e with EInt z => Some z | _ => None end.

(** The two comparator tables: [len(.) op c] and [c op len(.)]. *)
Definition lc_of_left (op : cmp) (c : Z) : option lc :=
  match op with
  | Lt => Some (MaxL (c - 1)) | Le => Some (MaxL c) | Eq => Some (ExactL c)
  | Gt => Some (MinL (c + 1)) | Ge => Some (MinL c) | Ne => None
  end.

Definition lc_of_right (op : cmp) (c : Z) : option lc :=
  match op with
  | Lt => Some (MinL (c + 1)) | Le => Some (MinL c) | Eq => Some (ExactL c)
  | Gt => Some (MaxL (c - 1)) | Ge => Some (MaxL c) | Ne => None
  end.

(** [_match_len_constraint_on_member_or_name]. *)
Definition match_len_constraint_on_mn (e : expr) : option (expr * lc) :=
  match e with
  | ECmp op l r =>
      let first :=
        match match_len_on_mn l, match_int_constant r with
        | Some mn, Some c =>
            match lc_of_left op c with Some k => Some (mn, k) | None => None end
        | _, _ => None
        end in
      match first with
      | Some x => Some x
      | None =>
          match match_int_constant l, match_len_on_mn r with
          | Some c, Some mn =>
              match lc_of_right op c with Some k => Some (mn, k) | None => None end
          | _, _ => None
          end
      end
  | _ => None
  end.

(** [_match_len_constraint_on_property]. *)
Definition match_len_constraint_on_property (e : expr) : option (text * lc) :=
  match match_len_constraint_on_mn e with
  | Some (mn, k) =>
      match try_property mn with Some p => Some (p, k) | None => None end
  | None => None
  end.

(** What [len_constraints_from_invariants] does with one invariant body (fixed code:
    the property of the guard must be the constrained property). *)
Definition match_len_invariant (body : expr) : option (text * lc) :=
  match try_conditional_on_prop body with
  | Some (g, csq) =>
      match match_len_constraint_on_property csq with
      | Some (p, k) => if text_eqb p g then Some (p, k) else None
      | None => None
      end
  | None => match_len_constraint_on_property body
  end.

(** [min_with_none] / [max_with_none] (variadic): the loops of the code. *)
Fixpoint min_with_none_loop (args : list (option Z)) (cur : option Z) : option Z :=
  match args with
  | [] => cur
  | a :: r =>
      min_with_none_loop r
        (match cur with
         | None => a
         | Some m => match a with Some x => Some (Z.min x m) | None => cur end
         end)
  end.
Definition min_with_none (args : list (option Z)) := min_with_none_loop args None.

Fixpoint max_with_none_loop (args : list (option Z)) (cur : option Z) : option Z :=
  match args with
  | [] => cur
  | a :: r =>
      max_with_none_loop r
        (match cur with
         | None => a
         | Some m => match a with Some x => Some (Z.max x m) | None => cur end
         end)
  end.
Definition max_with_none (args : list (option Z)) := max_with_none_loop args None.

(** Kinds of the reduction errors (the wording is not modelled). *)
Inductive rerr : Type :=
| ExactVsExact | MinVsExact | MaxVsExact | MinVsMax | NegativeMax | NegativeExact.

Record rstate : Type := mk_rstate {
  r_min : option Z; r_max : option Z; r_exact : option Z; r_errs : list rerr }.

Definition reduce_step (s : rstate) (c : lc) : rstate :=
  match c with
  | MinL v => mk_rstate (max_with_none [Some v; r_min s]) (r_max s) (r_exact s) (r_errs s)
  | MaxL v => mk_rstate (r_min s) (min_with_none [Some v; r_max s]) (r_exact s) (r_errs s)
  | ExactL v =>
      mk_rstate (r_min s) (r_max s) (Some v)
        (match r_exact s with
         | Some e => if Z.eqb e v then r_errs s else r_errs s ++ [ExactVsExact]
         | None => r_errs s
         end)
  end.

Definition final_errs (s : rstate) : list rerr :=
  r_errs s
  ++ (match r_exact s with
      | Some e =>
          (match r_min s with Some m => if e <? m then [MinVsExact] else [] | None => [] end)
          ++ (match r_max s with Some m => if m <? e then [MaxVsExact] else [] | None => [] end)
      | None => []
      end)
  ++ (match r_min s, r_max s with
      | Some mn, Some mx => if mx <? mn then [MinVsMax] else []
      | _, _ => []
      end)
  ++ (match r_exact s with Some e => if e <? 0 then [NegativeExact] else [] | None => [] end)
  ++ (match r_max s with Some m => if m <? 0 then [NegativeMax] else [] | None => [] end).

Definition drop_vacuous_min (lo : option Z) : option Z :=
  match lo with Some l => if l <=? 0 then None else Some l | None => None end.

(** [_reduce_constraints]. *)
Definition reduce (cs : list lc) : outcome lenc (list rerr) :=
  let s := fold_left reduce_step cs (mk_rstate None None None []) in
  match final_errs s with
  | (_ :: _) as errs => Err errs
  | [] =>
      let '(lo, hi) :=
        match r_exact s with
        | Some e => (Some e, Some e)
        | None => (r_min s, r_max s)
        end in
      mk_lenc (drop_vacuous_min lo) hi
  end.

(** [_inline._min_or_none], [_max_or_none]. *)
Definition min_or_none (a b : option Z) : option Z :=
  match a, b with
  | Some x, Some y => Some (Z.min x y)
  | None, Some y => Some y
  | Some x, None => Some x
  | None, None => None
  end.
Definition max_or_none (a b : option Z) : option Z :=
  match a, b with
  | Some x, Some y => Some (Z.max x y)
  | None, Some y => Some y
  | Some x, None => Some x
  | None, None => None
  end.

(** [_inline._merge_len_constraints]. *)
Definition merge_len {E} (that other : option lenc) : outcome (option lenc) E :=
  match that, other with
  | Some (l1, h1), Some (l2, h2) =>
      match mk_lenc (E := E) (max_or_none l1 l2) (min_or_none h1 h2) with
      | Ok c => Ok (Some c)
      | Err e => Err e
      | Crash k => Crash k
      end
  | Some a, None => Ok (Some a)
  | None, Some b => Ok (Some b)
  | None, None => Ok None
  end.

(** The check added by the fix before every merge that can meet two length
    constraints: the merged range would be empty. *)
Definition len_contradict (that other : option lenc) : bool :=
  match that, other with
  | Some (l1, h1), Some (l2, h2) =>
      match max_or_none l1 l2, min_or_none h1 h2 with
      | Some l, Some h => h <? l
      | _, _ => false
      end
  | _, _ => false
  end.

(** Semantics used by the theorems. *)
Definition allows (c : lc) (n : Z) : Prop :=
  match c with MinL v => v <= n | MaxL v => n <= v | ExactL v => n = v end.
Definition allowsb (c : lc) (n : Z) : bool :=
  match c with MinL v => v <=? n | MaxL v => n <=? v | ExactL v => n =? v end.

Definition in_range (r : lenc) (n : Z) : Prop :=
  (match fst r with Some l => l <= n | None => True end)
  /\ (match snd r with Some h => n <= h | None => True end).
Definition in_rangeb (r : lenc) (n : Z) : bool :=
  (match fst r with Some l => l <=? n | None => true end)
  && (match snd r with Some h => n <=? h | None => true end).

Definition in_range_opt (r : option lenc) (n : Z) : Prop :=
  match r with Some c => in_range c n | None => True end.

(** Python's comparison [a op b] on integers. *)
Definition cmp_holds (op : cmp) (a b : Z) : Prop :=
  match op with
  | Lt => a < b | Le => a <= b | Eq => a = b | Gt => a > b | Ge => a >= b | Ne => a <> b
  end.
