(** C26: position-level tools for the clean-up passes: [find_label] under pairwise
    distinct labels, the counting position map of a [filter], and two ready-made
    instances of the simulation lemma of [LinearSem.v] (deletion of no-ops with
    relabelling; position-preserving relabelling). *)
From Coq Require Import List NArith Bool Arith Lia.
From Acg Require Import Base.Outcome Base.Str Model.Flow Model.Linear
  Proofs.LinearSem Proofs.LinearRaw Proofs.LinearPasses Proofs.LinearTargets.
Import ListNotations.
Open Scope nat_scope.

(* ------------------------------------------------------------------------- *)
(** * simulates *)
Definition simulates (M1 : machine) (c1 : lconf) (M2 : machine) (c2 : lconf) : Prop :=
  forall orc n1 i t c1' i', lin_run M1 orc n1 c1 i = (t, c1', i') ->
  exists n2 c2', lin_run M2 orc n2 c2 i = (t, c2', i') /\ (c1' = LHalt -> c2' = LHalt).

Lemma simulates_trans : forall M1 c1 M2 c2 M3 c3,
  simulates M1 c1 M2 c2 -> simulates M2 c2 M3 c3 -> simulates M1 c1 M3 c3.
Proof.
  intros M1 c1 M2 c2 M3 c3 H12 H23 orc n1 i t c1' i' Hrun.
  destruct (H12 orc n1 i t c1' i' Hrun) as [n2 [c2' [R2 Hh2]]].
  destruct (H23 orc n2 i t c2' i' R2) as [n3 [c3' [R3 Hh3]]].
  exists n3, c3'. split; [exact R3|]. intros H. apply Hh3, Hh2, H.
Qed.

Lemma simulates_of_sim : forall M1 M2 phi c1 c2,
  (forall p s1, nth_error (m_code M1) p = Some s1 ->
    (s_kind s1 = KNoop /\ phi (S p) = phi p)
    \/ (exists s2, nth_error (m_code M2) (phi p) = Some s2
                   /\ kind_rel M1 M2 phi (s_kind s1) (s_kind s2)
                   /\ phi (S p) = S (phi p)
                   /\ (s_kind s1 = KYield -> conf_rel M1 M2 phi (m_yield M1 p) (m_yield M2 (phi p))))) ->
  phi (length (m_code M1)) = length (m_code M2) ->
  conf_rel M1 M2 phi c1 c2 -> simulates M1 c1 M2 c2.
Proof.
  intros M1 M2 phi c1 c2 Hstep Hend HR orc n1 i t c1' i' Hrun.
  destruct (sim_run M1 M2 phi Hstep Hend orc n1 c1 c2 i t c1' i' HR Hrun) as [n2 [c2' [H2 HR2]]].
  exists n2, c2'. split; [exact H2|]. intros ->. apply (conf_rel_halt M1 M2 phi). exact HR2.
Qed.

(* ------------------------------------------------------------------------- *)
(** * find_label *)
Lemma find_label_some : forall c t q, find_label c t = Some q ->
  exists s, nth_error c q = Some s /\ s_label s = Some t.
Proof.
  induction c as [|x c IH]; intros t q H; [discriminate|].
  cbn [find_label] in H. destruct (option_eqb Nat.eqb (s_label x) (Some t)) eqn:E.
  - inversion H; subst. exists x. split; [reflexivity|].
    destruct (s_label x) as [l|]; cbn in E; [|discriminate]. apply Nat.eqb_eq in E. congruence.
  - destruct (find_label c t) as [q'|] eqn:E'; cbn in H; [|discriminate].
    inversion H; subst. apply IH in E'. exact E'.
Qed.

Lemma in_labels_nth : forall c q s t, nth_error c q = Some s -> s_label s = Some t -> In t (labels c).
Proof.
  induction c as [|x c IH]; intros q s t H L; destruct q; cbn in H; try discriminate.
  - inversion H; subst. rewrite labels_cons, L. left. reflexivity.
  - rewrite labels_cons. apply in_or_app. right. eapply IH; eassumption.
Qed.

Lemma find_label_nodup : forall c q s t, NoDup (labels c) ->
  nth_error c q = Some s -> s_label s = Some t -> find_label c t = Some q.
Proof.
  induction c as [|x c IH]; intros q s t Hnd H L; [destruct q; discriminate|].
  rewrite labels_cons in Hnd. cbn [find_label]. destruct q as [|q].
  - cbn in H. inversion H; subst. rewrite L. cbn. rewrite Nat.eqb_refl. reflexivity.
  - cbn [nth_error] in H.
    assert (Hin : In t (labels c)) by (eapply in_labels_nth; eassumption).
    destruct (option_eqb Nat.eqb (s_label x) (Some t)) eqn:E.
    + destruct (s_label x) as [l|]; cbn in E; [|discriminate]. apply Nat.eqb_eq in E. subst l.
      cbn in Hnd. inversion Hnd; contradiction.
    + rewrite (IH q s t); [reflexivity| |exact H|exact L].
      destruct (s_label x); cbn in Hnd; [inversion Hnd; assumption|exact Hnd].
Qed.

Lemma find_label_in : forall c t, In t (labels c) -> exists q, find_label c t = Some q.
Proof.
  induction c as [|x c IH]; intros t H; [contradiction|].
  cbn [find_label]. destruct (option_eqb Nat.eqb (s_label x) (Some t)) eqn:E; [eauto|].
  rewrite labels_cons in H. apply in_app_or in H. destruct H as [H|H].
  - destruct (s_label x) as [l|]; cbn in H; [|contradiction]. destruct H as [->|[]].
    cbn in E. rewrite Nat.eqb_refl in E. discriminate.
  - destruct (IH t H) as [q Hq]. rewrite Hq. eexists. reflexivity.
Qed.

Lemma find_label_lt : forall c t q, find_label c t = Some q -> q < length c.
Proof.
  intros c t q H. destruct (find_label_some _ _ _ H) as [s [Hs _]].
  apply nth_error_Some. congruence.
Qed.

(* ------------------------------------------------------------------------- *)
(** * Targets *)
Definition map_targets (r : nat -> nat) (k : skind) : skind :=
  match k with
  | KIf c a b => KIf c (option_map r a) (option_map r b)
  | KJump t => KJump (r t)
  | _ => k
  end.

Lemma retarget_map_targets : forall m k, retarget m k = map_targets (remap m) k.
Proof. intros m [c|c a b|t| |]; reflexivity. Qed.

Lemma map_targets_id : forall k, map_targets (fun t => t) k = k.
Proof. intros [c|c a b|t| |]; try reflexivity. destruct a, b; reflexivity. Qed.

Lemma kind_rel_map : forall M1 M2 phi r k,
  (forall t, In t (kind_targets k) -> target_rel M1 M2 phi t (r t)) ->
  kind_rel M1 M2 phi k (map_targets r k).
Proof.
  intros M1 M2 phi r [c|c a b|t| |] H; cbn; auto.
  - split; [reflexivity|]. split.
    + destruct a as [x|]; cbn; [|exact I]. apply H. cbn. left. reflexivity.
    + destruct b as [y|]; cbn; [|exact I]. apply H. cbn. apply in_or_app. right. left. reflexivity.
  - apply H. left. reflexivity.
Qed.

Lemma targets_of_stmt : forall c p s t, nth_error c p = Some s -> In t (kind_targets (s_kind s)) ->
  In t (collect_targets c).
Proof.
  intros c p s t H Ht. unfold collect_targets. apply in_flat_map. exists s.
  split; [eapply nth_error_In; exact H|exact Ht].
Qed.

(* ------------------------------------------------------------------------- *)
(** * The position map of a filter *)
Definition phi_f (o : list stmt) (p : nat) : nat := length (filter keep_stmt (firstn p o)).

Lemma firstn_S_nth : forall {A} (l : list A) p x, nth_error l p = Some x ->
  firstn (S p) l = firstn p l ++ [x].
Proof.
  induction l as [|y l IH]; intros p x H; destruct p; cbn in H; try discriminate.
  - inversion H; subst. reflexivity.
  - cbn. f_equal. apply IH. exact H.
Qed.

Lemma phi_f_0 : forall o, phi_f o 0 = 0.
Proof. reflexivity. Qed.

Lemma phi_f_S : forall o p x, nth_error o p = Some x ->
  phi_f o (S p) = phi_f o p + (if keep_stmt x then 1 else 0).
Proof.
  intros o p x H. unfold phi_f. rewrite (firstn_S_nth o p x H), filter_app, app_length.
  cbn [filter]. destruct (keep_stmt x); reflexivity.
Qed.

Lemma phi_f_len : forall o, phi_f o (length o) = length (filter keep_stmt o).
Proof. intros o. unfold phi_f. rewrite firstn_all. reflexivity. Qed.

Lemma nth_filter : forall o p x, nth_error o p = Some x -> keep_stmt x = true ->
  nth_error (filter keep_stmt o) (phi_f o p) = Some x.
Proof.
  intros o p x H K. unfold phi_f.
  rewrite <- (firstn_skipn p o) at 1. rewrite filter_app.
  rewrite nth_error_app2 by lia. rewrite Nat.sub_diag.
  assert (Hs : exists r, skipn p o = x :: r).
  { clear K. revert p H. induction o as [|y o IH]; intros p H; destruct p; cbn in H; try discriminate.
    - inversion H; subst. eexists. reflexivity.
    - cbn [skipn]. apply IH. exact H. }
  destruct Hs as [r ->]. cbn [filter]. rewrite K. reflexivity.
Qed.

Definition unkept (o : list stmt) (j : nat) : Prop :=
  exists x, nth_error o j = Some x /\ keep_stmt x = false.

Lemma phi_f_unkept : forall o a d, (forall j, a <= j < a + d -> unkept o j) ->
  phi_f o (a + d) = phi_f o a.
Proof.
  intros o a d; induction d as [|d IH]; intros H; [rewrite Nat.add_0_r; reflexivity|].
  destruct (H (a + d)) as [x [Hx Kx]]; [lia|].
  replace (a + S d) with (S (a + d)) by lia.
  rewrite (phi_f_S o (a + d) x Hx), Kx, Nat.add_0_r. apply IH. intros j Hj. apply H. lia.
Qed.

Lemma keep_false_noop : forall x, keep_stmt x = false -> s_kind x = KNoop /\ s_label x = None.
Proof.
  intros x H. unfold keep_stmt in H. apply orb_false_elim in H. destruct H as [H1 H2].
  split.
  - unfold is_noop in H1. destruct (s_kind x); cbn in H1; try discriminate. reflexivity.
  - destruct (s_label x); [discriminate|reflexivity].
Qed.

(* ------------------------------------------------------------------------- *)
(** * Deletion simulation: [code2 = map g (filter keep_stmt o)], [o] aligned with [c1] *)
Section Del.
  Variables (c1 o : list stmt) (g : stmt -> stmt).
  Let code2 := map g (filter keep_stmt o).
  Let M1 := flat_machine c1.
  Let M2 := flat_machine code2.
  Let phi := phi_f o.

  Hypothesis Hlen : length c1 = length o.
  Hypothesis Hdel : forall p s1 s', nth_error c1 p = Some s1 -> nth_error o p = Some s' ->
    keep_stmt s' = false -> s_kind s1 = KNoop.
  Hypothesis Hkeep : forall p s1 s', nth_error c1 p = Some s1 -> nth_error o p = Some s' ->
    keep_stmt s' = true -> kind_rel M1 M2 phi (s_kind s1) (s_kind (g s')).

  Lemma del_sim : simulates M1 (LRun 0) M2 (LRun 0).
  Proof.
    apply (simulates_of_sim M1 M2 phi).
    - intros p s1 Hs1. cbn [M1 flat_machine m_code] in Hs1.
      assert (Hp : p < length o) by (rewrite <- Hlen; apply nth_error_Some; congruence).
      destruct (nth_error o p) as [s'|] eqn:Es'; [|apply nth_error_None in Es'; lia].
      destruct (keep_stmt s') eqn:K.
      + right. exists (g s'). split; [|split; [|split]].
        * cbn [M2 flat_machine m_code]. unfold code2, phi.
          rewrite nth_error_map, (nth_filter o p s' Es' K). reflexivity.
        * eapply Hkeep; eassumption.
        * unfold phi. rewrite (phi_f_S o p s' Es'), K. lia.
        * intros _. cbn [M1 M2 flat_machine m_yield conf_rel].
          split; [|split].
          -- change (S p <= length c1). assert (p < length c1) by (apply nth_error_Some; congruence). lia.
          -- unfold phi. rewrite (phi_f_S o p s' Es'), K. lia.
          -- intros j Hj. unfold phi in Hj. rewrite (phi_f_S o p s' Es'), K in Hj. lia.
      + left. split; [eapply Hdel; eassumption|].
        unfold phi. rewrite (phi_f_S o p s' Es'), K. lia.
    - cbn [M1 M2 flat_machine m_code]. unfold phi, code2. rewrite Hlen, phi_f_len, map_length. reflexivity.
    - cbn [conf_rel]. unfold phi. rewrite phi_f_0. repeat split; try lia. intros j Hj. lia.
  Qed.
End Del.

(* ------------------------------------------------------------------------- *)
(** * Position-preserving simulation between flat codes *)
Section Same.
  Variables c1 c2 : list stmt.
  Let M1 := flat_machine c1.
  Let M2 := flat_machine c2.
  Hypothesis Hlen : length c1 = length c2.
  Hypothesis Hk : forall p s1 s2, nth_error c1 p = Some s1 -> nth_error c2 p = Some s2 ->
    kind_rel M1 M2 (fun p => p) (s_kind s1) (s_kind s2).

  Lemma same_sim : simulates M1 (LRun 0) M2 (LRun 0).
  Proof.
    apply (simulates_of_sim M1 M2 (fun p => p)).
    - intros p s1 Hs1. cbn [M1 flat_machine m_code] in Hs1.
      assert (Hp : p < length c2) by (rewrite <- Hlen; apply nth_error_Some; congruence).
      destruct (nth_error c2 p) as [s2|] eqn:Es2; [|apply nth_error_None in Es2; lia].
      right. exists s2. split; [exact Es2|]. split; [eapply Hk; eassumption|].
      split; [reflexivity|]. intros _. cbn [M1 M2 flat_machine m_yield conf_rel m_code].
      split; [|split]; try lia. intros j Hj. lia.
    - cbn. exact Hlen.
    - cbn [conf_rel]. repeat split; try lia. intros j Hj. lia.
  Qed.
End Same.

(** Target relation for the identity position map: same position in both codes. *)
Lemma target_rel_same : forall c1 c2 t1 t2 q,
  find_label c1 t1 = Some q -> find_label c2 t2 = Some q ->
  target_rel (flat_machine c1) (flat_machine c2) (fun p => p) t1 t2.
Proof.
  intros c1 c2 t1 t2 q H1 H2. exists q, q. cbn [flat_machine m_resolve m_code].
  repeat split; auto. - apply Nat.lt_le_incl. eapply find_label_lt; eassumption.
  - intros j Hj. lia.
Qed.
