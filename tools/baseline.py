#!/usr/bin/env python3
"""Run the pinned baseline of /root/.vp/BASELINE.json on /repo (guard off) and compare
the passing tests with the recorded stable_pass list. Exit 0 iff every stable test passes."""
import json, os, subprocess, sys, tempfile, xml.etree.ElementTree as ET
b = json.load(open("/root/.vp/BASELINE.json"))
out = tempfile.mktemp(suffix=".xml", dir="/verif/work")
cmd = b["cmd"].replace("<file>", out)
extra = sys.argv[1] if len(sys.argv) > 1 else ""
if extra:
    cmd = cmd.replace("-m pytest", "-m pytest " + extra)
env = dict(os.environ); env.pop("AAS_CORE_CODEGEN_VERIF", None)
p = subprocess.run(cmd, shell=True, env=env, stdout=subprocess.PIPE, stderr=subprocess.STDOUT, text=True)
passed = set()
for tc in ET.parse(out).getroot().iter("testcase"):
    if not any(ch.tag in ("failure", "error", "skipped") for ch in tc):
        passed.add(f"{tc.get('classname')}::{tc.get('name')}")
os.unlink(out)
missing = [t for t in b["stable_pass"] if t not in passed]
print(f"stable_pass={len(b['stable_pass'])} passed_now={len(passed)} missing={len(missing)}")
for m in missing[:30]: print("  MISSING", m)
if missing: print(p.stdout[-3000:])
sys.exit(1 if missing else 0)
