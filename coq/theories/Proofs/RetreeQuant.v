(** Decimal printing ([str(n)], model [dec]) against
    [Cursor.try_positive_integer_without_sign] (model [try_int]): the arithmetic core
    of the quantifier round trip. *)
From Coq Require Import List NArith Bool Arith Lia.
From Acg Require Import Base.Str Base.Outcome Model.Retree Model.RetreeParse
  Model.RetreeRender.
Import ListNotations.
Open Scope N_scope.

Lemma pos_size_nat_gt : forall p, N.pos p < 2 ^ N.of_nat (Pos.size_nat p).
Proof.
  induction p as [p IH|p IH|]; cbn [Pos.size_nat].
  - rewrite Nat2N.inj_succ, N.pow_succ_r'. lia.
  - rewrite Nat2N.inj_succ, N.pow_succ_r'. lia.
  - change (2 ^ N.of_nat 1) with 2. lia.
Qed.

Lemma size_nat_gt : forall n, n < 2 ^ N.of_nat (S (N.size_nat n)).
Proof.
  intros [|p].
  - rewrite Nat2N.inj_succ, N.pow_succ_r'. pose proof (N.pow_nonzero 2 (N.of_nat (N.size_nat 0))). lia.
  - cbn [N.size_nat]. rewrite Nat2N.inj_succ, N.pow_succ_r'.
    pose proof (pos_size_nat_gt p). lia.
Qed.

Lemma digits_value_app : forall l d, digits_value (l ++ [d]) = 10 * digits_value l + (d - 48).
Proof. intros l d. unfold digits_value. rewrite fold_left_app. reflexivity. Qed.

Lemma dec_fuel_spec : forall f n, n < 2 ^ N.of_nat f ->
  digits_value (dec_fuel f n) = n /\ forallb is_digit (dec_fuel f n) = true
  /\ (f <> 0%nat -> dec_fuel f n <> []).
Proof.
  induction f as [|f IH]; intros n Hn.
  - change (2 ^ N.of_nat 0) with 1 in Hn. assert (n = 0) by lia. subst.
    cbn. split; [reflexivity|]. split; [reflexivity|]. intros H. exfalso. apply H. reflexivity.
  - cbn [dec_fuel]. destruct (n <? 10) eqn:E.
    + apply N.ltb_lt in E. repeat split.
      * unfold digits_value. cbn [fold_left]. lia.
      * cbn [forallb]. unfold is_digit. rewrite andb_true_r.
        apply andb_true_iff. split; apply N.leb_le; lia.
      * intros _. discriminate.
    + apply N.ltb_ge in E.
      rewrite Nat2N.inj_succ, N.pow_succ_r' in Hn.
      assert (Hq : n / 10 < 2 ^ N.of_nat f).
      { apply N.div_lt_upper_bound; lia. }
      destruct (IH _ Hq) as [Hv [Hd _]].
      assert (Hm : n mod 10 < 10) by (apply N.mod_lt; lia).
      repeat split.
      * rewrite digits_value_app, Hv.
        rewrite (N.add_comm 48), N.add_sub.
        symmetry. apply N.div_mod'.
      * rewrite forallb_app, Hd. cbn [forallb andb]. unfold is_digit. rewrite andb_true_r.
        apply andb_true_iff. split; apply N.leb_le; [apply N.le_add_r|].
        clear -Hm. set (m := n mod 10) in *. lia.
      * intros _ H. apply app_eq_nil in H. destruct H as [_ H]. discriminate.
Qed.

Lemma dec_spec : forall n,
  digits_value (dec n) = n /\ forallb is_digit (dec n) = true /\ dec n <> [].
Proof.
  intros n. unfold dec. destruct (dec_fuel_spec _ _ (size_nat_gt n)) as [H1 [H2 H3]].
  repeat split; auto.
Qed.

Definition starts_with_digit (ts : list tok) : bool :=
  match ts with C c :: _ => is_digit c | _ => false end.

Lemma take_digits_app : forall ds rest,
  forallb is_digit ds = true -> starts_with_digit rest = false ->
  take_digits (map C ds ++ rest) = (ds, rest).
Proof.
  induction ds as [|d ds IH]; intros rest Hd Hr.
  - cbn [map app]. destruct rest as [|[c|f] r]; cbn in *; auto. rewrite Hr. reflexivity.
  - cbn [forallb] in Hd. apply andb_true_iff in Hd. destruct Hd as [H1 H2].
    cbn [map app take_digits]. rewrite H1, (IH _ H2 Hr). reflexivity.
Qed.

(** [try_int] reads back what [str] printed, whatever non-digit follows. *)
Theorem try_int_dec : forall n rest,
  starts_with_digit rest = false -> try_int (map C (dec n) ++ rest) = (Some n, rest).
Proof.
  intros n rest Hr. destruct (dec_spec n) as [Hv [Hd Hne]].
  unfold try_int. rewrite (take_digits_app _ _ Hd Hr).
  destruct (dec n) as [|d ds] eqn:E; [congruence|]. rewrite Hv. reflexivity.
Qed.
