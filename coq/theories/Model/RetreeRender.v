(** Executable model of [aas_core_codegen/parse/retree/_render.py] ([Renderer],
    [render]), with the C16 fix of the first-caret rule applied (docs/C16.md).
    [render_tokens] is the flat token form of what [Renderer.transform] returns;
    [render_values] adds the compaction of consecutive strings done by [render].
    No proofs in this file. *)
From Coq Require Import List NArith Bool.
From Acg Require Import Base.Str Base.Outcome Model.Retree Model.RetreeParse.
Import ListNotations.
Open Scope N_scope.

(** Lower-case hexadecimal with a fixed number of digits ([f"{code:02x}"], and the
    [\uXXXX] / [\UXXXXXXXX] forms of [str.encode("unicode_escape")]). *)
Definition hex_char (d : N) : N := if d <? 10 then 48 + d else 87 + d.
Fixpoint hex_fixed (n : nat) (v : N) : text :=
  match n with
  | O => []
  | S n' => hex_fixed n' (v / 16) ++ [hex_char (v mod 16)]
  end.

(** [character.encode("unicode_escape")] for code points >= 255 (the only ones the
    renderer passes to it). *)
Definition unicode_escape (code : N) : text :=
  if code <? 256 then [92; 120] ++ hex_fixed 2 code
  else if code <? 65536 then [92; 117] ++ hex_fixed 4 code
  else [92; 85] ++ hex_fixed 8 code.

(** [str(n)] for a non-negative integer; the fuel is the binary size of [n]. *)
Fixpoint dec_fuel (fuel : nat) (n : N) : text :=
  match fuel with
  | O => []
  | S f => if n <? 10 then [48 + n] else dec_fuel f (n / 10) ++ [48 + n mod 10]
  end.
Definition dec (n : N) : text := dec_fuel (S (N.size_nat n)) n.

(** [Renderer.char_to_str_and_escape_or_encode_if_necessary] *)
Definition render_char (escaping : list (N * text)) (c : rchar) : text :=
  if ch_enc c then
    if ch_code c <? 255 then [92; 120] ++ hex_fixed 2 (ch_code c)
    else unicode_escape (ch_code c)
  else
    match assocN (ch_code c) escaping with
    | Some e => e
    | None => [ch_code c]
    end.

(** [Renderer.transform_quantifier] *)
Definition render_quantifier (q : quantifier) : text :=
  (match q_max q with
   | Some mx =>
       if q_min q =? mx then [123] ++ dec (q_min q) ++ [125]
       else if q_min q =? 0 then
         (if mx =? 1 then [63] else [123; 48; 44] ++ dec mx ++ [125])
       else [123] ++ dec (q_min q) ++ [44] ++ dec mx ++ [125]
   | None =>
       if q_min q =? 0 then [42]
       else if q_min q =? 1 then [43]
       else [123] ++ dec (q_min q) ++ [44; 125]
   end) ++ (if q_non_greedy q then [63] else []).

Definition is_plain_dash (r : range) : bool :=
  negb (is_some (rg_end r)) && (ch_code (rg_start r) =? 45) && negb (ch_enc (rg_start r)).

Section WithTables.
  Variable T : tables.

  (** The loop of [Renderer.transform_char_set]; [first] is [i == 0], the last range
      is the one with an empty tail, [already] is [already_output_something]. *)
  Fixpoint render_ranges (first already : bool) (rs : list range) : text :=
    match rs with
    | [] => []
    | r :: rest =>
        let last := match rest with [] => true | _ => false end in
        (if (first || last) && is_plain_dash r then [45]
         else
           (if first && (ch_code (rg_start r) =? 94) && negb (ch_enc (rg_start r))
               && negb already
            then [92; 94]
            else render_char (esc_rng T) (rg_start r))
           ++ match rg_end r with
              | Some e => [45] ++ render_char (esc_rng T) e
              | None => []
              end)
        ++ render_ranges false already rest
    end.

  Definition render_char_set (compl : bool) (rs : list range) : text :=
    [91] ++ (if compl then [94] else []) ++ render_ranges true compl rs ++ [93].

  Definition render_symbol (k : symbol_kind) : text :=
    match k with SymStart => [94] | SymEnd => [36] | SymDot => [46] end.

  Definition render_opt_quantifier (q : option quantifier) : list tok :=
    match q with Some q => map C (render_quantifier q) | None => [] end.

  (** [transform_term] / [transform_group] / [transform_union_expr] /
      [transform_concatenation] *)
  Fixpoint render_value (v : tvalue) : list tok :=
    match v with
    | VGroup u =>
        C 40 ::
        (fix ru (u : list (list (tvalue * option quantifier))) : list tok :=
           match u with
           | [] => []
           | c0 :: rest =>
               (fix rc (c : list (tvalue * option quantifier)) : list tok :=
                  match c with
                  | [] => []
                  | (v', q) :: c' => render_value v' ++ render_opt_quantifier q ++ rc c'
                  end) c0
               ++ match rest with [] => [] | _ => C 124 :: ru rest end
           end) u
        ++ [C 41]
    | VChar c => map C (render_char (esc_lit T) c)
    | VCharSet k rs => map C (render_char_set k rs)
    | VFormatted f => [F f]
    | VSymbol k => map C (render_symbol k)
    end.

  Definition render_term (t : term) : list tok :=
    render_value (fst t) ++ render_opt_quantifier (snd t).

  Fixpoint render_concat (c : concatenation) : list tok :=
    match c with
    | [] => []
    | t :: c' => render_term t ++ render_concat c'
    end.

  Fixpoint render_union (u : union_expr) : list tok :=
    match u with
    | [] => []
    | c0 :: rest =>
        render_concat c0 ++ match rest with [] => [] | _ => C 124 :: render_union rest end
    end.

  Definition render_tokens (t : regex) : list tok := render_union t.

  (** The compaction done by [render]: consecutive strings are joined, no empty
      string is produced. *)
  Fixpoint group_tokens (ts : list tok) : list pvalue :=
    match ts with
    | [] => []
    | F f :: r => inr f :: group_tokens r
    | C c :: r =>
        match group_tokens r with
        | inl s :: vs => inl (c :: s) :: vs
        | vs => inl [c] :: vs
        end
    end.

  Definition render_values (t : regex) : list pvalue := group_tokens (render_tokens t).
End WithTables.
