"""C24 — Model cache survives crashes and concurrent runs (run.load_model, cache branch)."""
from __future__ import annotations

import re
from typing import Any, Dict, List, Optional, Tuple

from harness import lib
from harness.gen import cache as gen
from harness.lib import coq_bool, coq_list, coq_n, coq_nat, coq_option, coq_pair, coq_text
from harness.props.c23 import Ids, enc_result, parallel_impl, sha_hex

META = {
    "title": "Model cache survives crashes and concurrent runs",
    "design_ref": "§4 C24, Appendix A.4",
    "level_text": (
        "Coq theorems over a Gallina transition system of the cache protocol (per-process program "
        "counters over the atomic file-system steps exists / open / read / mkdir / create uuid-temp / "
        "write chunk / close / rename / unlink, with a crash and an injected failure enabled at every "
        "pc): an invariant is proved by induction over ARBITRARY schedules of an unbounded number of "
        "processes, and reader_never_partial, completed_run_result, crash_leaves_only_tmps, "
        "tmp_ignored_later, later_run_completes follow. The order of file-system operations of the "
        "cache branch is re-translated from run.py on every run and compared with the model's program; "
        "the model is tied to the real load_model by recorded step sequences (os/io/pickle wrapped "
        "from outside), fault injection at every step index (raise, os._exit, os._exit in the middle "
        "of a write) with the directory and follow-up runs compared inside Coq, and real concurrent "
        "processes released by a barrier."
    ),
    "level_note": (
        "Trusted: POSIX rename is atomic and an open file survives its replacement (kernel); "
        "pickle.dump writes a prefix-closed byte sequence; sha256 collision freedom and uuid4 "
        "freshness are hypotheses of the theorems; a failing unlink inside the finally is treated as "
        "a crash at that point."
    ),
    "technique": "Coq proof (inductive invariant over schedules) + translated operation order + fault injection on the real code",
}
GEN = ["GenCacheOps"]
MODEL = ["Model/Cache", "Model/CacheConc", "Gen/GenCacheOps"]
TRUSTED = [
    "Model/CacheConc.v is a hand-written model of the cache branch of run.load_model "
    "(step sequences, crash/failure post-states and follow-up runs correspondence-checked)",
    "harness/translate/cacheflag.py:gen_cacheops (operation order) via Python's ast",
    "kernel: rename(2) atomically replaces; an open file survives rename/unlink of its name",
    "the wrappers installed by harness/impl/cache_steps.py see every file-system call of load_model",
]
RULE = ("case = script of runs sharing one temp directory: [optional warm-up runs], one run with a fault "
        "(raise / exit / exit-mid-write) at file-system step k for EVERY k of the cold and warm step "
        "sequences, then follow-up runs of the same and of another text; plus fault-free cold/warm/"
        "no-flag sequences and N<=8 concurrent processes over <=3 texts. non-trivial = a fault was "
        "injected or processes raced; distinct by (script shape, step index, mode).")

HEADER = """From Coq Require Import List NArith Bool Arith.
From Coq Require Strings.String.
Import Coq.Strings.String.StringSyntax.
From Acg Require Import Base.Str Model.Cache Model.CacheConc.
Import ListNotations.
Open Scope N_scope.
Inductive act := ASolo (p : nat) | ACrashAt (p k : nat) | AFailAt (p k : nat).
(* observation after an action: step labels (all, or the prefix before the fault), result
   (class, id), names in the cache directory *)
Definition ob := (option (list text) * option (N * N) * list text)%type.
(* table text-id -> (sha hex, class, id); uuids; K = number of write calls of one dump;
   per pid (text-id, flag); script with observations *)
Definition case := (list (N * (text * (N * N))) * list text * nat * list (N * bool)
                    * list (act * ob))%type.
Fixpoint tlookup (k : N) (l : list (N * (text * (N * N)))) : option (text * (N * N)) :=
  match l with [] => None | (k', v) :: r => if N.eqb k k' then Some v else tlookup k r end.
Definition mk_parse tbl (t : text) : result N N :=
  match t with
  | [k] => match tlookup k tbl with
           | Some (_, (0, i)) => ROk i
           | Some (_, (1, i)) => RErr i
           | _ => RCrash ParseCrash
           end
  | _ => RCrash ParseCrash
  end.
Definition mk_sha tbl (t : text) : text :=
  match t with [k] => match tlookup k tbl with Some (h, _) => h | None => [] end | _ => [] end.
Definition enc (r : result N N) : N * N :=
  match r with ROk i => (0, i) | RErr e => (1, e) | RCrash _ => (2, 0) end.
Definition label (e : fsev) : text :=
  match e with
  | EvExists p => s2l "exists:" ++ render p
  | EvOpenR p => s2l "openr:" ++ render p
  | EvReadAll _ => s2l "load"
  | EvMkdir => s2l "mkdir"
  | EvOpenW p => s2l "openw:" ++ render p
  | EvWrite _ => s2l "write"
  | EvClose p => s2l "close:" ++ render p
  | EvRename a b => s2l "rename:" ++ render a ++ s2l ":" ++ render b
  | EvUnlink p => s2l "unlink:" ++ render p
  end.
Definition subset (a b : list text) : bool := forallb (fun x => mem_text x b) a.
Definition fuel := 60%nat.
Section C.
  Variable tbl : list (N * (text * (N * N))).
  Variable uuids : list text.
  Variable K : nat.
  Variable pids : list (N * bool).
  Definition pk (m : N) : bytes := repeat m K.
  Definition unpk (c : bytes) : option N :=
    match c with m :: _ => if Nat.eqb (length c) K then Some m else None | [] => None end.
  Definition txt (p : pid) : text := [fst (nth p pids (0, false))].
  Definition flg (p : pid) : bool := snd (nth p pids (0, false)).
  Definition uu (i : nat) : text := nth i uuids [].
  Definition st := state N N.
  Definition solo' := solo N N (mk_parse tbl) (mk_sha tbl) pk unpk uu txt flg.
  Definition adv' := advance N N (mk_parse tbl) (mk_sha tbl) pk unpk uu txt flg.
  Definition step' := step N N (mk_parse tbl) (mk_sha tbl) pk unpk uu txt flg.
  Definition trace' := run_trace N N (mk_parse tbl) (mk_sha tbl) pk unpk uu txt flg.
  Definition do_act (a : act) (s : st) : st * list text * option (N * N) :=
    match a with
    | ASolo p =>
        let s' := solo' fuel p 0%nat s in
        (s', map (fun pe => label (snd pe)) (trace' (repeat (p, Step 0) fuel) s),
         match ppc (procs s' p) with PcDone r => Some (enc r) | _ => None end)
    | ACrashAt p k =>
        (step' (adv' fuel p 0%nat k s) (p, Crash),
         firstn k (map (fun pe => label (snd pe)) (trace' (repeat (p, Step 0) fuel) s)), None)
    | AFailAt p k =>
        let s' := solo' fuel p 0%nat (step' (adv' fuel p 0%nat k s) (p, Fail)) in
        (s', firstn k (map (fun pe => label (snd pe)) (trace' (repeat (p, Step 0) fuel) s)),
         match ppc (procs s' p) with PcDone r => Some (enc r) | _ => None end)
    end.
  Definition check (a : act) (o : ob) (s : st) : bool * st :=
    let '(osteps, ores, onames) := o in
    let '(s', msteps, mres) := do_act a s in
    let names := map (fun pc => render (fst pc)) (files (sw s')) in
    ((match osteps with Some l => list_eqb text_eqb l msteps | None => true end)
     && (match ores, mres with
         | Some (a1, a2), Some (b1, b2) => N.eqb a1 b1 && N.eqb a2 b2
         | None, None => true
         | _, _ => false
         end)
     && subset names onames && subset onames names, s').
  Fixpoint script_ok (sc : list (act * ob)) (s : st) : bool :=
    match sc with
    | [] => true
    | (a, o) :: r => let '(ok, s') := check a o s in ok && script_ok r s'
    end.
End C.
Definition case_ok (c : case) : bool :=
  let '(tbl, uuids, K, pids, sc) := c in
  script_ok tbl uuids K pids sc (init_state empty_world).
Fixpoint bad_from (i : nat) (cs : list case) : list nat :=
  match cs with
  | [] => []
  | c :: r => if case_ok c then bad_from (S i) r else i :: bad_from (S i) r
  end.
Definition bad := bad_from 0.
"""

TMP_RE = re.compile(r"^model-([0-9a-f]{64})\.(.+)\.tmp$")


def how(script) -> str:
    return ("harness/impl/cache_steps.py: run.load_model in separate processes sharing one fresh TMPDIR, "
            "with os/io/pickle wrapped; `fault`=[k, mode] injects at the k-th file-system step "
            "(raise OSError / os._exit / os._exit after half of the write)")


def streams(ctx: lib.Ctx) -> None:
    rng = ctx.rng
    a = gen.valid_model(rng, tag="c24-a")
    b = gen.valid_model(rng, tag="c24-b")
    bad = gen.break_model(rng, a)
    texts = [a, b, bad]

    # ---------------------------------------------------------------- scripts
    def R(text, flag=True, fault=None):
        return {"text": text, "flag": flag, "fault": fault}

    scripts: List[List[Dict[str, Any]]] = [
        [R(a), R(a), R(a, False), R(b), R(a)],            # cold, warm, no flag, other text, warm
        [R(bad), R(bad), R(a, False), R(a)],              # errors never cached
    ]
    modes = ["raise", "exit", "exit_mid"]
    cold_steps, warm_steps = 7, 3                          # checked against the recording below
    faults = []
    for k in range(cold_steps + 1):
        for mode in modes:
            if mode == "exit_mid" and k != 3:
                continue
            if mode == "raise" and k == cold_steps - 1:
                continue        # a failing unlink inside the finally is covered as a crash there
            faults.append(("cold", k, mode))
    for k in range(warm_steps + 1):
        for mode in ("raise", "exit"):
            faults.append(("warm", k, mode))
    if not ctx.thorough:
        # quick: every step index once, modes alternating (thorough: the full product, twice)
        keep = []
        for i, f in enumerate(faults):
            if f[2] == "exit_mid" or (f[1] + (0 if f[0] == "cold" else 1)) % 2 == (0 if f[2] == "raise" else 1):
                keep.append(f)
        faults = keep
    for kind, k, mode in faults:
        pre = [R(a)] if kind == "warm" else ([R(b)] if rng.random() < 0.5 else [])
        follow = [R(a), R(b)] if rng.random() < 0.5 else [R(a), R(a)]
        scripts.append(pre + [R(a, True, [k, mode])] + follow)
    if ctx.thorough:
        for kind, k, mode in faults:
            pre = [R(a)] if kind == "warm" else []
            scripts.append(pre + [R(a, True, [k, mode]), R(a, True, [max(0, k - 1), "exit"]), R(a), R(b)])

    conc = []
    for i in range(ctx.n(3, 24)):
        n = rng.randint(2, 8)
        pool = [a, b] if i % 3 else [a, b, bad]
        conc.append({"kind": "conc", "texts": [rng.choice(pool) for _ in range(n)], "seed": rng.randint(0, 10**6)})

    jobs = [{"kind": "seq", "runs": s} for s in scripts] + conc
    version, outs = parallel_impl("cache_steps.py", "jobs", jobs, chunk=2, workers=10)
    seq_out = outs[:len(scripts)]
    conc_out = outs[len(scripts):]

    # ---------------------------------------------------------------- references (uncached)
    _, ref_outs = parallel_impl("cache_hist.py", "histories", [[[t, False]] for t in texts], chunk=3)
    ref = {t: o["runs"][0]["result"] for t, o in zip(texts, ref_outs)}
    by_hash = {sha_hex(t): t for t in texts}
    fps, msgs = Ids(), Ids()
    text_id = {t: i + 1 for i, t in enumerate(texts)}

    def check_entries(entries, inp, stream, finished: bool):
        for name, status in entries.items():
            m = re.match(r"^model-([0-9a-f]{64})\.pickle$", name)
            if m:
                t = by_hash.get(m.group(1))
                if t is None or ref[t]["class"] != "ok":
                    ctx.impl_failure("foreign-or-error-entry", f"cache entry {name} belongs to no successfully "
                                     "loaded text", inp, entries, stream, how(None))
                elif status != "ok:" + ref[t]["fp"]:
                    ctx.impl_failure("partial-or-wrong-cache-entry",
                                     f"cache entry {name} is {status}; the complete pickle has fingerprint "
                                     f"{ref[t]['fp']}: a later reader gets a partial or foreign entry",
                                     inp, entries, stream, how(None))
            elif TMP_RE.match(name):
                if status == "notprefix":
                    ctx.impl_failure("tmp-not-a-prefix", f"temporary file {name} is not a prefix of the pickle",
                                     inp, entries, stream, how(None))
            else:
                ctx.impl_failure("unexpected-file", f"unexpected file {name} in the temp directory",
                                 inp, entries, stream, how(None))

    # ---------------------------------------------------------------- oracle + Coq cases (sequential scripts)
    coq_cases = []
    nontrivial = []
    K = None
    for s, o in zip(scripts, seq_out):
        first = o["runs"][0]
        if K is None and s[0]["flag"] and first["steps"]:
            K = max(1, sum(1 for x in first["steps"] if x == "write"))
    K = K or 1
    rec = seq_out[0]["runs"]
    if rec[0]["steps"] is not None and (len(rec[0]["steps"]) != cold_steps + (K - 1) or len(rec[1]["steps"]) != warm_steps):
        # the step counts used to enumerate the fault positions no longer fit: still compared
        # in Coq below (so this shows up as a correspondence break), and recorded here
        ctx.coverage["step_count_note"] = f"cold={len(rec[0]['steps'])} warm={len(rec[1]['steps'])}"
    for si, (s, o) in enumerate(zip(scripts, seq_out)):
        inp = {"script": [[sha_hex(r["text"])[:12], r["flag"], r["fault"]] for r in s],
               "texts": {sha_hex(r["text"])[:12]: r["text"] for r in s}}
        uuids: List[str] = []
        acts = []
        crashed_tmps = set()
        had_fault = False
        for pid, (r, out) in enumerate(zip(s, o["runs"])):
            res = out["result"]
            steps = out["steps"]
            for lab in steps or []:
                if lab.startswith("openw:"):
                    m = TMP_RE.match(lab[len("openw:"):].replace("!raised", ""))
                    if m and m.group(2) not in uuids:
                        uuids.append(m.group(2))
            for name in out["entries"]:
                m = TMP_RE.match(name)
                if m and m.group(2) not in uuids:
                    uuids.append(m.group(2))      # drawn by a process that exited before reporting
            names = [n for n in out["entries"]]
            fault = r["fault"]
            if fault is None:
                # property: a completed run returns the uncached result
                want = ref[r["text"]]
                same = (res["class"] == want["class"] and res.get("fp") == want.get("fp")
                        and res.get("msg") == want.get("msg"))
                if not same:
                    ctx.impl_failure(
                        "completed-run-differs-after-fault" if had_fault else "completed-run-differs",
                        f"run {pid} completed with {res}; an uncached run returns {want}"
                        + (" (after an injected crash/failure of an earlier run)" if had_fault else ""),
                        inp, {"got": res, "want": want, "entries": out["entries"]}, "fault", how(s))
                # a completed run leaves no temporary file of its own
                mine = [n for n in out["entries"] if TMP_RE.match(n) and n not in crashed_tmps]
                if mine:
                    ctx.impl_failure("tmp-left-by-completed-run", f"run {pid} completed and left {mine}",
                                     inp, out["entries"], "fault", how(s))
                c, i = enc_result(res, fps, msgs)
                acts.append((f"ASolo {coq_nat(pid)}",
                             coq_option(coq_list(coq_text(x) for x in steps)) if steps is not None else "None",
                             coq_option(coq_pair(coq_n(c), coq_n(i)))))
            else:
                had_fault = True
                k, mode = fault
                if mode == "raise":
                    if res["class"] == "exc":
                        obs_res = coq_option(coq_pair(coq_n(2), coq_n(0)))
                    else:
                        c, i = enc_result(res, fps, msgs)   # the run finished before step k
                        obs_res = coq_option(coq_pair(coq_n(c), coq_n(i)))
                    pre = [x for x in (steps or [])[:k]]
                    acts.append((f"AFailAt {coq_nat(pid)} {coq_nat(k)}",
                                 coq_option(coq_list(coq_text(x) for x in pre)), obs_res))
                    left = [n for n in out["entries"] if TMP_RE.match(n) and n not in crashed_tmps]
                    if left:
                        ctx.impl_failure("tmp-left-after-exception",
                                         f"an exception at step {k} left the temporary file {left} "
                                         "(the finally-unlink did not run)", inp, out["entries"], "fault", how(s))
                else:
                    if res.get("class") == "exit":
                        acts.append((f"ACrashAt {coq_nat(pid)} {coq_nat(k)}",
                                     coq_option(coq_list(coq_text(x) for x in steps)) if steps is not None else "None",
                                     "None"))
                    else:                                   # finished before reaching step k
                        c, i = enc_result(res, fps, msgs)
                        acts.append((f"ASolo {coq_nat(pid)}",
                                     coq_option(coq_list(coq_text(x) for x in steps)) if steps is not None else "None",
                                     coq_option(coq_pair(coq_n(c), coq_n(i)))))
                    for n in out["entries"]:
                        if TMP_RE.match(n):
                            crashed_tmps.add(n)
                nontrivial.append((si, k, mode))
            check_entries(out["entries"], inp, "fault", finished=True)
            acts[-1] = acts[-1] + (coq_list(coq_text(n) for n in names),)
        hs_texts = []
        for r in s:
            if r["text"] not in hs_texts:
                hs_texts.append(r["text"])
        tbl = []
        for t in hs_texts:
            c, i = enc_result(ref[t], fps, msgs)
            tbl.append(coq_pair(coq_n(text_id[t]), coq_pair(coq_text(sha_hex(t)), coq_pair(coq_n(c), coq_n(i)))))
        pids = coq_list(coq_pair(coq_n(text_id[r["text"]]), coq_bool(r["flag"])) for r in s)
        script = coq_list(coq_pair(a_, coq_pair(st_, rs_, nm_)) for a_, st_, rs_, nm_ in acts)
        coq_cases.append(coq_pair(coq_list(tbl), coq_list(coq_text(u) for u in uuids), coq_nat(K), pids, script))

    # ---------------------------------------------------------------- concurrent processes
    conc_nontrivial = []
    for ji, (job, o) in enumerate(zip(conc, conc_out)):
        inp = {"texts": [sha_hex(t)[:12] for t in job["texts"]], "seed": job["seed"],
               "models": {sha_hex(t)[:12]: t for t in set(job["texts"])}}
        racers = 0
        for pid, (t, pr) in enumerate(zip(job["texts"], o["procs"])):
            res, want = pr["result"], ref[t]
            same = (res["class"] == want["class"] and res.get("fp") == want.get("fp")
                    and res.get("msg") == want.get("msg"))
            if not same:
                ctx.impl_failure("concurrent-run-differs",
                                 f"process {pid} of {len(job['texts'])} concurrent runs returned {res}; "
                                 f"an uncached run returns {want}", inp, {"got": res, "want": want}, "concurrent",
                                 how(None))
            if pr["steps"] and any(x.startswith("openw:") for x in pr["steps"]):
                racers += 1
        check_entries(o["entries"], inp, "concurrent", finished=True)
        left = [n for n in o["entries"] if TMP_RE.match(n)]
        if left:
            ctx.impl_failure("tmp-left-by-completed-run", f"{left} left after all concurrent runs completed",
                             inp, o["entries"], "concurrent", how(None))
        want_names = {f"model-{sha_hex(t)}.pickle" for t in job["texts"] if ref[t]["class"] == "ok"}
        if set(o["entries"]) != want_names and not left:
            ctx.impl_failure("concurrent-final-directory", f"final directory {sorted(o['entries'])} != "
                             f"{sorted(want_names)}", inp, o["entries"], "concurrent", how(None))
        conc_nontrivial.append((ji, len(job["texts"]), racers))
        # the model on the sequential schedule of the same processes: same final directory
        hs = []
        for t in job["texts"]:
            if t not in hs:
                hs.append(t)
        tbl = []
        for t in hs:
            c, i = enc_result(ref[t], fps, msgs)
            tbl.append(coq_pair(coq_n(text_id[t]), coq_pair(coq_text(sha_hex(t)), coq_pair(coq_n(c), coq_n(i)))))
        uu = [f"u{i}" for i in range(len(job["texts"]))]
        acts = []
        cum = set()
        for pid, t in enumerate(job["texts"]):
            c, i = enc_result(ref[t], fps, msgs)
            if ref[t]["class"] == "ok":
                cum.add(f"model-{sha_hex(t)}.pickle")
            names = sorted(cum) if pid < len(job["texts"]) - 1 else list(o["entries"])
            acts.append(coq_pair(f"ASolo {coq_nat(pid)}",
                                 coq_pair("None", coq_option(coq_pair(coq_n(c), coq_n(i))),
                                          coq_list(coq_text(n) for n in names))))
        coq_cases.append(coq_pair(coq_list(tbl), coq_list(coq_text(u) for u in uu), coq_nat(K),
                                  coq_list(coq_pair(coq_n(text_id[t]), "true") for t in job["texts"]),
                                  coq_list(acts)))

    bad_idx, _log = lib.run_cases(ctx.work, "steps", HEADER, "case", "bad", coq_cases, shard=12)
    for i in bad_idx[:10]:
        if i < len(scripts):
            s, o = scripts[i], seq_out[i]
            ctx.corr_break("fault", {"script": [[sha_hex(r["text"])[:12], r["flag"], r["fault"]] for r in s]},
                           "Model/CacheConc.v: steps before the fault, result, directory after each run",
                           [{"result": r["result"], "steps": r["steps"], "entries": r["entries"]} for r in o["runs"]])
        else:
            j = i - len(scripts)
            ctx.corr_break("concurrent", {"texts": [sha_hex(t)[:12] for t in conc[j]["texts"]]},
                           "Model/CacheConc.v: sequential schedule of the same processes", conc_out[j]["entries"])
    n_runs = sum(len(s) for s in scripts)
    ctx.count("fault", n_runs, nontrivial_keys=nontrivial, validated=n_runs, scripts=len(scripts),
              fault_points=len(faults), write_calls_per_dump=K,
              modes={m: sum(1 for f in faults if f[2] == m) for m in modes})
    n_procs = sum(len(j["texts"]) for j in conc)
    ctx.count("concurrent", n_procs, nontrivial_keys=conc_nontrivial, validated=len(conc),
              jobs=len(conc), processes=n_procs,
              racing_writers=sum(x[2] for x in conc_nontrivial))
    ctx.sample({"script": [[sha_hex(r["text"])[:12], r["flag"], r["fault"]] for r in scripts[3]],
                "steps_cold": seq_out[0]["runs"][0]["steps"], "steps_warm": seq_out[0]["runs"][1]["steps"]})

    seen = set()
    uniq = []
    for f in ctx.impl_failures:
        if f["key"] not in seen:
            seen.add(f["key"])
            uniq.append(f)
    ctx.impl_failures = uniq
