"""C09, text level: read the invariant checks out of the generated verification modules of
the Python, TypeScript, Java and C++ SDKs and bring them into one neutral operator tree.

Pipeline per generated file:

  1. ``extract_checks(lang, text)``: every ``if`` statement that guards the report of an
     invariant: (description as written in the string literals, condition text, polarity).
  2. ``parse_expr(lang, cond)``: a small precedence parser for the expression sub-language
     the transpilers emit (one tokenizer, a Pratt parser with the precedence table of the
     language) -> generic syntax tree.
  3. ``normalize(lang, tree)``: language idioms -> neutral tree
     (``x.isPresent()`` / ``x.has_value()`` / ``x !== null`` / ``x is not None`` ->
     ``("is_not_none", x)`` and so on). Comparison *tokens* are kept (``("cmp", "<", l, r)``);
     reading them through the operator tables is the business of ``harness/props/c09.py``.

Everything fails closed: an unknown token, idiom or shape raises ``TextError``.
Standard library only; runs harness-side (never imports the repository).
"""
from __future__ import annotations

import ast
import re
from typing import Any, Dict, List, Optional, Sequence, Tuple

LANGS = ("python", "typescript", "java", "cpp")


class TextError(Exception):
    pass


# ----------------------------------------------------------------------------------------
# Tokenizer
# ----------------------------------------------------------------------------------------
_PUNCT = ["===", "!==", "==", "!=", "<=", ">=", "&&", "||", "->", "=>", "::",
          "<", ">", "!", "(", ")", "[", "]", "{", "}", ".", ",", "+", "-", "*", "&", ";", ":", "="]
_ID_RE = re.compile(r"[A-Za-z_$][A-Za-z0-9_$]*")
_NUM_RE = re.compile(r"(?:\d+\.\d*(?:[eE][-+]?\d+)?|\.\d+(?:[eE][-+]?\d+)?|\d+[eE][-+]?\d+|\d+)([fFdDlL]|LL|ll)?")

_SIMPLE_ESC = {"n": "\n", "t": "\t", "r": "\r", "\\": "\\", '"': '"', "'": "'", "0": "\0",
               "b": "\b", "f": "\f", "v": "\v", "a": "\a"}


def _read_string(lang: str, s: str, i: int) -> Tuple[str, int]:
    """Read a quoted literal starting at s[i] (a quote); returns (value, next index)."""
    q = s[i]
    j = i + 1
    out: List[str] = []
    n = len(s)
    while True:
        if j >= n:
            raise TextError("unterminated string literal")
        c = s[j]
        if c == q:
            return "".join(out), j + 1
        if c == "\n":
            raise TextError("newline in string literal")
        if c != "\\":
            out.append(c)
            j += 1
            continue
        j += 1
        if j >= n:
            raise TextError("dangling backslash")
        e = s[j]
        if e in _SIMPLE_ESC and not (e == "0" and j + 1 < n and s[j + 1].isdigit()):
            out.append(_SIMPLE_ESC[e])
            j += 1
        elif e == "x":
            if lang == "cpp":
                # greedy hexadecimal escape
                k = j + 1
                while k < n and s[k] in "0123456789abcdefABCDEF":
                    k += 1
                if k == j + 1:
                    raise TextError("empty \\x escape")
                out.append(chr(int(s[j + 1:k], 16)))
                j = k
            else:
                h = s[j + 1:j + 3]
                if len(h) != 2 or any(ch not in "0123456789abcdefABCDEF" for ch in h):
                    raise TextError("bad \\x escape")
                out.append(chr(int(h, 16)))
                j += 3
        elif e == "u":
            if lang == "typescript" and s[j + 1:j + 2] == "{":
                k = s.index("}", j)
                out.append(chr(int(s[j + 2:k], 16)))
                j = k + 1
            else:
                h = s[j + 1:j + 5]
                if len(h) != 4 or any(ch not in "0123456789abcdefABCDEF" for ch in h):
                    raise TextError("bad \\u escape")
                out.append(chr(int(h, 16)))
                j += 5
        elif e == "U":
            h = s[j + 1:j + 9]
            if len(h) != 8:
                raise TextError("bad \\U escape")
            out.append(chr(int(h, 16)))
            j += 9
        else:
            raise TextError(f"unknown escape \\{e}")


def _join_surrogates(t: str) -> str:
    return t.encode("utf-16", "surrogatepass").decode("utf-16", "surrogatepass")


Token = Tuple[str, Any, int]  # (kind, value, position); kind in id num str op


def tokenize(lang: str, s: str) -> List[Token]:
    toks: List[Token] = []
    i, n = 0, len(s)
    while i < n:
        c = s[i]
        if c in " \t\r\n":
            i += 1
            continue
        if lang == "python" and c == "#":
            while i < n and s[i] != "\n":
                i += 1
            continue
        if lang != "python" and s.startswith("//", i):
            while i < n and s[i] != "\n":
                i += 1
            continue
        if lang != "python" and s.startswith("/*", i):
            k = s.find("*/", i + 2)
            if k < 0:
                raise TextError("unterminated comment")
            i = k + 2
            continue
        if lang == "cpp" and c == "L" and i + 1 < n and s[i + 1] in "\"'":
            v, j = _read_string(lang, s, i + 1)
            toks.append(("str" if s[i + 1] == '"' else "chr", v, i))
            i = j
            continue
        if c == '"' or (c == "'" and lang in ("python", "typescript")):
            if lang == "python" and (s.startswith('"""', i) or s.startswith("'''", i)):
                raise TextError("triple-quoted string in an expression")
            v, j = _read_string(lang, s, i)
            if lang in ("java", "typescript"):
                v = _join_surrogates(v)
            toks.append(("str", v, i))
            i = j
            continue
        if c == "'" and lang in ("java", "cpp"):
            v, j = _read_string(lang, s, i)
            toks.append(("chr", v, i))
            i = j
            continue
        m = _NUM_RE.match(s, i)
        if m and (c.isdigit() or (c == "." and i + 1 < n and s[i + 1].isdigit())):
            toks.append(("num", m.group(0), i))
            i = m.end()
            continue
        m = _ID_RE.match(s, i)
        if m:
            toks.append(("id", m.group(0), i))
            i = m.end()
            continue
        for p in _PUNCT:
            if s.startswith(p, i):
                toks.append(("op", p, i))
                i += len(p)
                break
        else:
            raise TextError(f"unexpected character {c!r} at {i}: {s[max(0, i - 30):i + 30]!r}")
    return toks


# ----------------------------------------------------------------------------------------
# Generic syntax tree (tuples):
#   ("name", id) ("num", text) ("str", value) ("attr", obj, name, sep) ("call", f, [args])
#   ("index", obj, idx) ("un", op, x) ("bin", op, l, r) ("lambda", var, body)
#   ("genexp", cond, var, iter)   (python)        ("paren", x) is dropped while parsing
# ----------------------------------------------------------------------------------------
class _Parser:
    def __init__(self, lang: str, toks: List[Token], src: str):
        self.lang = lang
        self.toks = toks
        self.i = 0
        self.src = src

    # -- helpers
    def peek(self, k: int = 0) -> Token:
        j = self.i + k
        return self.toks[j] if j < len(self.toks) else ("eof", None, len(self.src))

    def at(self, kind: str, val: Any = None, k: int = 0) -> bool:
        t = self.peek(k)
        return t[0] == kind and (val is None or t[1] == val)

    def eat(self, kind: str, val: Any = None) -> Token:
        t = self.peek()
        if not self.at(kind, val):
            raise TextError(f"expected {kind} {val!r}, got {t[:2]} near {self.src[max(0, t[2] - 40):t[2] + 20]!r}")
        self.i += 1
        return t

    def kw(self, word: str, k: int = 0) -> bool:
        return self.lang == "python" and self.at("id", word, k)

    # -- grammar (lowest precedence first)
    def expr(self):
        # lambdas: java `x -> e`, typescript `x => e`
        if self.lang == "java" and self.at("id") and self.at("op", "->", 1):
            var = self.eat("id")[1]
            self.eat("op", "->")
            return ("lambda", var, self.expr())
        if self.lang == "typescript" and self.at("id") and self.at("op", "=>", 1):
            var = self.eat("id")[1]
            self.eat("op", "=>")
            return ("lambda", var, self.expr())
        return self.or_()

    def or_(self):
        left = self.and_()
        while (self.lang != "python" and self.at("op", "||")) or self.kw("or"):
            op = self.peek()[1]
            self.i += 1
            left = ("bin", op, left, self.and_())
        return left

    def and_(self):
        left = self.not_()
        while (self.lang != "python" and self.at("op", "&&")) or self.kw("and"):
            op = self.peek()[1]
            self.i += 1
            left = ("bin", op, left, self.not_())
        return left

    def not_(self):
        if self.kw("not"):
            self.i += 1
            return ("un", "not", self.not_())
        return self.equality() if self.lang != "python" else self.py_comparison()

    def py_comparison(self):
        left = self.additive()
        n = 0
        while True:
            if self.at("op") and self.peek()[1] in ("==", "!=", "<", "<=", ">", ">="):
                op = self.peek()[1]
                self.i += 1
            elif self.kw("is") and self.kw("not", 1):
                op = "is not"
                self.i += 2
            elif self.kw("is"):
                op = "is"
                self.i += 1
            elif self.kw("not") and self.kw("in", 1):
                op = "not in"
                self.i += 2
            elif self.kw("in"):
                op = "in"
                self.i += 1
            else:
                return left
            n += 1
            if n > 1:
                raise TextError("chained python comparison")
            left = ("bin", op, left, self.additive())

    def equality(self):
        left = self.relational()
        while self.at("op") and self.peek()[1] in ("==", "!=", "===", "!=="):
            op = self.peek()[1]
            self.i += 1
            left = ("bin", op, left, self.relational())
        return left

    def relational(self):
        left = self.additive()
        while self.at("op") and self.peek()[1] in ("<", "<=", ">", ">="):
            op = self.peek()[1]
            self.i += 1
            left = ("bin", op, left, self.additive())
        return left

    def additive(self):
        left = self.unary()
        while self.at("op") and self.peek()[1] in ("+", "-"):
            op = self.peek()[1]
            self.i += 1
            left = ("bin", op, left, self.unary())
        return left

    def unary(self):
        if self.lang != "python" and self.at("op", "!"):
            self.i += 1
            return ("un", "!", self.unary())
        if self.at("op", "-"):
            self.i += 1
            return ("un", "-", self.unary())
        if self.lang == "cpp" and self.at("op", "*"):
            self.i += 1
            return ("un", "*", self.unary())
        return self.postfix()

    def postfix(self):
        x = self.primary()
        while True:
            if self.at("op", "."):
                self.i += 1
                x = ("attr", x, self.eat("id")[1], ".")
            elif self.lang == "cpp" and self.at("op", "->"):
                self.i += 1
                x = ("attr", x, self.eat("id")[1], "->")
            elif self.lang == "cpp" and self.at("op", "::"):
                self.i += 1
                x = ("attr", x, self.eat("id")[1], "::")
            elif self.at("op", "("):
                x = ("call", x, self.call_args())
            elif self.at("op", "[") and self.lang in ("python", "typescript"):
                self.i += 1
                idx = self.expr()
                self.eat("op", "]")
                x = ("index", x, idx)
            else:
                return x

    def call_args(self):
        self.eat("op", "(")
        args = []
        if self.at("op", ")"):
            self.i += 1
            return args
        while True:
            a = self.expr()
            if self.kw("for"):
                # python generator expression as the only argument
                self.i += 1
                var = self.eat("id")[1]
                if not self.kw("in"):
                    raise TextError("expected `in` in generator expression")
                self.i += 1
                it = self.or_()
                if self.kw("if") or self.kw("for"):
                    raise TextError("filter / nested generator")
                a = ("genexp", a, var, it)
            args.append(a)
            if self.at("op", ","):
                self.i += 1
                continue
            self.eat("op", ")")
            return args

    def primary(self):
        t = self.peek()
        if t[0] == "op" and t[1] == "(":
            # java cast `((IFoo) x)` is not emitted in invariants; plain parentheses only
            self.i += 1
            x = self.expr()
            self.eat("op", ")")
            return x
        if self.lang == "cpp" and t[0] == "op" and t[1] == "[":
            return self.cpp_lambda()
        if t[0] == "id":
            self.i += 1
            return ("name", t[1])
        if t[0] == "num":
            self.i += 1
            return ("num", t[1])
        if t[0] == "str":
            self.i += 1
            val = t[1]
            # adjacent literals / `+`-joined literals are handled by the caller (additive)
            while self.at("str"):
                val += self.eat("str")[1]
            return ("str", val)
        if t[0] == "chr":
            self.i += 1
            return ("chr", t[1])
        raise TextError(f"unexpected token {t[:2]} near {self.src[max(0, t[2] - 40):t[2] + 20]!r}")

    def cpp_lambda(self):
        self.eat("op", "[")
        self.eat("op", "&")
        self.eat("op", "]")
        self.eat("op", "(")
        depth = 1
        last_id = None
        while depth > 0:
            t = self.peek()
            if t[0] == "eof":
                raise TextError("unterminated lambda parameter list")
            if t[0] == "op" and t[1] == "(":
                depth += 1
            elif t[0] == "op" and t[1] == ")":
                depth -= 1
            elif t[0] == "id":
                last_id = t[1]
            elif t[0] == "op" and t[1] == ",":
                raise TextError("lambda with several parameters")
            self.i += 1
        if last_id is None:
            raise TextError("lambda without parameter")
        self.eat("op", "->")
        if self.eat("id")[1] != "bool":
            raise TextError("lambda does not return bool")
        self.eat("op", "{")
        if self.eat("id")[1] != "return":
            raise TextError("lambda body is not a single return")
        body = self.expr()
        self.eat("op", ";")
        self.eat("op", "}")
        return ("lambda", last_id, body)


def parse_expr(lang: str, src: str):
    toks = tokenize(lang, src)
    p = _Parser(lang, toks, src)
    x = p.expr()
    if p.peek()[0] != "eof":
        t = p.peek()
        raise TextError(f"trailing tokens {t[:2]} near {src[max(0, t[2] - 40):t[2] + 20]!r}")
    return x


# ----------------------------------------------------------------------------------------
# Extraction of the guarded reports
# ----------------------------------------------------------------------------------------
def _skip_ws(s: str, i: int) -> int:
    while i < len(s) and s[i] in " \t\r\n":
        i += 1
    return i


def _balanced(lang: str, s: str, i: int) -> int:
    """s[i] == '(' -> index just after the matching ')', skipping string literals."""
    assert s[i] == "("
    depth = 0
    n = len(s)
    while i < n:
        c = s[i]
        if c in "\"'" or (lang == "cpp" and c == "L" and s[i + 1:i + 2] in ('"', "'")):
            if c == "L":
                i += 1
            if c == "'" and lang == "python" and False:
                pass
            _, i = _read_string(lang, s, i)
            continue
        if c == "(":
            depth += 1
        elif c == ")":
            depth -= 1
            if depth == 0:
                return i + 1
        i += 1
    raise TextError("unbalanced parentheses")


def _read_description(lang: str, s: str, i: int) -> str:
    """Concatenate the string literals starting at s[i] (joined by `+` or adjacency)."""
    parts: List[str] = []
    n = len(s)
    while True:
        i = _skip_ws(s, i)
        if lang == "cpp" and s.startswith('L"', i):
            i += 1
        if i < n and (s[i] == '"' or (s[i] == "'" and lang in ("python", "typescript"))):
            v, i = _read_string(lang, s, i)
            parts.append(v)
        else:
            break
        j = _skip_ws(s, i)
        if j < n and s[j] == "+":
            i = j + 1
        else:
            i = j
    text = "".join(parts)
    if lang in ("java", "typescript"):
        text = _join_surrogates(text)
    return text


_IF_RE = {
    "python": re.compile(r"(?m)^[ \t]*if[ \t]+"),
    "typescript": re.compile(r"(?m)^[ \t]*if[ \t]*\("),
    "java": re.compile(r"(?m)^[ \t]*if[ \t]*\("),
    "cpp": re.compile(r"(?m)^[ \t]*if[ \t]*\("),
}
# where the description literal starts, per language
_REPORT_RE = {
    "python": re.compile(r"yield Error\(\s*(?=['\"])"),
    "typescript": re.compile(r"yield new VerificationError\(\s*(?=['\"])"),
    "java": re.compile(r"new Reporting\.Error\(\s*(?=\")"),
    "cpp": re.compile(r"common::make_unique<Error>\(\s*(?=L\")"),
}
JAVA_PREFIX = "Invariant violated:\n"


def extract_checks(lang: str, text: str) -> List[Dict[str, Any]]:
    """All (description, condition, flagged_when) triples of a generated verification file.

    ``flagged_when`` is the generic tree of the condition under which the error is
    reported (python/java/typescript: the ``if`` condition itself; C++: the negation of
    the ``if`` condition, because the emitted block skips the report with ``continue``)."""
    ifs: List[Tuple[int, int, str]] = []  # (start, end of condition, condition text)
    for m in _IF_RE[lang].finditer(text):
        if lang == "python":
            # condition runs to the ':' that closes the statement; conditions are emitted
            # either on one line or as `if not (` ... `):`
            j = m.end()
            k = j
            depth = 0
            n = len(text)
            while k < n:
                c = text[k]
                if c in "\"'":
                    _, k = _read_string(lang, text, k)
                    continue
                if c in "([{":
                    depth += 1
                elif c in ")]}":
                    depth -= 1
                elif c == ":" and depth == 0:
                    break
                elif c == "\n" and depth == 0:
                    k = -1
                    break
                k += 1
            if k < 0 or k >= n:
                continue
            ifs.append((m.start(), k, text[j:k]))
        else:
            j = m.end() - 1
            try:
                k = _balanced(lang, text, j)
            except TextError:
                continue
            ifs.append((m.start(), k, text[j + 1:k - 1]))
    out = []
    for m in _REPORT_RE[lang].finditer(text):
        try:
            desc = _read_description(lang, text, m.end())
        except TextError as e:
            raise TextError(f"{lang}: cannot read the description at offset {m.end()}: {e}")
        prev = [f for f in ifs if f[1] <= m.start()]
        if not prev:
            raise TextError(f"{lang}: report without a guarding if: {desc!r}")
        start, end, cond = prev[-1]
        between = text[end:m.start()]
        if lang == "java" and desc.startswith(JAVA_PREFIX):
            desc = desc[len(JAVA_PREFIX):]
            java_prefixed = True
        else:
            java_prefixed = False
        if lang == "cpp":
            # if (<cond>) { state_ = N; continue; }  error_ = make_unique<Error>(...)
            if not re.fullmatch(r"\s*\{\s*state_\s*=\s*\d+;\s*continue;\s*\}\s*error_\s*=\s*", between):
                # not an invariant report (e.g. errors of the pattern verification of
                # constrained primitives are reported the same way; anything else: skip)
                out.append({"description": desc, "skipped": "unrecognised guard shape",
                            "between": between[:200]})
                continue
            polarity = "skip_when"
        else:
            shapes = {
                "python": r"\s*:\s*",
                "typescript": r"\s*\{\s*",
                "java": r"\s*\{\s*errorStream\s*=\s*Stream\.<Reporting\.Error>concat\(errorStream,\s*Stream\.of\(",
            }
            if not re.fullmatch(shapes[lang], between):
                out.append({"description": desc, "skipped": "unrecognised guard shape",
                            "between": between[:200]})
                continue
            polarity = "flag_when"
        out.append({"description": desc, "condition": cond, "polarity": polarity,
                    "java_prefixed": java_prefixed, "offset": start})
    return out


# ----------------------------------------------------------------------------------------
# Normalisation into the neutral tree
#   ("not", x) ("and", [..]) ("or", [..]) ("cmp", token, l, r) ("is_none", x) ("is_not_none", x)
#   ("prop", obj, name) ("var", name) ("that",) ("int", n) ("float", x) ("str", s) ("bool", b)
#   ("len", x) ("in", member, container) ("call", fname, [args]) ("index", xs, i)
#   ("all"|"any", var, ("each", iter) | ("range", a, b), cond) ("add", l, r) ("sub", l, r)
#   ("enum", enum, literal) ("constant", name)
# Names are normalised by ``nn`` (lower case, underscores dropped).
# ----------------------------------------------------------------------------------------
def nn(name: str) -> str:
    return name.replace("_", "").lower()


def _flatten(kind: str, l, r):
    xs = []
    for x in (l, r):
        if x[0] == kind:
            xs.extend(x[1])
        else:
            xs.append(x)
    return (kind, xs)


def _num(text: str):
    t = text.rstrip("fFdDlL")
    if re.fullmatch(r"\d+", t):
        return ("int", int(t))
    return ("float", float(t))


class _Norm:
    def __init__(self, lang: str):
        self.lang = lang
        self.vars: List[str] = []

    def err(self, what: str, t) -> TextError:
        return TextError(f"{self.lang}: {what}: {t!r}"[:600])

    def go(self, t):
        lang = self.lang
        k = t[0]
        if k == "num":
            return _num(t[1])
        if k == "str":
            return ("str", t[1])
        if k == "un":
            op, x = t[1], t[2]
            if op in ("!", "not"):
                if lang == "java" and self._is_objects_equals(x):
                    # `!Objects.equals(l, r)` is how `l != r` is written for two references
                    return ("cmp", "!=", self.go(x[2][0]), self.go(x[2][1]))
                # `!x.isPresent()`, `!(x.has_value())` are is_none
                inner = self.go(x)
                if lang in ("java", "cpp") and inner[0] == "is_not_none" and self._direct_presence(x):
                    return ("is_none", inner[1])
                return ("not", inner)
            if op == "-":
                inner = self.go(x)
                if inner[0] in ("int", "float"):
                    return (inner[0], -inner[1])
                raise self.err("negation of a non-literal", t)
            if op == "*" and lang == "cpp":
                return self.go(x)  # value of an optional
            raise self.err("unary operator", t)
        if k == "bin":
            op, l, r = t[1], t[2], t[3]
            if op in ("&&", "and"):
                return _flatten("and", self.go(l), self.go(r))
            if op in ("||", "or"):
                return _flatten("or", self.go(l), self.go(r))
            if op in ("+", "-"):
                return ("add" if op == "+" else "sub", self.go(l), self.go(r))
            if lang == "python":
                if op == "is" and r == ("name", "None"):
                    return ("is_none", self.go(l))
                if op == "is not" and r == ("name", "None"):
                    return ("is_not_none", self.go(l))
                if op == "in":
                    return ("in", self.go(l), self.go(r))
                if op in ("is", "is not", "not in"):
                    raise self.err("python operator", t)
            if lang == "typescript":
                if op == "===" and r == ("name", "null"):
                    return ("is_none", self.go(l))
                if op == "!==" and r == ("name", "null"):
                    return ("is_not_none", self.go(l))
                if op in ("===", "!=="):
                    raise self.err("strict comparison outside a null test", t)
            if lang == "java" and r == ("name", "null"):
                if op == "==":
                    return ("is_none", self.go(l))
                if op == "!=":
                    return ("is_not_none", self.go(l))
            return ("cmp", op, self.go(l), self.go(r))
        if k == "name":
            return self.name(t[1], t)
        if k == "attr":
            return self.attr(t)
        if k == "call":
            return self.call(t)
        if k == "index":
            return ("index", self.go(t[1]), self.go(t[2]))
        raise self.err("unexpected node", t)

    def _is_objects_equals(self, x) -> bool:
        return (x[0] == "call" and x[1][0] == "attr" and x[1][1] == ("name", "Objects")
                and x[1][2] == "equals" and len(x[2]) == 2)

    def _direct_presence(self, x) -> bool:
        """x (generic) is literally `<e>.isPresent()` / `<e>.has_value()` (maybe parenthesised)."""
        return x[0] == "call" and x[1][0] == "attr" and x[1][2] in ("isPresent", "has_value") and not x[2]

    # -- names
    def name(self, n: str, t):
        lang = self.lang
        if n in self.vars:
            return ("var", nn(n))
        if lang == "python":
            if n == "that":
                return ("that",)
            if n in ("True", "False"):
                return ("bool", n == "True")
        if lang in ("typescript", "java"):
            if n == "that":
                return ("that",)
            if n in ("true", "false"):
                return ("bool", n == "true")
        if lang == "cpp":
            if n in ("instance_", "that", "value_"):
                return ("that",)
            if n in ("true", "false"):
                return ("bool", n == "true")
        if lang == "java" and re.fullmatch(r"[A-Z][A-Za-z0-9]*", n):
            return ("typename", n)
        raise self.err("unknown free name", t)

    def _is_qual(self, obj, *names: str) -> bool:
        return obj[0] == "name" and obj[1] in names

    def attr(self, t):
        lang = self.lang
        _, obj, name, sep = t
        if lang == "python":
            # aas_types.Enum.Literal / aas_constants.NAME / that.prop / var.prop
            if obj[0] == "attr" and self._is_qual(obj[1], "aas_types"):
                return ("enum", nn(obj[2]), nn(name))
            if self._is_qual(obj, "aas_constants"):
                return ("constant", nn(name))
            if self._is_qual(obj, "aas_types", "aas_common"):
                raise self.err("bare module member", t)
            return ("prop", self.go(obj), nn(name))
        if lang == "typescript":
            if obj[0] == "attr" and self._is_qual(obj[1], "AasTypes"):
                return ("enum", nn(obj[2]), nn(name))
            if self._is_qual(obj, "AasConstants"):
                return ("constant", nn(name))
            if name == "length":
                return ("len", self.go(obj))
            return ("prop", self.go(obj), nn(name))
        if lang == "java":
            if self._is_qual(obj, "Constants"):
                return ("constant", nn(name))
            if obj[0] == "name" and re.fullmatch(r"[A-Z][A-Za-z0-9]*", obj[1]) and obj[1] not in self.vars \
                    and re.fullmatch(r"[A-Z][A-Z0-9_]*", name):
                return ("enum", nn(obj[1]), nn(name))
            raise self.err("field access", t)
        if lang == "cpp":
            # types::Enum::kLiteral ; constants::kName
            if sep == "::":
                if obj[0] == "attr" and obj[3] == "::" and self._is_qual(obj[1], "types") and name.startswith("k"):
                    return ("enum", nn(obj[2]), nn(name[1:]))
                if self._is_qual(obj, "constants") and name.startswith("k"):
                    return ("constant", nn(name[1:]))
            raise self.err("member access without call", t)
        raise self.err("attr", t)

    def call(self, t):
        lang = self.lang
        _, f, args = t
        if lang == "python":
            if f[0] == "name":
                if f[1] == "len" and len(args) == 1:
                    return ("len", self.go(args[0]))
                if f[1] in ("all", "any") and len(args) == 1 and args[0][0] == "genexp":
                    _, cond, var, it = args[0]
                    return self.quant(f[1], var, it, cond)
                return ("call", nn(f[1]), [self.go(a) for a in args])
            raise self.err("python call", t)
        if lang == "typescript":
            if f[0] == "attr" and self._is_qual(f[1], "AasCommon"):
                fn = f[2]
                if fn == "at" and len(args) == 2:
                    return ("index", self.go(args[0]), self.go(args[1]))
                if fn in ("every", "some") and len(args) == 1:
                    inner = args[0]
                    if (inner[0] == "call" and inner[1][0] == "attr" and self._is_qual(inner[1][1], "AasCommon")
                            and inner[1][2] == "map" and len(inner[2]) == 2 and inner[2][1][0] == "lambda"):
                        src, lam = inner[2]
                        return self.quant("all" if fn == "every" else "any", lam[1], src, lam[2])
                raise self.err("AasCommon call", t)
            if f[0] == "attr" and f[2] in ("has", "includes") and len(args) == 1:
                return ("in", self.go(args[0]), self.go(f[1]))
            if f[0] == "name":
                return ("call", nn(f[1]), [self.go(a) for a in args])
            raise self.err("typescript call", t)
        if lang == "java":
            if self._is_objects_equals(t):
                return ("cmp", "==", self.go(args[0]), self.go(args[1]))
            if f[0] == "attr":
                obj, m = f[1], f[2]
                if m == "isPresent" and not args:
                    return ("is_not_none", self.go(obj))
                if m == "get" and not args:
                    return self.go(obj)
                if m == "orElse" and args == [("name", "null")]:
                    return self.go(obj)
                if m == "get" and len(args) == 1:
                    return ("index", self.go(obj), self.go(args[0]))
                if m in ("size", "length") and not args:
                    return ("len", self.go(obj))
                if m == "contains" and len(args) == 1:
                    return ("in", self.go(args[0]), self.go(obj))
                if m in ("allMatch", "anyMatch") and len(args) == 1 and args[0][0] == "lambda":
                    lam = args[0]
                    return self.quant("all" if m == "allMatch" else "any", lam[1], obj, lam[2])
                if m.startswith("get") and len(m) > 3 and not args:
                    return ("prop", self.go(obj), nn(m[3:]))
                raise self.err("java method call", t)
            if f[0] == "name":
                return ("call", nn(f[1]), [self.go(a) for a in args])
            raise self.err("java call", t)
        if lang == "cpp":
            if f[0] == "attr":
                obj, m, sep = f[1], f[2], f[3]
                if sep == "::" and self._is_qual(obj, "common"):
                    if m in ("All", "Some") and len(args) == 2 and args[0][0] == "lambda":
                        lam = args[0]
                        return self.quant("all" if m == "All" else "any", lam[1], args[1], lam[2])
                    if m in ("AllRange", "SomeRange") and len(args) == 3 and args[0][0] == "lambda":
                        lam = args[0]
                        return self.quant("all" if m == "AllRange" else "any", lam[1],
                                          ("call", ("name", "range"), [args[1], args[2]]), lam[2], cpp_range=True)
                    if m.startswith("Contains") and len(args) == 2:
                        return ("in", self.go(args[1]), self.go(args[0]))
                    raise self.err("common:: call", t)
                if sep in (".", "->"):
                    if m == "has_value" and not args:
                        return ("is_not_none", self.go(obj))
                    if m == "value" and not args:
                        return self.go(obj)
                    if m == "size" and not args:
                        return ("len", self.go(obj))
                    if m == "at" and len(args) == 1:
                        return ("index", self.go(obj), self.go(args[0]))
                    if m == "back" and not args:
                        return ("index", self.go(obj), ("int", -1))
                    if not args:
                        return ("prop", self.go(obj), nn(m))
                raise self.err("cpp member call", t)
            if f[0] == "name":
                return ("call", nn(f[1]), [self.go(a) for a in args])
            raise self.err("cpp call", t)
        raise self.err("call", t)

    def quant(self, q: str, var: str, it, cond, cpp_range: bool = False):
        lang = self.lang
        # iteration source
        src = None
        if it[0] == "call":
            f, a = it[1], it[2]
            if lang == "python" and f == ("name", "range") and len(a) == 2:
                src = ("range", self.go(a[0]), self.go(a[1]))
            elif lang == "typescript" and f[0] == "attr" and self._is_qual(f[1], "AasCommon") and f[2] == "range" and len(a) == 2:
                src = ("range", self.go(a[0]), self.go(a[1]))
            elif lang == "java" and f[0] == "attr" and self._is_qual(f[1], "IntStream") and f[2] == "range" and len(a) == 2:
                src = ("range", self.go(a[0]), self.go(a[1]))
            elif lang == "java" and f[0] == "attr" and f[2] == "stream" and not a:
                src = ("each", self.go(f[1]))
            elif cpp_range:
                src = ("range", self.go(a[0]), self.go(a[1]))
        if src is None:
            if lang == "java":
                raise self.err("java quantifier source is not a stream", it)
            src = ("each", self.go(it))
        self.vars.append(var)
        try:
            c = self.go(cond)
        finally:
            self.vars.pop()
        return (q, nn(var), src, c)


def normalize(lang: str, tree):
    return _Norm(lang).go(tree)


def flagged_when(lang: str, check: Dict[str, Any]):
    """Neutral tree of the condition under which the error is reported."""
    t = normalize(lang, parse_expr(lang, check["condition"]))
    if check["polarity"] == "skip_when":
        return ("not", t)
    return t


_NEGATED = {"==": "!=", "!=": "==", "<": ">=", ">=": "<", "<=": ">", ">": "<="}


def canon(t):
    """Semantics-preserving canonical form used on both sides of the comparison:
    not(not x) -> x; not(is_none x) -> is_not_none x; not(is_not_none x) -> is_none x;
    not(l < r) -> l >= r and so on (Java writes `l != r` on references as `!Objects.equals(l, r)`)
    (Java and C++ write `x is None` as `!x.isPresent()` / `!(x.has_value())`, which is also
    what they emit for `not (x is not None)`)."""
    if isinstance(t, tuple):
        t = tuple(canon(x) for x in t)
        if t and t[0] == "not":
            x = t[1]
            if x[0] == "not":
                return x[1]
            if x[0] == "is_none":
                return ("is_not_none", x[1])
            if x[0] == "is_not_none":
                return ("is_none", x[1])
            if x[0] == "cmp" and x[1] in _NEGATED:
                return ("cmp", _NEGATED[x[1]], x[2], x[3])
        return t
    if isinstance(t, list):
        return [canon(x) for x in t]
    return t


def tojson(t):
    if isinstance(t, tuple):
        return [tojson(x) for x in t]
    if isinstance(t, list):
        return [tojson(x) for x in t]
    return t
