"""Adapter (C15, unit level): call _len._reduce_constraints and
_inline._merge_len_constraints of the tree under test directly.

JSON stdin: {"reduce": [[["min"|"max"|"exact", value], ...], ...],
             "merge": [[[lo, hi], [lo, hi]], ...]}
JSON stdout: {"reduce": [...], "merge": [...]} with {"ok": [min, max]} | {"err": n} |
{"exc": ExceptionClassName} per case.
"""
import json
import sys

from aas_core_codegen.infer_for_schema import _inline, _len
from aas_core_codegen.infer_for_schema._types import LenConstraint

KIND = {"min": _len._MinLength, "max": _len._MaxLength, "exact": _len._ExactLength}


def reduce_case(seq):
    try:
        constraints = [KIND[k](node=None, value=v) for k, v in seq]
        result, errors = _len._reduce_constraints(constraints=constraints)
    except BaseException as e:  # noqa
        return {"exc": type(e).__name__}
    if errors is not None:
        return {"err": len(errors)}
    return {"ok": [result.min_value, result.max_value]}


def merge_case(pair):
    (lo1, hi1), (lo2, hi2) = pair
    # the operands are built without running the precondition: they stand for
    # constraints that were accepted earlier
    that = LenConstraint.__new__(LenConstraint)
    that.min_value, that.max_value = lo1, hi1
    other = LenConstraint.__new__(LenConstraint)
    other.min_value, other.max_value = lo2, hi2
    try:
        merged = _inline._merge_len_constraints(that, other)
    except BaseException as e:  # noqa
        return {"exc": type(e).__name__}
    return {"ok": [merged.min_value, merged.max_value]}


def main():
    payload = json.load(sys.stdin)
    json.dump({"reduce": [reduce_case(s) for s in payload["reduce"]],
               "merge": [merge_case(p) for p in payload["merge"]]}, sys.stdout)


if __name__ == "__main__":
    main()
