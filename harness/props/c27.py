"""C27 — Message wrapping keeps text and layout rules (common.wrap_text_into_lines)."""
from __future__ import annotations

import itertools

from harness import lib
from harness.lib import coq_list, coq_option, coq_pair, coq_text, coq_z

META = {
    "title": "Message wrapping keeps text and layout rules",
    "design_ref": "§4 C27",
    "level_text": (
        "Coq theorems for all texts and all widths over a Gallina model of "
        "wrap_text_into_lines (concatenation = text; every segment fits or is a single "
        "token; article rule), instantiated with the article tuple re-translated from the "
        "source on every run; the model is tied to the code by a correspondence stream "
        "(exhaustive small scope + random) evaluated inside Coq, and the property is also "
        "run directly on the implementation to obtain replays."
    ),
    "level_note": (
        "Trusted: the hand-written model agrees with the code beyond the sampled inputs; "
        "Python str.split(' ') and ' '.join as modelled by split_on/join."
    ),
    "technique": "Coq proof (induction over the two loops) + in-Coq correspondence check",
}
GEN = ["GenWrap"]
MODEL = ["Model/Wrap", "Gen/GenWrap"]
TRUSTED = [
    "Model/Wrap.v is a hand-written model of common.wrap_text_into_lines (correspondence-checked)",
    "harness/translate/wrap.py (article tuple, default width) via Python's ast",
]
RULE = ("case = (text, width); exhaustive over short texts on the alphabet {a,n,t,h,e,x,blank} "
        "and random sentences with articles/double blanks/long words/astral characters; "
        "non-trivial = the wrapped result has at least two segments; distinct by (text,width)")

ARTICLES = ("a", "an", "the")

HEADER = """From Coq Require Import List NArith ZArith Bool.
From Acg Require Import Base.Str Model.Wrap Gen.GenWrap.
Import ListNotations.
Open Scope N_scope.
Definition arts1 : list text := nth 0 article_tuples [].
Definition arts2 : list text := nth 1 article_tuples [].
Definition case_ok (c : Z * option Z * text * option (list text)) : bool :=
  match c with
  | (wmodel, wopt, t, impl) =>
      let w := match wopt with Some w => w | None => default_line_width end in
      option_eqb (list_eqb text_eqb) (Some (wrap arts1 arts2 w t)) impl
  end.
Fixpoint bad_from (i : nat) (cs : list (Z * option Z * text * option (list text))) : list nat :=
  match cs with
  | [] => []
  | c :: r => if case_ok c then bad_from (S i) r else i :: bad_from (S i) r
  end.
Definition bad := bad_from 0.
"""


def last_word(seg: str) -> str:
    s = seg.rstrip(" ")
    return s.split(" ")[-1] if s else ""


def oracle(text: str, width, segs) -> list:
    """The property statement, executed on the implementation's answer."""
    w = 60 if width is None else width
    fails = []
    if "".join(segs) != text:
        fails.append("concat")
    if w >= 0:
        for seg in segs:
            if len(seg) <= w:
                continue
            body = seg[:-1] if seg.endswith(" ") else seg
            parts = body.split(" ")
            unit = all(p in ARTICLES or p == "" for p in parts[:-1])
            if not unit:
                fails.append("width")
                break
    for i, seg in enumerate(segs):
        if last_word(seg) in ARTICLES:
            rest = "".join(segs[i + 1:]).lstrip(" ")
            nxt = rest.split(" ")[0]
            # consecutive articles are split by design (pinned by the repository's own
            # unit test test_only_articles); a non-article word must not be cut off
            if nxt != "" and nxt not in ARTICLES:
                fails.append("article")
                break
    return fails


def shrink(text: str, width, kind: str) -> str:
    """Greedy delta-debugging on the text, keeping the same failure kind."""
    def failing(t):
        res = lib.impl_call("wrap.py", [[t, width]])[0]
        return "ok" in res and kind in oracle(t, width, res["ok"]) or ("exc" in res and kind == "exception")
    cur = text
    changed = True
    rounds = 0
    while changed and rounds < 40:
        changed = False
        rounds += 1
        for i in range(len(cur)):
            cand = cur[:i] + cur[i + 1:]
            if failing(cand):
                cur = cand
                changed = True
                break
    return cur


def gen_random(rng, n):
    vocab = ["a", "an", "the", "x", "cat", "owl", "and", "thea", "ana", "A", "The",
             "supercalifragilistic", "\U0001F600", "é", "", "\t", "\n", "a\n", "of", "is"]
    out = []
    for _ in range(n):
        k = rng.choice([1, 2, 3, 4, 6, 9, 14, 25])
        words = [rng.choice(vocab) for _ in range(k)]
        seps = [" " * rng.choice([1, 1, 1, 1, 2, 3]) for _ in range(k)]
        text = "".join(w + s for w, s in zip(words, seps))
        if rng.random() < 0.6:
            text = text.rstrip(" ")
        if rng.random() < 0.15:
            text = " " + text
        width = rng.choice([None, -1, 0, 1, 2, 3, 4, 5, 6, 7, 8, 9, 10, 12, 15, 20, 60])
        out.append((text, width))
    return out


def gen_exhaustive(maxlen):
    alpha = "anthex "
    for n in range(0, maxlen + 1):
        for tup in itertools.product(alpha, repeat=n):
            yield "".join(tup)


def corpus():
    # minimised past disagreements / witnesses, always run first
    return [("the  x", 5), ("a a x", 3), ("x the ", 3), ("the", 1), ("", 0), (" ", 0),
            ("the abcdefgh", 10), ("abcde fg", 5), ("an", None), ("a an the a", 4),
            ("x  the   y", 4), ("the \nx", 2)]


def streams(ctx: lib.Ctx) -> None:
    cases = list(corpus())
    cases += gen_random(ctx.rng, ctx.n(2500, 8000))
    maxlen = 4
    widths = list(range(0, 8))
    small = [(t, w) for t in gen_exhaustive(maxlen) for w in widths]
    if not ctx.thorough:
        small = ctx.rng.sample(small, 3000)
    cases += small

    results = []
    B = 20000
    for k in range(0, len(cases), B):
        results += lib.impl_call("wrap.py", [[t, w] for t, w in cases[k:k + B]], timeout=1200)

    coq_cases = []
    nontrivial = []
    n_exc = 0
    for (t, w), res in zip(cases, results):
        if "exc" in res:
            n_exc += 1
            impl = None
            ctx.impl_failure(f"exception-{res['exc']}-{lib.stable_key(t, w)}",
                             f"wrap_text_into_lines raised {res['exc']}", {"text": t, "width": w},
                             res, "wrap")
        else:
            segs = res["ok"]
            impl = coq_list(coq_text(s) for s in segs)
            if len(segs) >= 2:
                nontrivial.append((t, w))
            for kind in oracle(t, w, segs):
                ctx.impl_failure(f"{kind}", f"{kind} rule fails", {"text": t, "width": w},
                                 segs, "wrap")
        coq_cases.append(coq_pair(coq_z(0), coq_option(None if w is None else coq_z(w)),
                                  coq_text(t), coq_option(impl)))
    bad, _log = lib.run_cases(ctx.work, "cases", HEADER,
                              "Z * option Z * text * option (list text)", "bad", coq_cases)
    for i in bad[:20]:
        t, w = cases[i]
        model = lib.coq_eval(ctx.work, "show", HEADER,
                             f"wrap arts1 arts2 ({60 if w is None else w})%Z {coq_text(t)}")
        ctx.corr_break("wrap", {"text": t, "width": w}, model, results[i])

    # shrink new impl failures to a minimal text (replay quality); the key is the kind
    # of rule plus the minimal witness
    shrunk = []
    seen = set()
    for f in ctx.impl_failures:
        kind = f["key"].split("-")[0]
        if kind in seen or kind == "exception":
            shrunk.append(f)
            continue
        seen.add(kind)
        t = shrink(f["input"]["text"], f["input"]["width"], kind)
        f = dict(f)
        f["input"] = {"text": t, "width": f["input"]["width"]}
        f["key"] = f"{kind}:{t!r}:{f['input']['width']}"
        f["how_to_run"] = (f"PYTHONPATH={lib.REPO} {lib.PY} -c \"from aas_core_codegen.common import "
                           f"wrap_text_into_lines as w; print(w({t!r}, {f['input']['width']}))\"")
        shrunk.append(f)
    # keep one failure per kind: the shrunk one
    ctx.impl_failures = [f for f in shrunk if ":" in f["key"] or f["key"].startswith("exception")]

    ctx.count("wrap", len(cases), nontrivial_keys=nontrivial, validated=len(cases),
              exceptions=n_exc, exhaustive_small_scope=f"len<={maxlen} over 'anthex ' x widths 0..7"
              + ("" if ctx.thorough else " (3000 sampled)"),
              multi_segment=len(nontrivial))
    for c in cases[:3] + cases[20:23]:
        ctx.sample({"text": c[0], "width": c[1]})
    ctx.coverage["exhaustive"] = False
