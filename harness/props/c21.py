"""C21 — Distinct meta-model names never collide in generated code."""
from __future__ import annotations

import json
from collections import Counter

from harness import lib
from harness.gen import naming as g
from harness.lib import coq_list, coq_pair
from harness.gen.naming import coq_text

META = {
    "title": "Distinct meta-model names never collide in generated code",
    "design_ref": "§4 C21",
    "level_text": (
        "Coq theorems for all abstract meta-models over Gallina models of the naming "
        "functions and of every SDK target's verify (inter- and intra-structure collision "
        "checks): verify = Ok implies the generated names of every checked scope are "
        "duplicate-free (per target), the naming functions map identifiers to identifiers, "
        "duplicate-definition detection of jsonschema/xsd is sound; the scopes that no "
        "verify looks at (constants, verification functions, C#/Java enumeration literals, "
        "Java accessors) are proved NOT protected (refutation witnesses, replayed on the real "
        "code). Models are tied to the code by in-Coq correspondence streams (all 88 naming "
        "functions on every small identifier; verify verdicts and per-scope names on generated "
        "meta-models built by the real front end) and the property is run directly on the "
        "implementation (real verify verdict + real names + generated Python declarations)."
    ),
    "level_note": (
        "partial: the theorem covers the scopes each verify enumerates; private helper names "
        "(e.g. Go private fields, Java getX/setX) and non-type modules are only exercised by "
        "the oracle. Trusted: hand-written models agree with the code beyond the sampled inputs; "
        "ASCII case conversion of Python str as modelled."
    ),
    "technique": "Coq proof (invariant of the observed-dictionary loop) + in-Coq correspondence check",
}
GEN: list = []
MODEL = ["Model/Naming", "Model/Collisions"]
TRUSTED = [
    "Model/Naming.v is a hand-written model of naming.py and <target>/naming.py "
    "(correspondence-checked exhaustively on short identifiers)",
    "Model/Collisions.v is a hand-written model of <target>/lib/_generate_types.py verify "
    "(correspondence-checked on generated meta-models through the real front end)",
    "harness/impl/naming.py: extraction of the abstract meta-model from the real symbol table "
    "and of declarations from generated Python code (ast)",
]
RULE = ("naming: case = identifier, all modelled functions at once; exhaustive over identifiers of "
        "length <= 4 (thorough 5) on {a,B,_,1} + random longer ones; non-trivial = at least one "
        "function changes the text or crashes. verify: case = generated meta-model (engineered "
        "near-collision families a_b/a__b/aB/A_b, Foo_bar/Foo_Bar/FooBar, x/set_x, E + E_A...) "
        "accepted by the real front end; non-trivial = at least one target reports a collision "
        "or crashes; distinct by abstract meta-model")

NAMES_HEADER_TMPL = """From Coq Require Import List NArith Bool.
From Coq Require Strings.String.
Import Coq.Strings.String.StringSyntax.
From Acg Require Import Base.Outcome Base.Str Model.Naming.
Import ListNotations.
Open Scope N_scope.
Definition keys : list text := %s.
Definition res_eqb (a b : res text) : bool :=
  match a, b with
  | Ok x, Ok y => text_eqb x y
  | Crash k, Crash k' => crash_kind_eqb k k'
  | _, _ => false
  end.
Definition keys_ok : bool := list_eqb text_eqb (map fst naming_table) keys.
Definition model_of (i : text) : list (res text) := map (fun kf => snd kf i) naming_table.
(* case = identifier, the distinct outcomes of the implementation, and for every function
   of the table the index of its outcome in that list *)
Definition case_t : Type := text * list (res text) * list N.
Definition case_ok (c : case_t) : bool :=
  match c with
  | (i, distinct, idx) =>
      keys_ok && list_eqb (option_eqb res_eqb) (map Some (model_of i))
                          (map (fun k => nth_error distinct (N.to_nat k)) idx)
  end.
Fixpoint bad_from (i : nat) (cs : list case_t) : list nat :=
  match cs with
  | [] => []
  | c :: r => if case_ok c then bad_from (S i) r else i :: bad_from (S i) r
  end.
Definition bad := bad_from 0.
"""

VERIFY_HEADER = """From Coq Require Import List NArith Bool.
From Coq Require Strings.String.
Import Coq.Strings.String.StringSyntax.
From Acg Require Import Base.Outcome Base.Str Model.Naming Model.Collisions.
Import ListNotations.
Open Scope N_scope.
Definition verdict_eqb (a b : res unit) : bool :=
  match a, b with
  | Ok _, Ok _ => true
  | Err n, Err m => Nat.eqb n m
  | Crash k, Crash k' => crash_kind_eqb k k'
  | _, _ => false
  end.
Definition names_eqb (a b : res (list text)) : bool :=
  match a, b with
  | Ok x, Ok y => list_eqb text_eqb x y
  | Crash k, Crash k' => crash_kind_eqb k k'
  | _, _ => false
  end.
Definition targets := [Cpp; Csharp; Golang; Java; Python; Typescript].
(* the implementation's names are given as indices into a per-case dictionary *)
Definition names_idx_eqb (dict : list text) (a : res (list text)) (b : res (list N)) : bool :=
  match a, b with
  | Ok x, Ok y => list_eqb (option_eqb text_eqb) (map Some x)
                           (map (fun k => nth_error dict (N.to_nat k)) y)
  | Crash k, Crash k' => crash_kind_eqb k k'
  | _, _ => false
  end.
Definition scopes_ok (m : mm) (dict : list text) (ts : target * list (scope * res (list N))) : bool :=
  forallb (fun sn => names_idx_eqb dict (generated_names (fst ts) m (fst sn)) (snd sn)) (snd ts).
Definition case_t : Type :=
  mm * list text * list (res unit) * list (target * list (scope * res (list N))).
Definition case_ok (c : case_t) : bool :=
  match c with
  | (m, dict, verdicts, scopes) =>
      list_eqb verdict_eqb (map (fun t => verify t m) targets) verdicts
      && forallb (scopes_ok m dict) scopes
  end.
Fixpoint bad_from (i : nat) (cs : list case_t) : list nat :=
  match cs with
  | [] => []
  | c :: r => if case_ok c then bad_from (S i) r else i :: bad_from (S i) r
  end.
Definition bad := bad_from 0.
"""

SCHEMA_HEADER = """From Coq Require Import List NArith Bool.
From Coq Require Strings.String.
Import Coq.Strings.String.StringSyntax.
From Acg Require Import Base.Outcome Base.Str Model.Naming Model.Collisions.
Import ListNotations.
Open Scope N_scope.
(* update_for case: the key lists of consecutive update_for calls; the implementation's
   verdict (true = no error) and, on success, the number of stored definitions.
   xsd case: the (tag, name) pairs of the children of a successfully generated schema:
   the model of the observed_definitions loop must accept them. *)
Inductive case_t :=
| UpdateFor (exts : list (list text)) (ok : bool) (n : nat)
| XsdAccepted (els : list (text * option text)).
Definition case_ok (c : case_t) : bool :=
  match c with
  | UpdateFor exts ok n =>
      match update_all [] exts with
      | Ok d => ok && Nat.eqb (length d) n
      | Err _ => negb ok
      | Crash _ => false
      end
  | XsdAccepted els => is_ok (xsd_observed_definitions els)
  end.
Fixpoint bad_from (i : nat) (cs : list case_t) : list nat :=
  match cs with
  | [] => []
  | c :: r => if case_ok c then bad_from (S i) r else i :: bad_from (S i) r
  end.
Definition bad := bad_from 0.
"""


# -------------------------------------------------------------------------------------
def corpus_specs():
    """Minimised witnesses and past disagreements; always run first."""
    def cls(name, props=(), methods=(), abstract=False, parent=None):
        return {"name": name, "abstract": abstract, "parent": parent,
                "props": list(props), "methods": list(methods)}

    def spec(enums=(), classes=(), consts=(), funcs=(), cons=()):
        return {"enums": list(enums), "classes": list(classes), "consts": list(consts),
                "funcs": list(funcs), "cons": list(cons), "enums_first": True, "corpus": True}
    return [
        spec(classes=[cls("Foo", ["foo_bar", "foo_Bar"])]),                 # all six: members
        spec(classes=[cls("Foo", ["a_b", "a__b"])]),
        spec(classes=[cls("Foo", ["foo_bar"], ["foo_Bar"])]),
        spec(classes=[cls("P", ["foo_bar"], abstract=True), cls("C", ["foo_Bar"], parent="P")]),
        spec(classes=[cls("Foo", ["x", "set_x"])]),                         # cpp, golang
        spec(classes=[cls("Foo", ["x_", "x"])]),
        spec(enums=[{"name": "E", "lits": ["A_b", "a_b"]}], classes=[cls("Foo")]),
        spec(enums=[{"name": "E", "lits": ["a_1", "a1"]}], classes=[cls("Foo")]),
        spec(enums=[{"name": "E", "lits": ["A"]}], classes=[cls("E_A")]),   # golang literal vs type
        spec(classes=[cls("Foo_bar"), cls("Foo_Bar")]),
        spec(classes=[cls("Foo_1"), cls("Foo1")]),
        spec(classes=[cls("Foo_bar"), cls("Foo_BAR")]),     # python: visit_foo_bar twice
        spec(classes=[cls("Foo"), cls("i_foo")]),                           # interface vs class
        spec(classes=[cls("foo")]),                                         # python/ts crash
        spec(classes=[cls("Foo", ["_"])]),
        spec(classes=[cls("Foo", ["_a", "a"])]),                            # java accessors
        spec(classes=[cls("Foo", ["x"], ["get_x"])]),                       # java accessors
        spec(classes=[cls("Foo")], consts=["A_b", "A_B"]),
        spec(classes=[cls("Foo")], funcs=["f_a", "f_A"]),
        spec(classes=[cls("Foo")], cons=[{"name": "Foo_"}]),
        spec(enums=[{"name": "Foo_bar", "lits": ["x"]}], classes=[cls("Foo_Bar"), cls("FooBar", abstract=True)]),
    ]


def scope_kind(scope: str) -> str:
    return scope.split(":")[0]


def coq_scope(scope: str) -> str:
    kind, _, idx = scope.partition(":")
    return {"module": "SModule", "constants": "SConstants", "functions": "SFunctions",
            "literals": f"(SLiterals {idx}%nat)", "members": f"(SMembers {idx}%nat)"}[kind]


def scope_names_term(entries, dictionary) -> str:
    """Real names of one scope as `res (list N)` (indices into the case dictionary):
    the first exception wins."""
    names = []
    for _entity, o in entries:
        if "exc" in o:
            return f"(Crash {g.CRASH.get(o['exc'], 'OutOfFuel')})"
        names.append(str(dictionary.setdefault(o["ok"], len(dictionary))))
    return f"(Ok {coq_list(names)})"


def duplicates(entries):
    """Pairs of entries with equal generated names."""
    seen = {}
    dups = []
    for entity, o in entries:
        if "ok" not in o:
            continue
        if o["ok"] in seen:
            dups.append({"name": o["ok"], "first": seen[o["ok"]], "second": entity})
        else:
            seen[o["ok"]] = entity
    return dups


def oracle(item):
    """The property on the implementation: for every target whose real verify accepts,
    the real names of every scope are pairwise distinct. Returns [(key, detail)]."""
    fails = []
    for t in g.TARGETS:
        entry = item["targets"][t]
        if "ok" not in entry["verdict"]:
            continue
        for scope, entries in entry["scopes"].items():
            d = duplicates(entries)
            if d:
                fails.append((f"{scope_kind(scope)}:{t}", {"target": t, "scope": scope, "duplicates": d}))
        gen = entry.get("generated")
        if gen:
            explained = {k for k, _ in fails}
            own_classes = {o.get("ok") for e_, o in entry["scopes"].get("module", [])}
            for fname, r in gen.items():
                if r.get("exc") == "SyntaxError":
                    fails.append((f"generated-syntax:{t}:{fname}",
                                  {"target": t, "file": fname, "msg": r.get("msg")}))
                for sc, names in r.get("decls", {}).items():
                    c = Counter(names)
                    dn = sorted(n for n, k in c.items() if k > 1)
                    if not dn:
                        continue
                    if sc == "module":
                        kind = {"types": "module", "constants": "constants",
                                "verification": "functions"}[fname]
                        where = "module"
                    elif sc[6:] in own_classes:
                        kind = "literals" if entry_is_enum(item, sc[6:], t) else "members"
                        where = "class"
                    elif "Visitor" in sc or "Transformer" in sc:
                        kind, where = None, "visitors"
                    else:
                        kind, where = None, sc
                    if kind is not None and f"{kind}:{t}" in explained:
                        continue        # same collision, already reported at the level of names
                    gkey = (f"generated:{t}:visitors" if where == "visitors"
                            else f"generated:{t}:{fname}:{where}")
                    fails.append((gkey,
                                  {"target": t, "generated_file": fname, "generated_scope": sc,
                                   "declared_twice": dn}))
    return fails


def entry_is_enum(item, pyname, t):
    for sc, entries in item["targets"][t]["scopes"].items():
        if sc == "module":
            for entity, o in entries:
                if o.get("ok") == pyname and entity.startswith("enum "):
                    return True
    return False


def run_verify(specs, generate=True):
    sources = [g.spec_to_source(s) for s in specs]
    out = []
    B = 400
    for k in range(0, len(sources), B):
        out += lib.impl_call("naming.py", {"mode": "verify", "sources": sources[k:k + B],
                                           "generate": generate}, timeout=1500)
    return sources, out


def shrink(spec, key):
    cur = spec
    for _ in range(12):
        cands = g.shrink_candidates(cur)
        if not cands:
            break
        _src, res = run_verify(cands, generate=False)
        nxt = None
        for c, r in zip(cands, res):
            if r["front"] is None and any(k == key for k, _ in oracle(r)):
                nxt = c
                break
        if nxt is None:
            break
        cur = nxt
    return cur


def streams(ctx: lib.Ctx) -> None:
    import sys, time
    t0 = time.time()

    import os
    scale = float(os.environ.get("VERIF_C21_SCALE", "1") or 1)   # testing knob: volume factor

    def vol(quick, thorough):
        return max(1, int(ctx.n(quick, thorough) * scale))

    def tick(what):
        print(f"[c21] {what}: {time.time() - t0:.1f}s", file=sys.stderr)
    # ---- 0. fail-closed inventory of the naming modules -----------------------------
    inv = lib.impl_call("naming.py", {"mode": "inventory"})
    found = set(inv) - g.NAMING_EXCLUDED
    if found != set(g.NAMING_KEYS):
        ctx.proof_break("naming-table",
                        f"naming modules changed: unmodelled={sorted(found - set(g.NAMING_KEYS))} "
                        f"vanished={sorted(set(g.NAMING_KEYS) - found)}")
    keys = [k for k in g.NAMING_KEYS if k in inv]

    # ---- 1. naming functions: model vs real, inside Coq ------------------------------
    maxlen = ctx.n(4, 5)
    idents = ["foo_bar", "foo_Bar", "a_b", "a__b", "_", "_1", "__", "type", "URL_to_something",
              "Data_type_IEC_61360", "specific_asset_IDs", "I", "_a", "a_", "Ab1_cD"]
    idents += g.small_identifiers(maxlen)
    idents += g.random_identifiers(ctx.rng, vol(1200, 8000))
    idents = list(dict.fromkeys(idents))
    real = lib.impl_call("naming.py", {"mode": "names", "keys": keys, "idents": idents}, timeout=1200)
    header = NAMES_HEADER_TMPL % coq_list(coq_text(k) for k in keys)
    cases = []
    for i, outs in zip(idents, real):
        terms = [g.coq_name_outcome(o) for o in outs]
        distinct = list(dict.fromkeys(terms))
        pos = {t: k for k, t in enumerate(distinct)}
        cases.append(coq_pair(coq_text(i), coq_list(distinct), coq_list(str(pos[t]) for t in terms)))
    bad, _ = lib.run_cases(ctx.work, "names", header, "case_t", "bad", cases, shard=150)
    for i in bad[:10]:
        model = lib.coq_eval(ctx.work, "show_names", header, f"model_of {coq_text(idents[i])}")
        ctx.corr_break("naming", {"identifier": idents[i], "keys": keys},
                       model[-3000:], real[i])
    nontrivial = [i for i, outs in zip(idents, real)
                  if any(o.get("ok") != i for o in outs)]
    n_crash = sum(1 for outs in real for o in outs if "exc" in o)
    ctx.count("naming", len(idents) * len(keys), nontrivial_keys=nontrivial, validated=len(idents) * len(keys),
              identifiers=len(idents), functions=len(keys), crashing_outcomes=n_crash,
              exhaustive_small_scope=f"all identifiers of length<={maxlen} over 'aB_1'")
    ctx.sample({"identifier": idents[0], "real": dict(zip(keys[:6], real[0][:6]))})

    tick('naming stream done')
    # ---- 2. verify verdicts + per-scope names: model vs real; property oracle --------
    specs = corpus_specs() + [g.gen_spec(ctx.rng) for _ in range(vol(700, 5000))]
    sources, results = run_verify(specs, generate=True)
    coq_cases, kept = [], []
    stages = Counter()
    verdict_mix = Counter()
    nontriv = []
    for spec, src, r in zip(specs, sources, results):
        if r["front"] is not None:
            stages[r["front"]["stage"]] += 1
            continue
        stages["accepted"] += 1
        verdicts = [r["targets"][t]["verdict"] for t in g.TARGETS]
        for t, v in zip(g.TARGETS, verdicts):
            verdict_mix[f"{t}:{'ok' if 'ok' in v else 'err' if 'err' in v else 'crash'}"] += 1
        scopes = []
        dictionary = {}
        for t in g.TARGETS:
            per = [coq_pair(coq_scope(sc), scope_names_term(entries, dictionary))
                   for sc, entries in r["targets"][t]["scopes"].items()
                   if scope_kind(sc) != "accessors"]
            scopes.append(coq_pair(g.COQ_TARGET[t], coq_list(per)))
        coq_cases.append(coq_pair(g.coq_mm(r["mm"]), coq_list(coq_text(n) for n in dictionary),
                                  coq_list(g.coq_verdict(v) for v in verdicts),
                                  coq_list(scopes)))
        kept.append((spec, src, r))
        if any("ok" not in v for v in verdicts):
            nontriv.append(json.dumps(r["mm"], sort_keys=True))
    tick('verify impl done')
    bad, _ = lib.run_cases(ctx.work, "verify", VERIFY_HEADER, "case_t", "bad", coq_cases, shard=60)
    for i in bad[:10]:
        spec, src, r = kept[i]
        model = lib.coq_eval(ctx.work, "show_verify", VERIFY_HEADER,
                             f"map (fun t => verify t {g.coq_mm(r['mm'])}) targets")
        ctx.corr_break("verify", {"source": src, "mm": r["mm"]}, model[-2000:],
                       {t: r["targets"][t]["verdict"] for t in g.TARGETS})

    tick('verify coq done')
    # property oracle on the implementation
    first_by_key = {}
    n_fail = 0
    for spec, src, r in kept:
        for key, detail in oracle(r):
            n_fail += 1
            if key not in first_by_key:
                first_by_key[key] = (spec, detail)
    # scopes that no verify looks at (refuted part of the statement) are reported last, so
    # that a failure inside a checked scope is never crowded out of the printed violations
    unchecked = ({f"constants:{t}" for t in g.TARGETS} | {f"functions:{t}" for t in g.TARGETS}
                 | {"literals:csharp", "literals:java", "accessors:java", "generated:python:visitors"})
    ordered = sorted(first_by_key.items(), key=lambda kv: (kv[0] in unchecked, kv[0]))
    for n_key, (key, (spec, detail)) in enumerate(ordered):
        small = spec if (spec.get("corpus") or n_key >= 6) else shrink(spec, key)
        ssrc, sres = run_verify([small], generate=True)
        det = [d for k, d in oracle(sres[0]) if k == key] if sres[0]["front"] is None else [detail]
        t = key.split(":")[1]
        what = (f"{t}: verify_for_types accepts the meta-model although two entities of scope "
                f"'{key.split(':')[0]}' receive the same generated name")
        if key.startswith("generated"):
            what = (f"{t}: the generated code declares the same name twice in one scope "
                    f"({key}) although verify_for_types accepted the meta-model")
        ctx.impl_failure(
            key,
            what,
            {"meta_model_source": ssrc[0], "target": t},
            {"verdict": sres[0]["targets"][t]["verdict"] if sres[0]["front"] is None else None,
             "collisions": det[:3]},
            "verify-oracle",
            how=(f"save meta_model_source as mm.py; PYTHONPATH={lib.REPO} {lib.PY} -c \"import "
                 f"pathlib; from aas_core_codegen import parse, intermediate; "
                 f"from aas_core_codegen.{t} import lib; "
                 f"a,_=parse.source_to_atok(pathlib.Path('mm.py').read_text()); "
                 f"p,_=parse.atok_to_symbol_table(a); s,_=intermediate.translate(p,a); "
                 f"print(lib.verify_for_types(s))\""))
    tick('oracle+shrink done')
    ctx.count("verify", stages["accepted"] * len(g.TARGETS), nontrivial_keys=nontriv,
              validated=len(coq_cases), front_end=dict(stages), verdicts=dict(verdict_mix),
              oracle_failures=n_fail, oracle_failure_keys=sorted(first_by_key))
    for spec, src, r in kept[:2] + kept[25:27]:
        ctx.sample({"mm": r["mm"], "verdicts": {t: r["targets"][t]["verdict"] for t in g.TARGETS}})


    # ---- 3. schema generators: duplicate-definition detection ------------------------
    tick('schemas start')
    sspecs = corpus_specs() + [g.gen_spec(ctx.rng) for _ in range(vol(120, 1200))]
    ssources = [g.spec_to_source(sp) for sp in sspecs]
    sres = []
    for k in range(0, len(ssources), 400):
        sres += lib.impl_call("naming.py", {"mode": "schemas", "sources": ssources[k:k + 400]}, timeout=1500)
    keypool = ["Foo", "FooBar", "Foo_abstract", "Foo_choice", "ModelType", "Bar", "Baz", "Qux"]
    ucases = [[["FooBar"], ["FooBar"]], [["Foo", "Bar"], ["Baz"]], [[], ["Foo"], ["Foo"]], []]
    for _ in range(vol(200, 2000)):
        ucases.append([ctx.rng.sample(keypool, ctx.rng.randint(0, 3))
                       for _ in range(ctx.rng.randint(0, 4))])
    ures = lib.impl_call("naming.py", {"mode": "update_for", "cases": ucases})
    scases, sinputs = [], []
    for exts, r in zip(ucases, ures):
        if "exc" in r:
            ctx.impl_failure(f"update_for-exception-{r['exc']}", "Definitions.update_for raised",
                             {"extensions": exts}, r, "schemas")
            continue
        scases.append(f"UpdateFor {coq_list(coq_list(coq_text(k) for k in e) for e in exts)} "
                      f"{'true' if r['ok'] else 'false'} {r['n']}%nat")
        sinputs.append(({"extensions": exts}, r))
    n_js_ok = n_js_err = n_xsd_ok = n_xsd_err = 0
    s_nontrivial = []
    for spec, src, r in zip(sspecs, ssources, sres):
        if r["front"] is not None:
            continue
        emitted = [t["name"] for t in r["mm"]["types"] if t["kind"] != "cons"]
        js_, xs_ = r["jsonschema"], r["xsd"]
        if "keys" in js_:
            n_js_ok += 1
            always = [t["name"] for t in r["mm"]["types"]
                      if t["kind"] == "enum" or (t["kind"] == "class" and not t["abstract"])]
            mts = [o for name, o in r["model_types"] if name in always]
            names = [o.get("ok") for o in mts]
            if len(set(names)) != len(names) or any(n not in js_["keys"] for n in names):
                ctx.impl_failure("jsonschema-duplicate-definition",
                                 "jsonschema generation succeeds although two of our types map to "
                                 "the same definition key (one silently overwrites the other)",
                                 {"meta_model_source": src}, {"model_types": r["model_types"],
                                                               "definitions": js_["keys"]}, "schemas")
        elif "err" in js_:
            n_js_err += 1
            s_nontrivial.append(("js", json.dumps(r["mm"], sort_keys=True)))
        if "defs" in xs_:
            n_xsd_ok += 1
            named_ = [tuple(d) for d in xs_["defs"] if d[1] is not None]
            if len(set(named_)) != len(named_):
                ctx.impl_failure("xsd-duplicate-definition",
                                 "xsd generation succeeds although two top-level definitions share "
                                 "tag and name", {"meta_model_source": src}, xs_["defs"], "schemas")
            els = coq_list(coq_pair(coq_text(tag), "None" if name is None else f"(Some {coq_text(name)})")
                           for tag, name in xs_["defs"])
            scases.append(f"XsdAccepted {els}")
            sinputs.append(({"meta_model_source": src}, xs_))
        elif "err" in xs_:
            n_xsd_err += 1
            s_nontrivial.append(("xsd", json.dumps(r["mm"], sort_keys=True)))
            # the detection must have a reason: two of our types with the same xsd type name
            tn = [o.get("ok") for name, o in r["xsd_types"] if name in emitted]
            if len(set(tn)) == len(tn):
                ctx.sample({"xsd_error_without_type_name_collision": r["mm"]})
    bad, _ = lib.run_cases(ctx.work, "schemas", SCHEMA_HEADER, "case_t", "bad", scases, shard=300)
    for i in bad[:10]:
        ctx.corr_break("schemas", sinputs[i][0], "model disagrees (see Model/Collisions.v update_all / "
                       "xsd_observed_definitions)", sinputs[i][1])
    ctx.count("schemas", len(scases), nontrivial_keys=s_nontrivial, validated=len(scases),
              jsonschema_ok=n_js_ok, jsonschema_err=n_js_err, xsd_ok=n_xsd_ok, xsd_err=n_xsd_err,
              update_for_cases=len(ucases))
    tick('schemas done')
