(** C08 — renaming of identifiers between the meta-model (source of the invariants) and the
    generated SDK (target of the transpiler), as needed to state [transpile_sound].

    The SDK names its identifiers by [python/naming.py] (properties, methods and enumeration
    literals of an object or enumeration, enumeration classes, constants, functions, local
    variables). [naming] abstracts these functions; objects hold their members (fields of an
    object, literals of an enumeration) under one name space, so members are renamed by one
    function [nm_member]. [ren_value] is the SDK value that corresponds to a meta-model value.
    Executable definitions only. *)
From Coq Require Import List NArith ZArith Bool.
From Coq Require Strings.String.
Import Coq.Strings.String.StringSyntax.
From Acg Require Import Base.Str Base.Outcome Model.Tree Model.PyEval Model.AstRules
  Model.PyTranspileKinds Model.PyTranspile.
Import ListNotations.
Open Scope Z_scope.

Record naming : Type := mkNaming {
  nm_member : text -> text;   (* property_name / method_name / enum_literal_name *)
  nm_enum : text -> text;     (* enum_name *)
  nm_const : text -> text;    (* constant_name *)
  nm_fn : text -> text;       (* function_name *)
  nm_var : text -> text       (* variable_name *)
}.

Definition nm_of (nm : naming) (k : nkind) : text -> text :=
  match k with
  | NProp | NMethod | NEnumLit => nm_member nm
  | NEnum => nm_enum nm
  | NConst => nm_const nm
  | NFn => nm_fn nm
  | NVar => nm_var nm
  end.

Fixpoint ren_value (nm : naming) (v : value) {struct v} : value :=
  match v with
  | VList vs => VList (map (ren_value nm) vs)
  | VSet vs => VSet (map (ren_value nm) vs)
  | VEnum e l => VEnum (nm_enum nm e) (nm_member nm l)
  | VObj oid cls fs => VObj oid cls (map (fun nv => (nm_member nm (fst nv), ren_value nm (snd nv))) fs)
  | VFun f => VFun (nm_fn nm f)
  | VType e => VType (nm_enum nm e)
  | VNone | VBool _ | VInt _ | VFloat _ | VStr _ | VBytes _ => v
  end.

Definition ren_fields (nm : naming) (fs : list (text * value)) : list (text * value) :=
  map (fun nv => (nm_member nm (fst nv), ren_value nm (snd nv))) fs.

Definition ren_result (nm : naming) (r : pyresult) : pyresult :=
  match r with Val v => Val (ren_value nm v) | Raise x => Raise x end.

Definition ren_lres (nm : naming) (r : lres) : lres :=
  match r with LVal vs => LVal (map (ren_value nm) vs) | LRaise x => LRaise x end.

Definition ren_items (nm : naming) (r : list value + exn) : list value + exn :=
  match r with inl vs => inl (map (ren_value nm) vs) | inr x => inr x end.

Definition ren_gen (nm : naming) (g : gen pyresult) : gen pyresult :=
  match g with
  | ForEach r => ForEach (ren_result nm r)
  | ForRange a b => ForRange (ren_result nm a) (ren_result nm b)
  end.

Definition injective (f : text -> text) : Prop := forall a b, f a = f b -> a = b.

(** The naming functions are injective (no two identifiers of a kind collide in the SDK, C21)
    and keep [len] apart. *)
Record naming_ok (nm : naming) : Prop := mkNamingOk {
  inj_member : injective (nm_member nm);
  inj_enum : injective (nm_enum nm);
  inj_fn : injective (nm_fn nm);
  inj_var : injective (nm_var nm);
  fn_len : forall f, text_eqb (nm_fn nm f) (s2l "len") = text_eqb f (s2l "len")
}.

(** The naming table of the type environment is the graph of [nm]. *)
Definition table_ok (nm : naming) (G : tyenv) : Prop :=
  forall k n p, pyname_in (g_naming G) k n = Some p -> p = nm_of nm k n.

(** A verification function is not also a constant (a call of it is written as a call of a
    plain name). Arguments and loop variables may shadow any global, as in Python. *)
Definition names_disjoint (G : tyenv) : Prop :=
  forall f t, lookup f (g_fns G) = Some t -> mem_text f (g_consts G) = false.

(** A loop variable [x] may be bound: its SDK name does not capture an argument ([that] for
    an invariant), the modules, a function or another loop variable, and it is [len] only if
    [x] is. *)
Definition var_ok (nm : naming) (G : tyenv) (x : text) : Prop :=
  (forall a p, lookup a (g_args G) = Some p -> nm_var nm x = p -> x = a) /\
  nm_var nm x <> s2l "aas_types" /\ nm_var nm x <> s2l "aas_constants" /\
  (forall f t, lookup f (g_fns G) = Some t -> nm_var nm x = nm_fn nm f -> x = f) /\
  (text_eqb (nm_var nm x) (s2l "len") = text_eqb x (s2l "len")) /\
  is_range (nm_var nm x) = false.

(** No function or loop variable of the environment is called [range] in the SDK (it would
    capture the built-in of the generated [for ... in range(...)]). *)
Definition range_free (nm : naming) (G : tyenv) : Prop :=
  (forall f t, lookup f (g_fns G) = Some t -> is_range (nm_fn nm f) = false) /\
  (forall x, mem_text x (g_loopvars G) = true -> is_range (nm_var nm x) = false) /\
  (forall a p, lookup a (g_args G) = Some p -> is_range p = false).

(** Variables bound by the quantifiers of an expression. *)
Fixpoint bvars (e : expr) : list text :=
  match e with
  | Member i _ => bvars i
  | Name _ | Constant _ => []
  | Index a b | Comparison _ a b | IsIn a b | Implication a b | Add a b | Sub a b => bvars a ++ bvars b
  | IsNone v | IsNotNone v | Not v => bvars v
  | And vs | Or vs => flat_map bvars vs
  | FunctionCall _ args => flat_map bvars args
  | MethodCall i _ args => bvars i ++ flat_map bvars args
  | Any x g c | All x g c =>
      x :: match g with ForEach i => bvars i | ForRange a b => bvars a ++ bvars b end ++ bvars c
  | JoinedStr ps => flat_map (fun p => match p with JLit _ => [] | JFmt a => bvars a end) ps
  end.

(** The SDK environment [r'] corresponds to the meta-model environment [r]. *)
Record env_rel (nm : naming) (G : tyenv) (r r' : env) : Prop := mkEnvRel {
  er_vars : forall x, mem_text x (g_loopvars G) = true ->
      lookup (nm_var nm x) (vars r') = option_map (ren_value nm) (lookup x (vars r));
  er_args : forall a p, lookup a (g_args G) = Some p -> mem_text a (g_loopvars G) = false ->
      lookup p (vars r') = option_map (ren_value nm) (lookup a (vars r));
  er_consts : forall c, mem_text c (g_consts G) = true -> mem_text c (g_loopvars G) = false ->
      lookup c (g_args G) = None ->
      exists oid cl cfs v, lookup (s2l "aas_constants") (vars r') = Some (VObj oid cl cfs) /\
                           lookup c (vars r) = Some v /\
                           lookup (nm_const nm c) cfs = Some (ren_value nm v);
  er_fns : forall f t, lookup f (g_fns G) = Some t -> mem_text f (g_loopvars G) = false ->
      lookup f (g_args G) = None ->
      lookup (nm_fn nm f) (vars r') = option_map (ren_value nm) (lookup f (vars r));
  er_enums : forall e ls, lookup e (g_enums G) = Some ls -> mem_text e (g_loopvars G) = false ->
      lookup e (g_args G) = None ->
      exists oid cl efs v, lookup (s2l "aas_types") (vars r') = Some (VObj oid cl efs) /\
                           lookup e (vars r) = Some v /\
                           lookup (nm_enum nm e) efs = Some (ren_value nm v);
  er_len : lookup (s2l "len") (vars r') = option_map (ren_value nm) (lookup (s2l "len") (vars r));
  er_fn_impl : forall g vs, fn_impl r' (nm_fn nm g) (map (ren_value nm) vs) = ren_result nm (fn_impl r g vs);
  er_meth_impl : forall cls fs m vs,
      meth_impl r' cls (ren_fields nm fs) (nm_member nm m) (map (ren_value nm) vs)
      = ren_result nm (meth_impl r cls fs m vs);
  er_enum_lits : forall e, enum_lits r' (nm_enum nm e) = map (nm_member nm) (enum_lits r e)
}.

(** Decidable side condition on the tables: the comparison map is sound (see
    [C08_gen_comparison_map_sound]). *)
Definition cmp_map_sound (T : ptables) : bool :=
  forallb (fun op => match cmp_target T op with
                     | Ok c => match cmpop_of c with Some o => cmpop_eqb o op | None => false end
                     | _ => false
                     end) [Lt; Le; Gt; Ge; Eq; Ne].

(** ** The identity naming and the SDK environment built from a meta-model environment

    When the SDK keeps the identifiers of the meta-model ([nm_id]), the SDK environment can be
    computed: [that] is bound to the value of [self], [aas_types] and [aas_constants] to module
    objects holding the enumerations and constants, everything else is kept. *)
Definition nm_id : naming :=
  mkNaming (fun x => x) (fun x => x) (fun x => x) (fun x => x) (fun x => x).

Definition module_of (names : list text) (r : env) : value :=
  VObj 0 (s2l "module")
       (flat_map (fun n => match lookup n (vars r) with Some v => [(n, v)] | None => [] end) names).

Definition rename (G : tyenv) (r : env) : env :=
  mkEnv (match lookup (s2l "self") (vars r) with Some v => [(s2l "that", v)] | None => [] end
         ++ (s2l "aas_types", module_of (map fst (g_enums G)) r)
         :: (s2l "aas_constants", module_of (g_consts G) r) :: vars r)
        (fn_impl r) (meth_impl r) (enum_lits r).

(** The meta-model environment fits the type environment of an invariant ([self] is the only
    argument): [self], the constants and the enumerations are bound, we are outside any quantifier, and no function is called like
    [that] or the modules. *)
Definition env_fits (G : tyenv) (r : env) : Prop :=
  g_loopvars G = [] /\ g_args G = [(s2l "self", s2l "that")] /\
  (exists v, lookup (s2l "self") (vars r) = Some v) /\
  (forall c, mem_text c (g_consts G) = true -> exists v, lookup c (vars r) = Some v) /\
  (forall e ls, lookup e (g_enums G) = Some ls -> exists v, lookup e (vars r) = Some v) /\
  (forall f t, lookup f (g_fns G) = Some t ->
     f <> s2l "that" /\ f <> s2l "aas_types" /\ f <> s2l "aas_constants").
