(** Executable model of the pattern translation of [aas_core_codegen/xsd/main.py]:

    - [undo_x]          [_undo_escaping_backslash_x_in_pattern] (string level; kept in the
                        code base and pinned by unit tests, no longer used by the translation);
    - [remove_union]    [_AnchorRemover] (drops the [^] / [$] terms of every concatenation);
    - [decode_union]    [_CharacterDecoder] (every character is rendered verbatim, every
                        quantifier is greedy);
    - [translate]       [_translate_pattern] = parse; remove anchors; decode; render with the
                        escaping tables of the XSD renderer [_Renderer];
    - [translate_old]   the former pipeline (undo the [\x] escapes in the *text*, parse,
                        remove anchors, render with the Python renderer) — the subject of the
                        [_refuted] theorems;
    - [xsd_escapes_ok]  the escape sequences that the XSD regular-expression grammar defines
                        (SingleCharEsc, XSD 1.0/1.1 Appendix F/G), checked on a rendered text.

    The regex trees, the parser, the renderer and the matching semantics are the shared
    models [Model/Retree.v], [Model/RetreeParse.v], [Model/RetreeRender.v],
    [Model/RegexSem.v] (property C16).  No proofs in this file. *)
From Coq Require Import List NArith Bool Arith.
From Acg Require Import Base.Str Base.Outcome Model.Retree Model.RetreeParse
  Model.RetreeRender Model.RegexSem.
Import ListNotations.

(* ------------------------------------------------------------------------------------ *)
(** * [_undo_escaping_backslash_x_in_pattern] *)

Open Scope N_scope.

(** The class [[a-fA-f0-9]] of [_ESCAPE_BACKSLASH_X_RE]: [A-f] is one range (65..102). *)
Definition in_x_class (c : N) : bool :=
  ((97 <=? c) && (c <=? 102)) || ((65 <=? c) && (c <=? 102)) || ((48 <=? c) && (c <=? 57)).

(** One digit of [int(s, base=16)]. *)
Definition hex_digit (c : N) : option N :=
  if (48 <=? c) && (c <=? 57) then Some (c - 48)
  else if (97 <=? c) && (c <=? 102) then Some (c - 87)
  else if (65 <=? c) && (c <=? 70) then Some (c - 55)
  else None.

(** [re.finditer] scans left to right without overlaps; [int(.., 16)] raises
    [ValueError] on the letters of the class that are no hexadecimal digits. *)
Fixpoint undo_x (p : text) : outcome text unit :=
  match p with
  | [] => Ok []
  | c :: tl =>
      match tl with
      | x :: a :: b :: rest =>
          if (c =? 92) && (x =? 120) && in_x_class a && in_x_class b then
            match hex_digit a, hex_digit b with
            | Some u, Some v => do r <- undo_x rest; Ok (16 * u + v :: r)
            | _, _ => Crash ValueError
            end
          else do r <- undo_x tl; Ok (c :: r)
      | _ => do r <- undo_x tl; Ok (c :: r)
      end
  end.

(* ------------------------------------------------------------------------------------ *)
(** * [_AnchorRemover] and [_CharacterDecoder] *)

Definition is_anchor (v : tvalue) : bool :=
  match v with
  | VSymbol SymStart | VSymbol SymEnd => true
  | _ => false
  end.

(** [visit_concatenation] keeps the terms whose value is not a start / end symbol and
    then visits the kept ones; every other node is passed through. *)
Fixpoint remove_value (v : tvalue) : tvalue :=
  match v with
  | VGroup u =>
      VGroup
        ((fix ru (u : list (list (tvalue * option quantifier)))
            : list (list (tvalue * option quantifier)) :=
            match u with
            | [] => []
            | c :: r =>
                (fix rc (c : list (tvalue * option quantifier))
                   : list (tvalue * option quantifier) :=
                   match c with
                   | [] => []
                   | (v', q) :: c' =>
                       if is_anchor v' then rc c' else (remove_value v', q) :: rc c'
                   end) c :: ru r
            end) u)
  | _ => v
  end.

Fixpoint remove_concat (c : concatenation) : concatenation :=
  match c with
  | [] => []
  | (v, q) :: c' => if is_anchor v then remove_concat c' else (remove_value v, q) :: remove_concat c'
  end.
Definition remove_union (u : union_expr) : union_expr := map remove_concat u.

Definition decode_char (c : rchar) : rchar := mkChar (ch_code c) false.
(** [visit_quantifier]: XSD has no non-greedy quantifiers. *)
Definition decode_quant (q : option quantifier) : option quantifier :=
  option_map (fun q => mkQuant false (q_min q) (q_max q)) q.
Definition decode_range (r : range) : range :=
  mkRange (decode_char (rg_start r)) (option_map decode_char (rg_end r)).

Fixpoint decode_value (v : tvalue) : tvalue :=
  match v with
  | VGroup u =>
      VGroup
        ((fix du (u : list (list (tvalue * option quantifier)))
            : list (list (tvalue * option quantifier)) :=
            match u with
            | [] => []
            | c :: r =>
                (fix dc (c : list (tvalue * option quantifier))
                   : list (tvalue * option quantifier) :=
                   match c with
                   | [] => []
                   | (v', q) :: c' => (decode_value v', decode_quant q) :: dc c'
                   end) c :: du r
            end) u)
  | VChar c => VChar (decode_char c)
  | VCharSet k rs => VCharSet k (map decode_range rs)
  | _ => v
  end.
Definition decode_term (t : term) : term := (decode_value (fst t), decode_quant (snd t)).
Definition decode_concat (c : concatenation) : concatenation := map decode_term c.
Definition decode_union (u : union_expr) : union_expr := map decode_concat u.

(* ------------------------------------------------------------------------------------ *)
(** * [_translate_pattern] *)

(** The text of a rendering without formatted values ([assert isinstance(value, str)]). *)
Fixpoint chars_of (ts : list tok) : outcome text unit :=
  match ts with
  | [] => Ok []
  | C c :: r => do s <- chars_of r; Ok (c :: s)
  | F _ :: _ => Crash AssertionError
  end.

Section WithTables.
  Variable T : tables.                       (* parser chains + Python renderer tables *)
  Variable xlit xrng : list (N * text).      (* tables of the XSD renderer *)

  Definition TX : tables :=
    mkTables (lit_simple T) (lit_unsupported T) (lit_assert T) (lit_stop T)
             (rng_simple T) (rng_unsupported T) xlit xrng.

  (** The tree that is rendered. *)
  Definition xsd_tree (t : regex) : regex := decode_union (remove_union t).

  Definition translate_tree (t : regex) : outcome text unit :=
    chars_of (render_tokens TX (xsd_tree t)).

  (** [Ok text] | [Err] (the parser reported an error) | [Crash]. *)
  Definition translate (p : text) : outcome text unit :=
    do t <- parse_string T p; translate_tree t.

  (** The former pipeline. *)
  Definition translate_old (p : text) : outcome text unit :=
    do p' <- undo_x p;
    do t <- parse_string T p';
    chars_of (render_tokens T (remove_union t)).
End WithTables.

(* ------------------------------------------------------------------------------------ *)
(** * The escapes of the XSD regular-expression grammar

    SingleCharEsc ::= '\' [nrt\|.?*+(){}#x2D#x5B#x5D#x5E]; the multi-character and
    category escapes ([\s \i \c \d \w \p{..}] and their complements) are legal too but
    are never produced by the renderer. *)
Definition xsd_single_escapes : list N :=
  [110; 114; 116; 92; 124; 46; 63; 42; 43; 40; 41; 123; 125; 45; 91; 93; 94].

(** Every backslash of the text starts a SingleCharEsc. *)
Fixpoint xsd_escapes_ok (s : text) : bool :=
  match s with
  | [] => true
  | c :: tl =>
      if c =? 92 then
        match tl with
        | e :: rest => memN e xsd_single_escapes && xsd_escapes_ok rest
        | [] => false
        end
      else xsd_escapes_ok tl
  end.

(** Characters that must not occur unescaped as a literal of an XSD pattern outside a
    character class (they are metacharacters there): [. \ ? * + ( ) | [ ] { }]. *)
Definition xsd_meta : list N := [46; 92; 63; 42; 43; 40; 41; 124; 91; 93; 123; 125].

(* ------------------------------------------------------------------------------------ *)
(** * Languages *)

Definition no_fv : fv -> text -> nat -> list nat := fun _ _ _ => [].

(** The generated SDK checks [re.match(pattern, text) is not None]: a match that starts at
    0 and ends anywhere, under Python's reading of [$] and [.]. *)
Definition py_match (t : regex) (s : text) : bool :=
  match ends no_fv true t s 0 with [] => false | _ => true end.

(** XSD patterns are implicitly anchored: the whole text must match.  XSD has no anchors
    and its [.] excludes LF and CR; on strings without line breaks that reading coincides
    with [matches .. false] on trees without anchors, which is how it is used below. *)
Definition xsd_match (t : regex) (s : text) : bool := matches no_fv false t s.

Definition no_linebreak (s : text) : bool := negb (memN 10 s) && negb (memN 13 s).

(** Trees without start / end symbols at any depth. *)
Fixpoint anchor_free_value (v : tvalue) : bool :=
  match v with
  | VGroup u =>
      (fix fu (u : list (list (tvalue * option quantifier))) : bool :=
         match u with
         | [] => true
         | c :: r =>
             (fix fc (c : list (tvalue * option quantifier)) : bool :=
                match c with
                | [] => true
                | (v', _) :: c' => anchor_free_value v' && fc c'
                end) c && fu r
         end) u
  | VSymbol SymStart | VSymbol SymEnd => false
  | _ => true
  end.
Fixpoint anchor_free_concat (c : concatenation) : bool :=
  match c with
  | [] => true
  | (v, _) :: c' => anchor_free_value v && anchor_free_concat c'
  end.
Fixpoint anchor_free_union (u : union_expr) : bool :=
  match u with
  | [] => true
  | c :: r => anchor_free_concat c && anchor_free_union r
  end.

(** What [intermediate._verify_patterns_anchored_at_start_and_end] accepts: exactly one
    alternative, [^] first and [$] last.  [top_anchored t mid] additionally says that no
    other anchor occurs. *)
Definition start_term : term := (VSymbol SymStart, None).
Definition end_term : term := (VSymbol SymEnd, None).
Definition top_anchored (t : regex) (mid : concatenation) : Prop :=
  t = [start_term :: mid ++ [end_term]] /\ anchor_free_concat mid = true.
