(** C06 — Accepted meta-models satisfy the structural rules (partial).

    What is proved here: the executable reference checker [rulesb] of Model/Rules.v decides
    the declarative statement [Rules] — one conjunct per documented structural rule — for
    every abstract meta-model, instantiated with the reserved-name data re-translated from
    parse/_translate.py on every run (Gen/GenRules.v).

    Full statement of the property (NOT proved, see docs/C06.md): "the front end accepts a
    meta-model text only if the meta-model it denotes satisfies [Rules], and rejects every
    other one with an error". Nothing is proved about the front end's code; its verdicts
    are validated against [rulesb] on generated models and all their single-rule mutants on
    every run (harness/props/c06.py). Hence the main theorem is named [_partial].

    This file contains only statements, [exact]s, [vm_compute]s and [Print Assumptions]. *)
From Coq Require Import List NArith Bool Relations.
From Coq Require Strings.String.
Import Coq.Strings.String.StringSyntax.
From Acg Require Import Base.Str Model.Rules Proofs.RulesTopo Proofs.RulesFacts Gen.GenRules.
Import ListNotations.
Open Scope N_scope.

(** Generated side conditions: the translated sets are non-empty and lower-case (they are
    compared with lower-cased names), the affixes compared with lower-cased names are
    lower-case, and a few names every SDK generator depends on are present. *)
Theorem C06_gen_reserved_lowercase :
  forallb (fun n => text_eqb (lower n) n) (r_type_names reserved_data)
  && forallb (fun n => text_eqb (lower n) n) (r_member_names reserved_data)
  && forallb (fun n => text_eqb (lower n) n)
       (r_over_prefix reserved_data :: r_over_suffixes reserved_data
        ++ r_prop_prefixes reserved_data ++ r_method_prefixes reserved_data) = true.
Proof. vm_compute. reflexivity. Qed.
Print Assumptions C06_gen_reserved_lowercase.

Theorem C06_gen_reserved_nonempty :
  negb (Nat.eqb (length (r_type_names reserved_data)) 0)
  && negb (Nat.eqb (length (r_member_names reserved_data)) 0)
  && negb (Nat.eqb (length (r_type_prefixes reserved_data)) 0)
  && negb (Nat.eqb (length (r_prop_prefixes reserved_data)) 0)
  && negb (Nat.eqb (length (r_method_prefixes reserved_data)) 0)
  && negb (Nat.eqb (length (r_over_suffixes reserved_data)) 0)
  && forallb (fun n => mem_text n (r_type_names reserved_data))
       [s2l "class"; s2l "visitor"; s2l "transformer"; s2l "string"; s2l "object"]
  && forallb (fun n => mem_text n (r_member_names reserved_data))
       [s2l "class"; s2l "descend"; s2l "accept"; s2l "transform"; s2l "model_type"] = true.
Proof. vm_compute. reflexivity. Qed.
Print Assumptions C06_gen_reserved_nonempty.

(** The reference checker decides the rules: for every abstract meta-model, with the
    reserved names of the current source. (Partial with respect to the property: this is a
    theorem about the reference checker, the front end is tied to it by validation.) *)
Theorem C06_rulesb_spec_partial :
  forall m, rulesb reserved_data m = true <-> Rules reserved_data m.
Proof. exact (rulesb_spec reserved_data). Qed.
Print Assumptions C06_rulesb_spec_partial.

(** ... and for any reserved-name data (so the proof does not depend on the tables). *)
Theorem C06_rulesb_spec_any_tables :
  forall r m, rulesb r m = true <-> Rules r m.
Proof. exact rulesb_spec. Qed.
Print Assumptions C06_rulesb_spec_any_tables.

(** The stacking pass with fuel = number of nodes fails exactly when a base is missing
    or the inheritance is not well-founded: the fuel always suffices. *)
Theorem C06_topo_fuel_suffices : forall nds,
  NoDup (map n_name nds) ->
  ((exists t, topo (length nds) [] nds = Some t)
   <-> (forall nd, In nd nds -> forall b, In b (n_bases nd) -> In b (map n_name nds))
       /\ (forall nd, In nd nds -> Grounded (edges nds) (n_name nd))).
Proof. exact topo_decides. Qed.
Print Assumptions C06_topo_fuel_suffices.

(** A meta-model that satisfies the rules has no inheritance cycle (in the usual sense:
    no class is its own ancestor). *)
Theorem C06_rules_no_cycle : forall m, Rules reserved_data m ->
  forall n, In n (node_names m) ->
  ~ clos_trans text (fun a b => In (a, b) (edges (nodes m))) n n.
Proof. exact (rules_no_cycle reserved_data). Qed.
Print Assumptions C06_rules_no_cycle.

(** * Non-vacuity: one meta-model that satisfies all rules, and for every rule a
    meta-model that breaks exactly that rule. *)
Definition V := rule_verdicts reserved_data.
(* the list of the 18 per-rule verdicts with [false] exactly at the positions [ks] *)
Definition falses (ks : list nat) : list bool :=
  map (fun i => negb (existsb (Nat.eqb i) ks)) (seq 0 18).

Definition tint := TPrim (s2l "int").
Definition tstr := TPrim (s2l "str").
Definition g_enums := [mkEnum (s2l "Kind") [s2l "First"; s2l "Second"]].
Definition g_cprims := [mkCprim (s2l "Short_text") [] [s2l "at most 10 characters"];
                        mkCprim (s2l "Id_text") [s2l "Short_text"] [s2l "starts with a letter"]].
Definition g_base := mkCls (s2l "Vehicle") [] [mkProp (s2l "x") tint; mkProp (s2l "y") (TOpt tstr)]
  [s2l "compute"] [s2l "x is positive"]
  (Some [mkArg (s2l "x") tint NoDefault; mkArg (s2l "y") (TOpt tstr) DefaultNone]).
Definition g_derived := mkCls (s2l "Car") [s2l "Vehicle"] [mkProp (s2l "z") (TList (TOur (s2l "Vehicle")))]
  [] [s2l "z is not empty"]
  (Some [mkArg (s2l "x") tint NoDefault; mkArg (s2l "z") (TList (TOur (s2l "Vehicle"))) NoDefault;
         mkArg (s2l "y") (TOpt tstr) DefaultNone]).
Definition g_consts := [s2l "Limit"].
Definition g_funs := [mkFun (s2l "matches_id") (Some (s2l "^[a-z]+$")); mkFun (s2l "is_fine") None].
Definition g_cids := [s2l "C-1"].
Definition g_refs := [RType (s2l "Vehicle"); RType (s2l "Kind"); RAttr (Some (s2l "Car")) (s2l "x");
  RAttr (Some (s2l "Kind")) (s2l "First"); RConst (s2l "Limit");
  RParam (s2l "text") (Some [s2l "text"]); RConstraint (s2l "C-1")].
Definition good := mkMM g_enums g_cprims [g_base; g_derived] g_consts g_funs g_cids g_refs.
Definition with_classes cs := mkMM g_enums g_cprims cs g_consts g_funs g_cids g_refs.

(* 1 types_unique *)
Definition bad1 := mkMM (mkEnum (s2l "Vehicle") [] :: g_enums) g_cprims [g_base; g_derived] g_consts g_funs g_cids g_refs.
(* 2 bases exist *)
Definition bad2 := with_classes [g_base; mkCls (s2l "Car") [s2l "Ghost"] [] [] [] None].
(* 3 acyclic *)
Definition bad3 := with_classes [mkCls (s2l "Vehicle") [s2l "Car"] [] [] [] None; mkCls (s2l "Car") [s2l "Vehicle"] [] [] [] None].
(* 4 types free *)
Definition bad4 := with_classes [g_base; g_derived; mkCls (s2l "Visitor") [] [] [] [] None].
Definition bad4b := with_classes [g_base; g_derived; mkCls (s2l "I_thing") [] [] [] [] None].
(* 5 members unique *)
Definition bad5 := with_classes [g_base; g_derived; mkCls (s2l "Other") [] [mkProp (s2l "a") tint; mkProp (s2l "a") tint] [] []
   (Some [mkArg (s2l "a") tint NoDefault])].
(* 6 members free *)
Definition bad6 := with_classes [g_base; g_derived; mkCls (s2l "Other") [] [mkProp (s2l "Mutable_a") tint] [] []
   (Some [mkArg (s2l "Mutable_a") tint NoDefault])].
Definition bad6b := with_classes [g_base; g_derived; mkCls (s2l "Other") [] [] [s2l "Over_parts_or_empty"] [] None].
(* 7,8 consts *)
Definition bad7 := mkMM g_enums g_cprims [g_base; g_derived] [s2l "Limit"; s2l "Limit"] g_funs g_cids g_refs.
Definition bad8 := mkMM g_enums g_cprims [g_base; g_derived] [s2l "Limit"; s2l "Transform"] g_funs g_cids g_refs.
(* 9,10 funs *)
Definition bad9 := mkMM g_enums g_cprims [g_base; g_derived] g_consts (mkFun (s2l "is_fine") None :: g_funs) g_cids g_refs.
Definition bad10 := mkMM g_enums g_cprims [g_base; g_derived] g_consts (mkFun (s2l "Namespace") None :: g_funs) g_cids g_refs.
(* 11 redeclare *)
Definition bad11 := with_classes [g_base; mkCls (s2l "Car") [s2l "Vehicle"] [mkProp (s2l "x") tint] [] []
  (Some [mkArg (s2l "x") tint NoDefault; mkArg (s2l "y") (TOpt tstr) DefaultNone])].
Definition bad11b := with_classes [g_base; mkCls (s2l "Car") [s2l "Vehicle"] [] [s2l "compute"] []
  (Some [mkArg (s2l "x") tint NoDefault; mkArg (s2l "y") (TOpt tstr) DefaultNone])].
(* 12 ctor: order, type, default, name, missing *)
Definition d_with ctor := with_classes [g_base; mkCls (s2l "Car") [s2l "Vehicle"] [mkProp (s2l "z") tint] [] [] ctor].
Definition bad12_order := d_with (Some [mkArg (s2l "z") tint NoDefault; mkArg (s2l "x") tint NoDefault; mkArg (s2l "y") (TOpt tstr) DefaultNone]).
Definition bad12_type := d_with (Some [mkArg (s2l "x") tint NoDefault; mkArg (s2l "z") tstr NoDefault; mkArg (s2l "y") (TOpt tstr) DefaultNone]).
Definition bad12_default := d_with (Some [mkArg (s2l "x") tint NoDefault; mkArg (s2l "z") tint NoDefault; mkArg (s2l "y") (TOpt tstr) DefaultOther]).
Definition bad12_name := d_with (Some [mkArg (s2l "x") tint NoDefault; mkArg (s2l "zz") tint NoDefault; mkArg (s2l "y") (TOpt tstr) DefaultNone]).
Definition bad12_none := d_with None.
Definition ok12 := d_with (Some [mkArg (s2l "x") tint NoDefault; mkArg (s2l "z") tint NoDefault; mkArg (s2l "y") (TOpt tstr) DefaultNone]).
(* 13 shapes *)
Definition s_with t := with_classes [g_base; mkCls (s2l "Car") [s2l "Vehicle"] [mkProp (s2l "z") t] [] []
   (Some [mkArg (s2l "x") tint NoDefault; mkArg (s2l "z") t NoDefault; mkArg (s2l "y") (TOpt tstr) DefaultNone])].
Definition bad13_ll := s_with (TList (TList (TOpt tint))).
Definition bad13_lo := s_with (TList (TOpt tint)).
(* 14 invariants *)
Definition bad14 := with_classes [g_base; mkCls (s2l "Car") [s2l "Vehicle"] [] [] [s2l "x is positive"]
  (Some [mkArg (s2l "x") tint NoDefault; mkArg (s2l "y") (TOpt tstr) DefaultNone])].
(* 15 refs *)
Definition bad15 := mkMM g_enums g_cprims [g_base; g_derived] g_consts g_funs g_cids (RAttr (Some (s2l "Vehicle")) (s2l "z") :: g_refs).
(* 16 patterns *)
Definition bad16 := mkMM g_enums g_cprims [g_base; g_derived] g_consts [mkFun (s2l "matches_id") (Some (s2l "^[a-z]+"))] g_cids g_refs.
Definition bad16b := mkMM g_enums g_cprims [g_base; g_derived] g_consts [mkFun (s2l "matches_id") (Some [])] g_cids g_refs.
(* diamond: stacked once *)
Definition g_base_plain := mkCls (s2l "Vehicle") [] [mkProp (s2l "x") tint; mkProp (s2l "y") (TOpt tstr)]
  [] [s2l "x is positive"]
  (Some [mkArg (s2l "x") tint NoDefault; mkArg (s2l "y") (TOpt tstr) DefaultNone]).
Definition dia_over top := with_classes [top;
  mkCls (s2l "Left") [s2l "Vehicle"] [] [] [] (Some [mkArg (s2l "x") tint NoDefault; mkArg (s2l "y") (TOpt tstr) DefaultNone]);
  mkCls (s2l "Right") [s2l "Vehicle"] [] [] [] (Some [mkArg (s2l "x") tint NoDefault; mkArg (s2l "y") (TOpt tstr) DefaultNone]);
  mkCls (s2l "Car") [s2l "Left"; s2l "Right"] [] [] [] (Some [mkArg (s2l "x") tint NoDefault; mkArg (s2l "y") (TOpt tstr) DefaultNone])].

Example C06_ex_good :
  rulesb reserved_data good = true /\ V good = falses [] /\ rulesb reserved_data ok12 = true.
Proof. vm_compute. repeat split; reflexivity. Qed.
Print Assumptions C06_ex_good.

Definition dia := dia_over g_base_plain.
(* a diamond: the properties and invariants of the common ancestor are stacked once *)
Example C06_ex_diamond :
  rulesb reserved_data dia = true
  /\ map p_name (stacked_props dia (s2l "Car")) = [s2l "x"; s2l "y"]
  /\ stacked_invs dia (s2l "Car") = [s2l "x is positive"].
Proof. vm_compute. repeat split; reflexivity. Qed.
Print Assumptions C06_ex_diamond.

(* ... but a method cannot be inherited along two paths (as in the front end) *)
Example C06_ex_diamond_method :
  rulesb reserved_data (dia_over g_base) = false /\ V (dia_over g_base) = falses [16]%nat.
Proof. vm_compute. split; reflexivity. Qed.
Print Assumptions C06_ex_diamond_method.

Example C06_ex_good_satisfies_Rules : Rules reserved_data good.
Proof. apply C06_rulesb_spec_partial. vm_compute. reflexivity. Qed.
Print Assumptions C06_ex_good_satisfies_Rules.

Example C06_ex_types_unique : rulesb reserved_data bad1 = false /\ V bad1 = falses [0; 2; 17]%nat.
Proof. vm_compute. split; reflexivity. Qed.
Print Assumptions C06_ex_types_unique.

Example C06_ex_bases_exist : rulesb reserved_data bad2 = false /\ V bad2 = falses [1; 2]%nat.
Proof. vm_compute. split; reflexivity. Qed.
Print Assumptions C06_ex_bases_exist.

Example C06_ex_acyclic : rulesb reserved_data bad3 = false /\ V bad3 = falses [2]%nat.
Proof. vm_compute. split; reflexivity. Qed.
Print Assumptions C06_ex_acyclic.

Example C06_ex_type_reserved : rulesb reserved_data bad4 = false /\ V bad4 = falses [3]%nat.
Proof. vm_compute. split; reflexivity. Qed.
Print Assumptions C06_ex_type_reserved.

Example C06_ex_type_reserved_prefix : rulesb reserved_data bad4b = false /\ V bad4b = falses [3]%nat.
Proof. vm_compute. split; reflexivity. Qed.
Print Assumptions C06_ex_type_reserved_prefix.

Example C06_ex_members_unique : rulesb reserved_data bad5 = false /\ V bad5 = falses [4; 16]%nat.
Proof. vm_compute. split; reflexivity. Qed.
Print Assumptions C06_ex_members_unique.

Example C06_ex_property_reserved : rulesb reserved_data bad6 = false /\ V bad6 = falses [5]%nat.
Proof. vm_compute. split; reflexivity. Qed.
Print Assumptions C06_ex_property_reserved.

Example C06_ex_method_reserved : rulesb reserved_data bad6b = false /\ V bad6b = falses [5]%nat.
Proof. vm_compute. split; reflexivity. Qed.
Print Assumptions C06_ex_method_reserved.

Example C06_ex_constants_unique : rulesb reserved_data bad7 = false /\ V bad7 = falses [6; 17]%nat.
Proof. vm_compute. split; reflexivity. Qed.
Print Assumptions C06_ex_constants_unique.

Example C06_ex_constant_reserved : rulesb reserved_data bad8 = false /\ V bad8 = falses [7]%nat.
Proof. vm_compute. split; reflexivity. Qed.
Print Assumptions C06_ex_constant_reserved.

Example C06_ex_functions_unique : rulesb reserved_data bad9 = false /\ V bad9 = falses [8; 17]%nat.
Proof. vm_compute. split; reflexivity. Qed.
Print Assumptions C06_ex_functions_unique.

Example C06_ex_function_reserved : rulesb reserved_data bad10 = false /\ V bad10 = falses [9]%nat.
Proof. vm_compute. split; reflexivity. Qed.
Print Assumptions C06_ex_function_reserved.

Example C06_ex_redeclared_property : rulesb reserved_data bad11 = false /\ V bad11 = falses [10; 16]%nat.
Proof. vm_compute. split; reflexivity. Qed.
Print Assumptions C06_ex_redeclared_property.

Example C06_ex_redeclared_method : rulesb reserved_data bad11b = false /\ V bad11b = falses [10; 16]%nat.
Proof. vm_compute. split; reflexivity. Qed.
Print Assumptions C06_ex_redeclared_method.

Example C06_ex_ctor_order : rulesb reserved_data bad12_order = false /\ V bad12_order = falses [11]%nat.
Proof. vm_compute. split; reflexivity. Qed.
Print Assumptions C06_ex_ctor_order.

Example C06_ex_ctor_type : rulesb reserved_data bad12_type = false /\ V bad12_type = falses [11]%nat.
Proof. vm_compute. split; reflexivity. Qed.
Print Assumptions C06_ex_ctor_type.

Example C06_ex_ctor_default : rulesb reserved_data bad12_default = false /\ V bad12_default = falses [11]%nat.
Proof. vm_compute. split; reflexivity. Qed.
Print Assumptions C06_ex_ctor_default.

Example C06_ex_ctor_name : rulesb reserved_data bad12_name = false /\ V bad12_name = falses [11]%nat.
Proof. vm_compute. split; reflexivity. Qed.
Print Assumptions C06_ex_ctor_name.

Example C06_ex_ctor_missing : rulesb reserved_data bad12_none = false /\ V bad12_none = falses [11]%nat.
Proof. vm_compute. split; reflexivity. Qed.
Print Assumptions C06_ex_ctor_missing.

Example C06_ex_shape_list_list_optional : rulesb reserved_data bad13_ll = false /\ V bad13_ll = falses [12]%nat.
Proof. vm_compute. split; reflexivity. Qed.
Print Assumptions C06_ex_shape_list_list_optional.

Example C06_ex_shape_list_optional : rulesb reserved_data bad13_lo = false /\ V bad13_lo = falses [12]%nat.
Proof. vm_compute. split; reflexivity. Qed.
Print Assumptions C06_ex_shape_list_optional.

Example C06_ex_inherited_invariant_description : rulesb reserved_data bad14 = false /\ V bad14 = falses [13]%nat.
Proof. vm_compute. split; reflexivity. Qed.
Print Assumptions C06_ex_inherited_invariant_description.

Example C06_ex_dangling_reference : rulesb reserved_data bad15 = false /\ V bad15 = falses [14]%nat.
Proof. vm_compute. split; reflexivity. Qed.
Print Assumptions C06_ex_dangling_reference.

Example C06_ex_pattern_without_dollar : rulesb reserved_data bad16 = false /\ V bad16 = falses [15]%nat.
Proof. vm_compute. split; reflexivity. Qed.
Print Assumptions C06_ex_pattern_without_dollar.

Example C06_ex_empty_pattern : rulesb reserved_data bad16b = false /\ V bad16b = falses [15]%nat.
Proof. vm_compute. split; reflexivity. Qed.
Print Assumptions C06_ex_empty_pattern.

(* two unrelated parents bring a property / a method of the same name, or invariants with
   the same description *)
Definition par (n p : text) (meths : list text) (inv : text) :=
  mkCls n [] [mkProp p tstr] meths [inv] (Some [mkArg p tstr NoDefault]).
Definition two_parents pa pb ma mb ia ib args :=
  mkMM g_enums g_cprims
       [par (s2l "Left") pa ma ia; par (s2l "Right") pb mb ib;
        mkCls (s2l "Both") [s2l "Left"; s2l "Right"] [] [] [] (Some args)]
       g_consts g_funs g_cids [RType (s2l "Both"); RAttr (Some (s2l "Both")) pa].
Definition ok_two := two_parents (s2l "x") (s2l "y") [s2l "compute"] [s2l "render"] (s2l "left holds") (s2l "right holds")
  [mkArg (s2l "x") tstr NoDefault; mkArg (s2l "y") tstr NoDefault].
Definition bad_two_props := two_parents (s2l "x") (s2l "x") [] [] (s2l "left holds") (s2l "right holds") [mkArg (s2l "x") tstr NoDefault].
Definition bad_two_methods := two_parents (s2l "x") (s2l "y") [s2l "compute"] [s2l "compute"] (s2l "left holds") (s2l "right holds")
  [mkArg (s2l "x") tstr NoDefault; mkArg (s2l "y") tstr NoDefault].
Definition bad_two_invs := two_parents (s2l "x") (s2l "y") [] [] (s2l "it holds") (s2l "it holds")
  [mkArg (s2l "x") tstr NoDefault; mkArg (s2l "y") tstr NoDefault].

Example C06_ex_two_parents_ok : rulesb reserved_data ok_two = true.
Proof. vm_compute. reflexivity. Qed.
Print Assumptions C06_ex_two_parents_ok.

Example C06_ex_property_from_two_parents :
  rulesb reserved_data bad_two_props = false /\ V bad_two_props = falses [16]%nat.
Proof. vm_compute. split; reflexivity. Qed.
Print Assumptions C06_ex_property_from_two_parents.

Example C06_ex_method_from_two_parents :
  rulesb reserved_data bad_two_methods = false /\ V bad_two_methods = falses [16]%nat.
Proof. vm_compute. split; reflexivity. Qed.
Print Assumptions C06_ex_method_from_two_parents.

Example C06_ex_invariants_from_two_parents :
  rulesb reserved_data bad_two_invs = false /\ V bad_two_invs = falses [13]%nat.
Proof. vm_compute. split; reflexivity. Qed.
Print Assumptions C06_ex_invariants_from_two_parents.

(* name clashes across kinds: a constant named like a class, a function named like an
   enumeration, a constant named like a function *)
Definition clash_const_class := mkMM g_enums g_cprims [g_base; g_derived] (s2l "Car" :: g_consts) g_funs g_cids g_refs.
Definition clash_fun_enum := mkMM g_enums g_cprims [g_base; g_derived] g_consts (mkFun (s2l "Kind") None :: g_funs) g_cids g_refs.
Definition clash_const_fun := mkMM g_enums g_cprims [g_base; g_derived] (s2l "is_fine" :: g_consts) g_funs g_cids g_refs.
Definition clash_const_cprim := mkMM g_enums g_cprims [g_base; g_derived] (s2l "Id_text" :: g_consts) g_funs g_cids g_refs.
Example C06_ex_cross_kind_name_clashes :
  map (fun m => (rulesb reserved_data m, V m)) [clash_const_class; clash_fun_enum; clash_const_fun; clash_const_cprim]
  = [(false, falses [17]%nat); (false, falses [17]%nat); (false, falses [17]%nat); (false, falses [17]%nat)].
Proof. vm_compute. reflexivity. Qed.
Print Assumptions C06_ex_cross_kind_name_clashes.

(* constructor argument versus property type, in every shape *)
Definition ct (pt at_ : ty) (d : dflt) := with_classes [g_base; g_derived;
  mkCls (s2l "Holder") [] [mkProp (s2l "v") pt] [] [] (Some [mkArg (s2l "v") at_ d])].
Definition tcar := TOur (s2l "Car").
Example C06_ex_ctor_type_shapes :
  map (fun m => (rulesb reserved_data m, V m))
    [ct (TOpt tstr) (TOpt tstr) DefaultNone; ct (TList tcar) (TList tcar) NoDefault;
     ct (TOpt tstr) tstr NoDefault; ct tstr (TOpt tstr) DefaultNone;
     ct (TList tcar) tcar NoDefault; ct tcar (TList tcar) NoDefault;
     ct (TList tcar) (TList (TOur (s2l "Vehicle"))) NoDefault; ct tstr tint NoDefault;
     ct (TOpt (TList tcar)) (TList tcar) NoDefault; ct (TList tcar) (TOpt (TList tcar)) DefaultNone]
  = [(true, falses []); (true, falses []);
     (false, falses [11]%nat); (false, falses [11]%nat); (false, falses [11]%nat); (false, falses [11]%nat);
     (false, falses [11]%nat); (false, falses [11]%nat); (false, falses [11]%nat); (false, falses [11]%nat)].
Proof. vm_compute. reflexivity. Qed.
Print Assumptions C06_ex_ctor_type_shapes.

Example C06_ex_broken_rule_refutes_Rules : ~ Rules reserved_data bad13_ll.
Proof. intro H. apply C06_rulesb_spec_partial in H. vm_compute in H. discriminate. Qed.
Print Assumptions C06_ex_broken_rule_refutes_Rules.
