(** Class-level facts about the generated definition shapes (C12: wrong modelType,
    missing required property; C11: dangling reference witness). *)
From Coq Require Import List NArith ZArith Bool Lia.
From Coq Require Strings.String.
Import Coq.Strings.String.StringSyntax.
From Acg Require Import Base.Str Base.Outcome Model.JsonSchemaSem Model.JsonSchemaGen
  Model.JsonSchemaSpec Proofs.JsonSchemaFacts.
Import ListNotations.
Open Scope Z_scope.

Lemma text_eqb_eq : forall a b, text_eqb a b = true -> a = b.
Proof.
  induction a as [|x a IH]; intros [|y b] H; try discriminate; [reflexivity|].
  cbn in H. apply andb_true_iff in H. destruct H as [H1 H2].
  apply N.eqb_eq in H1. subst. f_equal. apply IH. exact H2.
Qed.

Lemma text_eqb_refl : forall a, text_eqb a a = true.
Proof. induction a as [|x a IH]; [reflexivity|]. cbn. rewrite N.eqb_refl, IH. reflexivity. Qed.

Section ClassLevel.
  Variable pm : list (text * text).
  Variable fixp : text -> text.
  Variable search16 : text -> text -> bool.
  Variable defs : list (text * schema).
  Variable cons_of : text -> option cbv.

  Notation validates := (validates search16 defs).
  Notation valid_kw := (valid_kw search16 defs).

  (** A conjunct that never accepts makes [wrap_all_of] never accept. *)
  Lemma wrap_all_of_rejects : forall all_of s j,
    In s all_of -> (forall f, validates f s j <> Some true) ->
    forall f, validates f (wrap_all_of all_of) j <> Some true.
  Proof.
    intros all_of s j Hin Hs f. destruct all_of as [|a [|b r]].
    - destruct Hin.
    - cbn [In] in Hin. destruct Hin as [Heq|[]]. subst a. apply Hs.
    - remember (a :: b :: r) as l eqn:El.
      assert (Hw : wrap_all_of l = Schema [KAllOf l]) by (subst l; reflexivity).
      rewrite Hw. clear Hw El.
      destruct f as [|f]; [discriminate|].
      intros E. rewrite validates_unfold in E. cbn [kws_of map valid_kw all_opt] in E.
      destruct (all_opt (map (fun s0 => validates f s0 j) l)) as [x|] eqn:Ex;
        [|discriminate].
      destruct x; [|discriminate].
      apply (Hs f). apply (all_opt_true_all _ Ex).
      apply in_map_iff. exists s. split; [reflexivity|exact Hin].
  Qed.

  (** The [{"modelType": {"const": name}}] entry rejects every other value. *)
  Lemma const_entry_rejects : forall name props mj x,
    In (model_type_kw, Schema [KConst name]) props ->
    lookup model_type_kw mj = Some x -> x <> JStr name ->
    forall f, valid_kw (validates f) (KProperties props) (JObj mj) <> Some true.
  Proof.
    intros name props mj x Hin Hl Hx f E. cbn [JsonSchemaSem.valid_kw] in E.
    pose proof (all_opt_true_all _ E) as Hall.
    specialize (Hall (match lookup model_type_kw mj with
                      | Some y => validates f (Schema [KConst name]) y
                      | None => Some true
                      end)).
    rewrite Hl in Hall.
    assert (Hv : validates f (Schema [KConst name]) x = Some true).
    { apply Hall. apply in_map_iff. exists (model_type_kw, Schema [KConst name]).
      split; [cbn [fst snd]; rewrite Hl; reflexivity|exact Hin]. }
    destruct f as [|f]; [discriminate|]. cbn in Hv.
    destruct x; try discriminate.
    destruct (text_eqb s name) eqn:Es; [|discriminate].
    apply Hx. f_equal. apply text_eqb_eq. exact Es.
  Qed.

  (** C12: a concrete class that serialises its model type rejects every document whose
      [modelType] is present but different from its own. *)
  Theorem wrong_model_type_rejected : forall c n s mj x,
    concrete_definition pm fixp cons_of c = Ok (n, s) -> c_wmt c = true ->
    lookup model_type_kw mj = Some x -> x <> JStr (c_name c) ->
    forall f, validates f s (JObj mj) <> Some true.
  Proof.
    intros c n s mj x Hd Hw Hl Hx. unfold concrete_definition in Hd. rewrite Hw in Hd.
    assert (Hentry : forall f,
              validates f (Schema [KProperties [const_model_type c]]) (JObj mj) <> Some true).
    { intros [|f]; [discriminate|].
      apply (validates_kw_rejects search16 defs f _ _ (KProperties [const_model_type c]));
        [left; reflexivity|].
      apply (const_entry_rejects (c_name c) _ mj x); [left; reflexivity|exact Hl|exact Hx]. }
    destruct (negb (is_nil (c_conc_desc c))).
    - injection Hd as _ <-.
      exact (wrap_all_of_rejects
               [Schema (ref_kw (c_name c ++ s2l "_abstract"));
                Schema [KProperties [const_model_type c]]]
               (Schema [KProperties [const_model_type c]]) (JObj mj)
               (or_intror (or_introl eq_refl)) Hentry).
    - destruct (define_properties pm fixp cons_of c) as [props| |]; try discriminate.
      cbn [bind] in Hd. injection Hd as _ <-.
      apply (wrap_all_of_rejects _
               (Schema (body_definition c (props ++ [const_model_type c]) (list_required c)))).
      + apply in_or_app. right. left. reflexivity.
      + intros [|f]; [discriminate|].
        apply (validates_kw_rejects search16 defs f _ _
                 (KProperties (props ++ [const_model_type c]))).
        * unfold body_definition. cbn [kws_of]. apply in_or_app. right.
          destruct (props ++ [const_model_type c]) eqn:Ep;
            [destruct props; discriminate|]. left. reflexivity.
        * apply (const_entry_rejects (c_name c) _ mj x);
            [apply in_or_app; right; left; reflexivity|exact Hl|exact Hx].
  Qed.

  (** C12: a required property that is missing is rejected by any definition body that
      lists it (the bodies of inheritable and concrete definitions). *)
  Theorem missing_required_rejected : forall c props required r mj all_of,
    props <> [] -> In r required -> lookup r mj = None ->
    forall f, validates f (wrap_all_of (all_of ++ [Schema (body_definition c props required)]))
                (JObj mj) <> Some true.
  Proof.
    intros c props required r mj all_of Hp Hr Hl.
    apply (wrap_all_of_rejects _ (Schema (body_definition c props required)));
      [apply in_or_app; right; left; reflexivity|].
    intros [|f]; [discriminate|].
    apply (validates_kw_rejects search16 defs f _ _ (KRequired required)).
    - unfold body_definition. cbn [kws_of]. apply in_or_app. right.
      destruct props; [contradiction|]. cbn [is_nil].
      destruct required; [destruct Hr|]. right. left. reflexivity.
    - cbn. intros E. injection E as E. rewrite forallb_forall in E.
      specialize (E r Hr). rewrite Hl in E. discriminate.
  Qed.
End ClassLevel.
