(** Basic facts about the file-system map of [Model/Cache.v]: decidable path equality,
    lookup after set / remove, file-name rendering is injective. *)
From Coq Require Import List NArith Bool Arith Lia.
From Coq Require Strings.String.
Import Coq.Strings.String.StringSyntax.
From Acg Require Import Base.Str Model.Cache.
Import ListNotations.

Lemma text_eqb_refl : forall a, text_eqb a a = true.
Proof.
  induction a as [|x a IH]; cbn; [reflexivity|].
  rewrite N.eqb_refl, IH. reflexivity.
Qed.

Lemma text_eqb_eq : forall a b, text_eqb a b = true <-> a = b.
Proof.
  induction a as [|x a IH]; intros [|y b]; cbn; split; intros H; try reflexivity; try discriminate.
  - apply andb_true_iff in H. destruct H as [Hx Hr].
    apply N.eqb_eq in Hx. apply IH in Hr. subst. reflexivity.
  - injection H as Hx Hr. subst. rewrite N.eqb_refl. cbn. apply IH. reflexivity.
Qed.

Lemma path_eqb_eq : forall a b, path_eqb a b = true <-> a = b.
Proof.
  intros [h|h u] [h'|h' u']; cbn; split; intros H; try discriminate.
  - apply text_eqb_eq in H. subst. reflexivity.
  - injection H as H. subst. apply text_eqb_refl.
  - apply andb_true_iff in H. destruct H as [H1 H2].
    apply text_eqb_eq in H1. apply text_eqb_eq in H2. subst. reflexivity.
  - injection H as H1 H2. subst. rewrite !text_eqb_refl. reflexivity.
Qed.

Lemma path_eqb_refl : forall a, path_eqb a a = true.
Proof. intros a. apply path_eqb_eq. reflexivity. Qed.

Lemma path_eqb_neq : forall a b, a <> b -> path_eqb a b = false.
Proof.
  intros a b H. destruct (path_eqb a b) eqn:Hab; [|reflexivity].
  apply path_eqb_eq in Hab. contradiction.
Qed.

Lemma path_eq_dec : forall a b : path, {a = b} + {a <> b}.
Proof.
  intros a b. destruct (path_eqb a b) eqn:Hab.
  - left. apply path_eqb_eq. exact Hab.
  - right. intros Heq. apply path_eqb_eq in Heq. congruence.
Qed.

Lemma lookup_fremove_eq : forall p f, lookup p (fremove p f) = None.
Proof.
  intros p f. induction f as [|[q c] r IH]; cbn; [reflexivity|].
  destruct (path_eqb p q) eqn:Hpq; [exact IH|].
  cbn. rewrite Hpq. exact IH.
Qed.

Lemma lookup_fremove_neq : forall p x f, x <> p -> lookup x (fremove p f) = lookup x f.
Proof.
  intros p x f Hne. induction f as [|[q c] r IH]; cbn; [reflexivity|].
  destruct (path_eqb p q) eqn:Hpq.
  - apply path_eqb_eq in Hpq. subst q. rewrite (path_eqb_neq x p Hne). exact IH.
  - cbn. destruct (path_eqb x q); [reflexivity|exact IH].
Qed.

Lemma lookup_fset_eq : forall p c f, lookup p (fset p c f) = Some c.
Proof. intros p c f. unfold fset. cbn. rewrite path_eqb_refl. reflexivity. Qed.

Lemma lookup_fset_neq : forall p x c f, x <> p -> lookup x (fset p c f) = lookup x f.
Proof.
  intros p x c f Hne. unfold fset. cbn. rewrite (path_eqb_neq x p Hne).
  apply lookup_fremove_neq. exact Hne.
Qed.

Lemma lookup_strip_cache : forall h f, lookup (PCache h) (strip_tmps f) = lookup (PCache h) f.
Proof.
  intros h f. induction f as [|[q c] r IH]; cbn; [reflexivity|].
  destruct q as [h'|h' u']; cbn.
  - destruct (text_eqb h h'); [reflexivity|exact IH].
  - exact IH.
Qed.

Lemma lookup_strip_tmp : forall h u f, lookup (PTmp h u) (strip_tmps f) = None.
Proof.
  intros h u f. induction f as [|[q c] r IH]; cbn; [reflexivity|].
  destruct q as [h'|h' u']; cbn; exact IH.
Qed.

(** File names: a temporary name never equals a cache-entry name (they end in
    [".tmp"] and [".pickle"]), and names determine the abstract path when the hash
    contains no dot (a hex digest). *)
Lemma last_app_ne : forall (a b : text) d, b <> [] -> last (a ++ b) d = last b d.
Proof.
  induction a as [|x a IH]; intros b d Hb; cbn [app]; [reflexivity|].
  destruct (a ++ b) eqn:Hab.
  - destruct a; destruct b; cbn in Hab; try discriminate. contradiction.
  - rewrite <- Hab. cbn [last]. rewrite Hab. rewrite <- Hab. apply IH. exact Hb.
Qed.

Lemma render_tmp_ne_cache : forall h u h', render (PTmp h u) <> render (PCache h').
Proof.
  intros h u h' Heq.
  assert (Hl : last (render (PTmp h u)) 0%N = last (render (PCache h')) 0%N) by (rewrite Heq; reflexivity).
  unfold render in Hl.
  rewrite !app_assoc in Hl.
  rewrite (last_app_ne _ (s2l ".tmp")) in Hl by (cbn; discriminate).
  rewrite (last_app_ne _ (s2l ".pickle")) in Hl by (cbn; discriminate).
  cbn in Hl. discriminate.
Qed.

Definition no_dot (t : text) : Prop := ~ In 46%N t.

Lemma app_dot_split : forall (a a' b b' : text),
  no_dot a -> no_dot a' -> a ++ 46%N :: b = a' ++ 46%N :: b' -> a = a' /\ b = b'.
Proof.
  induction a as [|x a IH]; intros [|x' a'] b b' Ha Ha' Heq; cbn in Heq.
  - injection Heq as Hb. split; [reflexivity|exact Hb].
  - injection Heq as Hx Hr. subst x'. exfalso. apply Ha'. left. reflexivity.
  - injection Heq as Hx Hr. subst x. exfalso. apply Ha. left. reflexivity.
  - injection Heq as Hx Hr. subst x'.
    destruct (IH a' b b') as [H1 H2]; try exact Hr.
    + intros Hin. apply Ha. right. exact Hin.
    + intros Hin. apply Ha'. right. exact Hin.
    + subst. split; reflexivity.
Qed.

Lemma render_inj : forall p q,
  (forall h, p = PCache h \/ (exists u, p = PTmp h u) -> no_dot h) ->
  (forall h, q = PCache h \/ (exists u, q = PTmp h u) -> no_dot h) ->
  render p = render q -> p = q.
Proof.
  intros [h|h u] [h'|h' u'] Hp Hq Heq.
  - unfold render in Heq. apply app_inv_head in Heq.
    change (s2l ".pickle") with (46%N :: s2l "pickle") in Heq.
    apply app_dot_split in Heq.
    + destruct Heq as [Hh _]. subst. reflexivity.
    + apply Hp. left. reflexivity.
    + apply Hq. left. reflexivity.
  - symmetry in Heq. apply render_tmp_ne_cache in Heq. contradiction.
  - apply render_tmp_ne_cache in Heq. contradiction.
  - unfold render in Heq. apply app_inv_head in Heq.
    change (s2l ".") with [46%N] in Heq. cbn [app] in Heq.
    apply app_dot_split in Heq.
    + destruct Heq as [Hh Hu]. apply app_inv_tail in Hu. subst. reflexivity.
    + apply Hp. right. exists u. reflexivity.
    + apply Hq. right. exists u'. reflexivity.
Qed.
