"""C02 — Generators never crash on accepted meta-models (partial; see docs/C02.md)."""
from __future__ import annotations

import collections
import concurrent.futures as cf
import json
import random
from typing import Any, Dict, List, Optional, Tuple

from harness import lib
from harness.gen import crashhunt as ch
from harness.gen import metamodel as mmg
from harness.props import c01

META = {
    "title": "Generators never crash on accepted meta-models",
    "design_ref": "§4 C02",
    "level_text": (
        "Partial. Coq theorems over the skeleton of main.execute (and run.load_model) re-translated "
        "from the sources on every run: on every path an exit code is returned and no value produced "
        "together with an error is read on the path where the error is set (sound path exploration, "
        "all environments). The crash-bearing generator cores (length inference, regex VM translation, "
        "UTF-16 fix, collision checks) are proved total in C15/C18/C17/C21. The text-emitting bulk of "
        "the eight generators is searched, not proved: accepted generated meta-models (conservative "
        "profile, risky-feature profile, and accepted mutants of the C01 engine) x 8 targets + smoke "
        "with synthesised snippets through the real entry points; oracle = returns 0, or non-zero "
        "with non-empty stderr; never raises."
    ),
    "level_note": (
        "Not proved: that the generator code raises nothing on accepted models (searched only); the "
        "per-target execute skeletons are C03's. Known generator crash sites are listed as findings."
    ),
    "technique": "Coq proof (sound path exploration of translated skeleton) + crash search on the "
                 "real CLI for 8 targets + smoke",
}
GEN = ["GenLoadModel"]
MODEL = ["Model/LoadSkel", "Gen/GenLoadModel"]
TRUSTED = [
    "harness/translate/loadmodel.py (Python ast -> skeleton), fail closed",
    "harness/gen/metamodel.py generator + synth_snippets, harness/impl/crashhunt.py + cli.py runner",
]
RULE = ("case = (accepted meta-model, target) for the 8 targets and smoke; models: seed-driven with the "
        "profiles tiny/small (all generators expected to succeed); a fixed corpus of shrunk witnesses, one "
        "per known crash site (risky features / mutants); thorough adds seed-driven small_wild/medium_wild "
        "models and accepted mutants; non-trivial = the front end accepted the model; distinct by "
        "(model text, target)")

TARGETS = list(mmg.TARGETS) + ["smoke"]


def model_jobs(text: str, mm: Optional[mmg.MetaModel]) -> List[Dict[str, Any]]:
    jobs = []
    for target in TARGETS:
        snippets = mmg.synth_snippets(mm, target) if mm is not None else minimal_snippets(target)
        job = c01.job_of(text, target, snippets)
        job["files"] = "none"
        jobs.append(job)
    return jobs




def minimal_snippets(target: str) -> Dict[str, str]:
    """The mandatory top-level snippets of a target (for mutants there is no abstract
    model to synthesise the implementation-specific ones from: a missing snippet is a
    reported error, which is fine for this property)."""
    try:
        return mmg.synth_snippets(mmg.random_metamodel(random.Random(0), "tiny"), target)
    except Exception:
        return {}


def corpus() -> List[Dict[str, Any]]:
    """Fixed witnesses, one per known crash site: ``{"key", "text", "target", "snippets",
    "origin"}`` (generated once under small_wild / as mutants with fixed seeds, then
    shrunk). Replayed on every run, so a KNOWN-FINDING line is printed only while the
    witness still crashes."""
    path = lib.VERIF / "harness" / "corpus" / "c02_wild.json"
    if not path.exists():
        return []
    return json.loads(path.read_text(encoding="utf-8"))


def accepted_by_front_end(r: Dict[str, Any]) -> bool:
    return not (r["exc"] is None and r["rc"] != 0 and (
        r["stderr"].startswith("Failed to parse") or r["stderr"].startswith("Failed to read")
        or r["stderr"].startswith("Failed to construct")
        or r["stderr"].startswith("Failed to translate") or "unexpected imports" in r["stderr"]))


def run_models(ctx: lib.Ctx, stream: str, models, found: Dict[str, Dict[str, Any]],
               outcome, per_profile, nontrivial) -> int:
    """Run every model on the 8 targets + smoke; collect failures per crash site."""
    jobs: List[Dict[str, Any]] = []
    index: List[Tuple[int, str]] = []
    for i, (text, mm, _prof) in enumerate(models):
        for job in model_jobs(text, mm):
            jobs.append(job)
            index.append((i, job["target"]))
    results = c01.run_jobs(jobs, batch=18, workers=10, timeout=3000)
    for (i, target), job, r in zip(index, jobs, results):
        text, mm, prof = models[i]
        kind = prof.split(":")[0]
        key = c01.failure_key(r)
        if r.get("timeout"):
            outcome["timeout"] += 1
            per_profile[kind]["timeout"] += 1
            continue
        if not accepted_by_front_end(r):
            outcome["front-end-rejected"] += 1
            per_profile[kind]["front-end-rejected"] += 1
            continue
        nontrivial.append((stream, lib.stable_key(text), target))
        if key is None:
            o = "generated" if r["rc"] == 0 else "reported"
            outcome[o] += 1
            per_profile[kind][o] += 1
            continue
        outcome["crash"] += 1
        per_profile[kind]["crash"] += 1
        if r["exc"] is not None and r["exc"]["in_front_end"]:
            key = "front-end:" + key      # C01's statement; still a crash of this run
        cur = found.get(key)
        if cur is None:
            found[key] = {"text": text, "ops": [prof], "exc": r["exc"], "count": 1,
                          "raw_key": r["key"], "size": len(text), "target": target,
                          "snippets": job["snippets"], "targets": {target}}
        else:
            cur["count"] += 1
            cur["targets"].add(target)
            if len(text) < cur["size"]:
                cur.update(text=text, ops=[prof], exc=r["exc"], size=len(text), raw_key=r["key"],
                           target=target, snippets=job["snippets"])
    return len(jobs)


def explore_models(ctx: lib.Ctx) -> Tuple[list, int]:
    """Open-ended exploration (thorough tier only): risky-feature profile + accepted mutants."""
    rng = ctx.rng
    models: List[Tuple[str, Optional[mmg.MetaModel], str]] = []
    for i in range(WILD_MODELS):
        prof = "small_wild" if i % 5 else "medium_wild"
        mm = mmg.random_metamodel(random.Random(rng.random()), prof)
        models.append((mmg.render_source(mm), mm, prof))
    base = [mmg.render_source(mmg.random_metamodel(random.Random(rng.random()), "tiny"))
            for _ in range(12)]
    mutants = []
    for _ in range(MUTANT_PROBES):
        t, ops = ch.mutate(rng, rng.choice(base), rng.choice([1, 1, 2]),
                           only=["annotation", "class_decorator", "inv_body", "pattern_string", "docstring",
                                 "constant", "class_body", "module_stmt", "const_tweak", "operator",
                                 "rename_def", "inv_description", "pattern_func", "bases"])
        try:
            t.encode("utf-8")
        except UnicodeEncodeError:
            continue
        mutants.append((t, ops))
    probe = c01.run_jobs([c01.job_of(t, "smoke") for t, _ in mutants], batch=30, workers=10)
    seen = set()
    for (t, ops), r in zip(mutants, probe):
        ok = r["exc"] is None and accepted_by_front_end(r)
        if not ok or t in seen or t in base:
            continue
        seen.add(t)
        models.append((t, None, "mutant:" + "+".join(ops)))
        if len(seen) >= MUTANT_MODELS:
            break
    return models, len(seen)


WILD_MODELS = 80
MUTANT_PROBES = 600
MUTANT_MODELS = 80


def streams(ctx: lib.Ctx) -> None:
    rng = ctx.rng
    outcome = collections.Counter()
    per_profile = collections.defaultdict(collections.Counter)
    nontrivial: list = []
    found: Dict[str, Dict[str, Any]] = {}

    # 1. seed-driven, conservative profiles: every generator is expected to succeed,
    #    so any crash here is new whatever the seed
    models: List[Tuple[str, Optional[mmg.MetaModel], str]] = []
    for _ in range(ctx.n(7, 60)):
        prof = rng.choice(["tiny", "small", "small"])
        mm = mmg.random_metamodel(random.Random(rng.random()), prof)
        models.append((mmg.render_source(mm), mm, prof))
    n_jobs = run_models(ctx, "conservative", models, found, outcome, per_profile, nontrivial)

    # 2. fixed corpus: one shrunk witness per known crash site (risky features, mutants)
    entries = corpus()
    cjobs = []
    for e in entries:
        job = c01.job_of(e["text"], e["target"], e.get("snippets") or {})
        job["files"] = "none"
        cjobs.append(job)
    cres = c01.run_jobs(cjobs, batch=12, workers=10, timeout=3000)
    still, gone, moved = 0, [], []
    for e, job, r in zip(entries, cjobs, cres):
        key = c01.failure_key(r)
        if key is None:
            gone.append(e["key"])
            outcome["corpus:no-longer-crashes"] += 1
            continue
        if r["exc"] is not None and r["exc"]["in_front_end"]:
            key = "front-end:" + key
        if key == e["key"]:
            still += 1
        else:
            moved.append((e["key"], key))
        outcome["corpus:crash"] += 1
        nontrivial.append(("corpus", e["key"], e["target"]))
        if key not in found:
            found[key] = {"text": e["text"], "ops": ["corpus:" + e.get("origin", "")], "exc": r["exc"],
                          "count": 1, "raw_key": r["key"], "size": len(e["text"]),
                          "target": e["target"], "snippets": job["snippets"], "targets": {e["target"]}}
        else:
            found[key]["count"] += 1
            found[key]["targets"].add(e["target"])
    n_jobs += len(cjobs)

    # 3. thorough only: open-ended exploration
    n_models = len(models)
    accepted_mutants = 0
    if ctx.thorough:
        more, accepted_mutants = explore_models(ctx)
        n_models += len(more)
        n_jobs += run_models(ctx, "explore", more, found, outcome, per_profile, nontrivial)

    known = {k["key"] for k in lib.load_known_findings() if k["property"] == "C02"}
    new = {k: v for k, v in found.items() if k not in known}
    c01.shrink_failures(new)
    for v in found.values():
        v["ops"] = v["ops"] + ["targets=" + ",".join(sorted(v.pop("targets")))]
    # every new witness of this run (the driver writes at most five replays): input for
    # extending harness/corpus/c02_wild.json
    ctx.work.mkdir(parents=True, exist_ok=True)
    (ctx.work / "new_witnesses.json").write_text(json.dumps([
        {"key": k, "text": v["text"], "target": v["target"], "snippets": v.get("snippets") or {},
         "origin": ",".join(v["ops"]), "message": ((v.get("exc") or {}).get("message") or "")[:300]}
        for k, v in new.items() if isinstance(v["text"], str)], indent=0))
    c01.report(ctx, "generators", found)
    ctx.count("generators", n_jobs, nontrivial_keys=nontrivial, validated=n_jobs,
              models=n_models, corpus_witnesses=len(entries), corpus_still_crashing=still,
              corpus_no_longer_crashing=gone, corpus_key_changed=moved,
              outcomes=dict(outcome), per_profile={k: dict(v) for k, v in per_profile.items()},
              accepted_mutants=accepted_mutants, distinct_failure_keys=sorted(found))
    for text, mm, prof in models[:2]:
        ctx.sample({"profile": prof, "text_head": text[:300]})
    ctx.coverage["exhaustive"] = False
