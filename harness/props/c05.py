"""C05 — Intermediate model faithfully resolves inheritance.

Streams: corpus (minimised witnesses), valid generated hierarchies, one-mutation negative
hierarchies, exhaustive small DAGs. Every case is (i) loaded with the real front end of
the tree under test (harness/impl/hierarchy.py), (ii) compared inside Coq with the model
``Model/Hierarchy.v`` (outcome class + the whole exported intermediate representation as
lists), (iii) checked directly against the property statement by ``oracle`` below
(independent transitive closure / recursive stacking computed on the abstract hierarchy).
"""
from __future__ import annotations

import collections
import copy
import json
import random
from typing import Dict, List, Optional, Tuple

from harness import lib
from harness.gen import hierarchy as H

META = {
    "title": "Intermediate model faithfully resolves inheritance",
    "design_ref": "§4 C05",
    "level_text": (
        "Coq theorems for all well-formed hierarchies (unique names, existing bases, acyclic; "
        "any declaration order) over a Gallina model of the hierarchy passes: the DFS "
        "topological sort, ancestor/descendant resolution, stacking of properties/invariants/"
        "methods with de-duplication, constructor in-lining, interface resolution and "
        "with_model_type propagation. The model is tied to the code on every run by a "
        "correspondence stream evaluated inside Coq (the real intermediate.translate result "
        "is exported and compared as lists), and the property statement is also executed "
        "directly on the real result to obtain replays."
    ),
    "level_note": (
        "Trusted: the hand-written model agrees with the code beyond the sampled hierarchies; "
        "the generator's rendering of a hierarchy as source text; properties are int-typed, "
        "constructors have no default values."
    ),
    "technique": "Coq proof (DFS invariant, induction along the topological order) + in-Coq "
                 "correspondence check + direct property oracle",
}
GEN = ["GenHierarchy"]
MODEL = ["Model/Hierarchy", "Gen/GenHierarchy"]
TRUSTED = [
    "Model/Hierarchy.v is a hand-written model of _hierarchy.py and the second passes of "
    "intermediate/_translate.py (correspondence-checked on every run)",
    "harness/translate/hierarchy.py (parse.PRIMITIVE_TYPES) via Python's ast",
    "harness/gen/hierarchy.py renders the abstract hierarchy as meta-model source text and as a Coq term",
]
RULE = ("case = one meta-model source text (classes with bases, int properties, invariants, "
        "implementation-specific methods, constructors with super calls, with_model_type); "
        "shapes chain/diamond/stacked diamonds/fan-out/forest/random DAG plus constrained-primitive "
        "chains, random names, declaration order = random linear extension; negative stream = one "
        "mutation per case; non-trivial = at least one inheritance edge; distinct by source text")

HEADER = """From Coq Require Import List NArith Bool.
From Coq Require Strings.String.
Import Coq.Strings.String.StringSyntax.
From Acg Require Import Base.Str Base.Outcome Model.Hierarchy Gen.GenHierarchy.
Import ListNotations.
Open Scope nat_scope.
Definition N0 : list name := [].
Definition N1 (x : name) (l : list name) : list name := x :: l.
Definition P0 : list (name * name) := [].
Definition P1 (a b : name) (l : list (name * name)) : list (name * name) := (a, b) :: l.
Definition S0 : list stmt := [].
Definition S1 (x : stmt) (l : list stmt) : list stmt := x :: l.
Definition C0 : list cls := [].
Definition C1 (x : cls) (l : list cls) : list cls := x :: l.
Definition I0 : list cls_ir := [].
Definition I1 (x : cls_ir) (l : list cls_ir) : list cls_ir := x :: l.
Definition K (m : mm) (o : observed) : mm * observed := (m, o).
Definition case_ok (c : mm * observed) : bool :=
  agrees (translate primitive_type_names (fst c)) (snd c).
Fixpoint bad_from (i : nat) (cs : list (mm * observed)) : list nat :=
  match cs with
  | [] => []
  | c :: r => if case_ok c then bad_from (S i) r else i :: bad_from (S i) r
  end.
Definition bad := bad_from 0.
"""

CRASH = {"AssertionError": "AssertionError", "ViolationError": "Violation", "KeyError": "KeyError",
         "IndexError": "IndexError", "TypeError": "TypeError", "ValueError": "ValueError",
         "NotImplementedError": "NotImplementedError", "RecursionError": "RecursionError"}


# -------------------------------------------------------------------------------------
# Coq printers. Elaboration of big list literals dominates the cost of a cases file, so a
# case is printed with monomorphic constructors (N1/P1/.. of HEADER) and every distinct
# name is bound once by a let (`let n0 := s2l "Ab3" in ...`).
# -------------------------------------------------------------------------------------
class Interner:
    def __init__(self):
        self.ids: Dict[str, str] = {}

    def __call__(self, s: str) -> str:
        if s not in self.ids:
            self.ids[s] = f"n{len(self.ids)}"
        return self.ids[s]

    def wrap(self, body: str) -> str:
        lets = "".join(f"let {v} := {H.coq_text(s)} in " for s, v in self.ids.items())
        return f"({lets}{body})"


def _chain(cons: str, nil: str, items) -> str:
    out = nil
    for x in reversed(list(items)):
        out = f"({cons} {x} {out})"
    return out


def coq_case(spec: H.Spec, res: dict) -> str:
    T = Interner()
    NL = lambda xs: _chain("N1", "N0", (T(x) for x in xs))
    PL = lambda xs: _chain("P1", "P0", (f"{T(a)} {T(b)}" for a, b in xs))
    SL = lambda xs: _chain("S1", "S0", (f"({'CallSuper' if k == 'super' else 'Assign'} {T(x)})" for k, x in xs))
    OB = lambda b: "None" if b is None else f"(Some {'true' if b else 'false'})"

    def cls(c: H.Cls) -> str:
        ctor = "None" if c.ctor is None else f"(Some (Build_ctor {NL(c.ctor[0])} {SL(c.ctor[1])}))"
        return (f"(Build_cls {T(c.name)} {'true' if c.abstract else 'false'} {NL(c.bases)} "
                f"{NL(c.props)} {NL(c.invs)} {NL(c.methods)} {ctor} {H.coq_wmt(c.wmt)})")

    m = _chain("C1", "C0", (cls(c) for c in spec))
    if "exc" in res:
        o = f"(ObsCrash {CRASH.get(res['exc'], 'OutOfFuel')})"
    elif "err" in res:
        o = "ObsErr"
    else:
        ir = res["ok"]

        def ci(d: dict) -> str:
            iface = "None" if d["iface"] is None else f"(Some {NL(d['iface'])})"
            return (f"(Build_cls_ir {T(d['name'])} {'true' if d['is_cp'] else 'false'} "
                    f"{NL(d['ancestors'])} {NL(d['descendants'])} {NL(d['concrete_descendants'])} "
                    f"{PL(d['props'])} {PL(d['invs'])} {PL(d['methods'])} {NL(d['inlined'])} "
                    f"{iface} {OB(d['wmt'])})")

        o = f"(ObsOk (Build_ir {_chain('I1', 'I0', (ci(d) for d in ir['classes']))} {NL(ir['topo'])}))"
    return T.wrap(f"K {m} {o}")


# -------------------------------------------------------------------------------------
# the property statement, executed on the implementation's answer
# -------------------------------------------------------------------------------------
def oracle(spec: H.Spec, ir: dict) -> List[Tuple[str, str]]:
    """Returns [(kind, detail)] of violated clauses of C05 for an ACCEPTED meta-model."""
    fails: List[Tuple[str, str]] = []
    bn = H.by_name(spec)
    clo = H.closure(spec)
    inv = {c.name: set() for c in spec}
    for n, ancs in clo.items():
        for a in ancs:
            inv[a].add(n)
    got = {d["name"]: d for d in ir["classes"]}
    if [d["name"] for d in ir["classes"]] != [c.name for c in spec]:
        fails.append(("classes", "exported classes differ from the declared ones"))
        return fails
    sp = H.stacked(spec, "props")
    si = H.stacked(spec, "invs")
    sm = H.stacked(spec, "methods")
    for c in spec:
        d = got[c.name]
        n = c.name
        # ancestors = transitive closure, no duplicates
        if len(set(d["ancestors"])) != len(d["ancestors"]):
            fails.append(("ancestors-dup", f"{n}.ancestors = {d['ancestors']}"))
        if set(d["ancestors"]) != clo[n]:
            fails.append(("ancestors-closure", f"{n}.ancestors = {d['ancestors']}, closure = {sorted(clo[n])}"))
        # descendants = inverse relation
        if len(set(d["descendants"])) != len(d["descendants"]):
            fails.append(("descendants-dup", f"{n}.descendants = {d['descendants']}"))
        if set(d["descendants"]) != inv[n]:
            fails.append(("descendants-inverse", f"{n}.descendants = {d['descendants']}, inverse = {sorted(inv[n])}"))
        if not d.get("id_sets_ok", True):
            fails.append(("id-sets", f"{n}: id sets differ from the lists"))
        # invariants (classes and constrained primitives)
        if [tuple(x) for x in d["invs"]] != si[n]:
            fails.append(("invariants-stacked", f"{n}.invariants = {d['invs']}, expected {si[n]}"))
        if d["is_cp"]:
            continue
        conc = [x for x in d["descendants"] if not bn[x].abstract]
        if d["concrete_descendants"] != conc or len(set(conc)) != len(conc):
            fails.append(("concrete-descendants", f"{n}.concrete_descendants = {d['concrete_descendants']}"))
        # properties / methods: inherited (dedup, ancestors first) ++ own
        if [tuple(x) for x in d["props"]] != sp[n]:
            fails.append(("properties-stacked", f"{n}.properties = {d['props']}, expected {sp[n]}"))
        pnames = [p for p, _ in d["props"]]
        if len(set(pnames)) != len(pnames):
            fails.append(("properties-dup", f"{n}.properties = {pnames}"))
        if any(o != n and o not in clo[n] for _, o in d["props"]):
            fails.append(("properties-owner", f"{n}.properties = {d['props']}"))
        if [tuple(x) for x in d["methods"]] != sm[n]:
            fails.append(("methods-stacked", f"{n}.methods = {d['methods']}, expected {sm[n]}"))
        # constructor: no super call left, every property assigned exactly once
        if d["super_calls_left"]:
            fails.append(("ctor-super-left", f"{n}: {d['inlined']}"))
        if sorted(d["inlined"]) != sorted(pnames):
            k = "ctor-assigned-twice" if len(set(d["inlined"])) != len(d["inlined"]) else "ctor-not-all-assigned"
            fails.append((k, f"{n}: in-lined assignments {d['inlined']}, properties {pnames}"))
        # interface iff abstract or has descendants
        want_iface = c.abstract or bool(inv[n])
        if (d["iface"] is not None) != want_iface:
            fails.append(("interface-iff", f"{n}: interface {d['iface']}, abstract={c.abstract}, descendants={sorted(inv[n])}"))
        if d["iface"] is not None and d["iface"] != H.class_bases(c):
            fails.append(("interface-inheritances", f"{n}: {d['iface']} vs bases {c.bases}"))
        # with_model_type: true iff set to true on the class or one of its ancestors
        want = any(bn[a].wmt is True for a in [n] + sorted(clo[n]))
        if d["wmt"] != want:
            fails.append(("model-type", f"{n}: with_model_type {d['wmt']}, expected {want}"))
    # the type order is topological and complete
    topo = ir["topo"]
    if sorted(topo) != sorted(c.name for c in spec):
        fails.append(("topo-perm", f"{topo}"))
    else:
        pos = {n: i for i, n in enumerate(topo)}
        for c in spec:
            for b in H.class_bases(c):
                if pos[b] > pos[c.name]:
                    fails.append(("topo-order", f"{b} after {c.name} in {topo}"))
    return fails


# -------------------------------------------------------------------------------------
# shrinking
# -------------------------------------------------------------------------------------
def _remove_class(spec: H.Spec, name: str) -> H.Spec:
    out = []
    for c in spec:
        if c.name == name:
            continue
        c = copy.deepcopy(c)
        c.bases = [b for b in c.bases if b != name]
        if c.ctor is not None:
            c.ctor = (c.ctor[0], [s for s in c.ctor[1] if not (s[0] == "super" and s[1] == name)])
        out.append(c)
    return out


def _refill(spec: H.Spec) -> H.Spec:
    spec = copy.deepcopy(spec)
    H.fill_constructors(random.Random(0), spec)
    for c in spec:
        if c.ctor is None and not any(b in H.PRIMS for b in c.bases) and not H._safe_is_cp(spec, c.name):
            c.ctor = ([p for p, _ in H.stacked(spec, "props")[c.name]],
                      [("super", b) for b in H.class_bases(c) if H.stacked(spec, "props").get(b)]
                      + [("assign", p) for p in c.props])
    return spec


def _candidates(spec: H.Spec) -> List[H.Spec]:
    cands: List[H.Spec] = []
    for c in spec:
        r = _remove_class(spec, c.name)
        if r:
            cands.append(_refill(r))
            cands.append(r)
    for i, c in enumerate(spec):
        for what in ("invs", "methods"):
            if getattr(c, what):
                s2 = copy.deepcopy(spec)
                setattr(s2[i], what, [])
                cands.append(s2)
        if c.wmt is not None:
            s2 = copy.deepcopy(spec)
            s2[i].wmt = None
            cands.append(s2)
        if len(c.props) > 1:
            s2 = copy.deepcopy(spec)
            s2[i].props = s2[i].props[:1]
            cands.append(_refill(s2))
        if len(H.class_bases(c)) > 1:
            for b in H.class_bases(c):
                s2 = copy.deepcopy(spec)
                s2[i].bases = [x for x in s2[i].bases if x != b]
                cands.append(_refill(s2))
    return cands


def failure_kinds(spec: H.Spec, res: dict) -> List[str]:
    if "ok" in res:
        return [k for k, _ in oracle(spec, res["ok"])]
    return []


def shrink(spec: H.Spec, kind: str, rounds: int = 25) -> H.Spec:
    cur = spec
    for _ in range(rounds):
        cands = _candidates(cur)
        if not cands:
            break
        try:
            results = lib.impl_call("hierarchy.py", [H.render_source(s) for s in cands], timeout=600)
        except Exception:
            break
        nxt = None
        for s, r in zip(cands, results):
            if kind in failure_kinds(s, r):
                nxt = s
                break
        if nxt is None:
            break
        cur = nxt
    return cur


def canonical(spec: H.Spec) -> H.Spec:
    """Rename classes A, B, C.. (declaration order), properties pa.., keep structure."""
    spec = copy.deepcopy(spec)
    cmap = {c.name: (chr(ord("A") + i) if i < 26 else f"Z{i}") for i, c in enumerate(spec)}
    pmap: Dict[str, str] = {}
    for c in spec:
        for p in c.props:
            pmap.setdefault(p, "p" + chr(ord("a") + len(pmap) % 26) + (str(len(pmap) // 26) if len(pmap) >= 26 else ""))
    for c in spec:
        c.name = cmap[c.name]
        c.bases = [cmap.get(b, b) for b in c.bases]
        c.props = [pmap[p] for p in c.props]
        c.invs = [f"I{c.name}{j}" for j in range(len(c.invs))]
        if c.ctor is not None:
            c.ctor = ([pmap.get(a, a) for a in c.ctor[0]],
                      [(k, cmap.get(x, x) if k == "super" else pmap.get(x, x)) for k, x in c.ctor[1]])
    return spec


def describe(spec: H.Spec) -> str:
    return ";".join(c.name + ("(" + ",".join(c.bases) + ")" if c.bases else "") for c in spec)


# -------------------------------------------------------------------------------------
# corpus: minimised witnesses and past disagreements, always run first
# -------------------------------------------------------------------------------------
def corpus() -> List[Tuple[str, H.Spec]]:
    C = H.Cls
    out: List[Tuple[str, H.Spec]] = []
    # the diamond A; B(A); C(A); D(B,C) (unrepaired tree: D.ancestors = [A,A,B,C],
    # A.descendants = [B,C,D,D], `a` assigned twice in D's in-lined constructor)
    diamond = [
        C("A", True, [], ["a"], ["IA"], [], (["a"], [("assign", "a")])),
        C("B", True, ["A"], ["b"], [], [], (["a", "b"], [("super", "A"), ("assign", "b")])),
        C("C", True, ["A"], ["c"], [], [], (["a", "c"], [("super", "A"), ("assign", "c")])),
        C("D", False, ["B", "C"], ["d"], [], [],
          (["a", "b", "c", "d"], [("super", "B"), ("super", "C"), ("assign", "d")])),
    ]
    out.append(("diamond", diamond))
    # a property assigned twice by the class itself
    out.append(("dup-assign", [C("A", False, [], ["a"], [], [], (["a"], [("assign", "a"), ("assign", "a")]))]))
    # diamond without properties (only ancestors/descendants affected)
    out.append(("bare-diamond", [C("A", True), C("B", True, ["A"]), C("C", False, ["A"]),
                                 C("D", False, ["C", "B"])]))
    # names sorted against the topological order; concrete class with descendants
    out.append(("reverse-names", [C("Zz", False, [], ["z"], [], [], (["z"], [("assign", "z")])),
                                  C("Mm", False, ["Zz"], [], [], [], (["z"], [("super", "Zz")])),
                                  C("Aa", False, ["Mm"], ["q"], [], [],
                                    (["z", "q"], [("super", "Mm"), ("assign", "q")]))]))
    # constrained primitive diamond
    out.append(("cp-diamond", [C("S", False, ["str"], [], ["IS"]), C("T", False, ["S"], [], ["IT"]),
                               C("U", False, ["S"]), C("V", False, ["T", "U"], [], ["IV"])]))
    # with_model_type set in the middle of a chain
    out.append(("wmt-chain", [C("A", True), C("B", True, ["A"], wmt=True), C("C", False, ["B"])]))
    # empty @serialization() below a class with with_model_type=True (chain and diamond):
    # the setting must pass through the class with the unset Serialization object
    out.append(("wmt-unset-chain", [C("A", True, wmt=True), C("B", False, ["A"], wmt=H.UNSET),
                                    C("C", False, ["B"]), C("D", False, ["C"], wmt=H.UNSET)]))
    out.append(("wmt-unset-diamond", [C("A", True, wmt=H.UNSET), C("B", True, ["A"], wmt=True),
                                      C("C", True, ["A"], wmt=H.UNSET), C("D", False, ["C", "B"], wmt=H.UNSET),
                                      C("E", False, ["D"])]))
    out.append(("wmt-unset-root", [C("A", False, wmt=H.UNSET), C("B", False, ["A"])]))
    # child declared before its parent (not a Python-consistent order)
    out.append(("child-first", [C("B", False, ["A"]), C("A", True)]))
    out.append(("cycle", [C("A", False, ["B"]), C("B", False, ["A"])]))
    out.append(("same-prop-two-parents", [
        C("B", True, [], ["x"], [], [], (["x"], [("assign", "x")])),
        C("C", True, [], ["x"], [], [], (["x"], [("assign", "x")])),
        C("D", False, ["B", "C"], [], [], [], (["x"], [("super", "B"), ("super", "C")]))]))
    out.append(("prim-and-class", [C("Y"), C("X", False, ["str", "Y"])]))
    out.append(("method-diamond", [C("A", True, methods=["m"]), C("B", True, ["A"]), C("C", True, ["A"]),
                                   C("D", False, ["B", "C"])]))
    out.append(("super-twice", [C("A", True, [], ["a"], [], [], (["a"], [("assign", "a")])),
                                C("B", False, ["A"], [], [], [], (["a"], [("super", "A"), ("super", "A")]))]))
    return out


# -------------------------------------------------------------------------------------
def streams(ctx: lib.Ctx) -> None:
    rng = ctx.rng
    cases: List[Tuple[str, H.Spec, dict]] = []   # (stream, spec, meta)
    for label, spec in corpus():
        cases.append(("corpus", spec, {"label": label}))
    n_valid = ctx.n(150, 2500)
    n_mut = ctx.n(120, 2000)
    for _ in range(n_valid):
        spec, meta = H.gen_valid(rng, max_n=rng.choice([4, 6, 9, 12]))
        cases.append(("valid", spec, meta))
    tried = 0
    made = 0
    while made < n_mut and tried < 20 * n_mut:
        tried += 1
        spec, meta = H.gen_valid(rng, max_n=rng.choice([4, 6, 8]),
                                 kind=rng.choice(["diamond", "multidiamond", "dag", "chain", "fan"]))
        kind = rng.choice(H.MUTATIONS)
        mut = H.mutate(rng, spec, kind)
        if mut is None:
            continue
        meta = dict(meta)
        meta["mutation"] = kind
        cases.append(("mutated", mut, meta))
        made += 1
    n_small = ctx.n(4, 5)
    small = [s for k in range(1, n_small + 1) for s in H.all_small_dags(k)]
    if not ctx.thorough and len(small) > 70:
        small = small[:13] + rng.sample(small[13:], 57)
    for s in small:
        cases.append(("small-dags", s, {"shape": "exhaustive"}))

    sources = [H.render_source(s) for _, s, _ in cases]
    results: List[dict] = []
    B = 1500
    for k in range(0, len(sources), B):
        results += lib.impl_call("hierarchy.py", sources[k:k + B], timeout=3000)

    # --- correspondence inside Coq ---------------------------------------------------
    coq_cases = [coq_case(s, r) for (_, s, _), r in zip(cases, results)]
    bad, _log = lib.run_cases(ctx.work, "cases", HEADER, "mm * observed", "bad", coq_cases, shard=150)
    for i in bad[:8]:
        stream, spec, meta = cases[i]
        model = lib.coq_eval(ctx.work, "show", HEADER,
                             f"translate primitive_type_names {H.coq_spec(spec)}")
        ctx.corr_break(stream, {"spec": H.spec_to_json(spec), "source": sources[i], "meta": meta},
                       model[-3000:], results[i])

    # --- the property oracle on the implementation -------------------------------------
    outcome_hist: Dict[str, collections.Counter] = collections.defaultdict(collections.Counter)
    shape_hist: collections.Counter = collections.Counter()
    mut_hist: Dict[str, collections.Counter] = collections.defaultdict(collections.Counter)
    nontrivial = []
    n_diamond_cases = 0
    first_by_kind: Dict[str, Tuple[H.Spec, str]] = {}
    for (stream, spec, meta), res, src in zip(cases, results, sources):
        oc = "ok" if "ok" in res else ("err" if "err" in res else "crash:" + res["exc"])
        outcome_hist[stream][oc] += 1
        shape_hist[meta.get("shape", meta.get("label", "?"))] += 1
        if "mutation" in meta:
            mut_hist[meta["mutation"]][oc] += 1
        if any(H.class_bases(c) for c in spec):
            nontrivial.append(lib.stable_key(src))
        if meta.get("diamonds"):
            n_diamond_cases += 1
        if "ok" in res:
            for kind, detail in oracle(spec, res["ok"]):
                if kind not in first_by_kind or len(spec) < len(first_by_kind[kind][0]):
                    first_by_kind[kind] = (spec, detail)
    # also around every correspondence break (neighbourhood search)
    for i in bad[:8]:
        _, spec, _ = cases[i]
        neigh = _candidates(spec)[:60]
        if not neigh:
            continue
        nres = lib.impl_call("hierarchy.py", [H.render_source(s) for s in neigh], timeout=900)
        for s, r in zip(neigh, nres):
            if "ok" in r:
                for kind, detail in oracle(s, r["ok"]):
                    if kind not in first_by_kind or len(s) < len(first_by_kind[kind][0]):
                        first_by_kind[kind] = (s, detail)

    for kind, (spec, detail) in sorted(first_by_kind.items()):
        small_spec = shrink(spec, kind)
        canon = canonical(small_spec)
        r = lib.impl_call("hierarchy.py", [H.render_source(canon)])[0]
        if kind in failure_kinds(canon, r):
            small_spec = canon
            res = r
        else:
            res = lib.impl_call("hierarchy.py", [H.render_source(small_spec)])[0]
        details = [d for k, d in (oracle(small_spec, res["ok"]) if "ok" in res else []) if k == kind]
        src = H.render_source(small_spec)
        ctx.impl_failure(
            f"{kind}:{describe(small_spec)}",
            f"C05 clause '{kind}' fails on an accepted meta-model: {details[0] if details else detail}",
            {"spec": H.spec_to_json(small_spec), "source": src},
            res.get("ok"), "oracle",
            f"save the 'source' field as model.py; PYTHONPATH={lib.REPO} {lib.PY} "
            f"harness/impl/hierarchy.py <<< '[<source as JSON string>]'  (or ./check C05 --replay <this file>)")

    for stream, hist in outcome_hist.items():
        ctx.count(stream, sum(hist.values()), validated=sum(hist.values()), outcomes=dict(hist))
    ctx.count("valid", 0, nontrivial_keys=nontrivial, shapes=dict(shape_hist),
              cases_with_diamond=n_diamond_cases)
    ctx.count("mutated", 0, mutations={k: dict(v) for k, v in sorted(mut_hist.items())})
    ctx.count("small-dags", 0, scope=f"all DAGs on <= {n_small} classes (bases among earlier classes, "
              "both orders of two bases)" + ("" if ctx.thorough else ", sampled"))
    ok_share = outcome_hist["mutated"]["ok"] / max(1, sum(outcome_hist["mutated"].values()))
    ctx.coverage["mutated_stream_rejected_share"] = round(1 - ok_share, 3)
    if ctx.thorough:
        ctx.coverage["exhaustive"] = False
    for i in (0, 1, len(corpus()) + 1, len(corpus()) + 2):
        if i < len(cases):
            ctx.sample({"stream": cases[i][0], "hierarchy": describe(cases[i][1]),
                        "outcome": ("ok" if "ok" in results[i] else results[i].get("exc", "err"))})


def replay(ctx: lib.Ctx, data: dict) -> int:
    """./check C05 --replay FILE : run the recorded input against the tree under test."""
    inp = data.get("input") or (data.get("correspondence_breaks") or [{}])[0].get("input")
    if not inp:
        print(json.dumps(data, indent=1)[:4000])
        return 0
    spec = H.spec_from_json(inp["spec"])
    res = lib.impl_call("hierarchy.py", [inp.get("source") or H.render_source(spec)])[0]
    print(inp.get("source") or H.render_source(spec))
    if "ok" in res:
        fails = oracle(spec, res["ok"])
        for d in res["ok"]["classes"]:
            print(d["name"], "ancestors", d["ancestors"], "descendants", d["descendants"],
                  "inlined", d["inlined"])
        for k, d in fails:
            print(f"FAILS {k}: {d}")
        if fails:
            print("VIOLATION property=C05 replay=" + str(ctx.work))
            return 1
        print("property holds on this input")
        return 0
    print("outcome:", {k: v for k, v in res.items()})
    return 0
