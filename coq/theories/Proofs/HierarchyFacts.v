(** Proofs about [Model/Hierarchy.v] (C05). *)
From Coq Require Import List NArith Bool Arith Lia Permutation Relations.
From Acg Require Import Base.Str Base.Outcome Model.Hierarchy.
Import ListNotations.
Open Scope nat_scope.

(** * Basics *)
Lemma text_eqb_eq : forall a b : text, text_eqb a b = true <-> a = b.
Proof.
  induction a as [|x a IH]; destruct b as [|y b]; cbn [text_eqb]; split; intro H;
    try reflexivity; try discriminate.
  - apply andb_true_iff in H. destruct H as [H1 H2].
    apply N.eqb_eq in H1. apply IH in H2. subst. reflexivity.
  - injection H as H1 H2. subst. apply andb_true_iff. split.
    + apply N.eqb_refl.
    + apply IH. reflexivity.
Qed.

Lemma text_eqb_refl : forall a, text_eqb a a = true.
Proof. intro a. apply text_eqb_eq. reflexivity. Qed.

Lemma text_eqb_neq : forall a b : text, text_eqb a b = false <-> a <> b.
Proof.
  intros a b. split.
  - intros H E. apply text_eqb_eq in E. congruence.
  - intro H. destruct (text_eqb a b) eqn:E; [|reflexivity].
    apply text_eqb_eq in E. contradiction.
Qed.

Lemma mem_text_In : forall x l, mem_text x l = true <-> In x l.
Proof.
  intros x l. induction l as [|y l IH]; cbn [mem_text In].
  - split; [discriminate | tauto].
  - rewrite orb_true_iff, IH, text_eqb_eq. split; intros [H|H]; auto.
Qed.

Lemma mem_text_false : forall x l, mem_text x l = false <-> ~ In x l.
Proof.
  intros x l. rewrite <- mem_text_In. destruct (mem_text x l); split; congruence.
Qed.

Lemma nodupb_NoDup : forall l, nodupb l = true <-> NoDup l.
Proof.
  induction l as [|x l IH]; cbn [nodupb].
  - split; [constructor | reflexivity].
  - rewrite andb_true_iff, negb_true_iff, mem_text_false, IH. split.
    + intros [H1 H2]. constructor; assumption.
    + intro H. inversion H; subst. split; assumption.
Qed.

Lemma find_class_Some : forall m n c, find_class m n = Some c -> In c m /\ c_name c = n.
Proof.
  induction m as [|x m IH]; cbn [find_class]; intros n c H; [discriminate|].
  destruct (text_eqb (c_name x) n) eqn:E.
  - injection H as <-. apply text_eqb_eq in E. split; [left; reflexivity | assumption].
  - apply IH in H. destruct H as [H1 H2]. split; [right|]; assumption.
Qed.

Lemma find_class_In : forall m n, In n (names m) -> exists c, find_class m n = Some c.
Proof.
  induction m as [|x m IH]; cbn [names map In find_class]; intros n H; [contradiction|].
  destruct (text_eqb (c_name x) n) eqn:E; [eexists; reflexivity|].
  destruct H as [H|H]; [apply text_eqb_neq in E; contradiction|].
  apply IH. exact H.
Qed.

Lemma find_class_names : forall m n c, find_class m n = Some c -> In n (names m).
Proof.
  intros m n c H. apply find_class_Some in H. destruct H as [H1 H2]. subst n.
  unfold names. apply in_map. exact H1.
Qed.

Lemma find_class_unique : forall m c, NoDup (names m) -> In c m -> find_class m (c_name c) = Some c.
Proof.
  induction m as [|x m IH]; cbn [names map find_class]; intros c Hnd Hin; [contradiction|].
  inversion Hnd as [|? ? Hx Hnd']; subst.
  destruct Hin as [->|Hin].
  - rewrite text_eqb_refl. reflexivity.
  - destruct (text_eqb (c_name x) (c_name c)) eqn:E.
    + apply text_eqb_eq in E. exfalso. apply Hx. rewrite E. apply in_map. exact Hin.
    + apply IH; assumption.
Qed.

Lemma insert_name_In : forall x y l, In y (insert_name x l) <-> y = x \/ In y l.
Proof.
  intros x y l. induction l as [|z l IH]; cbn [insert_name In].
  - split; intros [H|H]; auto; contradiction.
  - destruct (text_ltb z x); cbn [In]; [rewrite IH|]; split; intros H; intuition auto.
Qed.

Lemma sort_names_In : forall y l, In y (sort_names l) <-> In y l.
Proof.
  intros y l. induction l as [|x l IH]; cbn [sort_names fold_right In]; [tauto|].
  fold (sort_names l). rewrite insert_name_In, IH. split; intros [H|H]; auto.
Qed.

Lemma NoDup_snoc : forall (A : Type) (l : list A) (x : A), NoDup l -> ~ In x l -> NoDup (l ++ [x]).
Proof.
  intros A l x Hnd Hx. induction Hnd as [|y l Hy Hnd IH]; cbn [app].
  - constructor; [intros [] | constructor].
  - constructor.
    + intro Hin. apply in_app_or in Hin. destruct Hin as [Hin|[<-|[]]]; [contradiction|].
      apply Hx. left. reflexivity.
    + apply IH. intro Hin. apply Hx. right. exact Hin.
Qed.

(** * Well-formed hierarchies *)
Section WF.
  Variable prims : list name.
  Variable m : mm.

  (** [base c b]: the class named [c] lists the class [b] among its bases. *)
  Definition base (c b : name) : Prop :=
    exists cl, find_class m c = Some cl /\ In b (class_bases prims cl).

  (** names unique; bases exist; acyclic (a rank strictly decreases along [base]). *)
  Definition wf : Prop :=
    NoDup (names m)
    /\ (forall cl b, In cl m -> In b (class_bases prims cl) -> In b (names m))
    /\ (exists rank : name -> nat,
          forall cl b, In cl m -> In b (class_bases prims cl) -> rank b < rank (c_name cl)).

  (** A list in which every class comes after all its bases, built by appending. *)
  Inductive topo : list name -> Prop :=
  | topo_nil : topo []
  | topo_snoc : forall l c, topo l -> (forall b, base c b -> In b l) -> topo (l ++ [c]).

  Lemma topo_split : forall l, topo l ->
    forall l1 c l2, l = l1 ++ c :: l2 -> forall b, base c b -> In b l1.
  Proof.
    intros l Ht. induction Ht as [|l x Ht IH Hx]; intros l1 c l2 E b Hb.
    - destruct l1; discriminate.
    - destruct l2 as [|y l2] using rev_ind.
      + apply app_inj_tail in E. destruct E as [-> ->]. apply Hx. exact Hb.
      + clear IHl2. change (l1 ++ c :: l2 ++ [y]) with (l1 ++ (c :: l2) ++ [y]) in E.
        rewrite app_assoc in E. apply app_inj_tail in E. destruct E as [E _].
        eapply IH; eassumption.
  Qed.

  Section DFS.
    Hypothesis Hnd : NoDup (names m).
    Hypothesis Hbases : forall cl b, In cl m -> In b (class_bases prims cl) -> In b (names m).
    Variable rank : name -> nat.
    Hypothesis Hrank : forall cl b, In cl m -> In b (class_bases prims cl) -> rank b < rank (c_name cl).

    Definition vinv (perm : list name) : Prop :=
      topo perm /\ incl perm (names m) /\ NoDup perm.

    Definition vpost (path perm : list name) (perm' : list name) : Prop :=
      vinv perm' /\ incl perm perm' /\ (forall t, In t path -> In t perm' -> In t perm).

    Lemma visit_ok : forall fuel path perm c,
      In c (names m) -> vinv perm ->
      NoDup path -> incl path (names m) -> (forall t, In t path -> rank c < rank t) ->
      length (names m) < fuel + length path ->
      exists perm', visit prims m fuel path perm c = Ok perm' /\ vpost path perm perm' /\ In c perm'.
    Proof.
      induction fuel as [|f IH]; intros path perm c Hc Hinv Hndp Hinclp Hrk Hfuel.
      - exfalso. pose proof (NoDup_incl_length Hndp Hinclp) as Hlen. cbn in Hfuel. lia.
      - cbn [visit].
        destruct (mem_text c perm) eqn:Ecp.
        { exists perm. split; [reflexivity|]. split.
          - split; [exact Hinv|]. split; [apply incl_refl | auto].
          - apply mem_text_In. exact Ecp. }
        destruct (mem_text c path) eqn:Ecpath.
        { apply mem_text_In in Ecpath. apply Hrk in Ecpath. lia. }
        apply mem_text_false in Ecp. apply mem_text_false in Ecpath.
        destruct (find_class_In m c Hc) as [cl Hcl]. rewrite Hcl.
        pose proof (find_class_Some _ _ _ Hcl) as [Hclm Hcln].
        assert (Hfold : forall bs perm0,
                   (forall b, In b bs -> In b (class_bases prims cl)) ->
                   vinv perm0 -> ~ In c perm0 ->
                   exists perm1, fold_o (visit prims m f (c :: path)) bs perm0 = Ok perm1
                                 /\ vpost (c :: path) perm0 perm1
                                 /\ (forall b, In b bs -> In b perm1)).
        { induction bs as [|b bs IHbs]; intros perm0 Hbs Hinv0 Hc0.
          - exists perm0. cbn [fold_o]. split; [reflexivity|]. split.
            + split; [exact Hinv0|]. split; [apply incl_refl | auto].
            + intros b [].
          - cbn [fold_o].
            assert (Hb : In b (class_bases prims cl)) by (apply Hbs; left; reflexivity).
            destruct (IH (c :: path) perm0 b) as [p1 [E1 [[Hinv1 [Hincl1 Hpath1]] Hb1]]].
            + eapply Hbases; eassumption.
            + exact Hinv0.
            + constructor; assumption.
            + intros t [<-|Ht]; [exact Hc | apply Hinclp; exact Ht].
            + intros t [<-|Ht].
              * rewrite <- Hcln. eapply Hrank; eassumption.
              * specialize (Hrk t Ht). pose proof (Hrank cl b Hclm Hb) as Hr. rewrite Hcln in Hr. lia.
            + cbn [length]. lia.
            + rewrite E1.
              destruct (IHbs p1) as [p2 [E2 [[Hinv2 [Hincl2 Hpath2]] Hb2]]].
              * intros b' Hb'. apply Hbs. right. exact Hb'.
              * exact Hinv1.
              * intro Hin. apply Hc0. apply Hpath1; [left; reflexivity | exact Hin].
              * exists p2. split; [exact E2|]. split.
                -- split; [exact Hinv2|]. split.
                   ++ eapply incl_tran; eassumption.
                   ++ intros t Ht Hin. apply Hpath1; [exact Ht|]. apply Hpath2; assumption.
                -- intros b' [<-|Hb']; [apply Hincl2; exact Hb1 | apply Hb2; exact Hb']. }
        destruct (Hfold (class_bases prims cl) perm (fun b H => H) Hinv Ecp)
          as [p1 [E1 [[[Ht1 [Hi1 Hn1]] [Hincl1 Hpath1]] Hb1]]].
        rewrite E1. exists (p1 ++ [c]).
        assert (Hcp1 : ~ In c p1).
        { intro Hin. apply Ecp. apply Hpath1; [left; reflexivity | exact Hin]. }
        split; [reflexivity|]. split.
        + split; [split; [|split]|split].
          * apply topo_snoc; [exact Ht1|]. intros b [cl' [Hcl' Hb]].
            rewrite Hcl in Hcl'. injection Hcl' as <-. apply Hb1. exact Hb.
          * intros t Ht. apply in_app_or in Ht. destruct Ht as [Ht|[<-|[]]]; [apply Hi1; exact Ht | exact Hc].
          * apply NoDup_snoc; assumption.
          * intros t Ht. apply in_or_app. left. apply Hincl1. exact Ht.
          * intros t Ht Hin. apply in_app_or in Hin. destruct Hin as [Hin|[<-|[]]].
            -- apply Hpath1; [right; exact Ht | exact Hin].
            -- contradiction.
        + apply in_or_app. right. left. reflexivity.
    Qed.

    Lemma topo_fold_ok : forall cs perm,
      (forall c, In c cs -> In c (names m)) -> vinv perm ->
      exists perm', fold_o (visit prims m (S (length m)) []) cs perm = Ok perm'
                    /\ vinv perm' /\ incl perm perm' /\ (forall c, In c cs -> In c perm').
    Proof.
      induction cs as [|c cs IH]; intros perm Hcs Hinv.
      - exists perm. cbn [fold_o]. split; [reflexivity|]. split; [exact Hinv|].
        split; [apply incl_refl | intros c []].
      - cbn [fold_o].
        destruct (visit_ok (S (length m)) [] perm c) as [p1 [E1 [[Hinv1 [Hincl1 _]] Hc1]]].
        + apply Hcs. left. reflexivity.
        + exact Hinv.
        + constructor.
        + intros t [].
        + intros t [].
        + unfold names. rewrite map_length. cbn [length]. lia.
        + rewrite E1. destruct (IH p1) as [p2 [E2 [Hinv2 [Hincl2 Hc2]]]].
          * intros c' Hc'. apply Hcs. right. exact Hc'.
          * exact Hinv1.
          * exists p2. split; [exact E2|]. split; [exact Hinv2|]. split.
            -- eapply incl_tran; eassumption.
            -- intros c' [<-|Hc']; [apply Hincl2; exact Hc1 | apply Hc2; exact Hc'].
    Qed.

    Lemma topo_sort_ok_aux :
      exists order, topo_sort prims m = Ok order /\ topo order /\ Permutation order (names m).
    Proof.
      unfold topo_sort.
      destruct (topo_fold_ok (sort_names (names m)) []) as [p [E [[Ht [Hi Hn]] [_ Hall]]]].
      - intros c Hc. apply sort_names_In. exact Hc.
      - split; [constructor|]. split; [intros t [] | constructor].
      - exists p. split; [exact E|]. split; [exact Ht|].
        apply NoDup_Permutation; [exact Hn | exact Hnd|].
        intro x. split; [apply Hi|]. intro Hx. apply Hall. apply sort_names_In. exact Hx.
    Qed.
  End DFS.

  Theorem topo_sort_ok : wf ->
    exists order, topo_sort prims m = Ok order /\ topo order /\ Permutation order (names m).
  Proof.
    intros [Hnd [Hb [rank Hr]]]. eapply topo_sort_ok_aux; eassumption.
  Qed.

  (** The type order is a permutation of the declared classes ... *)
  Theorem topo_perm_thm : wf ->
    exists order, topo_sort prims m = Ok order /\ Permutation order (names m).
  Proof.
    intro H. destruct (topo_sort_ok H) as [o [E [_ P]]]. exists o. split; assumption.
  Qed.

  (** ... in which every class comes after all of its bases. *)
  Theorem topo_is_topological_thm : wf -> forall order,
    topo_sort prims m = Ok order ->
    forall l1 c l2, order = l1 ++ c :: l2 -> forall b, base c b -> In b l1.
  Proof.
    intros H order E. destruct (topo_sort_ok H) as [o [E' [Ht _]]].
    rewrite E in E'. injection E' as <-. apply topo_split. exact Ht.
  Qed.
End WF.

(** * De-duplication, descendants and ancestors of the intermediate model *)
Lemma existsb_text_In : forall x l, existsb (text_eqb x) l = true <-> In x l.
Proof.
  intros x l. rewrite existsb_exists. split.
  - intros [y [Hy E]]. apply text_eqb_eq in E. subst. exact Hy.
  - intro H. exists x. split; [exact H | apply text_eqb_refl].
Qed.

Lemma dedup_acc_In : forall l seen x,
  In x (dedup_acc text_eqb seen l) <-> In x l /\ ~ In x seen.
Proof.
  induction l as [|y l IH]; intros seen x; cbn [dedup_acc In]; [tauto|].
  destruct (existsb (text_eqb y) seen) eqn:E.
  - apply existsb_text_In in E. rewrite IH. split.
    + intros [H1 H2]. split; [right|]; assumption.
    + intros [[->|H1] H2]; [contradiction | split; assumption].
  - assert (Hy : ~ In y seen).
    { intro H. apply existsb_text_In in H. congruence. }
    cbn [In]. rewrite IH. cbn [In]. split.
    + intros [->|[H1 H2]]; [split; [left; reflexivity | exact Hy]|].
      split; [right; exact H1 | intro H; apply H2; right; exact H].
    + intros [[->|H1] H2]; [left; reflexivity|].
      destruct (text_eqb y x) eqn:Exy.
      * apply text_eqb_eq in Exy. left. exact Exy.
      * apply text_eqb_neq in Exy. right. split; [exact H1|].
        intros [H|H]; [contradiction | contradiction].
Qed.

Lemma dedup_acc_NoDup : forall l seen, NoDup (dedup_acc text_eqb seen l).
Proof.
  induction l as [|y l IH]; intros seen; cbn [dedup_acc]; [constructor|].
  destruct (existsb (text_eqb y) seen); [apply IH|].
  constructor; [|apply IH].
  intro H. apply dedup_acc_In in H. destruct H as [_ H]. apply H. left. reflexivity.
Qed.

Lemma dedup_In : forall l x, In x (dedup text_eqb l) <-> In x l.
Proof. intros l x. unfold dedup. rewrite dedup_acc_In. cbn [In]. tauto. Qed.

Lemma dedup_NoDup : forall l, NoDup (dedup text_eqb l).
Proof. intro l. apply dedup_acc_NoDup. Qed.

Section IR.
  Variable prims : list name.
  Variable m : mm.
  Variable anc : amap.

  (** descendants are exactly the inverse of ancestors *)
  Theorem descendants_inverse_thm : forall a d, In a (names m) ->
    (In d (ir_descendants anc a) <-> In a (ir_ancestors m anc d)).
  Proof.
    intros a d Ha. unfold ir_ancestors. rewrite filter_In, mem_text_In. tauto.
  Qed.

  Theorem descendants_nodup_thm : forall a, NoDup (ir_descendants anc a).
  Proof. intro a. apply dedup_NoDup. Qed.

  Theorem ancestors_nodup_thm : NoDup (names m) -> forall d, NoDup (ir_ancestors m anc d).
  Proof. intros H d. unfold ir_ancestors. apply NoDup_filter. exact H. Qed.

  Theorem concrete_descendants_thm : forall a d,
    In d (ir_concrete_descendants m anc a) <-> In d (ir_descendants anc a) /\ is_abstract m d = false.
  Proof.
    intros a d. unfold ir_concrete_descendants. rewrite filter_In, negb_true_iff. tauto.
  Qed.
End IR.

(** * The ontology's ancestor lists are the transitive closure of [base] *)
Lemma lookup_In_keys : forall (A : Type) (k : name) (mp : list (name * A)),
  In k (map fst mp) -> exists v, lookup k mp = Some v.
Proof.
  intros A k mp. induction mp as [|[k' v'] mp IH]; cbn [map fst In lookup]; intro H; [contradiction|].
  destruct (text_eqb k' k) eqn:E; [eexists; reflexivity|].
  destruct H as [H|H]; [apply text_eqb_neq in E; contradiction | apply IH; exact H].
Qed.

Lemma lookup_Some_In : forall (A : Type) (k : name) (mp : list (name * A)) v,
  lookup k mp = Some v -> In (k, v) mp.
Proof.
  intros A k mp v. induction mp as [|[k' v'] mp IH]; cbn [lookup In]; intro H; [discriminate|].
  destruct (text_eqb k' k) eqn:E.
  - apply text_eqb_eq in E. injection H as <-. subst. left. reflexivity.
  - right. apply IH. exact H.
Qed.

Lemma In_lookup_NoDup : forall (A : Type) (k : name) (mp : list (name * A)) v,
  NoDup (map fst mp) -> In (k, v) mp -> lookup k mp = Some v.
Proof.
  intros A k mp v. induction mp as [|[k' v'] mp IH]; cbn [map fst lookup In]; intros Hnd H; [contradiction|].
  inversion Hnd as [|? ? Hk Hnd']; subst.
  destruct H as [H|H].
  - injection H as -> ->. rewrite text_eqb_refl. reflexivity.
  - destruct (text_eqb k' k) eqn:E.
    + apply text_eqb_eq in E. subst. exfalso. apply Hk.
      change k with (fst (k, v)). apply in_map. exact H.
    + apply IH; assumption.
Qed.

Lemma lookup_snoc : forall (A : Type) (k c : name) (v : A) (mp : list (name * A)),
  lookup k (mp ++ [(c, v)]) =
  match lookup k mp with
  | Some x => Some x
  | None => if text_eqb c k then Some v else None
  end.
Proof.
  intros A k c v mp. induction mp as [|[k' v'] mp IH]; cbn [app lookup]; [reflexivity|].
  destruct (text_eqb k' k); [reflexivity | exact IH].
Qed.

Lemma lookup_None_keys : forall (A : Type) (k : name) (mp : list (name * A)),
  ~ In k (map fst mp) -> lookup k mp = None.
Proof.
  intros A k mp. induction mp as [|[k' v'] mp IH]; cbn [map fst In lookup]; intro H; [reflexivity|].
  destruct (text_eqb k' k) eqn:E.
  - apply text_eqb_eq in E. exfalso. apply H. left. exact E.
  - apply IH. intro Hin. apply H. right. exact Hin.
Qed.

Lemma index_of_Some : forall n l, In n l -> exists i, index_of n l = Some i.
Proof.
  intros n l. induction l as [|x l IH]; cbn [In index_of]; intro H; [contradiction|].
  destruct (text_eqb x n) eqn:E; [eexists; reflexivity|].
  destruct H as [H|H]; [apply text_eqb_neq in E; contradiction|].
  destruct (IH H) as [i ->]. eexists; reflexivity.
Qed.

Lemma insert_keyed_In : forall x y l, In y (insert_keyed x l) <-> y = x \/ In y l.
Proof.
  intros x y l. induction l as [|z l IH]; cbn [insert_keyed In].
  - split; intros [H|H]; auto; contradiction.
  - destruct (Nat.ltb (fst x) (fst z)); cbn [In]; [|rewrite IH]; split; intros H; intuition auto.
Qed.

Lemma sort_keyed_In : forall l y, In y (sort_keyed l) <-> In y l.
Proof.
  intros l y. unfold sort_keyed.
  assert (H : forall l acc, In y (fold_left (fun acc x => insert_keyed x acc) l acc) <-> In y l \/ In y acc).
  { clear l. induction l as [|x l IH]; intro acc; cbn [fold_left In]; [tauto|].
    rewrite IH, insert_keyed_In. split; intros H; intuition auto. }
  rewrite H. cbn [In]. tauto.
Qed.

Section Closure.
  Variable prims : list name.
  Variable m : mm.
  Hypothesis Hnd : NoDup (names m).
  Hypothesis Hbases : forall cl b, In cl m -> In b (class_bases prims cl) -> In b (names m).
  (** a class that constrains a primitive type inherits from nothing else (otherwise the
      ontology fails an assertion) *)
  Hypothesis Hprim : forall cl, In cl m -> has_prim_base prims cl = true -> length (c_bases cl) = 1.

  Notation base := (base prims m).
  Notation anc_rel := (clos_trans name base).

  Lemma clos_step : forall c a, anc_rel c a <-> exists p, base c p /\ (a = p \/ anc_rel p a).
  Proof.
    intros c a. split.
    - intro H. apply clos_trans_t1n in H. destruct H as [y Hy | y z Hy Hz].
      + exists y. split; [exact Hy | left; reflexivity].
      + exists y. split; [exact Hy|]. right. apply clos_t1n_trans. exact Hz.
    - intros [p [Hp [->|H]]]; [apply t_step; exact Hp|].
      eapply t_trans; [apply t_step; exact Hp | exact H].
  Qed.

  Lemma no_prim_bases : forall cl, has_prim_base prims cl = false -> class_bases prims cl = c_bases cl.
  Proof.
    intros cl. unfold has_prim_base, class_bases.
    induction (c_bases cl) as [|b bs IH]; cbn [existsb filter]; intro H; [reflexivity|].
    apply orb_false_iff in H. destruct H as [H1 H2]. rewrite H1. cbn [negb]. rewrite IH; auto.
  Qed.

  Lemma prim_no_bases : forall cl, In cl m -> has_prim_base prims cl = true -> class_bases prims cl = [].
  Proof.
    intros cl Hcl Hp. pose proof (Hprim cl Hcl Hp) as Hlen.
    unfold has_prim_base in Hp. unfold class_bases.
    destruct (c_bases cl) as [|b [|b' bs]]; cbn [length] in Hlen; try discriminate.
    cbn [existsb] in Hp. rewrite orb_false_r in Hp. cbn [filter]. rewrite Hp. reflexivity.
  Qed.

  (** what the accumulated map says about the classes processed so far *)
  Definition ainv (acc : amap) : Prop :=
    forall c l, lookup c acc = Some l -> forall a, In a l <-> anc_rel c a.

  Lemma pwo_fold : forall order bs ps0,
    (forall b, In b bs -> In b order) ->
    exists pwo, fold_o (fun ps b => match index_of b order with
                                    | Some i => Ok (ps ++ [(i, b)])
                                    | None => @Crash (list (nat * name)) name KeyError
                                    end) bs ps0 = Ok (ps0 ++ pwo)
                /\ map snd pwo = bs.
  Proof.
    intros order bs. induction bs as [|b bs IH]; intros ps0 Hin; cbn [fold_o].
    - exists []. rewrite app_nil_r. split; reflexivity.
    - destruct (index_of_Some b order) as [i Ei]; [apply Hin; left; reflexivity|].
      rewrite Ei. destruct (IH (ps0 ++ [(i, b)])) as [pwo [E Hs]].
      + intros b' Hb'. apply Hin. right. exact Hb'.
      + exists ((i, b) :: pwo). rewrite E. rewrite <- app_assoc. cbn [app map snd].
        split; [reflexivity | rewrite Hs; reflexivity].
  Qed.

  Lemma ca_fold : forall (acc : amap) ips ca0,
    (forall ip, In ip ips -> exists l, lookup (snd ip) acc = Some l) ->
    exists ca, fold_o (fun ca (ip : nat * name) =>
                         match lookup (snd ip) acc with
                         | Some pa => Ok (ca ++ pa ++ [snd ip])
                         | None => @Crash (list name) name AssertionError
                         end) ips ca0 = Ok ca
               /\ forall a, In a ca <->
                            In a ca0 \/ exists ip l, In ip ips /\ lookup (snd ip) acc = Some l
                                                     /\ (a = snd ip \/ In a l).
  Proof.
    intros acc ips. induction ips as [|ip ips IH]; intros ca0 Hl; cbn [fold_o].
    - exists ca0. split; [reflexivity|]. intro a. split; [auto|].
      intros [H|[ip [l [[] _]]]]. exact H.
    - destruct (Hl ip (or_introl eq_refl)) as [l El]. rewrite El.
      destruct (IH (ca0 ++ l ++ [snd ip])) as [ca [E Hca]].
      + intros ip' Hip'. apply Hl. right. exact Hip'.
      + exists ca. split; [exact E|]. intro a. rewrite Hca. split.
        * intros [H|[ip' [l' [Hip' [El' H]]]]].
          -- apply in_app_or in H. destruct H as [H|H]; [left; exact H|].
             right. exists ip, l. split; [left; reflexivity|]. split; [exact El|].
             apply in_app_or in H. destruct H as [H|[H|[]]]; [right; exact H | left; symmetry; exact H].
          -- right. exists ip', l'. split; [right; exact Hip'|]. split; assumption.
        * intros [H|[ip' [l' [[<-|Hip'] [El' H]]]]].
          -- left. apply in_or_app. left. exact H.
          -- left. rewrite El in El'. injection El' as <-. apply in_or_app. right.
             apply in_or_app. destruct H as [->|H]; [right; left; reflexivity | left; exact H].
          -- right. exists ip', l'. split; [exact Hip'|]. split; assumption.
  Qed.

  Lemma onto_step_ok : forall order acc c cl,
    find_class m c = Some cl ->
    ainv acc ->
    (forall b, base c b -> In b (map fst acc)) ->
    (forall b, base c b -> In b order) ->
    ~ In c (map fst acc) ->
    exists ca, onto_step prims m order acc c = Ok (acc ++ [(c, ca)]) /\ ainv (acc ++ [(c, ca)]).
  Proof.
    intros order acc c cl Hcl Hinv Hdone Hord Hnew.
    pose proof (find_class_Some _ _ _ Hcl) as [Hclm Hcln].
    assert (Hbase : forall b, base c b <-> In b (class_bases prims cl)).
    { intro b. split.
      - intros [cl' [E Hb]]. rewrite Hcl in E. injection E as <-. exact Hb.
      - intro Hb. exists cl. split; assumption. }
    assert (Hext : forall ca, (forall a, In a ca <-> anc_rel c a) -> ainv (acc ++ [(c, ca)])).
    { intros ca Hca c' l E a. rewrite lookup_snoc in E.
      destruct (lookup c' acc) as [x|] eqn:El.
      - injection E as <-. eapply Hinv; eassumption.
      - destruct (text_eqb c c') eqn:Ec; [|discriminate]. injection E as <-.
        apply text_eqb_eq in Ec. subst c'. apply Hca. }
    unfold onto_step. rewrite Hcl.
    destruct (has_prim_base prims cl) eqn:Ep.
    - rewrite (Hprim cl Hclm Ep). cbn [Nat.eqb]. exists []. split; [reflexivity|].
      apply Hext. intro a. split; [intros []|].
      intro H. apply clos_step in H. destruct H as [p [Hp _]]. apply Hbase in Hp.
      rewrite (prim_no_bases cl Hclm Ep) in Hp. destruct Hp.
    - pose proof (no_prim_bases cl Ep) as Ecb.
      destruct (pwo_fold order (c_bases cl) []) as [pwo [Epwo Hsnd]].
      { intros b Hb. apply Hord. apply Hbase. rewrite Ecb. exact Hb. }
      rewrite Epwo. cbn [app].
      destruct (ca_fold acc (sort_keyed pwo) []) as [ca [Eca Hca]].
      { intros ip Hip. apply (proj1 (sort_keyed_In _ _)) in Hip. apply lookup_In_keys. apply Hdone.
        apply Hbase. rewrite Ecb, <- Hsnd. apply in_map. exact Hip. }
      rewrite Eca. exists ca. split; [reflexivity|]. apply Hext.
      intro a. rewrite Hca, clos_step. split.
      + intros [[]|[ip [l [Hip [El H]]]]].
        apply (proj1 (sort_keyed_In _ _)) in Hip.
        assert (Hb : base c (snd ip)).
        { apply Hbase. rewrite Ecb, <- Hsnd. apply in_map. exact Hip. }
        exists (snd ip). split; [exact Hb|].
        destruct H as [H|H]; [left; exact H | right; eapply Hinv; eassumption].
      + intros [p [Hp H]]. right.
        assert (Hin : In p (map snd pwo)). { rewrite Hsnd, <- Ecb. apply Hbase. exact Hp. }
        apply in_map_iff in Hin. destruct Hin as [ip [Eip Hip]].
        destruct (lookup_In_keys _ p acc (Hdone p Hp)) as [l El].
        exists ip, l. split; [apply (proj2 (sort_keyed_In _ _)); exact Hip|]. rewrite Eip. split; [exact El|].
        destruct H as [H|H]; [left; exact H | right; eapply Hinv; eassumption].
  Qed.

  Lemma onto_fold_ok : forall order rest done acc,
    order = done ++ rest -> NoDup order -> incl order (names m) ->
    (forall l1 c l2, order = l1 ++ c :: l2 -> forall b, base c b -> In b l1) ->
    map fst acc = done -> ainv acc ->
    exists anc, fold_o (onto_step prims m order) rest acc = Ok anc
                /\ map fst anc = order /\ ainv anc.
  Proof.
    intros order rest. induction rest as [|c rest IH]; intros done acc Eo Hndo Hincl Htopo Hkeys Hinv.
    - exists acc. cbn [fold_o]. rewrite app_nil_r in Eo. subst. split; [reflexivity|]. split; [reflexivity | exact Hinv].
    - cbn [fold_o].
      assert (Hc : In c (names m)). { apply Hincl. rewrite Eo. apply in_or_app. right. left. reflexivity. }
      destruct (find_class_In m c Hc) as [cl Hcl].
      destruct (onto_step_ok order acc c cl Hcl Hinv) as [ca [E Hinv']].
      + intros b Hb. rewrite Hkeys. eapply Htopo; eassumption.
      + intros b Hb. rewrite Eo. apply in_or_app. left. eapply Htopo; eassumption.
      + rewrite Hkeys. rewrite Eo in Hndo. apply NoDup_remove_2 in Hndo.
        intro H. apply Hndo. apply in_or_app. left. exact H.
      + rewrite E. apply (IH (done ++ [c])).
        * rewrite <- app_assoc. exact Eo.
        * exact Hndo.
        * exact Hincl.
        * exact Htopo.
        * rewrite map_app. cbn [map fst]. rewrite Hkeys. reflexivity.
        * exact Hinv'.
  Qed.
End Closure.

Lemma onto_descendants_In : forall anc a d,
  In d (onto_descendants anc a) <-> exists l, In (d, l) anc /\ In a l.
Proof.
  intros anc a d. unfold onto_descendants. rewrite in_flat_map. split.
  - intros [[k l] [He Hd]]. cbn [fst snd] in Hd. apply in_map_iff in Hd.
    destruct Hd as [x [<- Hx]]. apply filter_In in Hx. destruct Hx as [Hx E].
    apply text_eqb_eq in E. subst x. exists l. split; assumption.
  - intros [l [He Ha]]. exists (d, l). split; [exact He|]. cbn [fst snd].
    apply in_map_iff. exists a. split; [reflexivity|]. apply filter_In. split; [exact Ha | apply text_eqb_refl].
Qed.

Section ClosureIR.
  Variable prims : list name.
  Variable m : mm.

  Definition prims_alone : Prop :=
    forall cl, In cl m -> has_prim_base prims cl = true -> length (c_bases cl) = 1.

  Lemma anc_rel_names : (forall cl b, In cl m -> In b (class_bases prims cl) -> In b (names m)) ->
    forall d a, clos_trans name (base prims m) d a -> In a (names m).
  Proof.
    intros Hb d a H. induction H as [x y [cl [Hcl Hy]]|]; [|assumption].
    apply find_class_Some in Hcl. destruct Hcl as [Hcl _]. eapply Hb; eassumption.
  Qed.

  (** The ancestors of every class in the intermediate model are exactly the transitive
      closure of the declared bases. *)
  Theorem ancestors_closure_thm : wf prims m -> prims_alone ->
    exists order anc,
      topo_sort prims m = Ok order /\ onto_ancestors prims m order = Ok anc
      /\ forall d a, In d (names m) ->
           (In a (ir_ancestors m anc d) <-> clos_trans name (base prims m) d a).
  Proof.
    intros Hwf Hprim. pose proof Hwf as [Hnd [Hbases _]].
    destruct (topo_sort_ok prims m Hwf) as [order [Et [Htopo Hperm]]].
    assert (Hndo : NoDup order). { eapply Permutation_NoDup; [apply Permutation_sym; exact Hperm | exact Hnd]. }
    assert (Hincl : incl order (names m)). { intros x Hx. eapply Permutation_in; eassumption. }
    destruct (onto_fold_ok prims m Hprim order order [] []) as [anc [Ea [Hkeys Hinv]]].
    - reflexivity.
    - exact Hndo.
    - exact Hincl.
    - apply topo_split. exact Htopo.
    - reflexivity.
    - intros c l E. discriminate.
    - exists order, anc. split; [exact Et|]. split; [exact Ea|].
      intros d a Hd. unfold ir_ancestors, ir_descendants.
      rewrite filter_In, mem_text_In, dedup_In, onto_descendants_In. split.
      + intros [_ [l [Hl Ha]]]. eapply Hinv; [|exact Ha].
        apply In_lookup_NoDup; [rewrite Hkeys; exact Hndo | exact Hl].
      + intro H. split; [eapply anc_rel_names; eassumption|].
        assert (Hdo : In d (map fst anc)).
        { rewrite Hkeys. eapply Permutation_in; [apply Permutation_sym; exact Hperm | exact Hd]. }
        destruct (lookup_In_keys _ d anc Hdo) as [l El].
        exists l. split; [apply lookup_Some_In; exact El|]. eapply Hinv; eassumption.
  Qed.
End ClosureIR.

(** * Stacking, constructor in-lining, interfaces: what one step of each pass establishes *)
Lemma lookup_update_same : forall (A : Type) (k : name) (v : A) mp, lookup k (update k v mp) = Some v.
Proof.
  intros A k v mp. induction mp as [|[k' v'] mp IH]; cbn [update lookup].
  - rewrite text_eqb_refl. reflexivity.
  - destruct (text_eqb k' k) eqn:E; cbn [lookup]; [rewrite text_eqb_refl; reflexivity|].
    rewrite E. exact IH.
Qed.

Lemma lookup_update_other : forall (A : Type) (k k2 : name) (v : A) mp,
  k <> k2 -> lookup k2 (update k v mp) = lookup k2 mp.
Proof.
  intros A k k2 v mp Hne. induction mp as [|[k' v'] mp IH]; cbn [update lookup].
  - apply text_eqb_neq in Hne. rewrite Hne. reflexivity.
  - destruct (text_eqb k' k) eqn:E; cbn [lookup].
    + apply text_eqb_eq in E. subst k'. apply text_eqb_neq in Hne. rewrite Hne. reflexivity.
    + destruct (text_eqb k' k2); [reflexivity | exact IH].
Qed.

Section Steps.
  Variable prims : list name.
  Variable m : mm.
  Variable anc : amap.

  (** One step of the stacking passes: the entry of the class becomes
      dedup (concatenation of the parents' current entries) ++ own; other entries stay. *)
  Theorem stacked_step_thm : forall (A : Type) (skip : name -> bool)
      (st : list (name * list (ident A))) n c,
    skip n = false -> find_class m n = Some c ->
    lookup n (stack_step prims m skip st n)
    = Some (dedup id_eqb (flat_map (fun b => lk b st) (class_bases prims c)) ++ lk n st)
    /\ forall k, k <> n -> lookup k (stack_step prims m skip st n) = lookup k st.
  Proof.
    intros A skip st n c Hs Hc. unfold stack_step. rewrite Hs, Hc. split.
    - rewrite lookup_update_same. reflexivity.
    - intros k Hk. apply lookup_update_other. congruence.
  Qed.

  (** An accepted model has no two properties of the same name in a class. *)
  Theorem props_nodup_thm : forall pmap c,
    props_violation prims m anc pmap = false -> In c m -> is_cp prims m anc (c_name c) = false ->
    NoDup (map id_val (lk (c_name c) pmap)).
  Proof.
    intros pmap c H Hc Hcp. unfold props_violation in H.
    assert (Hall : forall x, In x m ->
              negb (is_cp prims m anc (c_name x))
              && negb (nodupb (map id_val (match lookup (c_name x) pmap with Some l => l | None => [] end))) = false).
    { intros x Hx. destruct (_ && _) eqn:E; [|reflexivity].
      assert (existsb (fun c0 => negb (is_cp prims m anc (c_name c0))
                && negb (nodupb (map id_val (match lookup (c_name c0) pmap with Some l => l | None => [] end)))) m = true)
        by (apply existsb_exists; exists x; split; assumption).
      congruence. }
    specialize (Hall c Hc). rewrite Hcp in Hall. cbn [negb andb] in Hall.
    apply negb_false_iff in Hall. apply nodupb_NoDup in Hall. exact Hall.
  Qed.

  (** One step of the constructor pass without a reported error: the in-lined list of the
      class contains no call to a super-constructor and assigns no property twice. *)
  Theorem ctor_step_thm : forall kmap err c kmap',
    ctor_step prims m anc (kmap, err) c = Ok (kmap', false) ->
    is_cp prims m anc (c_name c) = false ->
    forallb (fun x => is_assign (id_val x)) (lk (c_name c) kmap') = true
    /\ NoDup (map (fun x => stmt_prop (id_val x)) (lk (c_name c) kmap')).
  Proof.
    intros kmap err c kmap' H Hcp. unfold ctor_step in H. rewrite Hcp in H.
    destruct (inline_body prims m anc c kmap _ [] err) as [[inls err1]| |] eqn:E; try discriminate.
    destruct (forallb (fun x => is_assign (id_val x)) inls) eqn:Ea; cbn [negb] in H; [|discriminate].
    injection H as <- Herr. unfold lk. rewrite lookup_update_same.
    apply orb_false_iff in Herr. destruct Herr as [_ Hn].
    apply negb_false_iff in Hn. apply nodupb_NoDup in Hn. split; assumption.
  Qed.

  (** One step of the interface pass: an interface is created exactly for an abstract
      class or a class with descendants, and it inherits from the interfaces of the bases. *)
  Theorem iface_step_thm : forall st n c st',
    iface_step prims m anc st n = Ok st' ->
    is_cp prims m anc n = false -> find_class m n = Some c -> ~ In n (map fst st) ->
    lookup n st' = Some (if c_abstract c || negb (is_nil (onto_descendants anc n))
                         then Some (c_bases c) else None).
  Proof.
    intros st n c st' H Hcp Hc Hnew. unfold iface_step in H. rewrite Hcp, Hc in H.
    destruct (c_abstract c || negb (is_nil (onto_descendants anc n))).
    - destruct (forallb _ (c_bases c)); [|discriminate]. injection H as <-.
      rewrite lookup_snoc, (lookup_None_keys _ n st Hnew), text_eqb_refl. reflexivity.
    - injection H as <-.
      rewrite lookup_snoc, (lookup_None_keys _ n st Hnew), text_eqb_refl. reflexivity.
  Qed.
End Steps.
