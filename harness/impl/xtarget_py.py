"""C09 adapter: import a generated Python SDK, build the described instances, verify and
serialise them. JSON stdin -> JSON stdout; run in a fresh process (``lib.impl_call``).

Input::

    {"files": {relative path: text},          # the generated Python SDK (output of the CLI)
     "instances": [instance description],     # see harness/gen/xtarget.py
     "enums": {enum name: [literal names]},
     "constants": [{"name":, "kind": "primitive"|"set", "items": primitive|enum name}]}

Output::

    {"instances": [{"errors": [[cause, path], ...], "json": <jsonable> | null,
                    "exception": null | text}],
     "literals": {enum: {literal: value}}, "constants": {name: printable}}
"""
import importlib
import json
import pathlib
import sys
import traceback


def cap_camel(name):
    return "".join(p.capitalize() for p in name.split("_") if p)


def upper_snake(name):
    return "_".join(p.upper() for p in name.split("_") if p)


def lower_snake(name):
    return "_".join(p.lower() for p in name.split("_") if p)


def main():
    payload = json.load(sys.stdin)
    root = pathlib.Path.cwd() / "pysdk"
    pkg = None
    for rel, text in payload["files"].items():
        p = root / rel
        p.parent.mkdir(parents=True, exist_ok=True)
        if isinstance(text, str):
            p.write_text(text, encoding="utf-8")
        if rel.endswith("/verification.py") and rel.count("/") == 1:
            pkg = rel.split("/")[0]
    if pkg is None:
        raise SystemExit("no <package>/verification.py among the files")
    (root / pkg / "__init__.py").touch()
    sys.path.insert(0, str(root))
    types = importlib.import_module(f"{pkg}.types")
    verification = importlib.import_module(f"{pkg}.verification")
    jsonization = importlib.import_module(f"{pkg}.jsonization")
    constants = importlib.import_module(f"{pkg}.constants")

    def build(v):
        if v is None or isinstance(v, (bool, int, str)):
            return v
        if isinstance(v, list):
            return [build(x) for x in v]
        if "float" in v:
            return float(v["float"])
        if "bytes" in v:
            return bytearray(bytes.fromhex(v["bytes"]))
        if "enum" in v:
            return getattr(getattr(types, cap_camel(v["enum"])), upper_snake(v["lit"]))
        cls = getattr(types, cap_camel(v["class"]))
        return cls(**{lower_snake(k): build(x) for k, x in v["fields"].items()})

    out = {"instances": [], "literals": {}, "constants": {}}
    for inst in payload["instances"]:
        res = {"errors": [], "json": None, "exception": None}
        try:
            obj = build(inst)
            for e in verification.verify(obj):
                res["errors"].append([e.cause, str(e.path)])
            res["json"] = jsonization.to_jsonable(obj)
        except Exception as exc:  # noqa
            res["exception"] = f"{type(exc).__name__}: {exc}\n{traceback.format_exc()[-1500:]}"
        out["instances"].append(res)
    for en, lits in payload.get("enums", {}).items():
        cls = getattr(types, cap_camel(en))
        out["literals"][en] = {lit: getattr(cls, upper_snake(lit)).value for lit in lits}
    for c in payload.get("constants", []):
        val = getattr(constants, upper_snake(c["name"]))
        if c["kind"] == "primitive":
            out["constants"][c["name"]] = val if not isinstance(val, (bytes, bytearray)) else val.hex()
        else:
            items = []
            for x in val:
                items.append(x.value if hasattr(x, "value") and not isinstance(x, (int, float, str)) else x)
            out["constants"][c["name"]] = sorted(items, key=lambda z: (str(type(z)), z))
    json.dump(out, sys.stdout)


if __name__ == "__main__":
    main()
