(** Value-level model of the facet emission of [aas_core_codegen/xsd/main.py]:

    - [translate_to_simple_type]   [_translate_to_simple_type] for one (already translated)
                                   pattern: base type from [_PRIMITIVE_MAP], restriction with
                                   [xs:pattern] / [xs:minLength] / [xs:maxLength];
    - [list_occurs]                [minOccurs] / [maxOccurs] of the items of a list
                                   ([_value_to_type_element_or_type_identifier]);
    - [property_occurs]            [minOccurs="0" maxOccurs="1"] of optional properties
                                   ([_define_properties]);
    - what an XSD validator makes of these facets ([restriction_len_ok], [occurs_ok]) and what
      the inferred constraint demands ([len_admits]).

    Lengths: [xs:string] counts characters (code points, as Python's [len] does),
    [xs:base64Binary] counts octets, so one notion of length serves both.  No proofs here. *)
From Coq Require Import List NArith ZArith Bool.
From Acg Require Import Base.Str Base.Outcome Model.RetreeRender.
Import ListNotations.
Open Scope Z_scope.

(** [infer_for_schema.LenConstraint]: inclusive bounds, each optional. *)
Record len_constraint : Type := mkLen { lc_min : option Z; lc_max : option Z }.

Definition len_admits (c : option len_constraint) (n : Z) : bool :=
  match c with
  | None => true
  | Some c =>
      (match lc_min c with Some m => m <=? n | None => true end)
      && (match lc_max c with Some m => n <=? m | None => true end)
  end.

(** [_SimpleTypeRestriction] / [_SimpleType] *)
Record restriction : Type :=
  mkRestr { r_pattern : option text; r_min_length : option Z; r_max_length : option Z }.
Record simple_type : Type := mkSimple { st_type : text; st_restriction : option restriction }.

Fixpoint assoc_text {A} (k : text) (l : list (text * A)) : option A :=
  match l with
  | [] => None
  | (k', v) :: r => if text_eqb k k' then Some v else assoc_text k r
  end.

Section WithMap.
  Variable primitive_map : list (text * text).   (* Gen: _PRIMITIVE_MAP by member name *)

  (** [prim] is the name of the [PrimitiveType] member; [pattern] is the translated pattern
      (after the general XML pattern was skipped and several patterns were merged). *)
  Definition translate_to_simple_type (prim : text) (lenc : option len_constraint)
             (pattern : option text) : outcome simple_type unit :=
    let mn := match lenc with Some c => lc_min c | None => None end in
    let mx := match lenc with Some c => lc_max c | None => None end in
    let restr :=
      match mn, mx, pattern with
      | None, None, None => None
      | _, _, _ => Some (mkRestr pattern mn mx)
      end in
    match assoc_text prim primitive_map with
    | Some ty => Ok (mkSimple ty restr)
    | None => Crash KeyError
    end.
End WithMap.

(** What a validator checks for the length facets of a restriction. *)
Definition restriction_len_ok (r : option restriction) (n : Z) : bool :=
  match r with
  | None => true
  | Some r =>
      (match r_min_length r with Some m => m <=? n | None => true end)
      && (match r_max_length r with Some m => n <=? m | None => true end)
  end.

(** Occurrence bounds: minimum and optional maximum ([None] = "unbounded"). *)
Definition occurs : Type := (Z * option Z)%type.

Definition list_occurs (lenc : option len_constraint) : occurs :=
  match lenc with
  | None => (0, None)
  | Some c => (match lc_min c with Some m => m | None => 0 end, lc_max c)
  end.

Definition property_occurs (optional : bool) : occurs :=
  if optional then (0, Some 1) else (1, Some 1).   (* XSD defaults are 1 / 1 *)

Definition occurs_ok (o : occurs) (n : Z) : bool :=
  (fst o <=? n) && (match snd o with Some m => n <=? m | None => true end).

(** [str(n)] of the attribute values. *)
Definition dec_z (z : Z) : text :=
  if z <? 0 then 45%N :: dec (Z.abs_N z) else dec (Z.to_N z).

Definition occurs_texts (min_default max_default : text) (lenc : option len_constraint)
  : text * text :=
  match lenc with
  | None => (min_default, max_default)
  | Some c =>
      (match lc_min c with Some m => dec_z m | None => min_default end,
       match lc_max c with Some m => dec_z m | None => max_default end)
  end.
