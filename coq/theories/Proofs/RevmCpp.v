(** C18 — the generated C++ matcher (model [cpp_match], with [Pop] clearing [has_] as
    shipped or not): when it answers [true], the program accepts the word
    (soundness of the verdict [true]); correctness of [CharacterInRanges]. *)
From Coq Require Import List NArith ZArith Bool Arith Lia.
From Acg Require Import Base.Outcome Model.RevmTree Model.Revm Model.RevmVM
  Proofs.RevmFrag.
Import ListNotations.

Section Sound.
  Variable cop : bool.            (* clear_on_pop *)
  Variable p : list instr.
  Variable w : list N.

  (** [CharacterInRanges] decides membership for the sets of the program *)
  Hypothesis Hsets : forall rs c b,
    (In (ISet rs) p \/ In (INotSet rs) p) -> char_in_ranges rs c = Some b -> b = in_rs c rs.

  Definition reach (i pc : nat) : Prop := exists n, steps p w n (0, 0) (pc, i).
  Definition all_reach (i : nat) (t : tlist) : Prop :=
    forall pc, In pc (tl_items t) -> reach i pc.

  Lemma reach_step : forall i pc c2, reach i pc -> step p w (pc, i) c2 -> reach (snd c2) (fst c2).
  Proof.
    intros i pc [pc2 i2] [n Hn] Hs. exists (n + 1). eapply steps_app; [exact Hn|].
    apply steps_one. exact Hs.
  Qed.

  Lemma spawn_reach : forall i t pc t', tl_spawn t pc = Some t' ->
    all_reach i t -> reach i pc -> all_reach i t'.
  Proof.
    intros i t pc t' H Ha Hr. unfold tl_spawn in H.
    destruct (nth_error (tl_has t) pc) as [[|]|]; inversion H; subst; [exact Ha|].
    intros pc' [Hin|Hin]; [subst; exact Hr|apply Ha; exact Hin].
  Qed.

  Lemma pop_reach : forall i t pc t', tl_pop cop t = Some (pc, t') ->
    all_reach i t -> reach i pc /\ all_reach i t'.
  Proof.
    intros i t pc t' H Ha. unfold tl_pop in H. destruct (tl_items t) as [|x r] eqn:E; [discriminate|].
    inversion H; subst. split.
    - apply Ha. rewrite E. left. reflexivity.
    - intros pc' Hin. apply Ha. rewrite E. right. exact Hin.
  Qed.

  Lemma run_phase_sound : forall i ch,
    match ch with Some c => nth_error w i = Some c | None => i = length w end ->
    forall fuel clist nlist, all_reach i clist -> all_reach (S i) nlist ->
    match run_phase cop p fuel ch clist nlist with
    | Matched => vm_accepts p w
    | Drained _ n' => all_reach (S i) n'
    | _ => True
    end.
  Proof.
    intros i ch Hch fuel. induction fuel as [|fuel IH]; intros clist nlist Hc Hn; [exact I|].
    cbn [run_phase]. destruct (tl_pop cop clist) as [[pc clist1]|] eqn:Epop; [|exact Hn].
    destruct (pop_reach _ _ _ _ Epop Hc) as [Hpc Hc1].
    destruct (nth_error p pc) as [ins|] eqn:Eins; [|exact I].
    destruct ins as [d|rs|rs| | |t|t1 t2|].
    - (* char *)
      destruct ch as [c|]; [|apply IH; assumption].
      destruct (N.eqb c d) eqn:Ecd; [|apply IH; assumption].
      destruct (tl_spawn nlist (S pc)) as [n2|] eqn:Es; [|exact I].
      apply IH; [exact Hc1|]. eapply spawn_reach; [exact Es|exact Hn|].
      apply (reach_step i pc (S pc, S i) Hpc). eapply step_consume; [exact Eins|exact Hch|].
      cbn [consumes]. exact Ecd.
    - (* set *)
      destruct ch as [c|]; [|apply IH; assumption].
      destruct (char_in_ranges rs c) as [[|]|] eqn:Eh; [|apply IH; assumption|exact I].
      destruct (tl_spawn nlist (S pc)) as [n2|] eqn:Es; [|exact I].
      apply IH; [exact Hc1|]. eapply spawn_reach; [exact Es|exact Hn|].
      apply (reach_step i pc (S pc, S i) Hpc). eapply step_consume; [exact Eins|exact Hch|].
      cbn [consumes]. symmetry. apply (Hsets rs c true); [|exact Eh].
      left. eapply nth_error_In. exact Eins.
    - (* not-set *)
      destruct ch as [c|]; [|apply IH; assumption].
      destruct (char_in_ranges rs c) as [[|]|] eqn:Eh; cbn [option_map negb];
        [apply IH; assumption| |exact I].
      destruct (tl_spawn nlist (S pc)) as [n2|] eqn:Es; [|exact I].
      apply IH; [exact Hc1|]. eapply spawn_reach; [exact Es|exact Hn|].
      apply (reach_step i pc (S pc, S i) Hpc). eapply step_consume; [exact Eins|exact Hch|].
      cbn [consumes]. rewrite <- (Hsets rs c false); [reflexivity| |exact Eh].
      right. eapply nth_error_In. exact Eins.
    - (* any *)
      destruct ch as [c|]; [|apply IH; assumption].
      destruct (tl_spawn nlist (S pc)) as [n2|] eqn:Es; [|exact I].
      apply IH; [exact Hc1|]. eapply spawn_reach; [exact Es|exact Hn|].
      apply (reach_step i pc (S pc, S i) Hpc). eapply step_consume; [exact Eins|exact Hch|].
      reflexivity.
    - (* match *)
      destruct Hpc as [n Hn']. exists n, pc, i. split; [exact Hn'|exact Eins].
    - (* jump *)
      destruct (tl_spawn clist1 t) as [c2|] eqn:Es; [|exact I].
      apply IH; [|exact Hn]. eapply spawn_reach; [exact Es|exact Hc1|].
      apply (reach_step i pc (t, i) Hpc). apply step_jump. exact Eins.
    - (* split *)
      destruct (tl_spawn clist1 t1) as [c2|] eqn:Es1; [|exact I].
      destruct (tl_spawn c2 t2) as [c3|] eqn:Es2; [|exact I].
      apply IH; [|exact Hn]. eapply spawn_reach; [exact Es2| |].
      + eapply spawn_reach; [exact Es1|exact Hc1|].
        apply (reach_step i pc (t1, i) Hpc). eapply step_split1. exact Eins.
      + apply (reach_step i pc (t2, i) Hpc). eapply step_split2. exact Eins.
    - (* end *)
      destruct ch as [c|]; [apply IH; assumption|].
      destruct (tl_spawn clist1 (S pc)) as [c2|] eqn:Es; [|exact I].
      apply IH; [|exact Hn]. eapply spawn_reach; [exact Es|exact Hc1|].
      apply (reach_step i pc (S pc, i) Hpc). apply step_end; [exact Eins|exact Hch].
  Qed.

  Lemma run_text_sound : forall fuel suf pre clist nlist,
    w = pre ++ suf -> all_reach (length pre) clist -> tl_items nlist = [] ->
    run_text cop p fuel suf clist nlist = Ok true -> vm_accepts p w.
  Proof.
    intros fuel suf. induction suf as [|c suf IH]; intros pre clist nlist Hw Hc Hn Hr.
    - cbn [run_text] in Hr.
      assert (Hlen : length pre = length w) by (rewrite Hw, app_nil_r; reflexivity).
      pose proof (run_phase_sound (length pre) None Hlen fuel clist nlist Hc) as Hs.
      destruct (run_phase cop p fuel None clist nlist); try discriminate.
      apply Hs. intros pc Hin. rewrite Hn in Hin. destruct Hin.
    - cbn [run_text] in Hr.
      assert (Hch : nth_error w (length pre) = Some c).
      { rewrite Hw, nth_error_app2 by lia. rewrite Nat.sub_diag. reflexivity. }
      pose proof (run_phase_sound (length pre) (Some c) Hch fuel clist nlist Hc) as Hs.
      destruct (run_phase cop p fuel (Some c) clist nlist) as [|c1 n1| |]; try discriminate.
      + apply Hs. intros pc Hin. rewrite Hn in Hin. destruct Hin.
      + apply (IH (pre ++ [c]) n1 (tl_clear c1)).
        * rewrite <- app_assoc. exact Hw.
        * rewrite app_length. cbn [length]. replace (length pre + 1) with (S (length pre)) by lia.
          apply Hs. intros pc Hin. rewrite Hn in Hin. destruct Hin.
        * reflexivity.
        * exact Hr.
  Qed.

  Theorem cpp_match_true_sound : forall fuel,
    cpp_match cop fuel p w = Ok true -> vm_accepts p w.
  Proof.
    intros fuel H. unfold cpp_match in H. destruct p as [|i0 p'] eqn:Ep; [discriminate|].
    rewrite <- Ep in *.
    destruct (negb (constructible p)); [discriminate|].
    destruct (negb (targets_ok p)); [discriminate|].
    destruct (tl_spawn (tl_new (length p)) 0) as [c0|] eqn:Es; [|discriminate].
    apply (run_text_sound fuel w [] c0 (tl_new (length p))); [reflexivity| |reflexivity|exact H].
    eapply spawn_reach; [exact Es| |exists 0; constructor].
    intros pc Hin. destruct Hin.
  Qed.
End Sound.

(** * [CharacterInRanges]: the binary search decides membership in sorted ranges *)
Ltac Zify.zify_post_hook ::= Z.to_euclidean_division_equations.

Definition hit (c : N) (x : N * N) : bool := N.leb (fst x) c && N.leb c (snd x).
Definition bounds_ok (rs : list (N * N)) : bool := forallb (fun r => N.leb (fst r) (snd r)) rs.

Lemma in_rs_hit : forall c rs, in_rs c rs = existsb (hit c) rs.
Proof.
  intros c rs. induction rs as [|[a b] r IH]; [reflexivity|].
  cbn [in_rs existsb]. rewrite IH. reflexivity.
Qed.

Lemma in_rs_true_nth : forall c rs, in_rs c rs = true <->
  exists k x, nth_error rs k = Some x /\ hit c x = true.
Proof.
  intros c rs. rewrite in_rs_hit, existsb_exists. split.
  - intros [x [Hin Hx]]. apply In_nth_error in Hin. destruct Hin as [k Hk]. exists k, x. auto.
  - intros [k [x [Hk Hx]]]. exists x. split; [eapply nth_error_In; exact Hk|exact Hx].
Qed.

Lemma head_lt : forall r x0, cpp_ranges_ok (x0 :: r) = true -> bounds_ok r = true ->
  forall j y, nth_error r j = Some y -> (snd x0 < fst y)%N.
Proof.
  induction r as [|y0 r' IH]; intros x0 Hok Hb j y Hj; [destruct j; discriminate|].
  cbn [cpp_ranges_ok] in Hok. apply andb_prop in Hok. destruct Hok as [H1 H2].
  apply N.ltb_lt in H1. cbn [bounds_ok forallb] in Hb. apply andb_prop in Hb.
  destruct Hb as [Hb1 Hb2]. apply N.leb_le in Hb1.
  destruct j as [|j']; cbn [nth_error] in Hj.
  - inversion Hj; subst. exact H1.
  - pose proof (IH y0 H2 Hb2 j' y Hj). lia.
Qed.

Lemma sorted_nth : forall rs, cpp_ranges_ok rs = true -> bounds_ok rs = true ->
  forall i j x y, i < j -> nth_error rs i = Some x -> nth_error rs j = Some y ->
  (snd x < fst y)%N.
Proof.
  induction rs as [|x0 r IH]; intros Hok Hb i j x y Hij Hi Hj; [destruct i; discriminate|].
  assert (Hb' : bounds_ok r = true).
  { cbn [bounds_ok forallb] in Hb. apply andb_prop in Hb. exact (proj2 Hb). }
  destruct j as [|j']; [lia|]. cbn [nth_error] in Hj. destruct i as [|i']; cbn [nth_error] in Hi.
  - inversion Hi; subst. eapply head_lt; eassumption.
  - apply (IH) with (i := i') (j := j'); try assumption; [|lia].
    destruct r as [|y0 r']; [reflexivity|]. cbn [cpp_ranges_ok] in Hok.
    apply andb_prop in Hok. exact (proj2 Hok).
Qed.

Lemma scan_spec : forall rs c k b, b + k <= length rs ->
  exists res, scan rs c b k = Some res
    /\ (res = true <-> exists i x, b <= i < b + k /\ nth_error rs i = Some x /\ hit c x = true).
Proof.
  intros rs c k. induction k as [|k IH]; intros b Hb.
  - exists false. split; [reflexivity|]. split; [discriminate|]. intros [i [x [Hi _]]]. lia.
  - cbn [scan]. destruct (nth_error rs b) as [[f l]|] eqn:E.
    2:{ apply nth_error_None in E. lia. }
    destruct (N.leb f c && N.leb c l) eqn:Eh.
    + exists true. split; [reflexivity|]. split; [|reflexivity]. intros _.
      exists b, (f, l). split; [lia|]. split; [exact E|exact Eh].
    + destruct (IH (S b)) as [res [Hr Hs]]; [lia|]. exists res. split; [exact Hr|].
      rewrite Hs. split.
      * intros [i [x [Hi Hx]]]. exists i, x. split; [lia|exact Hx].
      * intros [i [x [Hi [Hx Hh]]]]. destruct (Nat.eq_dec i b) as [->|Hne].
        { rewrite E in Hx. inversion Hx; subst. unfold hit in Hh. cbn [fst snd] in Hh. congruence. }
        exists i, x. split; [lia|]. split; assumption.
Qed.

Lemma bsearch_spec : forall rs c, cpp_ranges_ok rs = true -> bounds_ok rs = true ->
  forall fuel b e, b <= e <= length rs -> e - b < fuel ->
  (forall k x, nth_error rs k = Some x -> hit c x = true -> b <= k < e) ->
  bsearch fuel rs c b e = Some (in_rs c rs).
Proof.
  intros rs c Hok Hbd fuel. induction fuel as [|fuel IH]; intros b e Hbe Hf Hinv; [lia|].
  cbn [bsearch]. destruct (Nat.eqb_spec b e) as [->|Hne].
  - f_equal. symmetry. apply not_true_is_false. intros H. apply in_rs_true_nth in H.
    destruct H as [k [x [Hk Hx]]]. specialize (Hinv k x Hk Hx). lia.
  - destruct (Nat.leb_spec (e - b) 3) as [Hle|Hgt].
    + destruct (scan_spec rs c (e - b) b) as [res [Hr Hs]]; [lia|]. rewrite Hr. f_equal.
      destruct res.
      * symmetry. apply in_rs_true_nth. destruct (proj1 Hs eq_refl) as [i [x [_ [Hx Hh]]]].
        exists i, x. split; assumption.
      * symmetry. apply not_true_is_false. intros H. apply in_rs_true_nth in H.
        destruct H as [k [x [Hk Hx]]]. pose proof (Hinv k x Hk Hx) as Hr'.
        assert (false = true); [|discriminate]. apply Hs. exists k, x. split; [lia|]. split; assumption.
    + set (m := Nat.div (b + e) 2).
      assert (Hm : b < m < e).
      { unfold m. split.
        - apply (Nat.div_le_lower_bound (b + e) 2 (S b)); lia.
        - apply Nat.div_lt_upper_bound; lia. }
      destruct (nth_error rs m) as [[f l]|] eqn:Em.
      2:{ apply nth_error_None in Em. lia. }
      assert (Hfl : (f <= l)%N).
      { unfold bounds_ok in Hbd. rewrite forallb_forall in Hbd.
        specialize (Hbd (f, l) (nth_error_In _ _ Em)). cbn [fst snd] in Hbd.
        apply N.leb_le. exact Hbd. }
      destruct (N.ltb_spec c f) as [Hcf|Hcf].
      * apply IH; [lia|lia|]. intros k x Hk Hx. pose proof (Hinv k x Hk Hx) as Hr.
        split; [lia|]. destruct (Nat.lt_ge_cases k m) as [Hlt|Hge]; [exact Hlt|exfalso].
        unfold hit in Hx. apply andb_prop in Hx. destruct Hx as [Hx1 Hx2].
        apply N.leb_le in Hx1. apply N.leb_le in Hx2.
        destruct (Nat.eq_dec k m) as [->|Hkm].
        { rewrite Em in Hk. inversion Hk; subst. cbn [fst snd] in *. lia. }
        pose proof (sorted_nth rs Hok Hbd m k (f, l) x ltac:(lia) Em Hk) as Hs.
        cbn [fst snd] in Hs. lia.
      * destruct (N.ltb_spec l c) as [Hlc|Hlc].
        { apply IH; [lia|lia|]. intros k x Hk Hx. pose proof (Hinv k x Hk Hx) as Hr.
          split; [|lia]. destruct (Nat.lt_ge_cases k m) as [Hlt|Hge]; [exfalso|exact Hge].
          unfold hit in Hx. apply andb_prop in Hx. destruct Hx as [Hx1 Hx2].
          apply N.leb_le in Hx1. apply N.leb_le in Hx2.
          pose proof (sorted_nth rs Hok Hbd k m x (f, l) Hlt Hk Em) as Hs.
          cbn [fst snd] in Hs. lia. }
        f_equal. symmetry. apply in_rs_true_nth. exists m, (f, l). split; [exact Em|].
        unfold hit. cbn [fst snd]. apply andb_true_intro. split; apply N.leb_le; lia.
Qed.

Theorem char_in_ranges_correct : forall rs c,
  cpp_ranges_ok rs = true -> bounds_ok rs = true ->
  char_in_ranges rs c = Some (in_rs c rs).
Proof.
  intros rs c Hok Hbd. unfold char_in_ranges. destruct rs as [|[f l] r]; [reflexivity|].
  destruct r as [|y r'].
  - cbn [in_rs]. rewrite orb_false_r. reflexivity.
  - apply bsearch_spec; [exact Hok|exact Hbd|lia|lia|].
    intros k x Hk _. split; [lia|]. apply nth_error_Some. congruence.
Qed.

(** the verdict [true] of the generated matcher is sound for every program and word,
    whatever the fuel and whether or not [Pop] clears the flag *)
Theorem cpp_match_true_accepts : forall cop fuel p w,
  cpp_match cop fuel p w = Ok true -> vm_accepts p w.
Proof.
  intros cop fuel p w H. apply (cpp_match_true_sound cop p w) with (fuel := fuel); [|exact H].
  intros rs c b Hin Hc.
  assert (Hcon : constructible p = true).
  { unfold cpp_match in H. destruct p; [discriminate|].
    destruct (constructible (i :: p)); [reflexivity|discriminate]. }
  unfold constructible in Hcon. rewrite forallb_forall in Hcon.
  assert (Hrs : cpp_ranges_ok rs = true /\ bounds_ok rs = true).
  { destruct Hin as [Hin|Hin]; specialize (Hcon _ Hin); cbn beta iota in Hcon;
      apply andb_prop in Hcon; destruct Hcon as [Hc1 Hc2]; apply andb_prop in Hc1;
      destruct Hc1 as [_ Hc1]; split; assumption. }
  rewrite (char_in_ranges_correct rs c (proj1 Hrs) (proj2 Hrs)) in Hc. inversion Hc. reflexivity.
Qed.
