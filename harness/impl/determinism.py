"""Adapter for C22: run main.execute once per variant of the hidden inputs.

stdin: {"model_text", "target", "snippets": {rel: text|{"hex":..}}, "variants": [variant..]}
variant: {"name", "out": relative output dir name, "preexisting": {rel: text},
          "cwd": relative dir to chdir into, "snippet_order": [rel..] (creation order),
          "glob_shuffle": int|null (seed; wraps pathlib.Path.glob/rglob and os.scandir order),
          "cache": "off"|"cold"|"warm"}
Each variant runs in its own fresh root directory and (unless cache == "warm", which
first performs a cold run in the same TMPDIR) with an empty temp directory. PYTHONHASHSEED
is per process: the harness calls this adapter once per hash seed.
stdout: list of {"name", "rc", "stdout", "stderr", "files": {rel: sha256}, "exception"}
with the root and output paths replaced by <ROOT> and <OUT>.
"""
import hashlib
import io
import json
import os
import pathlib
import random
import shutil
import sys
import tempfile
import traceback

import aas_core_codegen.main as cg_main


def listing(root):
    out = {}
    if root.exists():
        for p in sorted(root.rglob("*")):
            if p.is_file():
                out[p.relative_to(root).as_posix()] = hashlib.sha256(p.read_bytes()).hexdigest()
    return out


def run_variant(payload, var, base):
    root = pathlib.Path(tempfile.mkdtemp(prefix="v-", dir=base))
    tmp = root / "tmp"
    tmp.mkdir()
    os.environ["TMPDIR"] = str(tmp)
    tempfile.tempdir = None
    model = root / "in" / "meta_model.py"
    model.parent.mkdir()
    model.write_text(payload["model_text"], encoding="utf-8")
    snippets = root / "in" / "snippets"
    snippets.mkdir()
    items = payload.get("snippets") or {}
    order = var.get("snippet_order") or sorted(items)
    for rel in order:
        content = items[rel]
        p = snippets / rel
        p.parent.mkdir(parents=True, exist_ok=True)
        if isinstance(content, dict):
            p.write_bytes(bytes.fromhex(content["hex"]))
        else:
            p.write_text(content, encoding="utf-8")
    out = root / var.get("out", "out")
    transform = var.get("preexisting_from_reference")
    if transform:
        # a reference run into a scratch directory; its files, transformed, pre-populate
        # the output directory of the run that is observed
        ref = root / "reference-out"
        params = cg_main.Parameters(
            model_path=model, target=cg_main.Target(payload["target"]),
            snippets_dir=snippets, output_dir=ref, cache_model=False)
        cg_main.execute(params=params, stdout=io.StringIO(), stderr=io.StringIO())
        if ref.exists():
            for p in sorted(ref.rglob("*")):
                if p.is_file():
                    data = p.read_bytes()
                    if transform == "crlf":
                        data = data.replace(b"\r\n", b"\n").replace(b"\n", b"\r\n")
                    elif transform == "trailing-blank":
                        data = data + b" \n"
                    elif transform == "truncated":
                        data = data[: len(data) // 2]
                    q = out / p.relative_to(ref)
                    q.parent.mkdir(parents=True, exist_ok=True)
                    q.write_bytes(data)
            shutil.rmtree(ref, ignore_errors=True)
    for rel, content in (var.get("preexisting") or {}).items():
        p = out / rel
        p.parent.mkdir(parents=True, exist_ok=True)
        p.write_text(content, encoding="utf-8")
    pre = set((var.get("preexisting") or {}).keys())
    cwd = root / var.get("cwd", ".")
    cwd.mkdir(parents=True, exist_ok=True)
    old_cwd = os.getcwd()
    os.chdir(cwd)
    orig_glob, orig_rglob = pathlib.Path.glob, pathlib.Path.rglob
    orig_scandir, orig_listdir = os.scandir, os.listdir
    seed = var.get("glob_shuffle")
    if seed is not None:
        rnd = random.Random(seed)

        class _Shuffled:
            """os.scandir result in a shuffled order (directory listing order is undefined)."""

            def __init__(self, it):
                with it:
                    self.entries = list(it)
                rnd.shuffle(self.entries)

            def __iter__(self):
                return iter(self.entries)

            def __enter__(self):
                return self

            def __exit__(self, *a):
                return False

            def close(self):
                pass

        def scandir(path="."):
            return _Shuffled(orig_scandir(path))

        def listdir(path="."):
            res = orig_listdir(path)
            rnd.shuffle(res)
            return res

        os.scandir, os.listdir = scandir, listdir

        def glob(self, *a, **k):
            res = list(orig_glob(self, *a, **k))
            rnd.shuffle(res)
            return iter(res)

        def rglob(self, *a, **k):
            res = list(orig_rglob(self, *a, **k))
            rnd.shuffle(res)
            return iter(res)

        pathlib.Path.glob, pathlib.Path.rglob = glob, rglob
    result = {"name": var["name"], "exception": None}
    try:
        runs = 2 if var.get("cache") == "warm" else 1
        for i in range(runs):
            so, se = io.StringIO(), io.StringIO()
            if i == 1:
                shutil.rmtree(out, ignore_errors=True)
            params = cg_main.Parameters(
                model_path=model, target=cg_main.Target(payload["target"]),
                snippets_dir=snippets, output_dir=out,
                cache_model=var.get("cache", "off") != "off")
            rc = cg_main.execute(params=params, stdout=so, stderr=se)
        result["rc"] = rc
    except BaseException as exc:  # noqa
        result["rc"] = None
        result["exception"] = {"class": type(exc).__name__, "tb": traceback.format_exc()[-1500:]}
    finally:
        pathlib.Path.glob, pathlib.Path.rglob = orig_glob, orig_rglob
        os.scandir, os.listdir = orig_scandir, orig_listdir
        os.chdir(old_cwd)

    def norm(s):
        return s.replace(str(out), "<OUT>").replace(str(root), "<ROOT>")

    result["stdout"] = norm(so.getvalue())
    result["stderr"] = norm(se.getvalue())
    files = listing(out)
    # pre-existing files that the generator did not overwrite are not part of the output
    result["files"] = {k: v for k, v in files.items()
                       if k not in pre or v != hashlib.sha256((var["preexisting"][k]).encode()).hexdigest()}
    result["stale_left"] = sorted(k for k in files if k in pre and k not in result["files"])
    shutil.rmtree(root, ignore_errors=True)
    return result


def main():
    payload = json.load(sys.stdin)
    base = pathlib.Path(tempfile.mkdtemp(prefix="det-", dir=os.getcwd()))
    out = [run_variant(payload, v, base) for v in payload["variants"]]
    shutil.rmtree(base, ignore_errors=True)
    json.dump(out, sys.stdout)


main()
