(** C18 — minimal regex AST (as produced by [parse.retree.parse]) and its matching
    semantics. Independent of the other regex models of the framework.

    The AST mirrors [parse/retree/_types.py]:
      Regex{union}, UnionExpr{uniates}, Concatenation{concatenants},
      Term{value; quantifier}, Group{union}, Char{character}, CharSet{complementing;
      ranges}, Range{start; end}, Quantifier{non_greedy; minimum; maximum},
      Symbol{START|END|DOT}.
    [FormattedValue] terms cannot occur: the C++ pattern generator parses
    [verification.pattern], which is a plain [str].

    Lists of uniates / concatenants are the constructors [UNil/UCons], [CNil/CCons] of
    the mutual inductive, so that all functions over trees are plain structural
    fixpoints. *)
From Coq Require Import List NArith Bool Arith.
Import ListNotations.

Inductive sym : Type := SStart | SEnd | SDot.

Record quant : Type := mkQ { q_ng : bool; q_min : nat; q_max : option nat }.

Inductive value : Type :=
| VSym (s : sym)
| VChar (c : N)
| VSet (compl : bool) (rs : list (N * option N))
| VGroup (u : union)
with term : Type :=
| Term (v : value) (q : option quant)
with concat : Type :=
| CNil
| CCons (t : term) (c : concat)
with union : Type :=
| UNil
| UCons (c : concat) (u : union).

(** A parsed regex is its root union. *)
Definition regex := union.

Fixpoint terms_of (c : concat) : list term :=
  match c with CNil => [] | CCons t c' => t :: terms_of c' end.
Fixpoint concats_of (u : union) : list concat :=
  match u with UNil => [] | UCons c u' => c :: concats_of u' end.
Fixpoint concat_of_terms (ts : list term) : concat :=
  match ts with [] => CNil | t :: r => CCons t (concat_of_terms r) end.

(** * Matching semantics

    Relative to a fixed word [w]; a tree denotes a relation between a start and an end
    position ([^], [$] are zero-width tests). Greedy / non-greedy does not change which
    (start, end) pairs are related. The semantics follows Python's [re] without flags:
    [.] is any character but LF, [$] holds at the end and before a final LF. The
    agreement with Python is not assumed: it is checked by the "sem" stream through the
    executable twin below. *)
Definition rel := nat -> nat -> Prop.

Definition in_range (c : N) (r : N * option N) : bool :=
  match r with
  | (a, None) => N.eqb c a
  | (a, Some b) => N.leb a c && N.leb c b
  end.
Definition in_ranges (c : N) (rs : list (N * option N)) : bool := existsb (in_range c) rs.

Fixpoint rpow (R : rel) (n : nat) : rel :=
  match n with
  | O => fun i j => j = i
  | S k => fun i j => exists m, R i m /\ rpow R k m j
  end.

Definition rrep (R : rel) (mn : nat) (mx : option nat) : rel :=
  fun i j => exists n, mn <= n /\ (match mx with Some m => n <= m | None => True end)
                       /\ rpow R n i j.

Definition LF : N := 10%N.

Section Sem.
  Variable w : list N.

  Definition at_end (i : nat) : Prop :=
    i = length w \/ (S i = length w /\ nth_error w i = Some LF).

  Definition dsym (s : sym) : rel :=
    match s with
    | SStart => fun i j => i = 0 /\ j = 0
    | SEnd => fun i j => j = i /\ at_end i
    | SDot => fun i j => j = S i /\ exists c, nth_error w i = Some c /\ c <> LF
    end.

  Fixpoint dv (v : value) : rel :=
    match v with
    | VSym s => dsym s
    | VChar c => fun i j => j = S i /\ nth_error w i = Some c
    | VSet compl rs =>
        fun i j => j = S i /\ exists c, nth_error w i = Some c
                                        /\ xorb compl (in_ranges c rs) = true
    | VGroup u => du u
    end
  with dt (t : term) : rel :=
    match t with
    | Term v None => dv v
    | Term v (Some q) => rrep (dv v) (q_min q) (q_max q)
    end
  with dc (c : concat) : rel :=
    match c with
    | CNil => fun i j => j = i
    | CCons t c' => fun i j => exists m, dt t i m /\ dc c' m j
    end
  with du (u : union) : rel :=
    match u with
    | UNil => fun i j => j = i   (* never produced by the parser; the translator emits nothing *)
    | UCons c UNil => dc c
    | UCons c u' => fun i j => dc c i j \/ du u' i j
    end.

  (** The pattern fully matches the word ([re.fullmatch]). *)
  Definition matches (r : regex) : Prop := du r 0 (length w).
End Sem.

Definition no_linebreak (w : list N) : Prop := ~ In LF w.

(** * Executable twin: the set of end positions for a start position. *)
Fixpoint mem_nat (x : nat) (l : list nat) : bool :=
  match l with [] => false | y :: r => Nat.eqb x y || mem_nat x r end.
Fixpoint add_all (xs acc : list nat) : list nat :=
  match xs with
  | [] => acc
  | x :: r => if mem_nat x acc then add_all r acc else add_all r (acc ++ [x])
  end.
Definition step_all (f : nat -> list nat) (ps : list nat) : list nat :=
  add_all (flat_map f ps) [].
Fixpoint rep_exact (f : nat -> list nat) (n : nat) (ps : list nat) : list nat :=
  match n with O => ps | S k => rep_exact f k (step_all f ps) end.
(** all positions reachable with at most [k] further applications *)
Fixpoint rep_upto (f : nat -> list nat) (k : nat) (ps : list nat) : list nat :=
  match k with
  | O => ps
  | S k' => add_all (rep_upto f k' (step_all f ps)) ps
  end.

Section Exec.
  Variable w : list N.

  Definition at_endb (i : nat) : bool :=
    Nat.eqb i (length w)
    || (Nat.eqb (S i) (length w)
        && match nth_error w i with Some c => N.eqb c LF | None => false end).

  Definition esym (s : sym) (i : nat) : list nat :=
    match s with
    | SStart => if Nat.eqb i 0 then [0] else []
    | SEnd => if at_endb i then [i] else []
    | SDot => match nth_error w i with
              | Some c => if N.eqb c LF then [] else [S i]
              | None => []
              end
    end.

  Definition erep (f : nat -> list nat) (q : quant) (i : nat) : list nat :=
    let after_min := rep_exact f (q_min q) [i] in
    match q_max q with
    | Some mx => rep_upto f (mx - q_min q) after_min
    | None => rep_upto f (S (length w)) after_min
    end.

  Fixpoint ev (v : value) (i : nat) : list nat :=
    match v with
    | VSym s => esym s i
    | VChar c => match nth_error w i with
                 | Some d => if N.eqb d c then [S i] else []
                 | None => []
                 end
    | VSet compl rs => match nth_error w i with
                       | Some d => if xorb compl (in_ranges d rs) then [S i] else []
                       | None => []
                       end
    | VGroup u => eu u i
    end
  with et (t : term) (i : nat) : list nat :=
    match t with
    | Term v None => ev v i
    | Term v (Some q) =>
        if match q_max q with Some mx => Nat.ltb mx (q_min q) | None => false end
        then [] else erep (ev v) q i
    end
  with ec (c : concat) (i : nat) : list nat :=
    match c with
    | CNil => [i]
    | CCons t c' => step_all (ec c') (et t i)
    end
  with eu (u : union) (i : nat) : list nat :=
    match u with
    | UNil => [i]
    | UCons c UNil => ec c i
    | UCons c u' => add_all (eu u' i) (ec c i)
    end.

  Definition matchb (r : regex) : bool := mem_nat (length w) (eu r 0).
End Exec.
