"""C26 — Yield-flow linearization preserves behaviour (yielding/linear.py, cpp/yielding.py)."""
from __future__ import annotations

import json

from harness import lib
from harness.gen import linear as G

META = {
    "title": "Yield-flow linearization preserves behaviour",
    "design_ref": "§4 C26, Appendix A.3",
    "level_text": (
        "Coq theorems for ALL structured flows and ALL condition oracles over a Gallina model "
        "of yielding.linear.linearize_to_subroutines (every pass) and of the generated C++ "
        "state machine: C26_linearize_correct = trace equality with the structured flow (raw "
        "linearisation, then each clean-up pass by a deletion/renaming simulation), consecutive "
        "labels, existing jump targets, no contract violation — all unconditional. An executable "
        "validator (proved sound) re-checks the implementation's own output inside Coq as a "
        "cross-check. The model is tied to the code by a "
        "correspondence stream (exhaustive small flows + random larger ones; exact "
        "statements/labels compared inside Coq), and the property statement is also executed "
        "directly on the implementation's output by two Python interpreters over every "
        "condition-outcome sequence up to a length."
    ),
    "level_note": (
        "Trusted: the hand-written model agrees with the code beyond the sampled flows; the "
        "reading of cpp/yielding.py as the machine [cpp_machine] (switch fall-through, yield = "
        "state of the next case, start state 0). All four theorems of the design are full (docs/C26.md)."
    ),
    "technique": "Coq proof (compiler-correctness simulation) + in-Coq correspondence check",
}
GEN: list = []
MODEL = ["Model/Flow", "Model/Linear", "Model/LinearCheck", "Model/LinearCodec"]
TRUSTED = [
    "Model/Flow.v, Model/Linear.v are hand-written models of yielding/flow.py, yielding/linear.py "
    "and of the C++ emitted by cpp/yielding.py (correspondence-checked)",
    "the work-list semantics of structured flows (Model/Flow.v struct_step) is the reference "
    "semantics; cross-checked on every run against an independent recursive Python interpreter",
]
RULE = ("case = one structured flow (commands/conditions named by preorder index); exhaustive over "
        "all flows up to a node count and nesting depth plus random flows up to ~45 nodes/depth 5 "
        "(incl. empty else, empty loop bodies, trailing loops, and if-nodes whose body was emptied "
        "after construction); non-trivial = the flow contains a branch or loop; distinct by flow")

HEADER = """From Coq Require Import List NArith Bool.
From Acg Require Import Base.Outcome Base.Str Model.Flow Model.Linear Model.LinearCodec.
Import ListNotations.
Open Scope N_scope.
"""
CASE_TYPE = "list N * option (list N)"


def corpus():
    """Hand-picked flows and minimised past disagreements; always run first."""
    C = lambda s: ["C", s]
    Y = ["Y"]
    return [
        [],
        [Y],
        [C("x")],
        [["W", "a", []]],
        [["R", None, "a", "j", []]],
        [["R", "i", "a", "j", [Y]]],
        [["T", "a", [C("x")], None]],
        [["T", "a", [C("x")], []]],
        [["F", "a", [Y], [Y]]],
        [["T", "a", [["T", "b", [C("x")], None]], None]],                 # trailing no-op block
        [["W", "a", [["T", "b", [C("x")], [C("y")]]]]],                    # jump to jump
        [["W", "a", [["W", "b", [Y]]]], Y],
        [["T", "a", [["W", "b", []]], [["W", "c", []]]], C("z")],
        [Y, Y],
        [["T", "a", [Y], None], Y],
        [["F", "a", [["R", "i", "b", "j", [Y, C("x")]]], [Y]], ["W", "c", [Y]]],
        [["T", " a ", [C("x")], None]],                                     # stripped by ctor
        [["T", "a", [], None]],                                             # body emptied
        [["F", "a", [], [C("x")]], C("y")],
        [["W", "a", [["T", "b", [], None]]]],
    ]


def shrink(flow, failing):
    """Greedy delta debugging over one-edit neighbours."""
    cur = flow
    for _ in range(60):
        cands = [c for c in G.neighbours(cur) if G.is_wf(c) and len(c) > 0]
        nxt = failing(cands)
        if nxt is None:
            break
        cur = nxt
    return cur


def oracle_failures(flow, subs, max_bits):
    fails = [(k, None) for k in G.static_failures(subs)]
    tf = G.trace_failure(flow, subs, max_bits)
    if tf is not None:
        fails.append(("trace", tf))
    return fails


def run_impl(flows):
    out = []
    B = 20000
    for k in range(0, len(flows), B):
        out += lib.impl_call("linear.py", flows[k:k + B], timeout=1500)
    return out


def report_failure(ctx, flow, res, kind, detail, max_bits, stream):
    """Shrink and record one property failure of the implementation."""
    def failing(cands):
        if not cands:
            return None
        rs = run_impl(cands)
        for c, r in zip(cands, rs):
            if kind == "exception":
                if "exc" in r:
                    return c
            elif "ok" in r and any(k == kind for k, _ in oracle_failures(r["flow"], r["ok"], max_bits)):
                return c
        return None
    small = shrink(flow, failing)
    r = run_impl([small])[0]
    if kind == "exception":
        observed = {"exception": r.get("exc")}
    else:
        det = [d for k, d in oracle_failures(r["flow"], r.get("ok", []), max_bits) if k == kind]
        observed = {"subroutines": r.get("ok"), "detail": det[0] if det else detail}
    ctx.impl_failure(
        f"{kind}:{G.key_of(small)}",
        {"trace": "linearized subroutines and structured flow emit different event sequences",
         "exception": "linearize_to_subroutines raised on a well-formed flow",
         "consecutive": "subroutine labels are not consecutive",
         "first-label": "first subroutine label is not 0 (initial state)",
         "target": "a jump target is not a subroutine label",
         "shape": "a subroutine has an unlabelled head or a labelled inner statement",
         "if-without-target": "an If statement has no target"}.get(kind, kind),
        {"flow": small}, observed, stream,
        f"echo '{json.dumps([small])}' | PYTHONPATH={lib.REPO} {lib.PY} "
        f"{lib.VERIF}/harness/impl/linear.py")


def streams(ctx: lib.Ctx) -> None:
    rng = ctx.rng
    # ---- inputs -------------------------------------------------------------
    flows = list(corpus())
    max_size, depth = ctx.n(4, 5), 3
    small = list(G.exhaustive(max_size, depth))
    n_small_all = len(small)
    cap = ctx.n(4000, 20000)
    if len(small) > cap:
        # keep everything up to size 3 (quick) / 4 (thorough), sample the rest
        lim = 4 if ctx.thorough else 3
        keep = [f for f in small if G.size_of(f) <= lim]
        rest = [f for f in small if G.size_of(f) > lim]
        small = keep + rng.sample(rest, max(0, cap - len(keep)))
    flows += small
    n_rand = ctx.n(1000, 5000)
    for i in range(n_rand):
        r = rng.random()
        if r < 0.5:
            flows.append(G.random_flow(rng, rng.choice([6, 8, 10, 14]), rng.choice([2, 3, 4])))
        elif r < 0.9:
            flows.append(G.random_flow(rng, rng.choice([15, 20, 30, 45]), rng.choice([3, 4, 5])))
        else:
            flows.append(G.random_flow(rng, rng.choice([6, 10, 20]), 3, allow_empty_if=True))

    results = run_impl(flows)

    # ---- correspondence (inside Coq) + property oracle on the implementation ------
    max_bits_small, max_bits_big = ctx.n(7, 10), ctx.n(6, 8)
    coq_cases, case_index = [], []
    nontrivial, sizes, kinds = [], {}, {}
    n_exc = n_unrep = n_oracle = n_paths = 0
    failures = {}     # kind -> (flow, res, detail)
    direct_breaks = []
    for idx, (spec, res) in enumerate(zip(flows, results)):
        if "ctor_exc" in res:
            raise lib.HarnessError(f"generator produced an unconstructible flow: {spec}")
        flow = res["flow"]
        wf = G.is_wf(flow)
        sz = G.size_of(flow)
        sizes[min(sz, 50) // 5 * 5] = sizes.get(min(sz, 50) // 5 * 5, 0) + 1
        G.kinds_of(flow, kinds)
        if any(n[0] not in ("C", "Y") for n in flow):
            nontrivial.append(G.key_of(flow))
        if "exc" in res:
            n_exc += 1
            impl = None
            if wf:
                failures.setdefault("exception", (flow, res, res["exc"]))
        else:
            try:
                impl = G.coq_tokens(G.tok_subs(res["ok"]))
            except G.Unrepresentable as e:
                n_unrep += 1
                direct_breaks.append((flow, res, str(e)))
                impl = "[]"
            if wf:
                n_oracle += 1
                mb = max_bits_small if sz <= 8 else max_bits_big
                for kind, detail in oracle_failures(flow, res["ok"], mb):
                    failures.setdefault(kind, (flow, res, detail))
        coq_cases.append(lib.coq_pair(G.coq_tokens(G.tok_seq(flow)), lib.coq_option(impl)))
        case_index.append(idx)

    bad2, _log = lib.run_cases(ctx.work, "cases", HEADER, CASE_TYPE, "bad2", coq_cases)
    # classify: model != implementation, or the validator rejects the implementation's output
    bad, invalid = [], []
    for i in bad2[:40]:
        ans = lib.coq_eval(ctx.work, "classify", HEADER,
                           f"(case_ok {coq_cases[i]}, case_valid {coq_cases[i]})")
        flat = " ".join(ans.split())
        if "(false," in flat:
            bad.append(i)
        if ", false)" in flat:
            invalid.append(i)
        if "(false," not in flat and ", false)" not in flat:
            raise lib.HarnessError(f"cannot classify case {i}: {ans[-500:]}")
    for flow, res, why in direct_breaks[:5]:
        ctx.corr_break("linearize", {"flow": flow}, "not representable in the model: " + why,
                       res.get("ok"))
    for i in bad[:10]:
        flow = results[i]["flow"]
        model = lib.coq_eval(ctx.work, "show", HEADER,
                             f"linearize_to_subroutines {G.coq_flow(flow)}")
        ctx.corr_break("linearize", {"flow": flow}, model[-3000:],
                       results[i].get("ok", results[i].get("exc")))
    for i in invalid[:5]:
        ctx.proof_break("validator hypothesis of C26_validated_correct",
                        "validate f subs = false for the implementation's output on flow "
                        + G.key_of(results[i]["flow"]))
    bad = sorted(set(bad) | set(invalid))

    # ---- search around disagreements: deeper oracles on neighbours ------------------
    if (bad or direct_breaks) and not failures:
        seeds = [results[i]["flow"] for i in bad[:12]] + [f for f, _, _ in direct_breaks[:4]]
        cands = []
        for f in seeds:
            cands.append(f)
            cands += [c for c in G.neighbours(f) if len(c) > 0]
            cands += G.wrappers(f)
        cands = [c for c in cands if G.is_wf(c)][:3000]
        extra = [G.random_flow(rng, 25, 4) for _ in range(ctx.n(1500, 20000))]
        rs = run_impl(cands + extra)
        for c, r in zip(cands + extra, rs):
            if "exc" in r:
                failures.setdefault("exception", (r["flow"], r, r["exc"]))
            elif "ok" in r:
                for kind, detail in oracle_failures(r["flow"], r["ok"], 12 if G.size_of(c) <= 12 else 9):
                    failures.setdefault(kind, (r["flow"], r, detail))
        ctx.count("search", len(cands) + len(extra), validated=len(cands) + len(extra))

    for kind, (flow, res, detail) in sorted(failures.items()):
        report_failure(ctx, flow, res, kind, detail, 10, "oracle")

    ctx.count("linearize", len(flows), nontrivial_keys=nontrivial, validated=len(flows),
              exhaustive_small_scope=f"all flows with <= {max_size} nodes, nesting <= {depth}: "
              f"{n_small_all} flows" + ("" if len(small) == n_small_all else f" ({len(small)} kept: all up to size {4 if ctx.thorough else 3} + sample)"),
              random_flows=n_rand, size_histogram={str(k): v for k, v in sorted(sizes.items())},
              node_kinds=kinds, impl_exceptions=n_exc, unrepresentable=n_unrep)
    ctx.count("validate", n_oracle, validated=n_oracle,
              what="validator of Model/LinearCheck.v evaluated inside Coq on the implementation's "
                   "own subroutines for every well-formed flow (hypothesis of "
                   "C26_validated_correct)", rejected=len(invalid))
    ctx.count("oracle", n_oracle, validated=n_oracle,
              oracle_lengths=f"all condition-outcome sequences up to length {max_bits_small} "
              f"(flows of <= 8 nodes) / {max_bits_big} (larger), explored lazily",
              checks="event traces equal incl. termination; labels consecutive from 0; only heads "
                     "labelled; every target is a head label")
    for f in flows[9:12] + flows[-3:]:
        ctx.sample({"flow": f})
