(** Value-level theorems about the generator model (C11 soundness, C12 completeness). *)
From Coq Require Import List NArith ZArith Bool Lia Btauto.
From Acg Require Import Base.Str Base.Outcome Model.JsonSchemaSem Model.JsonSchemaGen
  Model.JsonSchemaSpec Proofs.JsonSchemaFacts.
Import ListNotations.
Open Scope Z_scope.

Section ValueLevel.
  Variable pm : list (text * text).
  Variable fixp : text -> text.
  Variable search16 matches : text -> text -> bool.
  Variable b64 : list N -> text.
  Variable int_tok : Z -> text.
  Variable defs : list (text * schema).
  Hypothesis pm_ok : forall p, prim_jtype pm p = Some (expected_jtype p).
  Hypothesis fix_ok : forall p s, search16 (fixp p) s = matches p s.
  Hypothesis b64_len : forall b, zlen (b64 b) = b64len (zlen b).

  Notation validates := (validates search16 defs).
  Notation valid_kw := (valid_kw search16 defs).
  Notation define_type := (define_type pm fixp).
  Notation translate_constraints := (translate_constraints fixp).
  Notation to_json := (to_json b64 int_tok).
  Notation admitsb := (admitsb matches).

  Definition kws_val (f : nat) (kws : list kw) (j : json) : option bool :=
    all_opt (map (fun k => valid_kw (validates f) k j) kws).

  Lemma validates_kws : forall f kws j, validates (S f) (Schema kws) j = kws_val f kws j.
  Proof. reflexivity. Qed.

  Lemma kws_val_app : forall f a b j,
    kws_val f (a ++ b) j =
    match kws_val f a j, kws_val f b j with
    | Some x, Some y => Some (x && y)
    | _, _ => None
    end.
  Proof. intros. unfold kws_val. rewrite map_app. apply all_opt_app. Qed.

  Lemma all_of_as_mapping_val : forall f s rest j,
    kws_val (S f) (all_of_as_mapping (s :: rest)) j =
    match kws_val (S f) s j, all_opt (map (fun r => kws_val f r j) rest) with
    | Some x, Some y => Some (x && y)
    | _, _ => None
    end.
  Proof.
    intros f s rest j. destruct rest as [|r rest].
    - simpl. destruct (kws_val (S f) s j) as [x|]; [rewrite andb_true_r|]; reflexivity.
    - remember (r :: rest) as rs eqn:Ers.
      assert (Hm : all_of_as_mapping (s :: rs) = s ++ [KAllOf (map Schema rs)])
        by (subst rs; reflexivity).
      rewrite Hm. clear Hm Ers.
      rewrite kws_val_app. destruct (kws_val (S f) s j) as [x|]; [|reflexivity].
      unfold kws_val at 1. cbn [map valid_kw all_opt]. rewrite map_map.
      rewrite (map_ext _ (fun r0 : list kw => kws_val f r0 j)) by (intros; reflexivity).
      destruct (all_opt (map (fun r0 => kws_val f r0 j) rs)) as [y|]; [|reflexivity].
      rewrite andb_true_r. reflexivity.
  Qed.

  (** length keywords on a string of [n] code points *)
  Lemma len_kws_val : forall f mn (g : Z -> Z) mx s,
    kws_val f (opt_cons (option_map KMinLength mn)
                 (opt_cons (option_map (fun m => KMaxLength (g m)) mx) [])) (JStr s)
    = Some (min_okb mn (zlen s) && max_okb (option_map g mx) (zlen s)).
  Proof.
    intros f mn g mx s. destruct mn, mx; cbn; rewrite ?andb_true_r; reflexivity.
  Qed.

  Lemma items_kws_val : forall f mn mx (l : list json),
    kws_val f (opt_cons (option_map KMinItems mn) (opt_cons (option_map KMaxItems mx) [])) (JArr l)
    = Some (min_okb mn (zlen l) && max_okb mx (zlen l)).
  Proof.
    intros f mn mx l. destruct mn, mx; cbn; rewrite ?andb_true_r; reflexivity.
  Qed.

  Lemma rest_patterns_val : forall f rest s,
    all_opt (map (fun r => kws_val f r (JStr s)) (map (fun p => [KPattern (fixp p)]) rest))
    = Some (forallb (fun p => matches p s) rest).
  Proof.
    intros f rest s. rewrite map_map. apply all_opt_ext_some.
    intros p _. cbn. rewrite fix_ok, andb_true_r. reflexivity.
  Qed.

  Lemma len_of_some : forall c, len_of (Some c) = match c_len c with Some l => l | None => (None, None) end.
  Proof. reflexivity. Qed.

  (** Strings. *)
  Lemma translate_str_spec : forall i c s f,
    match translate_constraints (TAPrim i PStr) c with
    | Some (base :: rest) =>
        match kws_val (S f) base (JStr s),
              all_opt (map (fun r => kws_val f r (JStr s)) rest) with
        | Some x, Some y => Some (x && y)
        | _, _ => None
        end
    | _ => Some true
    end = Some (len_okb (Some c) (zlen s) && pats_okb matches (Some c) s).
  Proof.
    intros i [cl cp] s f.
    unfold JsonSchemaGen.translate_constraints, len_okb, pats_okb, len_of, pats_of.
    cbn [is_str_or_bytes c_len c_patterns].
    destruct cl as [[[mn|] [mx|]]|], cp as [[|p0 rest]|];
      cbn [opt_cons option_map app fst snd forallb];
      rewrite ?rest_patterns_val; cbn; rewrite ?fix_ok, ?andb_true_r;
      try reflexivity; f_equal; btauto.
  Qed.

  Lemma str_decides : forall m i d s f,
    define_type m (TAPrim i PStr) = Some d ->
    kws_val (S f) d (JStr s) = Some (admitsb true m (TAPrim i PStr) (VStr s)).
  Proof.
    intros m i d s f H. cbn [JsonSchemaGen.define_type ta_id] in H. rewrite pm_ok in H.
    injection H as <-. cbn [admitsb expected_jtype].
    destruct (cbv_get m i) as [c|]; [|reflexivity].
    rewrite <- (translate_str_spec i c s f).
    destruct (translate_constraints (TAPrim i PStr) c) as [[|base rest]|]; try reflexivity.
    change (match rest with
            | [] => KType TyString :: base
            | _ :: _ => KType TyString :: base ++ [KAllOf (map Schema rest)]
            end) with (all_of_as_mapping (([KType TyString] ++ base) :: rest)).
    rewrite all_of_as_mapping_val, kws_val_app.
    change (kws_val (S f) [KType TyString] (JStr s)) with (Some true).
    destruct (kws_val (S f) base (JStr s)) as [x|]; reflexivity.
  Qed.

  (** Byte arrays: the schema decides the rule *as visible on the base64 text*. *)
  Lemma bytes_decides : forall m i d b f,
    define_type m (TAPrim i PBytes) = Some d ->
    kws_val (S f) d (JStr (b64 b)) = Some (admitsb true m (TAPrim i PBytes) (VBytes b)).
  Proof.
    intros m i d b f H. cbn [JsonSchemaGen.define_type ta_id] in H. rewrite pm_ok in H.
    injection H as <-. cbn [admitsb expected_jtype].
    unfold text_len_okb, len_of.
    destruct (cbv_get m i) as [c|]; [|reflexivity].
    destruct c as [cl cp]. cbn [c_len c_patterns].
    unfold JsonSchemaGen.translate_constraints. cbn [is_str_or_bytes c_len c_patterns].
    rewrite ?app_nil_r.
    destruct cl as [[mn mx]|]; cbn [fst snd]; [|reflexivity].
    destruct mn as [mn|], mx as [mx|]; cbn; rewrite ?b64_len, ?andb_true_r; reflexivity.
  Qed.

  Lemma other_prims_decide : forall m i p d v f,
    p <> PStr -> p <> PBytes ->
    define_type m (TAPrim i p) = Some d -> typedb (TAPrim i p) v = true ->
    kws_val (S f) d (to_json v) = Some true.
  Proof.
    intros m i p d v f Hs Hb H Ht. cbn [JsonSchemaGen.define_type ta_id] in H. rewrite pm_ok in H.
    injection H as <-.
    destruct p; try congruence; destruct v; try discriminate;
      (destruct (cbv_get m i) as [c|]; [destruct c as [cl cp]|]); reflexivity.
  Qed.

  Theorem define_type_decides : forall m t d,
    prim_only t = true -> define_type m t = Some d ->
    forall v f, typedb t v = true -> (tdepth t + 2 <= f)%nat ->
    validates f (Schema d) (to_json v) = Some (admitsb true m t v).
  Proof.
    intros m t. induction t as [i p|i n|i n h|i it IH]; intros d Hp Hd v f Ht Hf;
      try discriminate.
    - destruct f as [|[|f]]; [cbn in Hf; lia|cbn in Hf; lia|].
      rewrite validates_kws.
      destruct p.
      + destruct v; try discriminate.
        rewrite (other_prims_decide m i PBool d (VBool b) f); try congruence; reflexivity.
      + destruct v; try discriminate.
        rewrite (other_prims_decide m i PInt d (VInt z) f); try congruence; reflexivity.
      + destruct v; try discriminate.
        rewrite (other_prims_decide m i PFloat d (VFloat integral tok) f); try congruence; reflexivity.
      + destruct v; try discriminate. apply str_decides. exact Hd.
      + destruct v; try discriminate. apply bytes_decides. exact Hd.
    - (* lists *)
      destruct v as [| | | | |l]; try discriminate.
      cbn [prim_only] in Hp. cbn [typedb] in Ht. cbn [tdepth] in Hf.
      cbn [JsonSchemaGen.define_type ta_id] in Hd.
      destruct (define_type m it) as [d'|] eqn:Ed'; [|discriminate].
      injection Hd as <-.
      destruct f as [|f]; [lia|]. rewrite validates_kws.
      assert (Hitems : kws_val f [KType TyArray; KItems (Schema d')] (to_json (VList l))
                       = Some (forallb (admitsb true m it) l)).
      { unfold kws_val. cbn [map valid_kw has_type JsonSchemaSpec.to_json all_opt].
        rewrite map_map.
        rewrite (all_opt_ext_some _ (admitsb true m it)).
        - cbn [andb]. rewrite andb_true_r. reflexivity.
        - intros x Hx. apply IH; [exact Hp|reflexivity| |lia].
          rewrite forallb_forall in Ht. apply Ht. exact Hx. }
      cbn [admitsb]. unfold len_okb, len_of.
      destruct (cbv_get m i) as [c|]; [|rewrite Hitems; reflexivity].
      destruct c as [cl cp]. cbn [c_len c_patterns].
      unfold JsonSchemaGen.translate_constraints. cbn [c_len c_patterns app].
      destruct cl as [[mn mx]|]; cbn [fst snd]; [|rewrite Hitems; reflexivity].
      destruct mn as [mn|], mx as [mx|]; cbn [opt_cons option_map all_of_as_mapping];
        try (rewrite Hitems; reflexivity);
        match goal with
        | |- kws_val f (?a :: ?b :: ?r) _ = _ => change (a :: b :: r) with ([a; b] ++ r)
        end;
        rewrite kws_val_app, Hitems;
        change (to_json (VList l)) with (JArr (map to_json l));
        unfold kws_val; cbn [map valid_kw all_opt min_okb max_okb];
        unfold zlen; rewrite ?map_length, ?andb_true_r; f_equal; btauto.
  Qed.

  (** ** Consequences *)
  Lemma b64len_ge : forall n, 0 <= n -> n <= b64len n.
  Proof.
    intros n Hn. unfold b64len.
    pose proof (Z.div_mod (n + 2) 3 ltac:(lia)) as H1.
    pose proof (Z.mod_pos_bound (n + 2) 3 ltac:(lia)) as H2. lia.
  Qed.

  Lemma b64len_mono : forall a b, a <= b -> b64len a <= b64len b.
  Proof.
    intros a b H. unfold b64len. apply Z.mul_le_mono_nonneg_l; [lia|].
    apply Z.div_le_mono; lia.
  Qed.

  Lemma len_ok_text : forall c n, 0 <= n -> len_okb c n = true -> text_len_okb c n = true.
  Proof.
    intros c n Hn. unfold len_okb, text_len_okb, min_okb, max_okb.
    pose proof (b64len_ge n Hn) as Hge.
    destruct (len_of c) as [[mn|] [mx|]]; cbn [fst snd option_map];
      rewrite ?andb_true_iff, ?Z.leb_le; intros H;
      try (pose proof (b64len_mono n mx ltac:(lia))); repeat split; try tauto; try lia.
  Qed.

  Lemma admits_real_text : forall m t v, admitsb false m t v = true -> admitsb true m t v = true.
  Proof.
    intros m t. induction t as [i p|i n|i n h|i it IH]; intros v H; try discriminate.
    - destruct p, v; try discriminate; try exact H.
      cbn [admitsb] in *. apply len_ok_text; [unfold zlen; lia|exact H].
    - destruct v as [| | | | |l]; try discriminate. cbn [admitsb] in *.
      apply andb_true_iff in H. destruct H as [H1 H2]. rewrite H1. cbn [andb].
      rewrite forallb_forall in *. intros x Hx. apply IH. apply H2. exact Hx.
  Qed.

  Lemma admits_no_bytes : forall m t v,
    no_bytes t = true -> admitsb true m t v = admitsb false m t v.
  Proof.
    intros m t. induction t as [i p|i n|i n h|i it IH]; intros v H; try reflexivity.
    - destruct p, v; try reflexivity. discriminate.
    - destruct v as [| | | | |l]; try reflexivity. cbn [admitsb no_bytes] in *.
      f_equal. induction l as [|x l IHl]; [reflexivity|]. cbn [forallb]. rewrite IH, IHl; auto.
  Qed.

  (** C11, value level: a value satisfying its inferred constraints validates. *)
  Theorem kw_sound : forall m t d v,
    prim_only t = true -> define_type m t = Some d ->
    typedb t v = true -> admitsb false m t v = true ->
    forall f, (tdepth t + 2 <= f)%nat -> validates f (Schema d) (to_json v) = Some true.
  Proof.
    intros m t d v Hp Hd Ht Ha f Hf.
    rewrite (define_type_decides m t d Hp Hd v f Ht Hf). rewrite admits_real_text; auto.
  Qed.

  (** C12, value level: a violation that the text view can express is rejected, whatever
      the fuel. *)
  Theorem kw_complete : forall m t d v,
    prim_only t = true -> define_type m t = Some d ->
    typedb t v = true -> admitsb true m t v = false ->
    forall f, validates f (Schema d) (to_json v) <> Some true.
  Proof.
    intros m t d v Hp Hd Ht Ha.
    apply (validates_false_never_true search16 defs (tdepth t + 2)).
    rewrite (define_type_decides m t d Hp Hd v _ Ht (le_n _)). rewrite Ha. reflexivity.
  Qed.

  (** ... in particular every violation in strings and lists (no byte arrays). *)
  Theorem kw_complete_str_list : forall m t d v,
    prim_only t = true -> no_bytes t = true -> define_type m t = Some d ->
    typedb t v = true -> admitsb false m t v = false ->
    forall f, validates f (Schema d) (to_json v) <> Some true.
  Proof.
    intros m t d v Hp Hn Hd Ht Ha. apply (kw_complete m t d v Hp Hd Ht).
    rewrite admits_no_bytes; assumption.
  Qed.

  (** The full completeness statement is false for byte arrays: 2 bytes against
      [max 1] serialise to 4 characters, exactly like 1 byte. *)
  Theorem kw_complete_bytes_refuted :
    exists m t d v,
      define_type m t = Some d /\ typedb t v = true /\ admitsb false m t v = false
      /\ validates 2 (Schema d) (to_json v) = Some true.
  Proof.
    exists [(0%N, mkC (Some (None, Some 1)) None)], (TAPrim 0 PBytes).
    eexists. exists (VBytes [0%N; 0%N]).
    split; [cbn [JsonSchemaGen.define_type]; rewrite pm_ok; reflexivity|].
    split; [reflexivity|]. split; [reflexivity|].
    apply (bytes_decides [(0%N, mkC (Some (None, Some 1)) None)] 0%N _ [0%N; 0%N] 0).
    cbn [JsonSchemaGen.define_type]. rewrite pm_ok. reflexivity.
  Qed.

  (** The root JSON type of a primitive / list definition. *)
  Definition root_jtype (t : tyanno) : option jtype :=
    match t with
    | TAPrim _ p => Some (expected_jtype p)
    | TAList _ _ => Some TyArray
    | _ => None
    end.

  Lemma in_all_of_as_mapping : forall k a b rest,
    In k a -> In k (all_of_as_mapping ((a ++ b) :: rest)).
  Proof.
    intros k a b rest H. destruct rest; cbn [all_of_as_mapping].
    - apply in_or_app. left. exact H.
    - apply in_or_app. left. apply in_or_app. left. exact H.
  Qed.

  Lemma define_type_has_type : forall m t d ty,
    define_type m t = Some d -> root_jtype t = Some ty -> In (KType ty) d.
  Proof.
    intros m t d ty Hd Hr. destruct t as [i p|i n|i n h|i it]; try discriminate.
    - cbn [JsonSchemaGen.define_type ta_id] in Hd. rewrite pm_ok in Hd.
      injection Hd as <-. injection Hr as <-.
      destruct (cbv_get m i) as [c|]; [|left; reflexivity].
      destruct (translate_constraints (TAPrim i p) c) as [[|base rest]|];
        try (left; reflexivity).
      destruct rest; cbn; left; reflexivity.
    - cbn [JsonSchemaGen.define_type ta_id] in Hd.
      destruct (define_type m it) as [d'|]; [|discriminate].
      injection Hd as <-. injection Hr as <-.
      destruct (cbv_get m i) as [c|]; [|left; reflexivity].
      destruct (translate_constraints (TAList i it) c) as [[|base rest]|];
        try (left; reflexivity).
      destruct rest; cbn; left; reflexivity.
  Qed.

  (** C12: a mistyped value is rejected. *)
  Theorem mistyped_rejected : forall m t d ty j,
    define_type m t = Some d -> root_jtype t = Some ty -> has_type ty j = false ->
    forall f, validates f (Schema d) j <> Some true.
  Proof.
    intros m t d ty j Hd Hr Hty f. destruct f as [|f]; [discriminate|].
    apply (validates_kw_rejects search16 defs f (Schema d) j (KType ty)).
    - exact (define_type_has_type m t d ty Hd Hr).
    - cbn. rewrite Hty. discriminate.
  Qed.
End ValueLevel.
