"""Seeded generator of valid Python texts in the style of a meta-model (C04).

Everything is derived from the ``rng`` passed in. The texts exercise what matters for
offset -> (line, column) mapping: blank lines (empty, blanks, tabs), comments with
non-ASCII / astral characters, strings with such characters (so that UTF-8 byte
offsets differ from character offsets), multi-line constructs (parentheses, triple
quotes, continuation lines), decorators, nested blocks, LF and CRLF line ends,
missing final line break, unusual first lines."""
from __future__ import annotations

NAMES = ["x", "y", "self", "value", "Something", "a_b", "é", "名前", "items", "T"]
STRS = ["'a'", '"é"', "'😀'", '"x😀y"', "'''m\nl'''", '"""d😀\n  é\n"""', "b'ab'", "''", "'\\n'"]
COMMENTS = ["# c", "#", "# é😀 é", "#\t tab", "# fmt: off", "#    "]


def expr(rng, depth=0):
    k = rng.randrange(16 if depth < 3 else 5)
    if k == 0:
        return rng.choice(NAMES)
    if k == 1:
        return str(rng.choice([0, 1, 42, 1000]))
    if k == 2:
        return rng.choice(STRS)
    if k == 3:
        return rng.choice(["None", "True", "False"])
    if k == 4:
        return f"{rng.choice(NAMES)}.{rng.choice(NAMES)}"
    if k == 5:
        args = [expr(rng, depth + 1) for _ in range(rng.randrange(3))]
        if rng.random() < 0.4:
            args.append(f"{rng.choice(['k', 'key', 'é'])}={expr(rng, depth + 1)}")
        sep = rng.choice([", ", ",", ",\n      ", " ,  "])
        return f"{rng.choice(NAMES)}({sep.join(args)})"
    if k == 6:
        op = rng.choice(["==", "!=", "<", "<=", "in", "is not", "is"])
        return f"{expr(rng, depth + 1)} {op} {expr(rng, depth + 1)}"
    if k == 7:
        op = rng.choice(["and", "or"])
        return f"({expr(rng, depth + 1)} {op} {expr(rng, depth + 1)})"
    if k == 8:
        return f"not {expr(rng, depth + 1)}"
    if k == 9:
        return f"(lambda {rng.choice(NAMES)}: {expr(rng, depth + 1)})"
    if k == 10:
        return f"{rng.choice(NAMES)}[{expr(rng, depth + 1)}]"
    if k == 11:
        inner = [expr(rng, depth + 1) for _ in range(rng.randrange(1, 4))]
        o, c = rng.choice([("(", ",)"), ("[", "]"), ("(\n   ", "\n,)")])
        return o + ", ".join(inner) + c
    if k == 12:
        v = rng.choice(NAMES)
        return f"all({expr(rng, depth + 1)} for {v} in {expr(rng, depth + 1)})"
    if k == 13:
        conv = rng.choice(["", "", "!r"])
        return f"f'^{{{rng.choice(NAMES)}{conv}}}é{{{rng.choice(NAMES)}}}$'"
    if k == 14:
        return f"({expr(rng, depth + 1)} if {expr(rng, depth + 1)} else {expr(rng, depth + 1)})"
    return f"({expr(rng, depth + 1)}) + \\\n  ({expr(rng, depth + 1)})"


def annotation(rng):
    return rng.choice(["int", "str", "Optional[int]", "List['X']", "é"])


def block(rng, ind, unit, depth=0):
    """Lines of a non-empty statement block at indentation ``ind``."""
    out = []
    for _ in range(rng.randrange(1, 4)):
        k = rng.randrange(12)
        if rng.random() < 0.2:
            out.append(rng.choice(["", ind, "\t", "   "]))
        if rng.random() < 0.2:
            out.append(ind + rng.choice(COMMENTS))
        if k == 0:
            out.append(f"{ind}pass")
        elif k == 1:
            out.append(f"{ind}return {expr(rng)}")
        elif k == 2:
            out.append(f"{ind}assert {expr(rng)}, {rng.choice(STRS)}")
        elif k == 3:
            out.append(f"{ind}{rng.choice(NAMES)}: {annotation(rng)}")
        elif k == 4:
            out.append(f"{ind}{rng.choice(NAMES)} = {expr(rng)}")
        elif k == 5:
            out.append(f"{ind}{rng.choice(STRS[-6:-3])}")
        elif k == 6 and depth < 2:
            out.append(f"{ind}if {expr(rng)}:")
            out += block(rng, ind + unit, unit, depth + 1)
            if rng.random() < 0.5:
                out.append(f"{ind}else:")
                out += block(rng, ind + unit, unit, depth + 1)
        elif k == 7 and depth < 2:
            out.append(f"{ind}for {rng.choice(NAMES)} in {expr(rng)}:")
            out += block(rng, ind + unit, unit, depth + 1)
        elif k == 8 and depth < 2:
            for _ in range(rng.randrange(3)):
                out.append(f"{ind}@{rng.choice(['require', 'invariant', 'abstract'])}"
                           + rng.choice(["", f"({expr(rng)})", f"(\n{ind}  {expr(rng)},\n{ind}  {rng.choice(STRS[:4])})"]))
            args = ", ".join(f"{n}: {annotation(rng)}" for n in rng.sample(NAMES[:6], rng.randrange(3)))
            out.append(f"{ind}def {rng.choice(NAMES)}({args}) -> {annotation(rng)}:")
            out += block(rng, ind + unit, unit, depth + 1)
        elif k == 9 and depth < 2:
            for _ in range(rng.randrange(2)):
                out.append(f"{ind}@{rng.choice(['abstract', 'template', 'reference_in_the_book'])}"
                           + rng.choice(["", f"(section=(1, 2), index=3)"]))
            bases = rng.choice(["", "(DBC)", "(Enum)", "(A, B)"])
            out.append(f"{ind}class {rng.choice(NAMES)}{bases}:")
            out += block(rng, ind + unit, unit, depth + 1)
        elif k == 10:
            out.append(f"{ind}{rng.choice(NAMES)} = {expr(rng)}; {rng.choice(NAMES)} = {expr(rng)}")
        else:
            out.append(f"{ind}{expr(rng)}")
    return out


def program(rng) -> str:
    unit = rng.choice(["    ", "    ", "  ", "\t"])
    lines = []
    first = rng.randrange(10)
    if first == 0:
        lines.append("  ")
    elif first == 1:
        lines.append("   # indented comment on the first line")
    elif first == 2:
        lines.append("")
    elif first == 3:
        lines.append('"""Doc é😀."""')
    elif first == 4:
        lines.append("\t")
    elif first == 5:
        lines.append("# é")
    for _ in range(rng.randrange(1, 5)):
        lines += block(rng, "", unit)
        if rng.random() < 0.5:
            lines.append(rng.choice(["", "  ", "# c"]))
    eol = rng.choice(["\n", "\n", "\n", "\r\n"])
    text = "\n".join(lines)
    if rng.random() < 0.8:
        text += "\n" * rng.choice([1, 1, 2])
    return text.replace("\n", eol)


def raw_text(rng) -> str:
    """Arbitrary text for the character loop (not necessarily Python)."""
    alpha = ["a", "b", " ", "\n", "\n", "\r", "\t", "\r\n", "é", "😀", "\x0b", "\x0c",
             " ", "\x85", "\ud800", "\x00", "#", "\n\n"]
    n = rng.choice([0, 1, 2, 3, 5, 8, 13, 30, 80])
    return "".join(rng.choice(alpha) for _ in range(n))
