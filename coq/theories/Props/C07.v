(** C07 — Type-checked invariants cannot fail at run time.

    Theorems over the models [Model/TypeInf.v] (type inference with None-narrowing through
    canonical keys, [intermediate/type_inference.py], incl. the None-safety fix of
    work/fixes/C07-*.patch) and [Model/PyEval.v] (Python evaluation of the invariant on an
    instance). This file contains only statements, [exact]s and [Print Assumptions].

    Hypotheses shared by the theorems:
    - [symtab_ok S]: descendants keep properties/methods, no method named like a property,
      no verification function named [len];
    - [env_ok S G r]: every name of the typing environment is bound to a value of its type
      (this is "the instance conforms to the declared types, None only where Optional":
      see [conf]); [fn_ok]/[meth_ok]: verification functions and methods, given None only
      for Optional parameters, return a value of their declared type or raise something that
      is not a None-dereference;
    - [keys_inj root]: the operand of a None-test of the invariant (the only source of
      non-null keys) shares its canonical representation with no other sub-expression.
      It is PROVED ([C07_canon_path_inj], [C07_guards_keys_inj]) for every invariant whose
      None-tests are all on access paths [x.a.b...] and whose identifiers are Python
      identifiers ([guards_on_paths], a syntactic, executable condition), so
      [C07_infer_none_safe_paths] has no such side condition. For None-tests on other
      expressions (calls, indexed elements) it remains a hypothesis, decidable per invariant
      ([keys_distinctb]) and evaluated on every invariant of every run. Full syntactic
      injectivity of [_Canonicalizer] is false: [f"a"] and ["a"] both print as ['a']. *)
From Coq Require Import List NArith ZArith Bool.
From Coq Require Strings.String.
Import Coq.Strings.String.StringSyntax.
From Acg Require Import Base.Str Model.Tree Model.PyEval Model.TypeInf
  Proofs.TypeInfFacts Proofs.TypeInfCanon Proofs.TypeInfWitness.
Import ListNotations.
Open Scope Z_scope.

(** Main theorem (soundness of the None-narrowing): an accepted invariant, evaluated with
    Python semantics on a conforming instance, never dereferences None — no attribute
    access, call, index, [len], iteration, [in], ordering comparison or arithmetic on
    None — for all symbol tables, invariants, instances and fuels. *)
Theorem C07_infer_none_safe :
  forall (S : symtab) (fuel : nat) (root : expr) (G : tenv) (r : env) (t : ty),
    symtab_ok S -> keys_inj root ->
    infer false S G [] root = Some t ->
    env_ok S G r -> fn_ok S r -> meth_ok S r ->
    eval r root fuel <> Raise NoneDeref.
Proof. exact infer_no_none_deref. Qed.
Print Assumptions C07_infer_none_safe.

(** The canonical representation of an access path is shared by no other well-formed
    expression (all expressions: calls, constants with arbitrary strings/numbers, f-strings,
    quantifiers, ...). *)
Theorem C07_canon_path_inj :
  forall p, is_path p = true -> wf_expr p = true ->
  forall e, wf_expr e = true -> canon e = canon p -> e = p.
Proof. exact canon_path_inj. Qed.
Print Assumptions C07_canon_path_inj.

Theorem C07_guards_keys_inj : forall root, guards_on_paths root = true -> keys_inj root.
Proof. exact guards_keys_inj. Qed.
Print Assumptions C07_guards_keys_inj.

(** Main theorem without the side condition, for invariants whose None-tests are on access
    paths (all invariants of the real-world meta-models are of this form). *)
Theorem C07_infer_none_safe_paths :
  forall (S : symtab) (fuel : nat) (root : expr) (G : tenv) (r : env) (t : ty),
    symtab_ok S -> guards_on_paths root = true ->
    infer false S G [] root = Some t ->
    env_ok S G r -> fn_ok S r -> meth_ok S r ->
    match eval r root fuel with
    | Val v => conf S t v
    | Raise x => x <> NoneDeref
    end.
Proof. exact infer_none_safe_paths. Qed.
Print Assumptions C07_infer_none_safe_paths.

Example C07_guards_on_paths_nonvacuous :
  guards_on_paths w_guard = true
  /\ guards_on_paths (Or [IsNone (FunctionCall (s2l "f") [self_ "o"]); self_ "i"]) = false.
Proof. vm_compute. split; reflexivity. Qed.
Print Assumptions C07_guards_on_paths_nonvacuous.

(** ... and its result, if any, has the inferred type ([conf]; for [bool] this only says
    "not None", see below); raised exceptions are never None-dereferences. *)
Theorem C07_infer_type_sound :
  forall (S : symtab) (fuel : nat) (root : expr) (G : tenv) (r : env) (t : ty),
    symtab_ok S -> keys_inj root ->
    infer false S G [] root = Some t ->
    env_ok S G r -> fn_ok S r -> meth_ok S r ->
    match eval r root fuel with
    | Val v => conf S t v
    | Raise x => x <> NoneDeref
    end.
Proof. exact infer_none_safe. Qed.
Print Assumptions C07_infer_type_sound.

(** Narrowed keys only depend on names of the typing environment: the fact that makes the
    keys survive the binding of loop variables. *)
Theorem C07_typable_stable :
  forall (S : symtab) (fuel : nat) (e : expr) (G : tenv),
    typable S G e -> stable fuel G e.
Proof. exact infer_stable. Qed.
Print Assumptions C07_typable_stable.

(** FULL STATEMENT of the property (not provable, see the refutation below):
      infer false S G [] root = Some (TPrim PBool) -> ... ->
      (exists b, eval r root fuel = Val (VBool b)) \/ eval r root fuel = Raise IndexErr.
    INTENDED partial form: the same conclusion under the exclusion predicate
      [infer true S G [] root = Some (TPrim PBool)]
    (operands of ordering comparisons comparable, [in] on containers, [and]/[or]/consequent
    boolean, [len] of lengthable, call arguments assignable). That theorem is NOT proved; the
    implication is exercised on every run by the oracle (an accepted invariant that fails at
    run time although the strict typing accepts it is reported as a new violation).
    What is proved for bool-typed invariants is the weaker: the value is never None. *)
Theorem C07_infer_bool_partial :
  forall (S : symtab) (fuel : nat) (root : expr) (G : tenv) (r : env),
    symtab_ok S -> keys_inj root ->
    infer false S G [] root = Some (TPrim PBool) ->
    env_ok S G r -> fn_ok S r -> meth_ok S r ->
    forall v, eval r root fuel = Val v -> v <> VNone.
Proof.
  intros S fuel root G r HS Hk Hi He Hf Hm v Hv.
  pose proof (infer_none_safe S fuel root G r _ HS Hk Hi He Hf Hm) as H.
  rewrite Hv in H. inversion H; assumption.
Qed.
Print Assumptions C07_infer_bool_partial.

(** The full statement is false: accepted invariants raise TypeError ([self.i < self.s],
    [len(self.i) > 0]) or yield a non-boolean ([self.i and self.s]) on a conforming
    instance. The witnesses are replayed against the real code in every run (corpus). *)
Theorem C07_infer_bool_refuted :
  exists S G r e fuel,
    symtab_ok S /\ keys_inj e /\ env_ok S G r /\ fn_ok S r /\ meth_ok S r
    /\ infer false S G [] e = Some (TPrim PBool)
    /\ ~ yields_bool_or_index_error (eval r e fuel).
Proof. exact infer_bool_refuted. Qed.
Print Assumptions C07_infer_bool_refuted.

Theorem C07_infer_bool_refuted_all_witnesses : forall e,
  (e = w_cmp \/ e = w_and \/ e = w_len) ->
  symtab_ok wS /\ keys_inj e /\ env_ok wS wG wR /\ fn_ok wS wR /\ meth_ok wS wR
  /\ infer false wS wG [] e = Some (TPrim PBool)
  /\ ~ yields_bool_or_index_error (eval wR e 8).
Proof. exact bool_refuted_witness. Qed.
Print Assumptions C07_infer_bool_refuted_all_witnesses.

(** The exclusion predicate rejects exactly these witnesses and keeps the guarded one. *)
Example C07_strict_excludes_witnesses :
  infer true wS wG [] w_cmp = None /\ infer true wS wG [] w_and = None
  /\ infer true wS wG [] w_len = None
  /\ infer true wS wG [] w_guard = Some (TPrim PBool).
Proof. exact strict_excludes_witnesses. Qed.
Print Assumptions C07_strict_excludes_witnesses.

(** Non-vacuity of the main theorem: all hypotheses hold for a concrete class, instance
    (Optional property = None) and guarded invariant, which is accepted and evaluates to
    [True]; the unguarded use is rejected (and would dereference None), so is the guard on
    the wrong branch, [len] of an Optional, and an Optional consequent. *)
Example C07_none_safe_nonvacuous :
  symtab_ok wS /\ keys_inj w_guard /\ env_ok wS wG wR /\ fn_ok wS wR /\ meth_ok wS wR
  /\ infer false wS wG [] w_guard = Some (TPrim PBool)
  /\ eval wR w_guard 8 = Val (VBool true)
  /\ infer false wS wG [] (Comparison Gt (self_ "o") (Constant (CInt 0))) = None
  /\ eval wR (Comparison Gt (self_ "o") (Constant (CInt 0))) 8 = Raise NoneDeref
  /\ infer false wS wG []
       (Or [IsNotNone (self_ "o"); Comparison Gt (self_ "o") (Constant (CInt 0))]) = None
  /\ infer false wS wG []
       (Comparison Gt (FunctionCall (s2l "len") [self_ "o"]) (Constant (CInt 0))) = None
  /\ infer false wS wG []
       (Implication (Comparison Gt (self_ "i") (Constant (CInt 0))) (self_ "o")) = None.
Proof. exact none_safe_nonvacuous. Qed.
Print Assumptions C07_none_safe_nonvacuous.
