"""Adapter for C17: run the regex front end and the UTF-16 rewriting of the tree under test.

JSON stdin: list of patterns (each a list of code points, so that lone surrogates and
astral characters survive the pipe).  JSON stdout: one object per pattern

    {"parse": "ok" | "err" | "exc:<Type>",
     "orig":  <tree>,                      # parse_retree.parse([pattern]) before the fix
     "fix":   "ok" | "exc:<Type>",
     "fixed": <tree>,                      # after fix_for_utf16_regex_in_place
     "render": [code points],              # parse_retree.render of the fixed tree
     "public": "same" | "differs" | "exc:<Type>"}   # jsonschema.main.fix_pattern_for_utf16

tree  ::= [concat, ...]                    (UnionExpr.uniates)
concat::= [term, ...]                      (Concatenation.concatenants)
term  ::= {"k":"char","c":code,"e":bool,"q":q} | {"k":"set","n":bool,"rs":[[c,e,c2|null,e2|null],..],"q":q}
        | {"k":"sym","y":"^"|"$"|".","q":q} | {"k":"group","u":tree,"q":q}
q     ::= null | [non_greedy, minimum, maximum|null]
"""
import json
import sys

from aas_core_codegen.parse import retree as parse_retree
from aas_core_codegen.parse.retree import _types as T
from aas_core_codegen.jsonschema.main import fix_pattern_for_utf16


def dump_q(q):
    if q is None:
        return None
    return [bool(q.non_greedy), int(q.minimum), None if q.maximum is None else int(q.maximum)]


def dump_union(u):
    return [dump_concat(c) for c in u.uniates]


def dump_concat(c):
    return [dump_term(t) for t in c.concatenants]


def dump_term(t):
    v = t.value
    q = dump_q(t.quantifier)
    if isinstance(v, T.Char):
        return {"k": "char", "c": ord(v.character), "e": bool(v.explicitly_encoded), "q": q}
    if isinstance(v, T.CharSet):
        rs = []
        for r in v.ranges:
            if r.end is None:
                rs.append([ord(r.start.character), bool(r.start.explicitly_encoded), None, None])
            else:
                rs.append([ord(r.start.character), bool(r.start.explicitly_encoded),
                           ord(r.end.character), bool(r.end.explicitly_encoded)])
        return {"k": "set", "n": bool(v.complementing), "rs": rs, "q": q}
    if isinstance(v, T.Symbol):
        return {"k": "sym", "y": v.kind.value, "q": q}
    if isinstance(v, T.Group):
        return {"k": "group", "u": dump_union(v.union), "q": q}
    raise TypeError(f"unexpected term value {type(v).__name__}")


def one(codes):
    pattern = "".join(chr(c) for c in codes)
    out = {}
    try:
        regex, error = parse_retree.parse([pattern])
    except BaseException as e:  # noqa
        return {"parse": "exc:" + type(e).__name__}
    if error is not None:
        return {"parse": "err"}
    out["parse"] = "ok"
    out["orig"] = dump_union(regex.union)
    try:
        parse_retree.fix_for_utf16_regex_in_place(regex)
    except BaseException as e:  # noqa
        out["fix"] = "exc:" + type(e).__name__
        return out
    out["fix"] = "ok"
    out["fixed"] = dump_union(regex.union)
    parts = parse_retree.render(regex=regex)
    rendered = "".join(parts)
    out["render"] = [ord(c) for c in rendered]
    try:
        public = fix_pattern_for_utf16(pattern)
        out["public"] = "same" if public == rendered else "differs"
    except BaseException as e:  # noqa
        out["public"] = "exc:" + type(e).__name__
    return out


def main():
    cases = json.load(sys.stdin)
    json.dump([one(c) for c in cases], sys.stdout)


main()
