(** C19 — Python 3 short string / bytes literal lexer (Language Reference §2.4.1,
    "String and Bytes literals": no prefix resp. prefix [b], single or double quote,
    not triple quoted, not raw). Source is UTF-8: NUL and surrogate code points cannot
    occur in a source file. [\N{name}] is not modelled ([None]).
    Executable definitions only. *)
From Coq Require Import List NArith Bool.
From Acg Require Import Base.Str Model.LexCore.
Import ListNotations.
Open Scope N_scope.

Inductive py_state : Type :=
| PyStart
| PyBody (q : N)
| PyEsc (q : N)
| PyHex (q : N) (remaining : nat) (acc : N)   (* \xHH \uHHHH \UHHHHHHHH *)
| PyOct (q : N) (seen : nat) (acc : N)        (* 1..3 octal digits *)
| PyDone.

Definition py_body_char (q c : N) : option (py_state * text) :=
  if c =? q then Some (PyDone, [])
  else if c =? 92 then Some (PyEsc q, [])
  else if (c =? 10) || (c =? 13) || (c =? 0) then None
  else if negb (source_char c) then None
  else Some (PyBody q, [c]).

Definition py_simple_escape (c : N) : option N :=
  if c =? 92 then Some 92 else if c =? 39 then Some 39 else if c =? 34 then Some 34
  else if c =? 97 then Some 7 else if c =? 98 then Some 8 else if c =? 102 then Some 12
  else if c =? 110 then Some 10 else if c =? 114 then Some 13 else if c =? 116 then Some 9
  else if c =? 118 then Some 11 else None.

Definition py_step (st : py_state) (c : N) : option (py_state * text) :=
  match st with
  | PyStart => if (c =? 39) || (c =? 34) then Some (PyBody c, []) else None
  | PyBody q => py_body_char q c
  | PyEsc q =>
      match py_simple_escape c with
      | Some v => Some (PyBody q, [v])
      | None =>
          if c =? 10 then Some (PyBody q, [])              (* backslash-newline *)
          else if c =? 120 then Some (PyHex q 2 0, [])
          else if c =? 117 then Some (PyHex q 4 0, [])
          else if c =? 85 then Some (PyHex q 8 0, [])
          else if c =? 78 then None                        (* \N{...}: not modelled *)
          else match oct_val c with
               | Some d => Some (PyOct q 1 d, [])
               | None =>
                   (* unrecognised escape: backslash stays in the result *)
                   if (c =? 13) || (c =? 0) || negb (source_char c) then None
                   else Some (PyBody q, [92; c])
               end
      end
  | PyHex q remaining acc =>
      match hex_val c with
      | None => None
      | Some d =>
          let v := acc * 16 + d in
          match remaining with
          | O => None
          | S O => if v <=? 1114111 then Some (PyBody q, [v]) else None
          | S k => Some (PyHex q k v, [])
          end
      end
  | PyOct q seen acc =>
      match oct_val c, seen with
      | Some d, 1%nat => Some (PyOct q 2 (acc * 8 + d), [])
      | Some d, 2%nat => Some (PyBody q, [acc * 8 + d])
      | _, _ =>
          match py_body_char q c with
          | Some (st', out) => Some (st', acc :: out)
          | None => None
          end
      end
  | PyDone => None
  end.

Definition lex_py (l : text) : option text :=
  match run py_step PyStart l with
  | Some (PyDone, v) => Some v
  | _ => None
  end.

(** [str.format] un-escaping of doubled braces; a single brace would be a
    replacement field. *)
Fixpoint fmt_unescape (t : text) : option text :=
  match t with
  | [] => Some []
  | 123 :: 123 :: r => option_map (cons 123) (fmt_unescape r)
  | 125 :: 125 :: r => option_map (cons 125) (fmt_unescape r)
  | c :: r => if (c =? 123) || (c =? 125) then None else option_map (cons c) (fmt_unescape r)
  end.

(** Bytes literal(s): [b"..."] pieces separated by blanks / newlines (adjacent
    literals are concatenated inside the parentheses the generator puts around them). *)
Inductive pyb_state : Type :=
| BStart | BPrefix | BBody (q : N) | BEsc (q : N) | BHex (q : N) (remaining : nat) (acc : N)
| BOct (q : N) (seen : nat) (acc : N) | BDone.

Definition pyb_body_char (q c : N) : option (pyb_state * text) :=
  if c =? q then Some (BDone, [])
  else if c =? 92 then Some (BEsc q, [])
  else if (c =? 10) || (c =? 13) || (c =? 0) then None
  else if 128 <=? c then None
  else Some (BBody q, [c]).

Definition pyb_step (st : pyb_state) (c : N) : option (pyb_state * text) :=
  match st with
  | BStart => if c =? 98 then Some (BPrefix, []) else None
  | BPrefix => if (c =? 39) || (c =? 34) then Some (BBody c, []) else None
  | BBody q => pyb_body_char q c
  | BEsc q =>
      match py_simple_escape c with
      | Some v => Some (BBody q, [v])
      | None =>
          if c =? 10 then Some (BBody q, [])
          else if c =? 120 then Some (BHex q 2 0, [])
          else match oct_val c with
               | Some d => Some (BOct q 1 d, [])
               | None => if (c =? 13) || (c =? 0) || (128 <=? c) then None
                         else Some (BBody q, [92; c])
               end
      end
  | BHex q remaining acc =>
      match hex_val c with
      | None => None
      | Some d =>
          let v := acc * 16 + d in
          match remaining with
          | O => None
          | S O => Some (BBody q, [v])
          | S k => Some (BHex q k v, [])
          end
      end
  | BOct q seen acc =>
      match oct_val c, seen with
      | Some d, 1%nat => Some (BOct q 2 (acc * 8 + d), [])
      | Some d, 2%nat => if acc * 8 + d <=? 255 then Some (BBody q, [acc * 8 + d]) else None
      | _, _ =>
          match pyb_body_char q c with
          | Some (st', out) => Some (st', acc :: out)
          | None => None
          end
      end
  | BDone => if (c =? 10) || (c =? 32) then Some (BDone, [])
             else if c =? 98 then Some (BPrefix, []) else None
  end.

Definition lex_py_bytes (l : text) : option (list N) :=
  match run pyb_step BStart l with
  | Some (BDone, v) => Some v
  | _ => None
  end.
