(** Model of [aas_core_codegen/yielding/flow.py]: the structured control flow of
    commands, if/else, for, while and yield — and its reference semantics.

    A node is modelled *after construction* (conditions already stripped by the
    constructors); the icontract precondition [len(body) >= 1] of [IfTrue]/[IfFalse]
    is the decidable predicate [wf_flow].

    Semantics: a work-list machine over a condition oracle. The configuration is the
    list of nodes that remain to be executed; every step executes the first node and
    emits exactly one observable event (a command, a condition evaluation with its
    outcome, a yield, or the final [EDone]), so the number of steps is the number of
    events and no other fuel is needed. The oracle is the infinite sequence of
    condition outcomes, consumed in order. Executable definitions only. *)
From Coq Require Import List NArith Bool.
From Acg Require Import Base.Str.
Import ListNotations.

Inductive node : Type :=
| NCommand (code : text)
| NIfTrue (cond : text) (body : list node) (or_else : option (list node))
| NIfFalse (cond : text) (body : list node) (or_else : option (list node))
| NFor (init : option text) (cond iter : text) (body : list node)
| NWhile (cond : text) (body : list node)
| NYield.

Definition is_nil {A} (l : list A) : bool := match l with [] => true | _ => false end.

(** The class preconditions of flow.py ([@require(lambda body: len(body) >= 1)]). *)
Fixpoint wf_node (n : node) : bool :=
  match n with
  | NCommand _ | NYield => true
  | NIfTrue _ b oe | NIfFalse _ b oe =>
      negb (is_nil b) && forallb wf_node b
      && match oe with None => true | Some e => forallb wf_node e end
  | NFor _ _ _ b | NWhile _ b => forallb wf_node b
  end.
Definition wf_flow (f : list node) : bool := forallb wf_node f.

(** Observable events. [EDone] marks regular termination, [EStuck] the C++
    [default: throw std::logic_error] of the generated state machine (a jump to a
    state that is no case label); the structured semantics never emits [EStuck]. *)
Inductive event : Type :=
| ECmd (code : text)
| ECond (cond : text) (outcome : bool)
| EYield
| EDone
| EStuck.

Definition oracle := nat -> bool.

Inductive sconf : Type :=
| SRun (work : list node)
| SHalt.

Definition or_nil (oe : option (list node)) : list node :=
  match oe with Some e => e | None => [] end.

(** One step = one event. [i] is the number of conditions evaluated so far. *)
Definition struct_step (orc : oracle) (w : list node) (i : nat) : event * sconf * nat :=
  match w with
  | [] => (EDone, SHalt, i)
  | NCommand c :: r => (ECmd c, SRun r, i)
  | NYield :: r => (EYield, SRun r, i)
  | NIfTrue c b oe :: r =>
      let v := orc i in
      (ECond c v, SRun (if v then b ++ r else or_nil oe ++ r), S i)
  | NIfFalse c b oe :: r =>
      let v := orc i in
      (ECond c v, SRun (if v then or_nil oe ++ r else b ++ r), S i)
  | NWhile c b :: r =>
      let v := orc i in
      (ECond c v, SRun (if v then b ++ NWhile c b :: r else r), S i)
  | NFor (Some ini) c it b :: r => (ECmd ini, SRun (NFor None c it b :: r), i)
  | NFor None c it b :: r =>
      let v := orc i in
      (ECond c v, SRun (if v then b ++ NCommand it :: NFor None c it b :: r else r), S i)
  end.

Fixpoint struct_run (orc : oracle) (k : nat) (c : sconf) (i : nat)
  : list event * sconf * nat :=
  match k with
  | O => ([], c, i)
  | S k' =>
      match c with
      | SHalt => ([], SHalt, i)
      | SRun w =>
          let '(e, c1, i1) := struct_step orc w i in
          let '(t, c2, i2) := struct_run orc k' c1 i1 in
          (e :: t, c2, i2)
      end
  end.

(** The first [k] events of the structured flow under the oracle. *)
Definition run_struct (k : nat) (f : list node) (orc : oracle) : list event :=
  fst (fst (struct_run orc k (SRun f) 0)).
