(** C20 — executable models (no proofs here) of

    - [python/description.py:docstring], the [documentation_comment] wrappers of
      python / typescript / java / cpp / golang, [cpp/common.py:non_documentation_comment],
      [csharp/description.py:_slash_slash_slash_line] mapped over [splitlines()];
    - [xml.sax.saxutils.escape] / [quoteattr] as used by [csharp/description.py];
    - the Python [str] primitives they use: [splitlines], [strip]-is-empty, [replace];
    - the *terminator lexers* of the target languages: end of a Python triple-quoted
      string, end of a [/* */] comment, Java's unicode-escape pre-pass, line comments
      (with C/C++ backslash-newline splicing), XML character data / attribute values.

    The constants of the wrappers (prefixes, replacement chains, the length limit) are
    NOT written here: they are arguments, instantiated in [Props/C20.v] with the values
    re-translated from the sources on every run ([Gen/GenComments.v]). *)
From Coq Require Import List NArith ZArith Bool.
From Coq Require Strings.String.
Import Coq.Strings.String.StringSyntax.
From Acg Require Import Base.Str.
Import ListNotations.
Open Scope N_scope.

(* ------------------------------------------------------------------ *)
(** * Python str primitives *)

(** [str.splitlines()] (keepends=False). [breaks] are the code points at which the
    running interpreter breaks lines; [\r\n] counts as one break. [prev_cr] is true
    directly after a [\r] break. *)
Fixpoint splitlines_from (breaks : list N) (prev_cr : bool) (t : text) : list text :=
  match t with
  | [] => []
  | c :: r =>
      if prev_cr && (c =? NL) then splitlines_from breaks false r
      else if memN c breaks then [] :: splitlines_from breaks (c =? CR) r
      else match splitlines_from breaks false r with
           | h :: tl => (c :: h) :: tl
           | [] => [[c]]
           end
  end.
Definition splitlines (breaks : list N) (t : text) : list text := splitlines_from breaks false t.

(** [len(line.strip()) == 0] *)
Definition is_blank (spaces : list N) (line : text) : bool := forallb (fun c => memN c spaces) line.
Definition is_nil (line : text) : bool := match line with [] => true | _ => false end.

(** [str.replace(old, new)] for a non-empty [old]: leftmost non-overlapping matches.
    Fuel = length of the text (enough: every step consumes at least one character). *)
Fixpoint replace_fuel (n : nat) (old new t : text) : text :=
  match n with
  | O => t
  | S n' =>
      match t with
      | [] => []
      | c :: r =>
          if starts_with old t then new ++ replace_fuel n' old new (skipn (length old) t)
          else c :: replace_fuel n' old new r
      end
  end.
Definition replace (old new t : text) : text :=
  match old with
  | [] => t      (* not used by the modelled code; Props/C20.v checks the patterns are non-empty *)
  | _ => replace_fuel (length t) old new t
  end.

Definition apply_repls (repls : list (text * text)) (t : text) : text :=
  fold_left (fun acc p => replace (fst p) (snd p) acc) repls t.

(* ------------------------------------------------------------------ *)
(** * The wrappers *)

(** [python/description.py:docstring]:
    escaped = text.replace(..).replace(..)
    if a + len(escaped) + b < limit [and not escaped.endswith(s) ...]: short form
    else: long form *)
Definition docstring (repls : list (text * text)) (addends : Z * Z * Z) (excluded : list text)
    (short long : text * text) (t : text) : text :=
  let e := apply_repls repls t in
  let '(a, b, limit) := addends in
  if ((a + zlen e + b <? limit)%Z && negb (existsb (fun s => ends_with s e) excluded))%bool
  then fst short ++ e ++ snd short
  else fst long ++ e ++ snd long.

(** The line wrappers all have the shape
      open ++ sep.join(render(line) for line in text.splitlines()) ++ close
    with render(line) = empty            if the line is blank (strip) / empty (len),
                        prefix ++ replacements(line) ++ suffix   otherwise. *)
Record line_cfg := {
  c_open : text; c_prefix : text; c_suffix : text; c_empty : text; c_sep : text;
  c_close : text; c_by_strip : bool; c_repls : list (text * text); c_stripped : bool }.

Definition mk_cfg (g : text * text * text * text * text * text * bool * list (text * text) * bool)
    : line_cfg :=
  let '(o, p, s, e, sp, c, b, r, st) := g in
  {| c_open := o; c_prefix := p; c_suffix := s; c_empty := e; c_sep := sp; c_close := c;
     c_by_strip := b; c_repls := r; c_stripped := st |}.

Definition render_line (spaces : list N) (cfg : line_cfg) (line : text) : text :=
  if (if c_by_strip cfg then is_blank spaces line else is_nil line)
  then c_empty cfg
  else c_prefix cfg ++ apply_repls (c_repls cfg) line ++ c_suffix cfg.

Definition wrap_lines (breaks spaces : list N) (cfg : line_cfg) (t : text) : text :=
  c_open cfg ++ join (c_sep cfg) (map (render_line spaces cfg) (splitlines breaks t)) ++ c_close cfg.

(** [common.Stripped(block)] has the icontract precondition [is_stripped(block)]: the
    block neither starts nor ends with a newline, a blank or a tab. A wrapper whose result
    is passed through [Stripped] raises [ViolationError] otherwise. *)
Definition strip_char (c : N) : bool := (c =? 10) || (c =? 32) || (c =? 9).
Definition is_stripped (t : text) : bool :=
  match t with
  | [] => true
  | c :: _ => negb (strip_char c) && negb (strip_char (last t 0))
  end.
Definition stripped_result (flag : bool) (t : text) : option text :=
  if flag && negb (is_stripped t) then None else Some t.
Definition wrap_lines_outcome (breaks spaces : list N) (cfg : line_cfg) (t : text) : option text :=
  stripped_result (c_stripped cfg) (wrap_lines breaks spaces cfg t).

(** [xml.sax.saxutils.escape(data)] (no extra entities): & first, then > and <. *)
Definition xml_escape (t : text) : text :=
  replace [60] (s2l "&lt;") (replace [62] (s2l "&gt;") (replace [38] (s2l "&amp;") t)).

(** [xml.sax.saxutils.quoteattr(data)] *)
Definition xml_quoteattr (t : text) : text :=
  let d := replace [9] (s2l "&#9;") (replace [13] (s2l "&#13;") (replace [10] (s2l "&#10;") (xml_escape t))) in
  if memN 34 d then
    if memN 39 d then [34] ++ replace [34] (s2l "&quot;") d ++ [34]
    else [39] ++ d ++ [39]
  else [34] ++ d ++ [34].

(* ------------------------------------------------------------------ *)
(** * Terminator lexers *)

(** Python: the body of a triple-double-quoted (non-raw) string literal, after the
    opening quotes: a backslash takes the next character with it whatever it is; the
    first three consecutive unescaped quotes end the token. Result: the text after the
    token, [None] if the string is unterminated. *)
Fixpoint lex_triple_body (t : text) : option text :=
  match t with
  | [] => None
  | c :: r =>
      if c =? 92 then
        match r with
        | [] => None
        | _ :: r' => lex_triple_body r'
        end
      else if c =? 34 then
        match r with
        | c2 :: c3 :: r' => if (c2 =? 34) && (c3 =? 34) then Some r' else lex_triple_body r
        | _ => lex_triple_body r
        end
      else lex_triple_body r
  end.
Definition lex_py_triple (t : text) : option text :=
  match t with
  | c1 :: c2 :: c3 :: r => if (c1 =? 34) && (c2 =? 34) && (c3 =? 34) then lex_triple_body r else None
  | _ => None
  end.

(** Block comments of Java / TypeScript / C++ / Go / C#: after the opening slash-star the
    first star-slash ends the comment. *)
Fixpoint find_star_slash (t : text) : option text :=
  match t with
  | [] => None
  | c :: r =>
      if c =? 42 then
        match r with
        | d :: r' => if d =? 47 then Some r' else find_star_slash r
        | [] => None
        end
      else find_star_slash r
  end.
Definition lex_block_comment (t : text) : option text :=
  match t with
  | c1 :: c2 :: r => if (c1 =? 47) && (c2 =? 42) then find_star_slash r else None
  | _ => None
  end.

(** Java (JLS 3.3): before lexing, backslash-u+ followed by four hex digits is
    replaced by that UTF-16 code unit when the backslash is preceded by an even number
    of contiguous backslashes; a malformed escape is a compile-time error ([None]). *)
Definition hex_val (c : N) : option N :=
  if (48 <=? c) && (c <=? 57) then Some (c - 48)
  else if (65 <=? c) && (c <=? 70) then Some (c - 55)
  else if (97 <=? c) && (c <=? 102) then Some (c - 87)
  else None.

Inductive jstate := JN (eligible : bool) | JU | JH (k : nat) (acc : N).

Fixpoint java_unescape_from (st : jstate) (t : text) : option text :=
  match t with
  | [] => match st with JN _ => Some [] | _ => None end
  | c :: r =>
      match st with
      | JN e =>
          if c =? 92 then
            match r with
            | d :: r' =>
                if e && (d =? 117) then java_unescape_from JU r'
                else option_map (cons c) (java_unescape_from (JN (negb e)) r)
            | [] => Some [c]
            end
          else option_map (cons c) (java_unescape_from (JN true) r)
      | JU =>
          if c =? 117 then java_unescape_from JU r
          else match hex_val c with
               | Some d => java_unescape_from (JH 3 d) r
               | None => None
               end
      | JH k acc =>
          match hex_val c with
          | Some d =>
              match k with
              | S O => option_map (cons (acc * 16 + d)) (java_unescape_from (JN true) r)
              | S k' => java_unescape_from (JH k' (acc * 16 + d)) r
              | O => None
              end
          | None => None
          end
      end
  end.
Definition java_unescape (t : text) : option text := java_unescape_from (JN true) t.
Definition java_lex_block_comment (t : text) : option text :=
  match java_unescape t with
  | Some t' => lex_block_comment t'
  | None => None
  end.

(** Line comments. [strip_line_comments] returns the characters of a source text that
    are NOT inside a line comment (string literals are not modelled: the function is only
    used to compare [comment ++ newline ++ rest] with [rest]). [is_nl] are the line
    terminators of the language; with [splice] (C, C++) a backslash followed by optional
    horizontal white space (GCC, Clang) and a newline continues the comment on the next
    line. *)
Inductive marker := M1 (a : N) | M2 (a b : N).
Inductive lstate := LCode | LLine | LLineBS.
Definition is_hspace (c : N) : bool := (c =? 32) || (c =? 9) || (c =? 11) || (c =? 12).

Fixpoint strip_line_comments (mk : marker) (is_nl : N -> bool) (splice : bool)
    (st : lstate) (t : text) : text :=
  match t with
  | [] => []
  | c :: r =>
      match st with
      | LCode =>
          match mk with
          | M1 a => if c =? a then strip_line_comments mk is_nl splice LLine r
                    else c :: strip_line_comments mk is_nl splice LCode r
          | M2 a b =>
              if c =? a then
                match r with
                | d :: r' => if d =? b then strip_line_comments mk is_nl splice LLine r'
                             else c :: strip_line_comments mk is_nl splice LCode r
                | [] => [c]
                end
              else c :: strip_line_comments mk is_nl splice LCode r
          end
      | LLine =>
          if is_nl c then c :: strip_line_comments mk is_nl splice LCode r
          else if splice && (c =? 92) then strip_line_comments mk is_nl splice LLineBS r
          else strip_line_comments mk is_nl splice LLine r
      | LLineBS =>
          if is_nl c then strip_line_comments mk is_nl splice LLine r
          else if c =? 92 then strip_line_comments mk is_nl splice LLineBS r
          else if is_hspace c then strip_line_comments mk is_nl splice LLineBS r
          else strip_line_comments mk is_nl splice LLine r
      end
  end.

(** State of a line comment after the characters [s] of one physical line (no line
    terminator in [s]): [LLineBS] means the line ends with a backslash followed only by
    horizontal white space / backslashes, i.e. the next physical line is spliced on. *)
Fixpoint scan_line (splice : bool) (st : lstate) (s : text) : lstate :=
  match s with
  | [] => st
  | c :: r =>
      match st with
      | LCode => LCode
      | LLine => if splice && (c =? 92) then scan_line splice LLineBS r else scan_line splice LLine r
      | LLineBS => if (c =? 92) || is_hspace c then scan_line splice LLineBS r
                   else scan_line splice LLine r
      end
  end.
Definition trailing_splice (line : text) : bool :=
  match scan_line true LLine line with LLineBS => true | _ => false end.

(** Line terminators of the target languages (language specifications). *)
Definition nl_python (c : N) : bool := (c =? 10) || (c =? 13).
Definition nl_cpp (c : N) : bool := (c =? 10) || (c =? 13).
Definition nl_go (c : N) : bool := (c =? 10).
Definition nl_csharp (c : N) : bool := (c =? 10) || (c =? 13) || (c =? 133) || (c =? 8232) || (c =? 8233).
Definition nl_js (c : N) : bool := (c =? 10) || (c =? 13) || (c =? 8232) || (c =? 8233).

(** XML 1.0 [Char] and well-formed character data (content of an element without
    child elements): no [<], every [&] starts one of the five predefined entity
    references or a character reference, no [\]\]>]. *)
Definition xml_char_ok (c : N) : bool :=
  (c =? 9) || (c =? 10) || (c =? 13) || ((32 <=? c) && (c <=? 55295))
  || ((57344 <=? c) && (c <=? 65533)) || ((65536 <=? c) && (c <=? 1114111)).

Definition is_digit (c : N) : bool := (48 <=? c) && (c <=? 57).
Fixpoint digits_then_semicolon (seen : bool) (t : text) : bool :=
  match t with
  | [] => false
  | c :: r => if is_digit c then digits_then_semicolon true r else seen && (c =? 59)
  end.
Definition entity_ok (after_amp : text) : bool :=
  starts_with (s2l "amp;") after_amp || starts_with (s2l "lt;") after_amp
  || starts_with (s2l "gt;") after_amp || starts_with (s2l "quot;") after_amp
  || starts_with (s2l "apos;") after_amp
  || match after_amp with
     | 35 :: r => digits_then_semicolon false r
     | _ => false
     end.

Fixpoint xml_chardata_ok (t : text) : bool :=
  match t with
  | [] => true
  | c :: r =>
      xml_char_ok c && negb (c =? 60)
      && (if c =? 38 then entity_ok r else true)
      && negb (starts_with [93; 93; 62] t)
      && xml_chardata_ok r
  end.

(** An attribute value as written: quote, no [<], no same quote, valid references, quote. *)
Fixpoint xml_attr_body_ok (q : N) (t : text) : bool :=
  match t with
  | [] => false
  | c :: r =>
      if c =? q then is_nil r
      else xml_char_ok c && negb (c =? 60) && (if c =? 38 then entity_ok r else true)
           && xml_attr_body_ok q r
  end.
Definition xml_attr_ok (t : text) : bool :=
  match t with
  | q :: r => ((q =? 34) || (q =? 39)) && xml_attr_body_ok q r
  | [] => false
  end.
