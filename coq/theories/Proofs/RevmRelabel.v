(** C18 — stages 2 and 3: [_relabel_in_place] computes the label -> index map
    "number of real leaves before the first leaf carrying the label",
    [_remove_noop_in_place] + flattening then yield the resolved real instructions, and
    therefore [program r = Ok (comp_regex r)] for every translatable anchored tree. *)
From Coq Require Import List NArith Bool Arith Lia.
From Acg Require Import Base.Outcome Model.RevmTree Model.Revm Model.RevmVM Model.RevmComp Model.RevmShape
  Proofs.RevmFrag Proofs.RevmCompCorrect Proofs.RevmTop Proofs.RevmLabels Proofs.RevmTrSpec.
Import ListNotations.

(** * the dict *)
Lemma dget_filter : forall k l m, l <> k ->
  dget l (filter (fun p : nat * nat => negb (Nat.eqb k (fst p))) m) = dget l m.
Proof.
  intros k l m Hne. induction m as [|[k' v] r IH]; [reflexivity|].
  cbn [filter fst]. destruct (Nat.eqb_spec k k') as [->|Hk]; cbn [negb].
  - cbn [dget]. rewrite (proj2 (Nat.eqb_neq l k')) by exact Hne. exact IH.
  - cbn [dget]. rewrite IH. reflexivity.
Qed.

Lemma dget_dset : forall l k v m,
  dget l (dset k v m) = if Nat.eqb l k then Some v else dget l m.
Proof.
  intros l k v m. unfold dset. cbn [dget]. destruct (Nat.eqb_spec l k) as [->|Hne]; [reflexivity|].
  apply dget_filter. exact Hne.
Qed.

(** * the reversed loop *)
Fixpoint ends_real (ls : list leaf) : bool :=
  match ls with
  | [] => true
  | x :: r => match r with [] => negb (is_noop x) | _ :: _ => ends_real r end
  end.

Lemma ends_real_creal : forall ls, ends_real ls = true -> ls <> [] -> creal ls <> 0.
Proof.
  induction ls as [|x r IH]; intros H Hne; [congruence|].
  cbn [creal]. destruct r as [|y r'].
  - cbn [ends_real] in H. destruct (is_noop x); [discriminate|]. cbn. lia.
  - assert (Hr : creal (y :: r') <> 0) by (apply IH; [exact H|discriminate]).
    destruct (is_noop x); lia.
Qed.

Lemma ends_real_snoc : forall ls i, ends_real (ls ++ [real i]) = true.
Proof.
  induction ls as [|x r IH]; intros i; [reflexivity|].
  cbn [app ends_real]. destruct (r ++ [real i]) as [|y r'] eqn:E.
  - destruct r; discriminate.
  - rewrite <- E. apply IH.
Qed.

Lemma rl_fold : forall ls k, ends_real ls = true ->
  exists m,
    fold_right rl_step (Ok (None, [])) (index_leaves ls k)
    = Ok ((if Nat.eqb (creal ls) 0 then None else Some k), m)
    /\ forall l, dget l m = option_map (fun j => k + j) (lab_pos ls l).
Proof.
  induction ls as [|x r IH]; intros k He.
  - exists []. split; reflexivity.
  - cbn [index_leaves fold_right].
    assert (Her : ends_real r = true).
    { destruct r as [|y r']; [reflexivity|exact He]. }
    destruct (IH (if is_noop x then k else S k) Her) as [m [Em Hm]]. rewrite Em.
    destruct x as [[i|] lab]; cbn [is_noop fst] in *.
    + (* real leaf *)
      cbn [creal is_noop fst]. cbn [Nat.eqb].
      destruct lab as [l0|]; cbn [rl_step].
      * exists (dset l0 k m). split; [reflexivity|]. intros l. rewrite dget_dset.
        cbn [lab_pos lab_is snd is_noop fst]. destruct (Nat.eqb l l0).
        { cbn [option_map]. f_equal. lia. }
        rewrite Hm. destruct (lab_pos r l); cbn [option_map]; [f_equal; lia|reflexivity].
      * exists m. split; [reflexivity|]. intros l.
        cbn [lab_pos lab_is snd is_noop fst]. rewrite Hm.
        destruct (lab_pos r l); cbn [option_map]; [f_equal; lia|reflexivity].
    + (* no-op *)
      cbn [creal is_noop fst].
      assert (Hr : creal r <> 0).
      { apply ends_real_creal; [exact Her|]. destruct r; [discriminate|discriminate]. }
      rewrite (proj2 (Nat.eqb_neq _ _) Hr) in *.
      destruct lab as [l0|]; cbn [rl_step].
      * exists (dset l0 k m). split; [reflexivity|]. intros l. rewrite dget_dset.
        cbn [lab_pos lab_is snd is_noop fst]. destruct (Nat.eqb l l0).
        { cbn [option_map]. f_equal. lia. }
        rewrite Hm. destruct (lab_pos r l); cbn [option_map]; reflexivity.
      * exists m. split; [reflexivity|]. intros l.
        cbn [lab_pos lab_is snd is_noop fst]. rewrite Hm.
        destruct (lab_pos r l); cbn [option_map]; reflexivity.
Qed.

(** * targets used by the real leaves *)
Definition targets (i : instr) : list nat :=
  match i with IJump t => [t] | ISplit a b => [a; b] | _ => [] end.

Fixpoint used (ls : list leaf) : list nat :=
  match ls with
  | [] => []
  | (RI i, _) :: r => targets i ++ used r
  | (RNoop, _) :: r => used r
  end.

Lemma sub_inj : forall s1 s2 i, sub s1 i = sub s2 i -> forall l, In l (targets i) -> s1 l = s2 l.
Proof.
  intros s1 s2 i H l Hl. destruct i; cbn in *; try contradiction.
  - destruct Hl as [<-|[]]. inversion H. reflexivity.
  - inversion H. destruct Hl as [<-|[<-|[]]]; assumption.
Qed.

Lemma strip_inj : forall s1 s2 ls, strip s1 ls = strip s2 ls ->
  forall l, In l (used ls) -> s1 l = s2 l.
Proof.
  intros s1 s2 ls. induction ls as [|[[i|] lab] r IH]; intros H l Hl; cbn [strip used] in *.
  - destruct Hl.
  - inversion H as [[H1 H2]]. apply in_app_or in Hl. destruct Hl as [Hl|Hl].
    + eapply sub_inj; eassumption.
    + apply IH; assumption.
  - apply IH; assumption.
Qed.

(** a closed specification forces every used label to be defined *)
Lemma spec_closed : forall ls D len code,
  spec ls D len (fun _ => code) -> forall l, In l (used ls) -> lab_pos ls l <> None.
Proof.
  intros ls D len code [_ [_ Hs]] l Hl Hnone.
  set (s1 := fun l' => match lab_pos ls l' with Some k => k | None => 0 end).
  set (s2 := fun l' => if Nat.eqb l' l then S (s1 l) else s1 l').
  assert (A1 : agree s1 0 ls).
  { intros l' k Hk. unfold s1. rewrite Hk. reflexivity. }
  assert (A2 : agree s2 0 ls).
  { intros l' k Hk. unfold s2. destruct (Nat.eqb_spec l' l) as [->|Hne]; [congruence|].
    apply A1. exact Hk. }
  assert (E : strip s1 ls = strip s2 ls).
  { rewrite (Hs s1 0 A1), (Hs s2 0 A2). reflexivity. }
  pose proof (strip_inj s1 s2 ls E l Hl) as Heq. unfold s2 in Heq.
  rewrite Nat.eqb_refl in Heq. lia.
Qed.

(** * the third loop, no-op removal and flattening *)
Definition sigma_of (m : list (nat * nat)) (l : nat) : nat :=
  match dget l m with Some v => v | None => 0 end.

Lemma remap_sub : forall m i, (forall l, In l (targets i) -> dget l m <> None) ->
  remap m i = Ok (sub (sigma_of m) i).
Proof.
  intros m i H. destruct i; try reflexivity; cbn [remap sub]; unfold lookup, sigma_of.
  - destruct (dget t m) eqn:E; [reflexivity|].
    exfalso. apply (H t); [left; reflexivity|exact E].
  - destruct (dget t1 m) eqn:E1; [|exfalso; apply (H t1); [left; reflexivity|exact E1]].
    destruct (dget t2 m) eqn:E2; [|exfalso; apply (H t2); [right; left; reflexivity|exact E2]].
    reflexivity.
Qed.

Lemma relabel_strip : forall m ls k, (forall l, In l (used ls) -> dget l m <> None) ->
  exists rl, relabel_leaves m (index_leaves ls k) = Ok rl
    /\ exists out, remove_noop rl = Ok out /\ map fst out = strip (sigma_of m) ls.
Proof.
  intros m ls. induction ls as [|[[i|] lab] r IH]; intros k H.
  - exists []. split; [reflexivity|]. exists []. split; reflexivity.
  - cbn [index_leaves is_noop fst relabel_leaves].
    rewrite (remap_sub m i) by (intros l Hl; apply H; cbn [used]; apply in_or_app; left; exact Hl).
    destruct (IH (S k)) as [rl [E1 [out [E2 E3]]]].
    { intros l Hl. apply H. cbn [used]. apply in_or_app. right. exact Hl. }
    rewrite E1. eexists. split; [reflexivity|]. cbn [remove_noop]. rewrite E2.
    eexists. split; [reflexivity|]. cbn [map fst strip]. rewrite E3. reflexivity.
  - cbn [index_leaves is_noop fst relabel_leaves].
    destruct (IH k) as [rl [E1 [out [E2 E3]]]].
    { intros l Hl. apply H. cbn [used]. exact Hl. }
    rewrite E1. eexists. split; [reflexivity|]. cbn [remove_noop noop]. rewrite E2.
    exists out. split; [reflexivity|]. cbn [strip]. exact E3.
Qed.

(** [program] of a list of leaves that satisfies a closed specification *)
Lemma resolve_spec : forall ls D len code,
  spec ls D len (fun _ => code) -> ends_real ls = true ->
  exists rl out, relabel ls = Ok rl /\ remove_noop rl = Ok out /\ map fst out = code 0.
Proof.
  intros ls D len code Hsp He.
  destruct (rl_fold ls 0 He) as [m [Em Hm]].
  assert (Hclosed : forall l, In l (used ls) -> dget l m <> None).
  { intros l Hl. rewrite Hm. pose proof (spec_closed _ _ _ _ Hsp l Hl) as Hd.
    destruct (lab_pos ls l); [discriminate|congruence]. }
  destruct (relabel_strip m ls 0 Hclosed) as [rl [E1 [out [E2 E3]]]].
  exists rl, out. split.
  - unfold relabel, old_to_new. rewrite Em. exact E1.
  - split; [exact E2|]. rewrite E3. destruct Hsp as [_ [_ Hs]]. apply Hs.
    intros l k Hk. unfold sigma_of. rewrite Hm, Hk. reflexivity.
Qed.

(** * stage 3: the whole translation *)
Lemma tr_greedy :
  (forall v, trv v = true -> ng_v v = false)
  /\ (forall t, trt t = true -> ng_t t = false)
  /\ (forall c, trc c = true -> ng_c c = false)
  /\ (forall u, tru u = true -> ng_u u = false).
Proof.
  apply tree_mutind; cbn [trv trt trc tru ng_v ng_t ng_c ng_u]; try reflexivity.
  - intros u IH H. apply IH. exact H.
  - intros v IHv q H. destruct q as [q|].
    + apply andb_prop in H. destruct H as [H1 H2]. apply negb_true_iff in H1.
      rewrite H1, (IHv H2). reflexivity.
    + apply IHv. exact H.
  - intros t IHt c IHc H. apply andb_prop in H. destruct H as [H1 H2].
    rewrite (IHt H1), (IHc H2). reflexivity.
  - intros c IHc u IHu H. apply andb_prop in H. destruct H as [H1 H2].
    rewrite (IHc H1), (IHu H2). reflexivity.
Qed.

Lemma ng_c_terms : forall c, ng_c c = existsb ng_t (terms_of c).
Proof.
  induction c as [|t c IH]; [reflexivity|]. cbn [ng_c terms_of existsb]. rewrite IH. reflexivity.
Qed.

Lemma existsb_ng_false : forall ts, forallb trt ts = true -> existsb ng_t ts = false.
Proof.
  induction ts as [|t r IH]; intros H; [reflexivity|].
  cbn [forallb] in H. apply andb_prop in H. destruct H as [H1 H2].
  cbn [existsb]. rewrite (proj1 (proj2 tr_greedy) t H1), (IH H2). reflexivity.
Qed.

Lemma tr_terms_good : forall ts, forallb trt ts = true ->
  good (tr_terms ts) (tslen ts) (comp_terms ts).
Proof.
  induction ts as [|t r IH]; intros H n.
  - exists [], n. split; [reflexivity|]. split; [lia|].
    eapply spec_weaken; [apply spec_nil|intros l Hl; destruct Hl].
  - cbn [forallb] in H. apply andb_prop in H. destruct H as [H1 H2].
    destruct (proj1 (proj2 tr_good) t H1 n) as [l1 [n1 [E1 [L1 S1]]]].
    destruct (IH H2 n1) as [l2 [n2 [E2 [L2 S2]]]].
    exists (l1 ++ l2), n2. cbn [tr_terms]. rewrite E1, E2.
    split; [reflexivity|]. split; [lia|]. mk_app Sa S1 S2. cbn [tslen comp_terms].
    fin Sa. intros; reflexivity.
Qed.

Lemma anchored_shape : forall c mid,
  terms_of c = t_start :: mid ++ [t_end] -> anchored (UCons c UNil) = true.
Proof.
  intros c mid H. unfold anchored. rewrite H.
  change (t_start :: mid ++ [t_end]) with ((t_start :: mid) ++ [t_end]).
  rewrite last_last. reflexivity.
Qed.

Lemma trt_body_terms : forall c mid,
  terms_of c = t_start :: mid ++ [t_end] -> forallb trt mid = true ->
  forallb trt (body_terms (UCons c UNil)) = true.
Proof.
  intros c mid Hts Hok.
  destruct (list_last_cases _ mid) as [Hnil|[mid' [x Hmid]]].
  - subst mid. cbn [app] in Hts. rewrite (body_terms_nil c Hts). reflexivity.
  - subst mid. rewrite (body_terms_snoc c mid' x Hts).
    rewrite forallb_app in Hok. apply andb_prop in Hok. destruct Hok as [H1 H2].
    destruct (is_dot_star x); [exact H1|]. rewrite !forallb_app, H1, H2. reflexivity.
Qed.

(** The labelled translation with relabelling, no-op removal and flattening is the
    label-free compilation. *)
Theorem program_is_comp : forall c mid,
  terms_of c = t_start :: mid ++ [t_end] -> forallb trt mid = true ->
  program (UCons c UNil) = Ok (comp_regex (UCons c UNil)).
Proof.
  intros c mid Hts Hok.
  pose proof (trt_body_terms c mid Hts Hok) as Hbt.
  destruct (tr_terms_good _ Hbt 0) as [ls [n' [E [_ S0]]]].
  mk_app Sa S0 (spec_real IMatch).
  assert (Sfull : spec (ls ++ [real IMatch])
                       (fun l => 0 <= l < n' \/ False)
                       (tslen (body_terms (UCons c UNil)) + 1)
                       (fun _ a => comp_terms (body_terms (UCons c UNil)) a ++ [IMatch])).
  { eapply spec_code; [exact Sa|]. intros; reflexivity. }
  destruct (resolve_spec _ _ _ _ Sfull (ends_real_snoc ls IMatch)) as [rl [out [E1 [E2 E3]]]].
  unfold program, translate, tr_regex.
  rewrite (anchored_shape c mid Hts).
  assert (Hng : ng_u (UCons c UNil) = false).
  { cbn [ng_u]. rewrite ng_c_terms, Hts. cbn [existsb ng_t t_start ng_v].
    rewrite existsb_app, (existsb_ng_false mid Hok). reflexivity. }
  rewrite Hng, E, E1, E2, E3. reflexivity.
Qed.
