(** C05 — Intermediate model faithfully resolves inheritance.

    Theorems over the model [Model/Hierarchy.v] of the hierarchy passes of the intermediate
    stage, instantiated with the primitive type names regenerated from the source on every
    run ([Gen/GenHierarchy.v]). [wf]: class names unique, bases exist, acyclic — for ANY
    declaration order. This file contains only statements, [exact]s and [Print Assumptions]. *)
From Coq Require Import List NArith Bool Permutation Relations.
From Coq Require Strings.String.
Import Coq.Strings.String.StringSyntax.
From Acg Require Import Base.Str Base.Outcome Model.Hierarchy Proofs.HierarchyFacts
  Proofs.HierarchyStack Proofs.HierarchyAccept Gen.GenHierarchy.
Import ListNotations.
Open Scope nat_scope.

Definition prims := primitive_type_names.

(** Generated side condition: the primitive type names are the five the model's
    generator and rendering assume, without duplicates. *)
Theorem C05_gen_primitives :
  nodupb prims = true /\ length prims = 5.
Proof. vm_compute. split; reflexivity. Qed.
Print Assumptions C05_gen_primitives.

(** The type order produced by the DFS ([_topologically_sort]) exists for every
    well-formed hierarchy (no crash, no spurious cycle, fuel suffices) and is a
    permutation of the declared classes. *)
Theorem C05_topo_perm : forall m, wf prims m ->
  exists order, topo_sort prims m = Ok order /\ Permutation order (names m).
Proof. exact (topo_perm_thm prims). Qed.
Print Assumptions C05_topo_perm.

(** ... and it is topological: every class comes after all of its bases. *)
Theorem C05_topo_is_topological : forall m, wf prims m -> forall order,
  topo_sort prims m = Ok order ->
  forall l1 c l2, order = l1 ++ c :: l2 -> forall b, base prims m c b -> In b l1.
Proof. exact (topo_is_topological_thm prims). Qed.
Print Assumptions C05_topo_is_topological.

(** Descendants are exactly the inverse of ancestors (whatever the ontology lists). *)
Theorem C05_descendants_inverse : forall m anc a d, In a (names m) ->
  (In d (ir_descendants anc a) <-> In a (ir_ancestors m anc d)).
Proof. exact descendants_inverse_thm. Qed.
Print Assumptions C05_descendants_inverse.

(** No duplicates across diamonds (repaired behaviour). *)
Theorem C05_ancestors_nodup : forall m anc, NoDup (names m) -> forall d, NoDup (ir_ancestors m anc d).
Proof. exact ancestors_nodup_thm. Qed.
Print Assumptions C05_ancestors_nodup.

Theorem C05_descendants_nodup : forall anc a, NoDup (ir_descendants anc a).
Proof. exact descendants_nodup_thm. Qed.
Print Assumptions C05_descendants_nodup.

Theorem C05_concrete_descendants : forall m anc a d,
  In d (ir_concrete_descendants m anc a) <-> In d (ir_descendants anc a) /\ is_abstract m d = false.
Proof. exact concrete_descendants_thm. Qed.
Print Assumptions C05_concrete_descendants.

(** Ancestors = transitive closure of the declared bases, for every class of every
    well-formed hierarchy in any declaration order ([prims_alone]: a class constraining a
    primitive type inherits from nothing else — otherwise the ontology fails an assertion). *)
Theorem C05_ancestors_closure : forall m, wf prims m -> prims_alone prims m ->
  exists order anc,
    topo_sort prims m = Ok order /\ onto_ancestors prims m order = Ok anc
    /\ forall d a, In d (names m) ->
         (In a (ir_ancestors m anc d) <-> clos_trans name (base prims m) d a).
Proof. exact (ancestors_closure_thm prims). Qed.
Print Assumptions C05_ancestors_closure.

(** EVERY ACCEPTED META-MODEL IS WELL-FORMED: the parse-stage checks give unique names and
    existing bases, and the DFS reports every cycle (partial correctness of the DFS without
    any assumption). Hence the theorems below need no [wf] hypothesis: they hold for every
    accepted meta-model, in any declaration order. *)
Theorem C05_accepted_wf : forall m r, translate prims m = Ok r -> wf prims m.
Proof. exact (accepted_wf prims). Qed.
Print Assumptions C05_accepted_wf.

(** For every accepted meta-model: ancestors = transitive closure of the declared bases,
    descendants = the inverse relation, no duplicates, concrete descendants = the
    non-abstract descendants. *)
Theorem C05_accepted_ancestors : forall m r, translate prims m = Ok r ->
  forall c, In c m ->
    exists ci, class_ir r (c_name c) = Some ci
      /\ (forall a, In a (i_ancestors ci) <-> clos_trans name (base prims m) (c_name c) a)
      /\ (forall d, In d (names m) ->
            (In d (i_descendants ci) <-> clos_trans name (base prims m) d (c_name c)))
      /\ NoDup (i_ancestors ci) /\ NoDup (i_descendants ci)
      /\ (i_is_cp ci = false ->
            forall d, In d (i_concrete_descendants ci)
                      <-> In d (i_descendants ci) /\ is_abstract m d = false).
Proof. exact (ancestors_closure_e2e prims). Qed.
Print Assumptions C05_accepted_ancestors.

(** For every accepted meta-model the type order is a permutation of the classes in which
    every class comes after its bases. *)
Theorem C05_accepted_topo : forall m r, translate prims m = Ok r ->
  Permutation (r_topo r) (names m)
  /\ forall l1 c l2, r_topo r = l1 ++ c :: l2 -> forall b, base prims m c b -> In b l1.
Proof. exact (topo_acc prims). Qed.
Print Assumptions C05_accepted_topo.

(** [class_ir r n]: the intermediate representation of the class named [n] in the result.

    Properties and invariants of an accepted meta-model: the lists observed in
    the intermediate representation are the images of identity-carrying lists [pmap]/[imap]
    (identity = owner and position, as Python's [id(..)] in the code) which satisfy, for EVERY
    class, the equation
        entry c = de-duplicated (by identity) concatenation of the FINAL entries of the bases
                  of c, in the declared order of the bases, followed by the own items of c
    i.e. inherited ones first (de-duplicated across diamonds), then its own; and no two
    properties of a class carry the same name. Constrained primitives take part in the
    stacking of invariants only. *)
Theorem C05_properties_stacked : forall m r, translate prims m = Ok r ->
  exists pmap imap : list (name * list (ident name)),
    forall c, In c m ->
      exists ci, class_ir r (c_name c) = Some ci
        /\ i_props ci = map pair_owner (lk (c_name c) pmap)
        /\ i_invs ci = map pair_owner (lk (c_name c) imap)
        /\ lk (c_name c) imap
           = dedup id_eqb (flat_map (fun b => lk b imap) (class_bases prims c))
             ++ own_ids (c_name c) (c_invs c)
        /\ (i_is_cp ci = false ->
              lk (c_name c) pmap
              = dedup id_eqb (flat_map (fun b => lk b pmap) (class_bases prims c))
                ++ own_ids (c_name c) (c_props c)
              /\ NoDup (map fst (i_props ci))).
Proof. exact (properties_stacked_acc prims). Qed.
Print Assumptions C05_properties_stacked.

(** Methods of an accepted meta-model: those of the bases (final lists, declared order of
    the bases; their names are pairwise distinct — a method reaching a class along two
    paths is a reported error, so nothing is de-duplicated) followed by the own ones, whose
    names differ from all inherited ones (overriding is a reported error). *)
Theorem C05_methods_stacked : forall m r, translate prims m = Ok r ->
  exists mmap : list (name * list (ident name)),
    forall c, In c m ->
      exists ci, class_ir r (c_name c) = Some ci
        /\ i_methods ci = map pair_owner (lk (c_name c) mmap)
        /\ (i_is_cp ci = false ->
              let inh := flat_map (fun b => lk b mmap) (c_bases c) in
              lk (c_name c) mmap = inh ++ own_ids (c_name c) (c_methods c)
              /\ NoDup (map id_val inh)
              /\ forall x, In x (own_ids (c_name c) (c_methods c)) ->
                           ~ In (id_val x) (map id_val inh)).
Proof. exact (methods_stacked_acc prims). Qed.
Print Assumptions C05_methods_stacked.

(** The same equation for the pass itself, whatever is stacked and whichever classes are
    skipped (also for models that are rejected later). *)
Theorem C05_stacked_equation : forall m (A : Type) (skip : name -> bool) (own : cls -> list A),
  wf prims m -> forall order, topo_sort prims m = Ok order ->
  forall c, In c m ->
    let final := stack_ids prims m skip own order in
    lk (c_name c) final =
    if skip (c_name c) then own_ids (c_name c) (own c)
    else dedup id_eqb (flat_map (fun b => lk b final) (class_bases prims c))
         ++ own_ids (c_name c) (own c).
Proof. exact (stacked_fold_thm prims). Qed.
Print Assumptions C05_stacked_equation.

(** Who contributes: for any payload and any set of skipped classes, the stacked list of a
    class consists exactly of the own items of the classes it reaches through its bases
    (itself included), passing only through classes that take part in the stacking. *)
Theorem C05_stacked_members : forall m (A : Type) (skip : name -> bool) (own : cls -> list A),
  wf prims m -> forall order, topo_sort prims m = Ok order ->
  forall c, In c m -> forall x,
    In x (lk (c_name c) (stack_ids prims m skip own order))
    <-> contributed prims m A skip own (c_name c) x.
Proof. exact (stacked_members_thm prims). Qed.
Print Assumptions C05_stacked_members.

(** In particular the invariants of a class (or constrained primitive) of an accepted
    meta-model are exactly its own and those of its ancestors. *)
Theorem C05_invariants_members : forall m r, translate prims m = Ok r ->
  exists imap : list (name * list (ident name)),
    forall c, In c m ->
      exists ci, class_ir r (c_name c) = Some ci
        /\ i_invs ci = map pair_owner (lk (c_name c) imap)
        /\ forall x, In x (lk (c_name c) imap) <->
             exists a, In a m
               /\ (c_name c = c_name a \/ clos_trans name (base prims m) (c_name c) (c_name a))
               /\ In x (own_ids (c_name a) (c_invs a)).
Proof. exact (invariants_members_acc prims). Qed.
Print Assumptions C05_invariants_members.

(** The in-lined constructor of every class of an accepted meta-model consists
    of assignments only (no super-constructor call is left) and assigns every property of
    the class exactly once (repaired behaviour). *)
Theorem C05_ctor_inlined : forall m r, translate prims m = Ok r ->
  forall c, In c m ->
    exists ci, class_ir r (c_name c) = Some ci
      /\ (i_is_cp ci = false ->
            NoDup (i_inlined ci)
            /\ (forall p, In p (i_inlined ci) <-> In p (map fst (i_props ci)))
            /\ exists stmts : list (ident stmt),
                 i_inlined ci = map (fun x => stmt_prop (id_val x)) stmts
                 /\ forallb (fun x => is_assign (id_val x)) stmts = true).
Proof. exact (ctor_inlined_acc prims). Qed.
Print Assumptions C05_ctor_inlined.

(** An interface exists exactly for abstract classes and for classes with descendants,
    and it inherits from the bases. *)
Theorem C05_interface_iff : forall m r, translate prims m = Ok r ->
  forall c, In c m ->
    exists ci, class_ir r (c_name c) = Some ci
      /\ (i_is_cp ci = false ->
            (i_iface ci <> None <-> c_abstract c = true \/ i_descendants ci <> [])
            /\ forall l, i_iface ci = Some l -> l = c_bases c).
Proof. exact (interface_iff_acc prims). Qed.
Print Assumptions C05_interface_iff.

(** with_model_type is propagated consistently: there is a setting per class (after
    propagation; [None] = unset, rendered as false) such that a class takes over the
    setting of each base that has one and its own declared one, and has a setting only if
    it declares it or a base has it. (Conflicting settings are a reported error.)
    [decl_wmt c] is the value declared by [@serialization(with_model_type=v)]; a class
    without the decorator and a class with an empty [@serialization()] both declare nothing. *)
Theorem C05_model_type_consistent : forall m r, translate prims m = Ok r ->
  exists setting : name -> option bool,
    forall c, In c m ->
      exists ci, class_ir r (c_name c) = Some ci
        /\ (i_is_cp ci = false ->
              i_wmt ci = Some (match setting (c_name c) with Some v => v | None => false end)
              /\ (forall b v, In b (c_bases c) -> setting b = Some v -> setting (c_name c) = Some v)
              /\ (forall v, decl_wmt c = Some v -> setting (c_name c) = Some v)
              /\ (forall v, setting (c_name c) = Some v ->
                    decl_wmt c = Some v \/ exists b, In b (c_bases c) /\ setting b = Some v)).
Proof. exact (model_type_consistent_acc prims). Qed.
Print Assumptions C05_model_type_consistent.

(** Closed form: a class of an accepted meta-model has with_model_type exactly if it, or a
    class it reaches through its bases, declares [with_model_type=True] ([skipped] = the
    constrained primitives, which never take part). *)
Theorem C05_model_type_closed : forall m r, translate prims m = Ok r ->
  exists (skipped : name -> bool),
    forall c, In c m ->
      exists ci, class_ir r (c_name c) = Some ci /\ skipped (c_name c) = i_is_cp ci
        /\ (i_is_cp ci = false ->
              (i_wmt ci = Some true <->
               exists a, In a m /\ reach prims m skipped (c_name c) (c_name a) /\ decl_wmt a = Some true)).
Proof. exact (model_type_closed_acc prims). Qed.
Print Assumptions C05_model_type_closed.

(** Non-vacuity: the diamond A; B(A); C(A); D(B,C) is well-formed, accepted, and resolved
    without duplicates; every property is assigned exactly once in D's in-lined constructor. *)
Open Scope string_scope.
Definition mk (n : String.string) (abs : bool) (bases props : list String.string)
           (body : list stmt) (args : list String.string) : cls :=
  {| c_name := s2l n; c_abstract := abs; c_bases := map s2l bases; c_props := map s2l props;
     c_invs := []; c_methods := [];
     c_ctor := Some {| k_args := map s2l args; k_body := body |}; c_wmt := None |}.

Definition diamond : mm :=
  [ mk "A" true [] ["a"] [Assign (s2l "a")] ["a"];
    mk "B" true ["A"] ["b"] [CallSuper (s2l "A"); Assign (s2l "b")] ["a"; "b"];
    mk "C" true ["A"] ["c"] [CallSuper (s2l "A"); Assign (s2l "c")] ["a"; "c"];
    mk "D" false ["B"; "C"] ["d"] [CallSuper (s2l "B"); CallSuper (s2l "C"); Assign (s2l "d")]
       ["a"; "b"; "c"; "d"] ].

Example C05_diamond_resolved :
  match translate prims diamond with
  | Ok r => map i_ancestors (r_classes r) = [[]; [s2l "A"]; [s2l "A"]; [s2l "A"; s2l "B"; s2l "C"]]
            /\ map i_descendants (r_classes r) = [[s2l "B"; s2l "C"; s2l "D"]; [s2l "D"]; [s2l "D"]; []]
            /\ map i_inlined (r_classes r)
               = [[s2l "a"]; [s2l "a"; s2l "b"]; [s2l "a"; s2l "c"]; [s2l "a"; s2l "b"; s2l "c"; s2l "d"]]
            /\ map i_iface (r_classes r) = [Some []; Some [s2l "A"]; Some [s2l "A"]; None]
  | _ => False
  end.
Proof. vm_compute. repeat split; reflexivity. Qed.
Print Assumptions C05_diamond_resolved.

Example C05_diamond_wf : wf prims diamond.
Proof.
  split; [|split].
  - apply nodupb_NoDup. vm_compute. reflexivity.
  - intros cl b Hcl Hb. apply mem_text_In.
    repeat (destruct Hcl as [<-|Hcl]; [vm_compute in Hb; intuition (subst; vm_compute; reflexivity)|]).
    destruct Hcl.
  - exists (fun n => match n with [c] => N.to_nat c | _ => 0 end).
    intros cl b Hcl Hb.
    repeat (destruct Hcl as [<-|Hcl]; [vm_compute in Hb; intuition (subst; vm_compute; auto with arith)|]).
    destruct Hcl.
Qed.
Print Assumptions C05_diamond_wf.

Example C05_diamond_prims_alone : prims_alone prims diamond.
Proof.
  intros cl Hcl Hp.
  repeat (destruct Hcl as [<-|Hcl]; [vm_compute in Hp; discriminate|]). destruct Hcl.
Qed.
Print Assumptions C05_diamond_prims_alone.

(** The hypotheses of the end-to-end theorems are satisfiable: the diamond is accepted. *)
Example C05_diamond_accepted : exists r, translate prims diamond = Ok r.
Proof. eexists. vm_compute. reflexivity. Qed.
Print Assumptions C05_diamond_accepted.

(** with_model_type set in the middle of a chain A; B(A); C(B) with an empty [@serialization()];
    D(C): A stays false, B, C and D true. *)
Definition plain (n : String.string) (abs : bool) (bases : list String.string)
           (w : option (option bool)) : cls :=
  {| c_name := s2l n; c_abstract := abs; c_bases := map s2l bases; c_props := []; c_invs := [];
     c_methods := []; c_ctor := None; c_wmt := w |}.
Example C05_model_type_chain :
  match translate prims [plain "A" true [] None; plain "B" true ["A"] (Some (Some true));
                         plain "C" false ["B"] (Some None); plain "D" false ["C"] None] with
  | Ok r => map i_wmt (r_classes r) = [Some false; Some true; Some true; Some true]
  | _ => False
  end.
Proof. vm_compute. reflexivity. Qed.
Print Assumptions C05_model_type_chain.
