"""C02 — Generators never crash on accepted meta-models (partial; see docs/C02.md)."""
from __future__ import annotations

import collections
import concurrent.futures as cf
import json
import random
from typing import Any, Dict, List, Optional, Tuple

from harness import lib
from harness.gen import crashhunt as ch
from harness.gen import metamodel as mmg
from harness.props import c01

META = {
    "title": "Generators never crash on accepted meta-models",
    "design_ref": "§4 C02",
    "level_text": (
        "Partial. Coq theorems over the skeleton of main.execute (and run.load_model) re-translated "
        "from the sources on every run: on every path an exit code is returned and no value produced "
        "together with an error is read on the path where the error is set (sound path exploration, "
        "all environments). The crash-bearing generator cores (length inference, regex VM translation, "
        "UTF-16 fix, collision checks) are proved total in C15/C18/C17/C21. The text-emitting bulk of "
        "the eight generators is searched, not proved: accepted generated meta-models (conservative "
        "profile, risky-feature profile, and accepted mutants of the C01 engine) x 8 targets + smoke "
        "with synthesised snippets through the real entry points; oracle = returns 0, or non-zero "
        "with non-empty stderr; never raises."
    ),
    "level_note": (
        "Not proved: that the generator code raises nothing on accepted models (searched only); the "
        "per-target execute skeletons are C03's. Known generator crash sites are listed as findings."
    ),
    "technique": "Coq proof (sound path exploration of translated skeleton) + crash search on the "
                 "real CLI for 8 targets + smoke",
}
GEN = ["GenLoadModel"]
MODEL = ["Model/LoadSkel", "Gen/GenLoadModel"]
TRUSTED = [
    "harness/translate/loadmodel.py (Python ast -> skeleton), fail closed",
    "harness/gen/metamodel.py generator + synth_snippets, harness/impl/crashhunt.py + cli.py runner",
]
RULE = ("case = (accepted meta-model, target) for the 8 targets and smoke; models: generated with the "
        "profiles tiny/small (all generators expected to succeed), small_wild (risky features on) and "
        "accepted mutants of generated models; non-trivial = the front end accepted the model; distinct "
        "by (model text, target)")

TARGETS = list(mmg.TARGETS) + ["smoke"]


def model_jobs(text: str, mm: Optional[mmg.MetaModel]) -> List[Dict[str, Any]]:
    jobs = []
    for target in TARGETS:
        snippets = mmg.synth_snippets(mm, target) if mm is not None else minimal_snippets(target)
        job = c01.job_of(text, target, snippets)
        job["files"] = "none"
        jobs.append(job)
    return jobs




def minimal_snippets(target: str) -> Dict[str, str]:
    """The mandatory top-level snippets of a target (for mutants there is no abstract
    model to synthesise the implementation-specific ones from: a missing snippet is a
    reported error, which is fine for this property)."""
    try:
        return mmg.synth_snippets(mmg.random_metamodel(random.Random(0), "tiny"), target)
    except Exception:
        return {}


def streams(ctx: lib.Ctx) -> None:
    rng = ctx.rng
    models: List[Tuple[str, Optional[mmg.MetaModel], str]] = []
    # 1. conservative profiles: every generator is expected to succeed
    for _ in range(ctx.n(3, 150)):
        prof = rng.choice(["tiny", "small", "small"])
        mm = mmg.random_metamodel(random.Random(rng.random()), prof)
        models.append((mmg.render_source(mm), mm, prof))
    # 2. risky features on
    for _ in range(ctx.n(6, 500)):
        prof = "small_wild" if "small_wild" in mmg.PROFILES else "small"
        mm = mmg.random_metamodel(random.Random(rng.random()), prof)
        models.append((mmg.render_source(mm), mm, prof))
    # 3. mutants: keep those the front end accepts (checked with the cheapest target)
    base = [mmg.render_source(mmg.random_metamodel(random.Random(rng.random()), "tiny"))
            for _ in range(ctx.n(4, 60))]
    mutants = []
    for _ in range(ctx.n(30, 4000)):
        t, ops = ch.mutate(rng, rng.choice(base), rng.choice([1, 1, 2]),
                           only=["annotation", "class_decorator", "inv_body", "pattern_string", "docstring",
                                 "constant", "class_body", "module_stmt", "const_tweak", "operator",
                                 "rename_def", "inv_description", "pattern_func", "bases"])
        try:
            t.encode("utf-8")
        except UnicodeEncodeError:
            continue
        mutants.append((t, ops))
    probe = c01.run_jobs([c01.job_of(t, "smoke") for t, _ in mutants], batch=30, workers=10)
    accepted = [(t, ops) for (t, ops), r in zip(mutants, probe)
                if r["exc"] is None and (r["rc"] == 0 or not r["stderr"].startswith("Failed to"))
                and "unexpected imports" not in r["stderr"]]
    seen = set()
    for t, ops in accepted:
        if t in seen or t in base:
            continue
        seen.add(t)
        models.append((t, None, "mutant:" + "+".join(ops)))
        if len(seen) >= ctx.n(3, 400):
            break

    jobs: List[Dict[str, Any]] = []
    index: List[Tuple[int, str]] = []
    for i, (text, mm, _prof) in enumerate(models):
        for job in model_jobs(text, mm):
            jobs.append(job)
            index.append((i, job["target"]))
    results = c01.run_jobs(jobs, batch=18, workers=10, timeout=3000)

    outcome = collections.Counter()
    per_profile = collections.defaultdict(collections.Counter)
    found: Dict[str, Dict[str, Any]] = {}
    nontrivial = []
    for (i, target), job, r in zip(index, jobs, results):
        text, mm, prof = models[i]
        kind = prof.split(":")[0]
        key = c01.failure_key(r)
        front_end_rejected = r["exc"] is None and r["rc"] != 0 and (
            r["stderr"].startswith("Failed to parse") or r["stderr"].startswith("Failed to construct")
            or r["stderr"].startswith("Failed to translate") or "unexpected imports" in r["stderr"])
        if front_end_rejected:
            outcome["front-end-rejected"] += 1
            per_profile[kind]["front-end-rejected"] += 1
            continue
        nontrivial.append((lib.stable_key(text), target))
        if key is None:
            o = "generated" if r["rc"] == 0 else "reported"
            outcome[o] += 1
            per_profile[kind][o] += 1
            continue
        outcome["crash"] += 1
        per_profile[kind]["crash"] += 1
        if r["exc"] is not None and r["exc"]["in_front_end"]:
            key = "front-end:" + key      # C01's statement; still a crash of this run
        # one key per crash site (not per target): the same defect in shared code shows
        # up for several targets
        site_key = key
        cur = found.get(site_key)
        if cur is None:
            found[site_key] = {"text": text, "ops": [prof], "exc": r["exc"], "count": 1,
                               "raw_key": r["key"], "size": len(text), "target": target,
                               "snippets": job["snippets"], "targets": {target}}
        else:
            cur["count"] += 1
            cur["targets"].add(target)
            if len(text) < cur["size"]:
                cur.update(text=text, ops=[prof], exc=r["exc"], size=len(text), raw_key=r["key"],
                           target=target, snippets=job["snippets"])
    known = {k["key"] for k in lib.load_known_findings() if k["kind"] == "finding" and k["property"] == "C02"}
    new = {k: v for k, v in found.items() if k not in known}
    c01.shrink_failures(new)
    for v in found.values():
        v["ops"] = v["ops"] + ["targets=" + ",".join(sorted(v.pop("targets")))]
    c01.report(ctx, "generators", found)
    ctx.count("generators", len(jobs), nontrivial_keys=nontrivial, validated=len(jobs),
              models=len(models), outcomes=dict(outcome),
              per_profile={k: dict(v) for k, v in per_profile.items()},
              accepted_mutants=len(seen), distinct_failure_keys=sorted(found))
    for text, mm, prof in models[:2]:
        ctx.sample({"profile": prof, "text_head": text[:300]})
    ctx.coverage["exhaustive"] = False
