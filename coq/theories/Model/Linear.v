(** Model of [aas_core_codegen/yielding/linear.py]: [linearize_to_subroutines] with
    all its passes ([_linearize_*], [_remove_redundant_labels_in_place],
    [_remove_noops_in_place], [_fix_labels_in_place], [_split_in_subroutines]) and the
    semantics of the generated C++ state machine ([cpp/yielding.py]).

    Labels and targets are [nat]: the precondition [label >= 0] of [Statement] holds by
    typing (labels are only ever created from 0 by [+ 1] and [max + 1]; the harness
    reports an implementation label that is negative as a disagreement). The
    placeholder [Jump(target=-1)] is overwritten before it is observable and is
    modelled by constructing the jump with its final target. [Noop.comment] is always
    [None] in this module and is not modelled (the harness checks it is [None]).
    In-place mutation is modelled by functions returning the new list. Python [dict]s
    are association lists with the newest binding first.

    Asserts / contracts of the code are explicit [Crash] outcomes. The trivial ones
    ([assert if_statement.label is not None] right after it was set, the [isinstance]
    asserts of [_linearize_node], the [@ensure] of [_linearize_sequence] for the empty
    sequence) cannot fail by construction and have no counterpart.
    Executable definitions only. *)
From Coq Require Import List NArith Bool Arith.
From Acg Require Import Base.Outcome Base.Str Model.Flow.
Import ListNotations.
Open Scope nat_scope.

Inductive skind : Type :=
| KCommand (code : text)
| KIf (cond : text) (on_true on_false : option nat)
| KJump (target : nat)
| KYield
| KNoop.

Record stmt : Type := mk_stmt { s_label : option nat; s_kind : skind }.

Definition is_some {A} (o : option A) : bool := match o with Some _ => true | None => false end.
Definition is_noop (s : stmt) : bool := match s_kind s with KNoop => true | _ => false end.
Definition is_yield (s : stmt) : bool := match s_kind s with KYield => true | _ => false end.
Definition unlabel (s : stmt) : stmt := mk_stmt None (s_kind s).

(* ------------------------------------------------------------------------- *)
(** * _linearize_* *)

Fixpoint lin_node (n : node) (l : nat) : list stmt * nat :=
  let fix lin_seq (ns : list node) (l : nat) : list stmt * nat :=
    match ns with
    | [] => ([], l)
    | x :: r =>
        let '(a, l1) := lin_node x l in
        let '(b, l2) := lin_seq r l1 in
        (a ++ b, l2)
    end in
  match n with
  | NCommand c => ([mk_stmt (Some l) (KCommand c)], S l)
  | NYield => ([mk_stmt (Some l) KYield], S l)
  | NIfTrue c body (Some oe) =>
      let '(b, l1) := lin_seq body (S l) in
      let '(e, l2) := lin_seq oe (S l1) in
      (mk_stmt (Some l) (KIf c None (Some (S l1)))
         :: b ++ mk_stmt (Some l1) (KJump l2) :: e ++ [mk_stmt (Some l2) KNoop], S l2)
  | NIfTrue c body None =>
      let '(b, l1) := lin_seq body (S l) in
      (mk_stmt (Some l) (KIf c None (Some l1))
         :: (if is_nil b then [mk_stmt (Some l1) KNoop] else [])
            ++ b ++ [mk_stmt (Some l1) KNoop], S l1)
  | NIfFalse c body (Some oe) =>
      let '(b, l1) := lin_seq body (S l) in
      let '(e, l2) := lin_seq oe (S l1) in
      (mk_stmt (Some l) (KIf c (Some (S l1)) None)
         :: b ++ mk_stmt (Some l1) (KJump l2) :: e ++ [mk_stmt (Some l2) KNoop], S l2)
  | NIfFalse c body None =>
      let '(b, l1) := lin_seq body (S l) in
      (mk_stmt (Some l) (KIf c (Some l1) None)
         :: (if is_nil b then [mk_stmt (Some l1) KNoop] else [])
            ++ b ++ [mk_stmt (Some l1) KNoop], S l1)
  | NFor ini c it body =>
      let '(pre, lif) :=
        match ini with
        | Some i => ([mk_stmt (Some l) (KCommand i)], S l)
        | None => ([], l)
        end in
      let '(b, l1) := lin_seq body (S lif) in
      (pre ++ mk_stmt (Some lif) (KIf c None (Some (S (S l1))))
         :: b ++ [mk_stmt (Some l1) (KCommand it);
                  mk_stmt (Some (S l1)) (KJump lif);
                  mk_stmt (Some (S (S l1))) KNoop], S (S (S l1)))
  | NWhile c body =>
      let '(b, l1) := lin_seq body (S l) in
      (mk_stmt (Some l) (KIf c None (Some (S l1)))
         :: b ++ [mk_stmt (Some l1) (KJump l); mk_stmt (Some (S l1)) KNoop], S (S l1))
  end.

Fixpoint lin_seq (ns : list node) (l : nat) : list stmt * nat :=
  match ns with
  | [] => ([], l)
  | x :: r =>
      let '(a, l1) := lin_node x l in
      let '(b, l2) := lin_seq r l1 in
      (a ++ b, l2)
  end.

Definition linearize_control_flow (f : list node) : list stmt := fst (lin_seq f 0).

(* ------------------------------------------------------------------------- *)
(** * _collect_targets, _remove_redundant_labels_in_place *)

Definition opt_list {A} (o : option A) : list A := match o with Some x => [x] | None => [] end.

Definition kind_targets (k : skind) : list nat :=
  match k with
  | KJump t => [t]
  | KIf _ a b => opt_list a ++ opt_list b
  | _ => []
  end.

Definition collect_targets (ss : list stmt) : list nat :=
  flat_map (fun s => kind_targets (s_kind s)) ss.

Definition mem_nat (x : nat) (l : list nat) : bool := existsb (Nat.eqb x) l.

Definition drop_label_unless (ts : list nat) (s : stmt) : stmt :=
  match s_label s with
  | Some l => if mem_nat l ts then s else unlabel s
  | None => s
  end.

Definition remove_redundant_labels (ss : list stmt) : list stmt :=
  map (drop_label_unless (collect_targets ss)) ss.

(* ------------------------------------------------------------------------- *)
(** * _remove_noops_in_place *)

Definition dict := list (nat * nat).
Fixpoint dict_get (d : dict) (k : nat) : option nat :=
  match d with
  | [] => None
  | (a, b) :: r => if Nat.eqb a k then Some b else dict_get r k
  end.
Definition dict_set (d : dict) (k v : nat) : dict := (k, v) :: d.

Definition keep_stmt (s : stmt) : bool := negb (is_noop s) || is_some (s_label s).

(** [for noop in noop_block: assert noop.label is not None; map[noop.label] = target] *)
Fixpoint map_block (blk : list stmt) (target : nat) (m : dict) : outcome dict unit :=
  match blk with
  | [] => Ok m
  | b :: r =>
      match s_label b with
      | None => Crash AssertionError
      | Some l => map_block r target (dict_set m l target)
      end
  end.

(** The trailing block: every no-op but the first is mapped to the first one. *)
Fixpoint map_trailing (rest : list stmt) (first : option nat) (m : dict) : outcome dict unit :=
  match rest with
  | [] => Ok m
  | b :: r =>
      match s_label b, first with
      | Some l, Some t => map_trailing r first (dict_set m l t)
      | _, _ => Crash AssertionError
      end
  end.

(** The main loop; [blk] is [noop_block]. Returns the statements (labels updated,
    no-ops to delete unlabelled) and [old_to_new_target]. *)
Fixpoint noop_loop (l : list stmt) (blk : list stmt) (m : dict)
  : outcome (list stmt * dict) unit :=
  match l with
  | [] =>
      match blk with
      | [] => Ok ([], m)
      | b0 :: bs =>
          do m1 <- map_trailing bs (s_label b0) m;
          Ok (b0 :: map unlabel bs, m1)
      end
  | s :: l' =>
      if is_noop s then noop_loop l' (blk ++ [s]) m
      else
        match blk with
        | [] =>
            do r <- noop_loop l' [] m;
            Ok (s :: fst r, snd r)
        | b0 :: _ =>
            do lbl <- match s_label s with
                      | Some x => Ok x
                      | None => match s_label b0 with
                                | Some x => Ok x
                                | None => Crash AssertionError
                                end
                      end;
            do m1 <- map_block blk lbl m;
            do r <- noop_loop l' [] m1;
            Ok (map unlabel blk ++ mk_stmt (Some lbl) (s_kind s) :: fst r, snd r)
        end
  end.

Definition remap (m : dict) (t : nat) : nat :=
  match dict_get m t with Some v => v | None => t end.

Definition retarget (m : dict) (k : skind) : skind :=
  match k with
  | KIf c a b => KIf c (option_map (remap m) a) (option_map (remap m) b)
  | KJump t => KJump (remap m t)
  | _ => k
  end.

Definition rewire (m : dict) (s : stmt) : stmt := mk_stmt (s_label s) (retarget m (s_kind s)).

Definition remove_noops (ss : list stmt) : outcome (list stmt) unit :=
  do r <- noop_loop (filter keep_stmt ss) [] [];
  Ok (map (rewire (snd r)) (filter keep_stmt (fst r))).

Definition compress (ss : list stmt) : outcome (list stmt) unit :=
  remove_noops (remove_redundant_labels ss).

(* ------------------------------------------------------------------------- *)
(** * _fix_labels_in_place *)

Definition label_or_0 (s : stmt) : nat := match s_label s with Some l => l | None => 0 end.
Definition max_label (ss : list stmt) : nat :=
  fold_left (fun acc s => Nat.max acc (label_or_0 s)) ss 0.

Definition label_first (ss : list stmt) (lbl : nat) : list stmt * nat :=
  match ss with
  | [] => ([], lbl)
  | s :: r =>
      match s_label s with
      | None => (mk_stmt (Some lbl) (s_kind s) :: r, S lbl)
      | Some _ => (ss, lbl)
      end
  end.

(** [for previous, current in pairwise(statements)]: label after each yield. *)
Fixpoint label_after_yields (prev_yield : bool) (ss : list stmt) (lbl : nat) : list stmt :=
  match ss with
  | [] => []
  | s :: r =>
      match s_label s with
      | None =>
          if prev_yield
          then mk_stmt (Some lbl) (s_kind s) :: label_after_yields (is_yield s) r (S lbl)
          else s :: label_after_yields (is_yield s) r lbl
      | Some _ => s :: label_after_yields (is_yield s) r lbl
      end
  end.

Fixpoint build_map (ss : list stmt) (lbl : nat) (m : dict) : dict :=
  match ss with
  | [] => m
  | s :: r =>
      match s_label s with
      | Some l => build_map r (S lbl) (dict_set m l lbl)
      | None => build_map r lbl m
      end
  end.

Definition fix_stmt (m : dict) (s : stmt) : outcome stmt unit :=
  match s_label s with
  | None => Ok (mk_stmt None (retarget m (s_kind s)))
  | Some l =>
      match dict_get m l with
      | Some v => Ok (mk_stmt (Some v) (retarget m (s_kind s)))
      | None => Crash KeyError
      end
  end.

Fixpoint map_o {A B} (f : A -> outcome B unit) (l : list A) : outcome (list B) unit :=
  match l with
  | [] => Ok []
  | x :: r => do y <- f x; do ys <- map_o f r; Ok (y :: ys)
  end.

Definition fix_labels (ss : list stmt) : outcome (list stmt) unit :=
  match ss with
  | [] => Ok []
  | _ =>
      let lbl := S (max_label ss) in
      let '(s1, lbl1) := label_first ss lbl in
      let s2 := label_after_yields false s1 lbl1 in
      let m := build_map s2 0 [] in
      map_o (fix_stmt m) s2
  end.

(* ------------------------------------------------------------------------- *)
(** * Subroutine, _split_in_subroutines, linearize_to_subroutines *)

Definition check_sub (block : list stmt) : outcome (list stmt) unit :=
  match block with
  | [] => Crash Violation
  | s :: r =>
      if is_some (s_label s) && forallb (fun x => negb (is_some (s_label x))) r
      then Ok block else Crash Violation
  end.

Fixpoint split_loop (ss : list stmt) (block : list stmt) : outcome (list (list stmt)) unit :=
  match ss with
  | [] =>
      match block with
      | [] => Ok []
      | _ => do b <- check_sub block; Ok [b]
      end
  | s :: r =>
      match s_label s with
      | Some _ =>
          match block with
          | [] => split_loop r [s]
          | _ => do b <- check_sub block; do rest <- split_loop r [s]; Ok (b :: rest)
          end
      | None => split_loop r (block ++ [s])
      end
  end.

Definition split_in_subroutines (ss : list stmt) : outcome (list (list stmt)) unit :=
  split_loop ss [].

Definition sub_head_label (sub : list stmt) : option nat :=
  match sub with s :: _ => s_label s | [] => None end.

(** The [@ensure] of [linearize_to_subroutines]. *)
Fixpoint consecutive_heads (subs : list (list stmt)) : outcome bool unit :=
  match subs with
  | a :: ((b :: _) as r) =>
      match sub_head_label a with
      | None => Crash TypeError
      | Some la =>
          if option_eqb Nat.eqb (Some (S la)) (sub_head_label b)
          then consecutive_heads r else Ok false
      end
  | _ => Ok true
  end.

Definition linearize_to_subroutines (f : list node) : outcome (list (list stmt)) unit :=
  match f with
  | [] => Ok []
  | _ =>
      do s1 <- compress (linearize_control_flow f);
      do s2 <- fix_labels s1;
      do subs <- split_in_subroutines s2;
      do ok <- consecutive_heads subs;
      if ok then Ok subs else Crash Violation
  end.

(* ------------------------------------------------------------------------- *)
(** * Semantics of labelled code (the C++ [while (true) switch (state_)] machine)

    A machine is the flat statement list, a resolver of jump targets to positions and
    the configuration entered after a [Yield] at a position. Configurations: running
    at a position; about to dispatch on a state value ([switch (state_)]); halted;
    stuck (the [default: throw]). A step emits at most one event; [Jump], [Noop], the
    dispatch and falling through a case boundary are silent. *)

Inductive lconf : Type :=
| LRun (pc : nat)
| LGoto (target : nat)
| LHalt
| LStuck.

Record machine : Type := mk_machine {
  m_code : list stmt;
  m_resolve : nat -> option nat;
  m_yield : nat -> lconf
}.

Definition branch (pc : nat) (t : option nat) : lconf :=
  match t with Some l => LGoto l | None => LRun (S pc) end.

Definition lin_step (M : machine) (orc : oracle) (c : lconf) (i : nat)
  : option event * lconf * nat :=
  match c with
  | LHalt => (None, LHalt, i)
  | LStuck => (None, LStuck, i)
  | LGoto t =>
      match m_resolve M t with
      | Some p => (None, LRun p, i)
      | None => (Some EStuck, LStuck, i)
      end
  | LRun pc =>
      match nth_error (m_code M) pc with
      | None => (Some EDone, LHalt, i)
      | Some s =>
          match s_kind s with
          | KCommand code => (Some (ECmd code), LRun (S pc), i)
          | KNoop => (None, LRun (S pc), i)
          | KYield => (Some EYield, m_yield M pc, i)
          | KJump t => (None, LGoto t, i)
          | KIf cond a b =>
              let v := orc i in
              (Some (ECond cond v), branch pc (if v then a else b), S i)
          end
      end
  end.

Definition ev_list (e : option event) : list event := opt_list e.

Fixpoint lin_run (M : machine) (orc : oracle) (n : nat) (c : lconf) (i : nat)
  : list event * lconf * nat :=
  match n with
  | O => ([], c, i)
  | S n' =>
      let '(e, c1, i1) := lin_step M orc c i in
      let '(t, c2, i2) := lin_run M orc n' c1 i1 in
      (ev_list e ++ t, c2, i2)
  end.

(** Flat labelled code: a target resolves to the first statement carrying the label,
    a yield resumes at the next statement. *)
Fixpoint find_label (ss : list stmt) (t : nat) : option nat :=
  match ss with
  | [] => None
  | s :: r =>
      if option_eqb Nat.eqb (s_label s) (Some t) then Some 0
      else option_map S (find_label r t)
  end.

Definition flat_machine (code : list stmt) : machine :=
  mk_machine code (find_label code) (fun pc => LRun (S pc)).

(** The generated C++: one [case <head label>:] per subroutine, in order, bodies fall
    through into the next case; only head labels are case labels; a [Yield] sets the
    state to the head label of the *next* subroutine and returns (the next call of
    [Execute()] dispatches on it); in the last subroutine it invalidates the state,
    which ends the run. *)
Fixpoint find_case (subs : list (list stmt)) (off : nat) (t : nat) : option nat :=
  match subs with
  | [] => None
  | sub :: r =>
      if option_eqb Nat.eqb (sub_head_label sub) (Some t) then Some off
      else find_case r (off + length sub) t
  end.

Fixpoint yield_table (subs : list (list stmt)) (total : nat) : list lconf :=
  match subs with
  | [] => []
  | sub :: r =>
      let nxt :=
        match r with
        | [] => LRun total
        | nx :: _ => match sub_head_label nx with Some l => LGoto l | None => LStuck end
        end in
      repeat nxt (length sub) ++ yield_table r total
  end.

Definition cpp_machine (subs : list (list stmt)) : machine :=
  let code := concat subs in
  mk_machine code (find_case subs 0)
             (fun pc => nth pc (yield_table subs (length code)) LStuck).

(** All events emitted by the first [n] machine steps of the subroutines, started
    like the generated iterator ([state_ = 0]). For the empty flow
    [generate_execute_body] emits no state machine at all ("// Intentionally empty."):
    the run just ends. *)
Definition run_lin (n : nat) (subs : list (list stmt)) (orc : oracle) : list event :=
  match subs with
  | [] => match n with O => [] | S _ => [EDone] end
  | _ => fst (fst (lin_run (cpp_machine subs) orc n (LGoto 0) 0))
  end.

(* ------------------------------------------------------------------------- *)
(** * Decidable equality for the correspondence check *)

Definition onat_eqb := option_eqb Nat.eqb.

Definition skind_eqb (a b : skind) : bool :=
  match a, b with
  | KCommand x, KCommand y => text_eqb x y
  | KIf c a1 b1, KIf d a2 b2 => text_eqb c d && onat_eqb a1 a2 && onat_eqb b1 b2
  | KJump x, KJump y => Nat.eqb x y
  | KYield, KYield => true
  | KNoop, KNoop => true
  | _, _ => false
  end.

Definition stmt_eqb (a b : stmt) : bool :=
  onat_eqb (s_label a) (s_label b) && skind_eqb (s_kind a) (s_kind b).

Definition subs_eqb := list_eqb (list_eqb stmt_eqb).

(** Model outcome against the implementation's observation:
    [Some subs] = returned value, [None] = an exception escaped. *)
Definition agrees (o : outcome (list (list stmt)) unit) (impl : option (list (list stmt))) : bool :=
  match o, impl with
  | Ok a, Some b => subs_eqb a b
  | Crash _, None => true
  | _, _ => false
  end.
