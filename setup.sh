#!/bin/sh
# Build the framework offline from files on disk only: regenerate Gen/*.v from /repo,
# full .vo build of the whole Coq development (never -vos), extraction driver.
set -e
cd "$(dirname "$0")"
mkdir -p work evidence replays
python3 -c "
import sys; sys.path.insert(0, '.')
from harness import regen, lib
print(regen.regenerate())
lib.regen_coqproject()
"
cd coq
timeout 3000 make -j16
echo "setup ok"
