"""Adapter: import generated Python SDKs and execute lists of operations on them.

JSON stdin -> JSON stdout; run with the interpreter of the repository under test
(``lib.impl_call("pysdk.py", payload)``). Nothing of /repo is imported here: the SDK
directories were produced beforehand by the real CLI (harness/impl/cli.py).

Input ``{"sdks": [{"dir": <output dir>, "lite": <lite meta-model, see harness/gen/sdk.py>,
"ops": [op, ...]}, ...]}``; output one entry per SDK: ``{"import_error": {...}}`` or
``{"results": [result per op]}``. Every SDK must use its own top-level module name.

Value encodings (shared with harness/gen/sdk.py): ``None``; ``{"b": bool}``; ``{"i": "int"}``;
``{"d": hex of the IEEE-754 bits}``; ``{"s": [code points]}``; ``{"y": hex}``;
``{"e": enum, "l": literal}``; ``{"L": [...]}``; objects ``{"o": id, "c": class, "f": [per
stacked property]}``, ``{"r": id}`` = the object built earlier under that id.
Jsonables: ``None``, ``b``, ``i``, ``f``, ``s`` as above, ``{"A": [...]}``, ``{"O": [[key
code points, value], ...]}``.

Outcome of an operation that may raise: ``{"ok": ...}`` | ``{"deser": message}`` (the SDK's
own DeserializationException of the module in question) | ``{"exc": class name, "mro":
[...], "msg": ...}``.
"""
import importlib
import io
import json
import struct
import sys
import traceback


def f2hex(x):
    return struct.pack(">d", x).hex()


def hex2f(h):
    return struct.unpack(">d", bytes.fromhex(h))[0]


class Sdk:
    def __init__(self, spec):
        self.lite = spec["lite"]
        self.dir = spec["dir"]
        mod = self.lite["module"]
        if self.dir not in sys.path:
            sys.path.insert(0, self.dir)
        self.types = importlib.import_module(mod + ".types")
        self.constants = importlib.import_module(mod + ".constants")
        self.stringification = importlib.import_module(mod + ".stringification")
        self.jsonization = importlib.import_module(mod + ".jsonization")
        self.xmlization = importlib.import_module(mod + ".xmlization")
        self.classes = {c["name"]: c for c in self.lite["classes"]}
        self.enums = {e["name"]: e for e in self.lite["enums"]}
        self.by_pyclass = {}
        for c in self.lite["classes"]:
            self.by_pyclass[getattr(self.types, c["py"])] = c
        self.by_pyenum = {}
        for e in self.lite["enums"]:
            self.by_pyenum[getattr(self.types, e["py"])] = e
        self.objects = {}     # harness id -> python object
        self.ids = {}         # id(python object) -> harness id

    # -- building --------------------------------------------------------------------
    def build(self, v):
        if v is None:
            return None
        if "b" in v:
            return bool(v["b"])
        if "i" in v:
            return int(v["i"])
        if "d" in v:
            return hex2f(v["d"])
        if "s" in v:
            return "".join(chr(c) for c in v["s"])
        if "y" in v:
            return bytes.fromhex(v["y"])
        if "e" in v:
            e = self.enums[v["e"]]
            lit = next(l for l in e["literals"] if l["name"] == v["l"])
            return getattr(getattr(self.types, e["py"]), lit["py"])
        if "L" in v:
            return [self.build(x) for x in v["L"]]
        if "r" in v:
            return self.objects[v["r"]]
        if "o" in v:
            c = self.classes[v["c"]]
            kwargs = {}
            for p, f in zip(c["props"], v["f"]):
                kwargs[p["py"]] = self.build(f)
            obj = getattr(self.types, c["py"])(**kwargs)
            self.objects[v["o"]] = obj
            self.ids[id(obj)] = v["o"]
            return obj
        raise ValueError(v)

    # -- encoding what the SDK holds ------------------------------------------------------
    def encode(self, x, fresh=None):
        """Python value held by the SDK -> tree encoding (objects get id 0 unless known)."""
        if x is None:
            return None
        if isinstance(x, bool):
            return {"b": x}
        if isinstance(x, int):
            return {"i": str(x)}
        if isinstance(x, float):
            return {"d": f2hex(x)}
        if isinstance(x, str):
            return {"s": [ord(c) for c in x]}
        if isinstance(x, (bytes, bytearray)):
            return {"y": bytes(x).hex()}
        if isinstance(x, list):
            return {"L": [self.encode(i) for i in x]}
        if type(x) in self.by_pyenum:
            e = self.by_pyenum[type(x)]
            lit = next(l for l in e["literals"] if l["py"] == x.name)
            return {"e": e["name"], "l": lit["name"]}
        if type(x) in self.by_pyclass:
            c = self.by_pyclass[type(x)]
            return {"o": self.ids.get(id(x), 0), "c": c["name"],
                    "f": [self.encode(getattr(x, p["py"])) for p in c["props"]]}
        return {"unknown": repr(type(x))}

    def jsonable_in(self, j):
        if j is None:
            return None
        if "b" in j:
            return bool(j["b"])
        if "i" in j:
            return int(j["i"])
        if "d" in j:
            return hex2f(j["d"])
        if "s" in j:
            return "".join(chr(c) for c in j["s"])
        if "A" in j:
            return [self.jsonable_in(x) for x in j["A"]]
        if "O" in j:
            return {"".join(chr(c) for c in k): self.jsonable_in(x) for k, x in j["O"]}
        raise ValueError(j)

    def jsonable_out(self, x):
        if x is None:
            return None
        if isinstance(x, bool):
            return {"b": x}
        if isinstance(x, int):
            return {"i": str(x)}
        if isinstance(x, float):
            return {"d": f2hex(x)}
        if isinstance(x, str):
            return {"s": [ord(c) for c in x]}
        if isinstance(x, (list, tuple)):
            return {"A": [self.jsonable_out(i) for i in x]}
        if isinstance(x, dict):
            return {"O": [[[ord(c) for c in k], self.jsonable_out(v)] for k, v in x.items()]}
        return {"unknown": repr(type(x))}

    # -- comparisons -----------------------------------------------------------------------
    def same(self, a, b, path="$"):
        """Field-by-field equality of two SDK values; returns None or the first difference."""
        if type(a) is not type(b):
            return f"{path}: type {type(a).__name__} vs {type(b).__name__}"
        if a is None:
            return None
        if isinstance(a, float):
            return None if f2hex(a) == f2hex(b) or (a != a and b != b) else f"{path}: {a!r} vs {b!r}"
        if isinstance(a, (bool, int, str, bytes, bytearray)):
            return None if a == b else f"{path}: {a!r} vs {b!r}"
        if isinstance(a, list):
            if len(a) != len(b):
                return f"{path}: list length {len(a)} vs {len(b)}"
            for i, (x, y) in enumerate(zip(a, b)):
                d = self.same(x, y, f"{path}[{i}]")
                if d:
                    return d
            return None
        if type(a) in self.by_pyenum:
            return None if a is b else f"{path}: {a!r} vs {b!r}"
        if type(a) in self.by_pyclass:
            for p in self.by_pyclass[type(a)]["props"]:
                d = self.same(getattr(a, p["py"]), getattr(b, p["py"]), f"{path}.{p['py']}")
                if d:
                    return d
            return None
        return f"{path}: unexpected {type(a)}"

    def outcome(self, fn, deser_cls):
        try:
            return {"ok": fn()}
        except deser_cls as e:
            return {"deser": str(getattr(e, "cause", e))[:300]}
        except RecursionError as e:
            return {"exc": "RecursionError", "mro": ["RecursionError", "RuntimeError"], "msg": ""}
        except BaseException as e:  # noqa
            if isinstance(e, KeyboardInterrupt):
                raise
            return {"exc": type(e).__name__, "mro": [k.__name__ for k in type(e).__mro__],
                    "msg": str(e)[:300], "tb": traceback.format_exc()[-1500:]}

    # -- operations ---------------------------------------------------------------------------
    def run(self, op):
        kind = op["op"]
        T, J, X = self.types, self.jsonization, self.xmlization
        if kind == "build":
            self.build(op["inst"])
            return {"ok": True}
        if kind == "constants":
            out = []
            for k in self.lite["constants"]:
                try:
                    v = getattr(self.constants, k["py"])
                except AttributeError:
                    out.append({"name": k["name"], "missing": True})
                    continue
                if k["kind"] == "primitive":
                    out.append({"name": k["name"], "value": self.encode(v), "pytype": type(v).__name__})
                else:
                    items = [self.encode(i) for i in v] if isinstance(v, (set, frozenset)) else None
                    out.append({"name": k["name"], "items": items, "pytype": type(v).__name__,
                                "item_types": sorted({type(i).__name__ for i in v}) if items is not None else None})
            return {"ok": out}
        if kind == "enums":
            out = []
            for e in self.lite["enums"]:
                cls = getattr(T, e["py"])
                members = [{"py": m.name, "value": self.encode(m.value)} for m in cls]
                from_str = getattr(self.stringification, e["fn"] + "_from_str")
                probes = []
                for s in op["probes"].get(e["name"], []):
                    text = "".join(chr(c) for c in s)
                    r = from_str(text)
                    probes.append(None if r is None else self.encode(r))
                rt = []
                for m in cls:
                    r = from_str(m.value)
                    rt.append(r is m)
                out.append({"name": e["name"], "members": members, "probes": probes, "roundtrip": rt,
                            "aliases": [n for n, m in cls.__members__.items() if m.name != n]})
            return {"ok": out}
        if kind == "descend":
            obj = self.objects[op["id"]]
            once = [self.ids.get(id(x), -1) for x in obj.descend_once()]
            full = [self.ids.get(id(x), -1) for x in obj.descend()]
            return {"ok": {"once": once, "all": full,
                           "once_tree": [self.encode(x) for x in obj.descend_once()] if op.get("trees") else None,
                           "all_tree": [self.encode(x) for x in obj.descend()] if op.get("trees") else None}}
        if kind == "dispatch":
            obj = self.objects[op["id"]]
            log = []

            class Rec:
                def __getattr__(self_, name):
                    def method(*args):
                        log.append([name, [self.ids.get(id(a), repr(a)) for a in args]])
                        return ("ret", name)
                    return method
            rec = Rec()
            r1 = obj.accept(rec)
            obj.accept_with_context(rec, "ctx")
            r3 = obj.transform(rec)
            r4 = obj.transform_with_context(rec, "ctx")
            # pass-through visitor visits self then all descendants
            seen = []

            class V(T.PassThroughVisitor):
                def visit(self_, that):
                    seen.append(self.ids.get(id(that), -1))
                    super().visit(that)
            V().visit(obj)
            # transformer with default
            td = T.TransformerWithDefault("dflt").transform(obj)
            abstract_raise = None
            try:
                T.AbstractTransformer.transform(T.TransformerWithDefault("d"), obj)
            except Exception as e:  # noqa
                abstract_raise = type(e).__name__
            return {"ok": {"log": log, "accept_ret": r1 is None, "transform_ret": list(r3) if isinstance(r3, tuple) else repr(r3),
                           "transform_ctx_ret": list(r4) if isinstance(r4, tuple) else repr(r4),
                           "pass_through": seen, "with_default": td}}
        if kind == "dispatch_matrix":
            # For every concrete class D: a visitor / visitor with context / transformer (with and
            # without context) that overrides exactly the method of D; which of the objects
            # (given by harness ids, the instance in pre-order) reach the overridden method.
            root = self.objects[op["ids"][0]]
            objs = [self.objects[i] for i in op["ids"]]
            out = {}
            for c in self.lite["classes"]:
                if c["abstract"]:
                    continue
                fn = c["fn"]
                hits, hits_ctx, ctx_ok = [], [], [True]

                def visit_d(self_, that, _hits=hits, _fn=fn):
                    _hits.append(self.ids.get(id(that), -1))
                    getattr(T.PassThroughVisitor, "visit_" + _fn)(self_, that)

                def visit_d_ctx(self_, that, context, _hits=hits_ctx, _fn=fn, _ok=ctx_ok):
                    _hits.append(self.ids.get(id(that), -1))
                    if context != "ctx":
                        _ok[0] = False
                    getattr(T.PassThroughVisitorWithContext, "visit_" + _fn + "_with_context")(self_, that, context)

                V = type("V", (T.PassThroughVisitor,), {"visit_" + fn: visit_d})
                VC = type("VC", (T.PassThroughVisitorWithContext,), {"visit_" + fn + "_with_context": visit_d_ctx})
                V().visit(root)
                VC().visit_with_context(root, "ctx")
                TD = type("TD", (T.TransformerWithDefault,), {"transform_" + fn: lambda self_, that: "hit"})
                TC = type("TC", (T.TransformerWithDefaultAndContext,),
                          {"transform_" + fn + "_with_context": lambda self_, that, context: ("hit", context)})
                t_hits = [self.ids.get(id(o), -1) for o in objs if o.transform(TD("dflt")) == "hit"]
                tc_hits = [self.ids.get(id(o), -1) for o in objs
                           if o.transform_with_context(TC("dflt"), "ctx") == ("hit", "ctx")]
                t_other = [self.ids.get(id(o), -1) for o in objs if o.transform(TD("dflt")) not in ("hit", "dflt")]
                # direct dispatch on the root only
                direct, direct_ctx = [], []
                V2 = type("V2", (T.PassThroughVisitor,), {"visit_" + fn: lambda self_, that, _d=direct: _d.append(1) if that is root else None})
                VC2 = type("VC2", (T.PassThroughVisitorWithContext,),
                           {"visit_" + fn + "_with_context":
                            lambda self_, that, context, _d=direct_ctx: _d.append(1) if that is root else None})
                root.accept(V2())
                root.accept_with_context(VC2(), "ctx")
                out[c["name"]] = {"visit": hits, "visit_ctx": hits_ctx, "ctx_ok": ctx_ok[0], "transform": t_hits,
                                  "transform_ctx": tc_hits, "transform_other": t_other,
                                  "accept_root": len(direct), "accept_root_ctx": len(direct_ctx)}
            return {"ok": out}
        if kind == "accessors":
            obj = self.objects[op["id"]]
            c = self.by_pyclass[type(obj)]
            out = {"over": {}, "or_default": {}, "missing": []}
            for p in c["props"]:
                if p["optional"] and p["type"]["k"] == "list":
                    name = f"over_{p['py']}_or_empty"
                    if not hasattr(obj, name):
                        out["missing"].append(name)
                        continue
                    got = list(getattr(obj, name)())
                    val = getattr(obj, p["py"])
                    out["over"][p["name"]] = {
                        "same": (len(got) == len(val or []) and all(a is b for a, b in zip(got, val or []))),
                        "len": len(got), "was_none": val is None}
            for od in c["or_default"]:
                if not hasattr(obj, od["py"]):
                    out["missing"].append(od["py"])
                    continue
                got = getattr(obj, od["py"])()
                prop = next(p for p in c["props"] if p["name"] == od["prop"])
                val = getattr(obj, prop["py"])
                out["or_default"][od["method"]] = {"got": self.encode(got), "was_none": val is None,
                                                   "identical": got is val}
            return {"ok": out}
        if kind == "to_jsonable":
            obj = self.objects[op["id"]]
            return self.outcome(lambda: self.jsonable_out(J.to_jsonable(obj)), J.DeserializationException)
        if kind == "json_roundtrip":
            obj = self.objects[op["id"]]
            c = self.classes[op.get("via") or self.by_pyclass[type(obj)]["name"]]
            fn = getattr(J, c["fn"] + "_from_jsonable")

            def go():
                jsonable = J.to_jsonable(obj)
                if op.get("text"):
                    jsonable = json.loads(json.dumps(jsonable))
                back = fn(jsonable)
                return {"diff": self.same(obj, back), "same_object": back is obj}
            return self.outcome(go, J.DeserializationException)
        if kind == "from_jsonable":
            c = self.classes[op["cls"]]
            fn = getattr(J, c["fn"] + "_from_jsonable")
            doc = self.jsonable_in(op["doc"])
            return self.outcome(lambda: self.encode(fn(doc)), J.DeserializationException)
        if kind == "to_xml":
            obj = self.objects[op["id"]]
            return self.outcome(lambda: X.to_str(obj), X.DeserializationException)
        if kind == "xml_roundtrip":
            obj = self.objects[op["id"]]
            c = self.classes[op.get("via") or self.by_pyclass[type(obj)]["name"]]
            fn = getattr(X, c["fn"] + "_from_str")

            def go():
                text = X.to_str(obj)
                back = fn(text)
                return {"diff": self.same(obj, back), "text": text if op.get("want_text") else None}
            return self.outcome(go, X.DeserializationException)
        if kind == "from_xml":
            c = self.classes[op["cls"]]
            fn = getattr(X, c["fn"] + "_from_str")
            text = "".join(chr(cp) for cp in op["text"])
            return self.outcome(lambda: self.encode(fn(text)), X.DeserializationException)
        if kind == "xml_text":
            # write a string through the SDK's XML writer in isolation and read it back with
            # the standard parser: the text-level codec observed by C10's xml_text streams
            import xml.etree.ElementTree as ET
            s = "".join(chr(cp) for cp in op["text"])

            def go():
                buf = io.StringIO()
                ser = X._Serializer(buf)
                ser._escape_and_write_text(s)
                written = buf.getvalue()
                el = ET.fromstring("<t>" + written + "</t>")
                return {"written": [ord(ch) for ch in written], "parsed": [ord(ch) for ch in (el.text or "")]}
            return self.outcome(go, X.DeserializationException)
        raise ValueError(kind)


def main():
    payload = json.load(sys.stdin)
    sys.setrecursionlimit(max(sys.getrecursionlimit(), 1000))
    out = []
    for spec in payload["sdks"]:
        try:
            sdk = Sdk(spec)
        except BaseException as e:  # noqa
            if isinstance(e, KeyboardInterrupt):
                raise
            out.append({"import_error": {"class": type(e).__name__, "msg": str(e)[:500],
                                         "tb": traceback.format_exc()[-2500:]}})
            continue
        results = []
        for op in spec["ops"]:
            try:
                results.append(sdk.run(op))
            except BaseException as e:  # noqa
                if isinstance(e, KeyboardInterrupt):
                    raise
                results.append({"adapter_exc": type(e).__name__, "msg": str(e)[:500],
                                "tb": traceback.format_exc()[-2500:]})
        out.append({"results": results})
    json.dump(out, sys.stdout)


if __name__ == "__main__":
    main()
