(** Proofs about [from_json] of Model/SdkSpec.v (C10): totality up to base64. *)
From Coq Require Import List NArith ZArith Bool Lia.
From Acg Require Import Base.Str Base.Outcome Model.SdkSpec Model.SdkSpecB64 Proofs.SdkSpecConstFacts.
Import ListNotations.
Local Open Scope nat_scope.

Section json_ind'.
  Variable P : json -> Prop.
  Hypothesis HNull : P JNull.
  Hypothesis HBool : forall b, P (JBool b).
  Hypothesis HInt : forall z, P (JInt z).
  Hypothesis HFloat : forall f, P (JFloat f).
  Hypothesis HStr : forall s, P (JStr s).
  Hypothesis HArr : forall js, Forall P js -> P (JArr js).
  Hypothesis HObj : forall kvs, Forall (fun kv => P (snd kv)) kvs -> P (JObj kvs).
  Fixpoint json_ind' (j : json) : P j :=
    match j with
    | JNull => HNull
    | JBool b => HBool b
    | JInt z => HInt z
    | JFloat f => HFloat f
    | JStr s => HStr s
    | JArr js =>
        HArr js ((fix go (l : list json) : Forall P l :=
                    match l with
                    | [] => Forall_nil _
                    | x :: r => Forall_cons x (json_ind' x) (go r)
                    end) js)
    | JObj kvs =>
        HObj kvs ((fix go (l : list (text * json)) : Forall (fun kv => P (snd kv)) l :=
                     match l with
                     | [] => Forall_nil _
                     | kv :: r => Forall_cons kv (json_ind' (snd kv)) (go r)
                     end) kvs)
    end.
End json_ind'.

Lemma from_json_cls_obj : forall dec m c kvs,
  from_json dec m (ACls c) (JObj kvs) =
  match resolve_cls m c kvs with
  | Ok k =>
      match parse_fields (from_json dec m) (c_props k) kvs with
      | Ok parsed =>
          match build_fields (c_props k) parsed with
          | Ok fs => Ok (VObj (c_name k) fs)
          | Err e => Err e
          | Crash x => Crash x
          end
      | Err e => Err e
      | Crash x => Crash x
      end
  | Err e => Err e
  | Crash x => Crash x
  end.
Proof. reflexivity. Qed.

Definition field_value (rec : aty -> json -> outcome value unit) (p : prop) (jv : json) : outcome value unit :=
  match p_ty p with
  | TAtom a => rec a jv
  | TList a =>
      match jv with
      | JArr js =>
          match parse_items (rec a) js with
          | Ok vs => Ok (VList vs)
          | Err e => Err e
          | Crash k => Crash k
          end
      | _ => Err tt
      end
  end.

Lemma parse_fields_cons : forall rec ps key jv r,
  parse_fields rec ps ((key, jv) :: r) =
  if text_eqb key MODEL_TYPE then parse_fields rec ps r
  else match find_prop ps key with
       | None => Err tt
       | Some p =>
           match field_value rec p jv with
           | Ok v =>
               match parse_fields rec ps r with
               | Ok rest => Ok ((key, v) :: rest)
               | Err e => Err e
               | Crash k => Crash k
               end
           | Err e => Err e
           | Crash k => Crash k
           end
       end.
Proof. reflexivity. Qed.

Lemma resolve_cls_no_crash : forall m c kvs, is_crash (resolve_cls m c kvs) = false.
Proof.
  intros m c kvs. unfold resolve_cls.
  destruct (find_cls m c) as [k|]; [|reflexivity].
  destruct (c_desc k).
  - destruct (c_abstract k); [reflexivity|]. destruct (c_with_mt k); [|reflexivity].
    destruct (assoc MODEL_TYPE kvs) as [[]|]; try reflexivity. destruct (text_eqb t (c_mt k)); reflexivity.
  - destruct (assoc MODEL_TYPE kvs) as [[]|]; try reflexivity.
    destruct (find_by_mt m (options m c) t0); reflexivity.
Qed.

Lemma build_fields_no_crash : forall ps parsed, is_crash (build_fields ps parsed) = false.
Proof.
  induction ps as [|p ps IH]; intros parsed; cbn; [reflexivity|].
  specialize (IH parsed).
  destruct (last_assoc (p_json p) parsed); [|destruct (p_opt p); [|reflexivity]];
    destruct (build_fields ps parsed); cbn in *; congruence.
Qed.

Section Total.
  Variable dec : text -> outcome (list N) unit.
  Variable m : mm.
  Hypothesis Hdec : forall s, is_crash (dec s) = false.

  Lemma prim_no_crash : forall p j, is_crash (prim_from_json dec p j) = false.
  Proof.
    intros p j. destruct p, j; try reflexivity. cbn.
    specialize (Hdec t). destruct (dec t); cbn in *; congruence.
  Qed.

  Definition nocrash (j : json) : Prop := forall a, is_crash (from_json dec m a j) = false.
  Definition nocrash_deep (j : json) : Prop :=
    nocrash j /\ match j with JArr js => Forall nocrash js | _ => True end.

  Lemma parse_items_no_crash : forall a js,
    Forall nocrash js -> is_crash (parse_items (from_json dec m a) js) = false.
  Proof.
    intros a js H. induction H as [|x r Hx Hr IH]; cbn; [reflexivity|].
    specialize (Hx a). destruct (from_json dec m a x); cbn in *; try congruence.
    destruct (parse_items (from_json dec m a) r); cbn in *; congruence.
  Qed.

  Lemma parse_fields_no_crash : forall ps kvs,
    Forall (fun kv => nocrash_deep (snd kv)) kvs ->
    is_crash (parse_fields (from_json dec m) ps kvs) = false.
  Proof.
    intros ps kvs H. induction H as [|[key jv] r [Hx Hd] Hr IH]; [reflexivity|].
    rewrite parse_fields_cons.
    destruct (text_eqb key MODEL_TYPE); [exact IH|].
    destruct (find_prop ps key) as [p|]; [|reflexivity].
    cbn [snd] in Hx, Hd.
    assert (Hpv : is_crash (field_value (from_json dec m) p jv) = false).
    { unfold field_value. destruct (p_ty p) as [a|a]; [apply Hx|].
      destruct jv; try reflexivity.
      pose proof (parse_items_no_crash a js Hd) as Hi.
      destruct (parse_items (from_json dec m a) js); cbn in *; congruence. }
    destruct (field_value (from_json dec m) p jv); cbn in *; try congruence.
    destruct (parse_fields (from_json dec m) ps r); cbn in *; congruence.
  Qed.

  Lemma from_json_no_crash_deep : forall j, nocrash_deep j.
  Proof.
    induction j using json_ind'; split; try exact I;
      try (intros [p|e|c]; [apply prim_no_crash|reflexivity|reflexivity]).
    - intros [p|e|c]; [apply prim_no_crash| |reflexivity]. cbn. destruct (enum_from_str m e s); reflexivity.
    - eapply Forall_impl; [|exact H]. intros x [Hx _]. exact Hx.
    - intros [p|e|c]; [apply prim_no_crash|reflexivity|].
      rewrite from_json_cls_obj.
      pose proof (resolve_cls_no_crash m c kvs) as Hr.
      destruct (resolve_cls m c kvs) as [k| |]; cbn in *; try congruence.
      pose proof (parse_fields_no_crash (c_props k) kvs H) as Hp.
      destruct (parse_fields (from_json dec m) (c_props k) kvs) as [parsed| |]; cbn in *; try congruence.
      pose proof (build_fields_no_crash (c_props k) parsed) as Hb.
      destruct (build_fields (c_props k) parsed); cbn in *; congruence.
  Qed.

  (** No exception other than the de-serialization error — provided base64 decoding does
      not raise (it does: see the refutation). *)
  Theorem from_json_total_partial : forall a j, is_crash (from_json dec m a j) = false.
  Proof. intros a j. apply (proj1 (from_json_no_crash_deep j)). Qed.
End Total.

(** With Python's base64 decoder the statement is false: a string that is not valid
    base64 given for a [bytearray] property raises [binascii.Error]. *)
Definition refute_mm : mm :=
  mkMM [] [mkCls [66%N] [66%N] false false [mkProp [121%N] (TAtom (APrim PBytes)) false] []].

Theorem from_json_total_refuted :
  exists m a j, from_json py_b64decode m a j = Crash ValueError.
Proof.
  exists refute_mm, (ACls [66%N]), (JObj [([121%N], JStr [65%N])]). vm_compute. reflexivity.
Qed.
