"""C12 — JSON Schema enforces every inferred constraint."""
from __future__ import annotations

from harness import lib
from harness.gen import jsonschema_check

META = {
    "title": "JSON Schema enforces every inferred constraint",
    "design_ref": "§4 C11 / C12",
    "level_text": (
        "Coq theorems over a Gallina semantics of the emitted JSON-Schema subset and a Gallina model "
        "of the generator core: for all values and constraints a well-typed value that breaks a "
        "length / pattern / list-size constraint of its (nested) type annotation is rejected at every "
        "fuel (byte arrays as far as the base64 text length can express it; the unrestricted statement "
        "is refuted with a witness); a mistyped value, a wrong modelType and a missing required "
        "property are rejected by the generated definition shapes; 'missing modelType is rejected' is "
        "refuted for leaf classes declaring the model type themselves. The generator model is compared "
        "inside Coq with the whole real `definitions` object of generated meta-models, the semantics "
        "with the verdicts of the independent `jsonschema` validator. The property itself is run on "
        "the real artefacts: single-constraint mutants (built with the real SDK, confirmed by its "
        "verify()) and structural mutants of SDK-produced documents must fail validation."
    ),
    "level_note": (
        "Partial: rejection through allOf inheritance chains / oneOf dispatch is proved only as "
        "'one rejecting conjunct rejects' and corresponded; excluded by design: tightenings on the "
        "items of an inherited list, byte lengths the base64 text cannot express. Trusted: jsonschema "
        "package, Python re on the UTF-16 image as the pattern oracle."
    ),
    "technique": "Coq proof (schema semantics + generator model) + in-Coq correspondence + oracle on real artefacts",
}
GEN = ["GenJsonSchema"]
MODEL = ["Model/JsonSchemaSem", "Model/JsonSchemaGen", "Gen/GenJsonSchema"]
TRUSTED = [
    "Model/JsonSchemaGen.v is a hand-written model of jsonschema/main.py (correspondence-checked on whole definitions objects)",
    "Model/JsonSchemaSem.v vs the JSON Schema specification: corresponded with the `jsonschema` package (Draft 2019-09)",
    "pattern matching: Python re.search on the UTF-16 code-unit image of a string (table oracle inside Coq)",
    "inferred constraints (infer_for_schema, C15), JSON names (naming.py) and fix_pattern_for_utf16 (C17) are inputs of the generator model",
    "harness/translate/jsonschema.py (_PRIMITIVE_MAP, fix_pattern plumbing) via Python's ast",
    "meta-model generator harness/gen/metamodel.py and instance generator harness/gen/jsonschema.py",
]
RULE = ("case = (meta-model, mutated document): one value breaking minLength/maxLength/pattern/minItems/"
        "maxItems inferred from own class, ancestor or constrained primitive (property or list item), or "
        "wrong/missing modelType, missing required property, mistyped value; meta-models: 5 hand-built witnesses + seeded random "
        "(hierarchies incl. diamonds, byte arrays with length bounds, lists of constrained primitives, "
        "patterns; every 4th model with astral characters in strings); a document counts when the SDK's "
        "verify() reports no error for the instance; distinct by (model, document)")


def streams(ctx: lib.Ctx) -> None:
    jsonschema_check.run(ctx, "C12")
