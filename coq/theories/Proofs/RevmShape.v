(** C18 — the shape of the trees the front end hands to the translator, and the final
    theorems about [translate] / [program]. *)
From Coq Require Import List NArith Bool Arith Lia.
From Acg Require Import Base.Outcome Model.RevmTree Model.Revm Model.RevmVM Model.RevmComp Model.RevmShape
  Proofs.RevmFrag Proofs.RevmCompCorrect Proofs.RevmTop Proofs.RevmTargets
  Proofs.RevmLabels Proofs.RevmTrSpec Proofs.RevmRelabel.
Import ListNotations.

Lemma sh_ok :
  (forall v, shv v = true -> okv v = true)
  /\ (forall t, sht t = true -> okt t = true)
  /\ (forall c, shc c = true -> okc c = true)
  /\ (forall u, shu u = true -> oku u = true).
Proof.
  apply tree_mutind; cbn [shv sht shc shu okv okt okc oku]; try reflexivity.
  - intros s H. destruct s; [discriminate|reflexivity|reflexivity].
  - intros u IH H. apply IH. exact H.
  - intros v IHv q H. destruct q as [q|].
    + apply andb_prop in H. destruct H as [H1 H2]. rewrite (IHv H1), H2. reflexivity.
    + apply IHv. exact H.
  - intros t IHt c IHc H. apply andb_prop in H. destruct H as [H1 H2].
    rewrite (IHt H1), (IHc H2). reflexivity.
  - intros c IHc u IHu H. apply andb_prop in H. destruct H as [H1 H2].
    rewrite (IHc H1), (IHu H2). reflexivity.
Qed.

Lemma sh_tr :
  (forall v, shv v = true -> ng_v v = false -> trv v = true)
  /\ (forall t, sht t = true -> ng_t t = false -> trt t = true)
  /\ (forall c, shc c = true -> ng_c c = false -> trc c = true)
  /\ (forall u, shu u = true -> ng_u u = false -> tru u = true).
Proof.
  apply tree_mutind; cbn [shv sht shc shu trv trt trc tru ng_v ng_t ng_c ng_u]; try reflexivity.
  - intros s H _. destruct s; [discriminate|reflexivity|reflexivity].
  - intros compl rs H _. exact H.
  - intros u IH H N. apply IH; assumption.
  - intros v IHv q H N. destruct q as [q|].
    + apply andb_prop in H. destruct H as [H1 H2]. apply orb_false_elim in N.
      destruct N as [N1 N2]. rewrite N1, (IHv H1 N2). reflexivity.
    + apply IHv; assumption.
  - intros t IHt c IHc H N. apply andb_prop in H. destruct H as [H1 H2].
    apply orb_false_elim in N. destruct N as [N1 N2]. rewrite (IHt H1 N1), (IHc H2 N2). reflexivity.
  - intros c IHc u IHu H N. apply andb_prop in H. destruct H as [H1 H2].
    apply orb_false_elim in N. destruct N as [N1 N2]. rewrite (IHc H1 N1), (IHu H2 N2). reflexivity.
Qed.

Lemma forallb_sht_okt : forall ts, forallb sht ts = true -> forallb okt ts = true.
Proof.
  induction ts as [|t r IH]; intros H; [reflexivity|]. cbn [forallb] in *.
  apply andb_prop in H. destruct H as [H1 H2].
  rewrite (proj1 (proj2 sh_ok) t H1), (IH H2). reflexivity.
Qed.

Lemma forallb_sht_trt : forall ts, forallb sht ts = true -> existsb ng_t ts = false ->
  forallb trt ts = true.
Proof.
  induction ts as [|t r IH]; intros H N; [reflexivity|]. cbn [forallb existsb] in *.
  apply andb_prop in H. destruct H as [H1 H2]. apply orb_false_elim in N. destruct N as [N1 N2].
  rewrite (proj1 (proj2 sh_tr) t H1 N1), (IH H2 N2). reflexivity.
Qed.

Lemma shape_greedy_trt : forall c mid,
  terms_of c = t_start :: mid ++ [t_end] -> forallb sht mid = true ->
  greedy (UCons c UNil) = true -> forallb trt mid = true.
Proof.
  intros c mid Hts Hsh Hg. apply forallb_sht_trt; [exact Hsh|].
  unfold greedy in Hg. apply negb_true_iff in Hg. cbn [ng_u] in Hg.
  apply orb_false_elim in Hg. destruct Hg as [Hg _]. rewrite ng_c_terms, Hts in Hg.
  cbn [existsb] in Hg. apply orb_false_elim in Hg. destruct Hg as [_ Hg].
  rewrite existsb_app in Hg. apply orb_false_elim in Hg. exact (proj1 Hg).
Qed.

(** ** the final theorems *)
Theorem program_comp_regex : forall r, accepted_shape r -> greedy r = true ->
  program r = Ok (comp_regex r).
Proof.
  intros r [c [mid [-> [Hts Hsh]]]] Hg.
  apply (program_is_comp c mid Hts). exact (shape_greedy_trt c mid Hts Hsh Hg).
Qed.

Theorem translate_correct : forall r, accepted_shape r -> greedy r = true ->
  exists p, program r = Ok p
            /\ forall w, no_linebreak w -> (vm_accepts p w <-> matches w r).
Proof.
  intros r Hs Hg. exists (comp_regex r). split; [apply program_comp_regex; assumption|].
  destruct Hs as [c [mid [-> [Hts Hsh]]]]. intros w Hw.
  apply (comp_regex_correct c mid w Hts (forallb_sht_okt mid Hsh) Hw).
Qed.

Theorem translate_total : forall r, greedy r = true -> accepted_shape r ->
  (exists out, translate r = Ok out) /\ forall k, program r <> Crash k.
Proof.
  intros r Hg Hs. pose proof (program_comp_regex r Hs Hg) as Hp. split.
  - unfold program in Hp. destruct (translate r) as [out|e|k]; [exists out; reflexivity| |];
      discriminate.
  - intros k Hk. rewrite Hp in Hk. discriminate.
Qed.

Theorem labels_wf : forall r, accepted_shape r -> greedy r = true ->
  exists p, program r = Ok p /\ targets_ok p = true.
Proof.
  intros r Hs Hg. exists (comp_regex r). split; [apply program_comp_regex; assumption|].
  destruct Hs as [c [mid [-> [Hts Hsh]]]].
  apply (comp_regex_targets_ok c mid Hts (forallb_sht_okt mid Hsh)).
Qed.
