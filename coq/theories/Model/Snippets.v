(** Model of [aas_core_codegen.specific_implementations.read_from_directory] (C25).

    A directory tree is given as the listing that [snippets_dir.glob("**/*")] yields:
    one [entry] per file or directory below the root (also below hidden directories),
    with its relative path as a list of components, in any order. The code sorts the
    paths ([sorted] on [PosixPath]: lexicographic on the components, components compared
    as strings by code point), skips hidden entries and directories, builds the key
    (relative POSIX path), tests it with the key regex, reads and decodes the file
    (UTF-8, universal newlines) and strips it.

    The model describes the code *with the fix* [work/fixes/C25-hidden-directories.patch]:
    an entry is hidden when *any* component of its relative path starts with a dot (the
    unchanged tree tests only the last component, so [.git/config] gives a key error).

    [decode] and the whitespace table are Section variables; the correspondence stream
    instantiates them with [py_decode] below and [GenPyWhitespace.py_whitespace].
    Hand-written; executable definitions only. *)
From Coq Require Import List NArith ZArith Bool.
From Acg Require Import Base.Str Base.Outcome.
Import ListNotations.
Open Scope N_scope.

Record entry := mk_entry { e_path : list text; e_dir : bool; e_bytes : list N }.

Inductive snippet_error :=
| KeyErr (path : list text)        (* "The snippet key is not valid ...: <key>" *)
| DecodeErr (path : list text).    (* "The snippet file is not a valid UTF-8: <path>" *)

Definition DOT : N := 46.
Definition SLASH : N := 47.

(** [part.startswith(".")] *)
Definition hidden_component (c : text) : bool := starts_with [DOT] c.
Definition hidden (p : list text) : bool := existsb hidden_component p.

(** [IMPLEMENTATION_KEY_RE.fullmatch]: segments separated by a slash; a segment is a
    letter or underscore followed by letters, digits, underscores and dots (the pattern
    string itself is in Gen/GenSnippets.v). *)
Definition in_range (lo hi c : N) : bool := (lo <=? c) && (c <=? hi).
Definition is_head (c : N) : bool := in_range 97 122 c || in_range 65 90 c || (c =? 95).
Definition is_tail (c : N) : bool := is_head c || in_range 48 57 c || (c =? DOT).
Definition valid_segment (s : text) : bool :=
  match s with
  | [] => false
  | c :: r => is_head c && forallb is_tail r
  end.
Definition valid_key (k : text) : bool := forallb valid_segment (split_on SLASH k).

(** [(pth.relative_to(snippets_dir).parent / pth.name).as_posix()] *)
Definition key_of (p : list text) : text := join [SLASH] p.

(** Order of [sorted(paths)]. *)
Fixpoint text_cmp (a b : text) : comparison :=
  match a, b with
  | [], [] => Eq
  | [], _ :: _ => Lt
  | _ :: _, [] => Gt
  | x :: a', y :: b' => match N.compare x y with Eq => text_cmp a' b' | c => c end
  end.
Fixpoint path_cmp (a b : list text) : comparison :=
  match a, b with
  | [], [] => Eq
  | [], _ :: _ => Lt
  | _ :: _, [] => Gt
  | x :: a', y :: b' => match text_cmp x y with Eq => path_cmp a' b' | c => c end
  end.
Definition path_leb (a b : list text) : bool :=
  match path_cmp a b with Gt => false | _ => true end.

Fixpoint insert_entry (e : entry) (l : list entry) : list entry :=
  match l with
  | [] => [e]
  | x :: r => if path_leb (e_path e) (e_path x) then e :: l else x :: insert_entry e r
  end.
Fixpoint sort_entries (l : list entry) : list entry :=
  match l with
  | [] => []
  | e :: r => insert_entry e (sort_entries r)
  end.

Section Snippets.
  Variable ws : list N.                          (* str.isspace code points *)
  Variable decode : list N -> option text.       (* read_text(encoding="utf-8") *)

  Definition is_ws (c : N) : bool := memN c ws.
  Fixpoint lstrip (t : text) : text :=
    match t with
    | [] => []
    | c :: r => if is_ws c then lstrip r else t
    end.
  Definition strip (t : text) : text := rev (lstrip (rev (lstrip t))).

  Definition visible_file (e : entry) : bool := negb (hidden (e_path e)) && negb (e_dir e).

  (** The loop body, one entry at a time, in list order. *)
  Fixpoint read_loop (l : list entry) : list (text * text) * list snippet_error :=
    match l with
    | [] => ([], [])
    | e :: r =>
        let (m, errs) := read_loop r in
        if hidden (e_path e) then (m, errs)
        else if e_dir e then (m, errs)
        else if negb (valid_key (key_of (e_path e))) then (m, KeyErr (e_path e) :: errs)
        else match decode (e_bytes e) with
             | None => (m, DecodeErr (e_path e) :: errs)
             | Some t => ((key_of (e_path e), strip t) :: m, errs)
             end
    end.

  Definition read_sorted (l : list entry)
    : outcome (list (text * text)) (list snippet_error) :=
    let (m, errs) := read_loop l in
    match errs with
    | [] => Ok m
    | _ => Err errs
    end.

  Definition read_dir (l : list entry) := read_sorted (sort_entries l).
End Snippets.

(* ---------------------------------------------------------------------------- *)
(** Concrete decoding used by the correspondence stream: strict UTF-8 as Python's
    codec (no overlong forms, no surrogates, at most U+10FFFF) followed by the
    universal-newline translation of text-mode reading. *)
Definition cont (b : N) : bool := in_range 128 191 b.
Definition lowbits (b : N) : N := b mod 64.

Fixpoint utf8_decode (bs : list N) : option text :=
  match bs with
  | [] => Some []
  | b0 :: r0 =>
      if b0 <? 128 then option_map (cons b0) (utf8_decode r0)
      else if in_range 194 223 b0 then
        match r0 with
        | b1 :: r1 =>
            if cont b1 then option_map (cons ((b0 mod 32) * 64 + lowbits b1)) (utf8_decode r1)
            else None
        | _ => None
        end
      else if in_range 224 239 b0 then
        match r0 with
        | b1 :: b2 :: r2 =>
            let ok1 := if b0 =? 224 then in_range 160 191 b1
                       else if b0 =? 237 then in_range 128 159 b1
                       else cont b1 in
            if ok1 && cont b2
            then option_map (cons ((b0 mod 16) * 4096 + lowbits b1 * 64 + lowbits b2))
                            (utf8_decode r2)
            else None
        | _ => None
        end
      else if in_range 240 244 b0 then
        match r0 with
        | b1 :: b2 :: b3 :: r3 =>
            let ok1 := if b0 =? 240 then in_range 144 191 b1
                       else if b0 =? 244 then in_range 128 143 b1
                       else cont b1 in
            if ok1 && cont b2 && cont b3
            then option_map (cons ((b0 mod 8) * 262144 + lowbits b1 * 4096
                                   + lowbits b2 * 64 + lowbits b3))
                            (utf8_decode r3)
            else None
        | _ => None
        end
      else None
  end.

Fixpoint universal_newlines (t : text) : text :=
  match t with
  | [] => []
  | c :: r =>
      if c =? CR then
        match r with
        | d :: r' => if d =? NL then NL :: universal_newlines r' else NL :: universal_newlines r
        | [] => [NL]
        end
      else c :: universal_newlines r
  end.

Definition py_decode (bs : list N) : option text :=
  option_map universal_newlines (utf8_decode bs).

(** Equality tests for the correspondence runner. *)
Definition path_eqb := list_eqb text_eqb.
Definition err_eqb (a b : snippet_error) : bool :=
  match a, b with
  | KeyErr p, KeyErr q | DecodeErr p, DecodeErr q => path_eqb p q
  | _, _ => false
  end.
Definition kv_eqb (a b : text * text) : bool :=
  text_eqb (fst a) (fst b) && text_eqb (snd a) (snd b).
Fixpoint insert_kv (e : text * text) (l : list (text * text)) : list (text * text) :=
  match l with
  | [] => [e]
  | x :: r => match text_cmp (fst e) (fst x) with Gt => x :: insert_kv e r | _ => e :: l end
  end.
Definition sort_kv (l : list (text * text)) : list (text * text) :=
  fold_right insert_kv [] l.
