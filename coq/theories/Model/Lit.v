(** C19 — the literal escapers of the six targets as interpreters of the regenerated
    branch tables ([Gen/GenLiteralTables.v]). Hand-written (tie H, correspondence
    checked): the choice of quoting/enclosing in Python and TypeScript, the
    [Stripped] post-condition, the chunking of [bytes_literal].
    Executable definitions only. *)
From Coq Require Import List NArith Bool.
From Acg Require Import Base.Str Base.Outcome Model.LitCore Gen.GenLiteralTables.
Import ListNotations.
Open Scope N_scope.

Definition enclose (w : text * text) (o : lit_outcome) : lit_outcome :=
  match o with
  | Ok e => Ok (fst w ++ e ++ snd w)
  | x => x
  end.

(** [common.Stripped.__new__] has [@require(is_stripped(block))]. *)
Definition ws_char (c : N) : bool := (c =? 10) || (c =? 32) || (c =? 9).
Definition is_stripped (t : text) : bool :=
  match t with
  | [] => true
  | c :: _ => negb (ws_char c) && negb (ws_char (last t 0))
  end.
Definition stripped (o : lit_outcome) : lit_outcome :=
  match o with
  | Ok e => if is_stripped e then Ok e else Err RViolation
  | x => x
  end.

(** ** Python *)
Inductive py_quoting : Type := QSingle | QDouble.

Fixpoint count_char (c : N) (s : text) : nat :=
  match s with
  | [] => O
  | x :: r => if x =? c then S (count_char c r) else count_char c r
  end.

Definition py_choose (q : option py_quoting) (s : text) : py_quoting :=
  match q with
  | Some q => q
  | None => if Nat.leb (count_char 39 s) (count_char 34 s) then QSingle else QDouble
  end.

Definition py_table (q : py_quoting) (curly : bool) : table :=
  match q, curly with
  | QSingle, false => py_single
  | QDouble, false => py_double
  | QSingle, true => py_single_curly
  | QDouble, true => py_double_curly
  end.

Definition py_quote (q : py_quoting) : N := match q with QSingle => 39 | QDouble => 34 end.

Definition py_string_literal (q : option py_quoting) (without_enclosing curly : bool)
    (s : text) : lit_outcome :=
  let q' := py_choose q s in
  match escape (py_table q' curly) s with
  | Ok e => stripped (Ok (if without_enclosing then e else [py_quote q'] ++ e ++ [py_quote q']))
  | x => x
  end.

(** [bytes_literal]: every byte as [\xNN]; more than 8 bytes -> one [b"..."] per 8
    bytes, separated by newlines. *)
Definition py_byte (b : N) : text := [92; 120] ++ render_num 16 2 b.

Definition py_bytes_chunk (bs : list N) : text := [98; 34] ++ flat_map py_byte bs ++ [34].

Fixpoint chunks8 (fuel : nat) (bs : list N) : list (list N) :=
  match fuel with
  | O => []
  | S f => match bs with
           | [] => []
           | _ => firstn 8 bs :: chunks8 f (skipn 8 bs)
           end
  end.

Definition py_bytes_literal (bs : list N) : text * bool :=
  if Nat.leb (length bs) 8 then (py_bytes_chunk bs, false)
  else (join [10] (map py_bytes_chunk (chunks8 (length bs) bs)), true).

Definition py_needs_escaping (s : text) (also_curly : bool) : outcome bool raise_kind :=
  match needs_loop py_needs s with
  | Ok false => Ok (also_curly && (memN 123 s || memN 125 s))
  | x => x
  end.

(** ** TypeScript *)
Definition ts_table (in_backticks : bool) : table :=
  if in_backticks then ts_template else ts_quoted.

Definition ts_string_literal (without_enclosing in_backticks : bool) (s : text) : lit_outcome :=
  match escape (ts_table in_backticks) s with
  | Ok e =>
      let q := if in_backticks then 96 else 34 in
      stripped (Ok (if without_enclosing then e else [q] ++ e ++ [q]))
  | x => x
  end.

(** ** C++ *)
Definition cpp_wstring_literal (s : text) : lit_outcome :=
  stripped (enclose cpp_wstring_wrap (escape cpp_wstring s)).

Definition cpp_string_literal (s : text) : lit_outcome :=
  if all_chars cpp_string_pre s
  then stripped (enclose cpp_string_wrap (escape cpp_string s))
  else Err RViolation.

Definition cpp_wchar_literal (s : text) : lit_outcome :=
  match s with
  | [c] => stripped (enclose cpp_wchar_wrap (esc1 cpp_wchar c None))
  | _ => if cpp_wchar_requires_len1 then Err RViolation
         else Crash TypeError   (* ord() of a string that is not one character *)
  end.

(** ** C#, Java, Go *)
Definition cs_string_literal (s : text) : lit_outcome :=
  stripped (enclose cs_string_wrap (escape cs_string s)).
Definition java_string_literal (s : text) : lit_outcome :=
  stripped (enclose java_string_wrap (escape java_string s)).
Definition go_string_literal (s : text) : lit_outcome :=
  stripped (enclose go_string_wrap (escape go_string s)).

Definition cpp_needs_escaping (s : text) := needs_loop cpp_needs s.
Definition cs_needs_escaping (s : text) := needs_loop cs_needs s.
Definition java_needs_escaping (s : text) := needs_loop java_needs s.
Definition go_needs_escaping (s : text) := needs_loop go_needs s.
