(** C06 — the structural rules of a meta-model: abstract meta-model, the declarative
    statement [Rules] (one conjunct per documented rule) and the executable reference
    checker [rulesb]. Definitions only; the reflection proof is in Proofs/RulesFacts.v.

    The abstract meta-model keeps exactly what the rules talk about: type, member,
    constant and function names; bases; property types (as type shapes); constructor
    arguments (name, type, kind of default); invariant descriptions; documentation
    references (already classified by role and enclosing type); pattern strings.

    The reserved-name data ([reserved]) is NOT fixed here: the theorems of Props/C06.v
    instantiate it with the lists re-translated from parse/_translate.py on every run
    (Gen/GenRules.v). *)
From Coq Require Import List NArith Bool.
From Acg Require Import Base.Str.
Import ListNotations.
Open Scope N_scope.

(** * The abstract meta-model *)

Inductive ty :=
| TPrim (p : text)          (* bool int float str bytearray *)
| TOur (n : text)           (* reference to an enumeration / constrained primitive / class *)
| TList (t : ty)
| TOpt (t : ty).

Inductive dflt := NoDefault | DefaultNone | DefaultOther.

Record prop := mkProp { p_name : text; p_ty : ty }.
Record carg := mkArg { a_name : text; a_ty : ty; a_dflt : dflt }.

Inductive docref :=
| RType (n : text)                          (* :class:`n` *)
| RAttr (owner : option text) (attr : text) (* :attr:`Owner.attr`; :attr:`attr` has the
                                               enclosing type as owner, [None] if the
                                               description is outside of any type *)
| RConst (n : text)                         (* :const:`n` *)
| RParam (n : text) (sig : option (list text))
                                            (* :paramref:`n`; [sig] = argument names of
                                               the documented signature, [None] if the
                                               description is not one of a signature *)
| RConstraint (id : text).                  (* :constraintref:`id` *)

Record cls := mkCls {
  c_name : text;
  c_bases : list text;
  c_props : list prop;            (* own properties, in order *)
  c_methods : list text;          (* own methods other than __init__ *)
  c_invs : list text;             (* descriptions of the own invariants *)
  c_ctor : option (list carg) }.  (* arguments of __init__ (without self), if defined *)
Record enum := mkEnum { e_name : text; e_lits : list text }.
Record cprim := mkCprim { cp_name : text; cp_bases : list text; cp_invs : list text }.
Record vfun := mkFun { f_name : text; f_pattern : option text }.

Record mm := mkMM {
  enums : list enum;
  cprims : list cprim;
  classes : list cls;
  consts : list text;
  funs : list vfun;
  constraint_ids : list text;     (* identifiers of all :constraint …: fields *)
  refs : list docref }.

(** Reserved-name data as found in [parse/_translate.py:_verify_symbol_table]. *)
Record reserved := mkReserved {
  r_type_names : list text;       (* compared with the lower-cased name *)
  r_member_names : list text;     (* compared with the lower-cased name *)
  r_type_prefixes : list text;    (* compared with the name as written *)
  r_prop_prefixes : list text;    (* compared with the lower-cased name *)
  r_method_prefixes : list text;  (* compared with the lower-cased name *)
  r_over_prefix : text;           (* lower-cased method name starts with this ... *)
  r_over_suffixes : list text }.  (* ... and ends with one of these *)

(** * Small executable helpers *)

Fixpoint ty_eqb (a b : ty) : bool :=
  match a, b with
  | TPrim x, TPrim y => text_eqb x y
  | TOur x, TOur y => text_eqb x y
  | TList x, TList y => ty_eqb x y
  | TOpt x, TOpt y => ty_eqb x y
  | _, _ => false
  end.

Definition lower_cp (c : N) : N := if (65 <=? c) && (c <=? 90) then c + 32 else c.
(** Python [str.lower()] on ASCII identifiers. *)
Definition lower (t : text) : text := map lower_cp t.

Fixpoint nodupb (l : list text) : bool :=
  match l with
  | [] => true
  | x :: r => negb (mem_text x r) && nodupb r
  end.

(** Lazy conjunction: [vm_compute] evaluates function arguments eagerly, so the
    checker chains its parts with [if]. *)
Notation "a &&& b" := (if a then b else false) (at level 40, left associativity).

Definition is_opt (t : ty) : bool := match t with TOpt _ => true | _ => false end.

(** ** Type shapes: no Optional directly inside an Optional, no Optional directly
    inside a List — anywhere in the annotation. *)
Fixpoint shapeb (t : ty) : bool :=
  match t with
  | TPrim _ | TOur _ => true
  | TList u => negb (is_opt u) && shapeb u
  | TOpt u => negb (is_opt u) && shapeb u
  end.

Inductive ShapeOk : ty -> Prop :=
| SPrim p : ShapeOk (TPrim p)
| SOur n : ShapeOk (TOur n)
| SList u : (forall v, u <> TOpt v) -> ShapeOk u -> ShapeOk (TList u)
| SOpt u : (forall v, u <> TOpt v) -> ShapeOk u -> ShapeOk (TOpt u).

(** ** Subsequences (order of constructor arguments versus properties). *)
Inductive Subseq : list text -> list text -> Prop :=
| SubNil l : Subseq [] l
| SubTake x l m : Subseq l m -> Subseq (x :: l) (x :: m)
| SubSkip y l m : Subseq l m -> Subseq l (y :: m).

Fixpoint subseqb (l m : list text) : bool :=
  match l, m with
  | [], _ => true
  | _ :: _, [] => false
  | x :: l', y :: m' => if text_eqb x y then subseqb l' m' else subseqb l m'
  end.

(** * The inheritance graph: classes and constrained primitives are its nodes. *)

Record node := mkNode {
  n_name : text; n_bases : list text;
  n_props : list prop; n_methods : list text; n_invs : list text }.

Definition cls_node (c : cls) : node :=
  mkNode (c_name c) (c_bases c) (c_props c) (c_methods c) (c_invs c).
Definition cprim_node (c : cprim) : node :=
  mkNode (cp_name c) (cp_bases c) [] [] (cp_invs c).
Definition nodes (m : mm) : list node := map cprim_node (cprims m) ++ map cls_node (classes m).

Definition edges (nds : list node) : list (text * text) :=
  flat_map (fun nd => map (fun b => (n_name nd, b)) (n_bases nd)) nds.

(** Well-founded inheritance: every chain of bases starting at [n] ends. This is
    accessibility of the base relation; it excludes cycles ([grounded_no_cycle]). *)
Inductive Grounded (es : list (text * text)) : text -> Prop :=
| GroundedI n : (forall b, In (n, b) es -> Grounded es b) -> Grounded es n.

(** ** Stacking in topological order.

    Items (properties, invariants) carry their identity (owner, index in the owner's
    list), because the front end removes the duplicates of a diamond by object identity. *)
Definition tagged (A : Type) := (text * nat * A)%type.

Fixpoint tag_from {A} (owner : text) (i : nat) (l : list A) : list (tagged A) :=
  match l with
  | [] => []
  | x :: r => (owner, i, x) :: tag_from owner (S i) r
  end.
Definition tag {A} (owner : text) (l : list A) : list (tagged A) := tag_from owner 0 l.

Definition same_id {A} (x y : tagged A) : bool :=
  match x, y with (o1, i1, _), (o2, i2, _) => text_eqb o1 o2 && Nat.eqb i1 i2 end.

(** keep the first occurrence of every identity *)
Fixpoint dedupe_acc {A} (seen : list (tagged A)) (l : list (tagged A)) : list (tagged A) :=
  match l with
  | [] => []
  | x :: r => if existsb (same_id x) seen then dedupe_acc seen r
              else x :: dedupe_acc (x :: seen) r
  end.
Definition dedupe {A} (l : list (tagged A)) : list (tagged A) := dedupe_acc [] l.

Record info := mkInfo {
  i_inh_props : list (tagged prop);   (* inherited properties (stacked, de-duplicated) *)
  i_props : list (tagged prop);       (* inherited ++ own *)
  i_inh_methods : list text;          (* methods of all strict ancestors *)
  i_methods : list text;
  i_invs : list (tagged text) }.      (* inherited ++ own invariant descriptions *)

Definition tbl := list (text * info).

Fixpoint lookup (n : text) (t : tbl) : option info :=
  match t with
  | [] => None
  | (k, v) :: r => if text_eqb n k then Some v else lookup n r
  end.

Definition known (t : tbl) (n : text) : bool :=
  match lookup n t with Some _ => true | None => false end.

Definition readyb (t : tbl) (nd : node) : bool := forallb (known t) (n_bases nd).

Definition from_bases {A} (t : tbl) (f : info -> list A) (bs : list text) : list A :=
  flat_map (fun b => match lookup b t with Some i => f i | None => [] end) bs.

Definition mk_info (t : tbl) (nd : node) : info :=
  let inh_p := dedupe (from_bases t i_props (n_bases nd)) in
  let inh_m := from_bases t i_methods (n_bases nd) in
  let inh_i := dedupe (from_bases t i_invs (n_bases nd)) in
  mkInfo inh_p (inh_p ++ tag (n_name nd) (n_props nd))
         inh_m (inh_m ++ n_methods nd)
         (inh_i ++ tag (n_name nd) (n_invs nd)).

(** One round moves every node whose bases are all known into the table; at least one
    node must move, so [length nodes] rounds suffice ([topo_complete]). *)
Fixpoint topo (fuel : nat) (t : tbl) (rem : list node) : option tbl :=
  match rem with
  | [] => Some t
  | _ :: _ =>
      match fuel with
      | O => None
      | S f =>
          match filter (readyb t) rem with
          | [] => None
          | rdy => topo f (map (fun nd => (n_name nd, mk_info t nd)) rdy ++ t)
                        (filter (fun nd => negb (readyb t nd)) rem)
          end
      end
  end.

Definition topo_of (m : mm) : option tbl := topo (length (nodes m)) [] (nodes m).

Definition acyclicb (m : mm) : bool :=
  match topo_of m with Some _ => true | None => false end.

Definition table (m : mm) : tbl := match topo_of m with Some t => t | None => [] end.

Definition info_of (m : mm) (n : text) : info :=
  match lookup n (table m) with Some i => i | None => mkInfo [] [] [] [] [] end.

Definition payloads {A} (l : list (tagged A)) : list A := map snd l.

(** properties of the class named [n] including the inherited ones, in the order of
    the front end: those of the bases (in base order, first occurrence kept), then own *)
Definition stacked_props (m : mm) (n : text) : list prop := payloads (i_props (info_of m n)).
Definition inherited_props (m : mm) (n : text) : list prop := payloads (i_inh_props (info_of m n)).
Definition inherited_methods (m : mm) (n : text) : list text := i_inh_methods (info_of m n).
Definition stacked_invs (m : mm) (n : text) : list text := payloads (i_invs (info_of m n)).
(** methods of all ancestors and own ones; NOT de-duplicated: the front end refuses to
    inherit a method along two paths ("diamond inheritance" of methods) *)
Definition stacked_methods (m : mm) (n : text) : list text := i_methods (info_of m n).

(** * Names *)

Definition class_names (m : mm) := map c_name (classes m).
Definition cprim_names (m : mm) := map cp_name (cprims m).
Definition enum_names (m : mm) := map e_name (enums m).
Definition node_names (m : mm) := map n_name (nodes m).
Definition type_names (m : mm) := enum_names m ++ node_names m.
Definition fun_names (m : mm) := map f_name (funs m).

Definition reserved_typeb (r : reserved) (n : text) : bool :=
  mem_text (lower n) (r_type_names r) || existsb (fun p => starts_with p n) (r_type_prefixes r).
Definition ReservedType (r : reserved) (n : text) : Prop :=
  In (lower n) (r_type_names r) \/ exists p, In p (r_type_prefixes r) /\ starts_with p n = true.

Definition reserved_propb (r : reserved) (n : text) : bool :=
  mem_text (lower n) (r_member_names r)
  || existsb (fun p => starts_with p (lower n)) (r_prop_prefixes r).
Definition ReservedProp (r : reserved) (n : text) : Prop :=
  In (lower n) (r_member_names r)
  \/ exists p, In p (r_prop_prefixes r) /\ starts_with p (lower n) = true.

Definition reserved_methodb (r : reserved) (n : text) : bool :=
  mem_text (lower n) (r_member_names r)
  || existsb (fun p => starts_with p (lower n)) (r_method_prefixes r)
  || (starts_with (r_over_prefix r) (lower n)
      && existsb (fun s => ends_with s (lower n)) (r_over_suffixes r)).
Definition ReservedMethod (r : reserved) (n : text) : Prop :=
  In (lower n) (r_member_names r)
  \/ (exists p, In p (r_method_prefixes r) /\ starts_with p (lower n) = true)
  \/ (starts_with (r_over_prefix r) (lower n) = true
      /\ exists s, In s (r_over_suffixes r) /\ ends_with s (lower n) = true).

Definition reserved_globalb (r : reserved) (n : text) : bool :=
  mem_text (lower n) (r_member_names r) || mem_text (lower n) (r_type_names r).
Definition ReservedGlobal (r : reserved) (n : text) : Prop :=
  In (lower n) (r_member_names r) \/ In (lower n) (r_type_names r).

(** * The rules, declaratively *)

(** unique names: types, members of every class / enumeration, constants, functions *)
Definition R_types_unique (m : mm) : Prop := NoDup (type_names m).
Definition R_members_unique (m : mm) : Prop :=
  (forall c, In c (classes m) -> NoDup (map p_name (c_props c)) /\ NoDup (c_methods c))
  /\ (forall e, In e (enums m) -> NoDup (e_lits e)).
Definition R_consts_unique (m : mm) : Prop := NoDup (consts m).
Definition R_funs_unique (m : mm) : Prop := NoDup (fun_names m).

(** non-reserved names *)
Definition R_types_free (r : reserved) (m : mm) : Prop :=
  forall n, In n (type_names m) -> ~ ReservedType r n.
Definition R_members_free (r : reserved) (m : mm) : Prop :=
  forall c, In c (classes m) ->
    (forall p, In p (c_props c) -> ~ ReservedProp r (p_name p))
    /\ (forall f, In f (c_methods c) -> ~ ReservedMethod r f).
Definition R_consts_free (r : reserved) (m : mm) : Prop :=
  forall n, In n (consts m) -> ~ ReservedGlobal r n.
Definition R_funs_free (r : reserved) (m : mm) : Prop :=
  forall n, In n (fun_names m) -> ~ ReservedGlobal r n.

(** inheritance from existing classes (constrained primitives: from constrained
    primitives), without cycles *)
Definition R_bases_exist (m : mm) : Prop :=
  (forall c, In c (classes m) -> forall b, In b (c_bases c) -> In b (class_names m))
  /\ (forall c, In c (cprims m) -> forall b, In b (cp_bases c) -> In b (cprim_names m)).
Definition R_acyclic (m : mm) : Prop :=
  forall n, In n (node_names m) -> Grounded (edges (nodes m)) n.

(** no re-declared inherited member *)
Definition R_no_redeclare (m : mm) : Prop :=
  forall c, In c (classes m) ->
    (forall p, In p (c_props c) -> ~ In (p_name p) (map p_name (inherited_props m (c_name c))))
    /\ (forall f, In f (c_methods c) -> ~ In f (inherited_methods m (c_name c))).

(** constructor arguments versus (stacked) properties *)
Definition names_nodefault (args : list carg) : list text :=
  map a_name (filter (fun a => match a_dflt a with NoDefault => true | _ => false end) args).
Definition names_default (args : list carg) : list text :=
  map a_name (filter (fun a => match a_dflt a with NoDefault => false | _ => true end) args).

Definition CtorOk (sp : list prop) (ctor : option (list carg)) : Prop :=
  match ctor with
  | None => sp = []
  | Some args =>
      (* same names *)
      (forall n, In n (map a_name args) <-> In n (map p_name sp))
      (* same order: the arguments without a default follow the order of the
         properties, and so do the arguments with a default *)
      /\ Subseq (names_nodefault args) (map p_name sp)
      /\ Subseq (names_default args) (map p_name sp)
      (* same types *)
      /\ (forall a p, In a args -> In p sp -> a_name a = p_name p -> a_ty a = p_ty p)
      (* optional arguments default to None *)
      /\ (forall a v, In a args -> a_ty a = TOpt v -> a_dflt a = DefaultNone)
  end.
Definition R_ctor (m : mm) : Prop :=
  forall c, In c (classes m) -> CtorOk (stacked_props m (c_name c)) (c_ctor c).

(** supported type shapes *)
Definition R_shapes (m : mm) : Prop :=
  forall c, In c (classes m) -> forall p, In p (c_props c) -> ShapeOk (p_ty p).

(** unique invariant descriptions (inherited invariants included) *)
Definition R_invs_unique (m : mm) : Prop :=
  forall n, In n (node_names m) -> NoDup (stacked_invs m n).

(** resolvable documentation references *)
Definition Resolvable (m : mm) (d : docref) : Prop :=
  match d with
  | RType n => In n (type_names m)
  | RAttr None _ => False
  | RAttr (Some o) a =>
      (exists e, In e (enums m) /\ e_name e = o /\ In a (e_lits e))
      \/ (In o (class_names m) /\ In a (map p_name (stacked_props m o)))
  | RConst n => In n (consts m)
  | RParam _ None => False
  | RParam n (Some sig) => In n sig
  | RConstraint i => In i (constraint_ids m)
  end.
Definition R_refs (m : mm) : Prop := forall d, In d (refs m) -> Resolvable m d.

(** pattern functions: non-empty, first character [^], last character an unescaped [$]
    (preceded by an even number of backslashes) *)
Definition CARET : N := 94.
Definition DOLLAR : N := 36.
Definition BACKSLASH : N := 92.
Fixpoint leading_backslashes (q : text) : nat :=
  match q with
  | c :: r => if N.eqb c BACKSLASH then S (leading_backslashes r) else O
  | [] => O
  end.
Definition PatternOk (p : text) : Prop :=
  p <> [] /\ hd_error p = Some CARET
  /\ exists q, rev p = DOLLAR :: q /\ Nat.even (leading_backslashes q) = true.
Definition R_patterns (m : mm) : Prop :=
  forall f p, In f (funs m) -> f_pattern f = Some p -> PatternOk p.

(** unique member names of a class *including the inherited ones*: two unrelated parents
    must not bring a property (or a method) of the same name; the same property reaching a
    class along two paths of a diamond counts once (identity), a method does not *)
Definition R_stacked_unique (m : mm) : Prop :=
  forall c, In c (classes m) ->
    NoDup (map p_name (stacked_props m (c_name c))) /\ NoDup (stacked_methods m (c_name c)).

(** top-level names are unique across ALL kinds: a constant must not be named like a
    class, a verification function not like an enumeration, ... *)
Definition toplevel_names (m : mm) : list text := type_names m ++ consts m ++ fun_names m.
Definition R_toplevel_unique (m : mm) : Prop := NoDup (toplevel_names m).

Definition Rules (r : reserved) (m : mm) : Prop :=
  R_types_unique m /\ R_bases_exist m /\ R_acyclic m
  /\ R_types_free r m /\ R_members_unique m /\ R_members_free r m
  /\ R_consts_unique m /\ R_consts_free r m /\ R_funs_unique m /\ R_funs_free r m
  /\ R_no_redeclare m /\ R_ctor m /\ R_shapes m /\ R_invs_unique m
  /\ R_refs m /\ R_patterns m /\ R_stacked_unique m
  /\ R_toplevel_unique m.

(** * The rules, executably *)

Definition types_uniqueb (m : mm) : bool := nodupb (type_names m).
Definition members_uniqueb (m : mm) : bool :=
  forallb (fun c => nodupb (map p_name (c_props c)) && nodupb (c_methods c)) (classes m)
  && forallb (fun e => nodupb (e_lits e)) (enums m).
Definition consts_uniqueb (m : mm) : bool := nodupb (consts m).
Definition funs_uniqueb (m : mm) : bool := nodupb (fun_names m).

Definition types_freeb (r : reserved) (m : mm) : bool :=
  forallb (fun n => negb (reserved_typeb r n)) (type_names m).
Definition members_freeb (r : reserved) (m : mm) : bool :=
  forallb (fun c => forallb (fun p => negb (reserved_propb r (p_name p))) (c_props c)
                    && forallb (fun f => negb (reserved_methodb r f)) (c_methods c))
          (classes m).
Definition consts_freeb (r : reserved) (m : mm) : bool :=
  forallb (fun n => negb (reserved_globalb r n)) (consts m).
Definition funs_freeb (r : reserved) (m : mm) : bool :=
  forallb (fun n => negb (reserved_globalb r n)) (fun_names m).

Definition bases_existb (m : mm) : bool :=
  forallb (fun c => forallb (fun b => mem_text b (class_names m)) (c_bases c)) (classes m)
  && forallb (fun c => forallb (fun b => mem_text b (cprim_names m)) (cp_bases c)) (cprims m).

Definition no_redeclareb (m : mm) : bool :=
  forallb (fun c =>
    forallb (fun p => negb (mem_text (p_name p) (map p_name (inherited_props m (c_name c)))))
            (c_props c)
    && forallb (fun f => negb (mem_text f (inherited_methods m (c_name c)))) (c_methods c))
    (classes m).

Definition same_namesb (l1 l2 : list text) : bool :=
  forallb (fun n => mem_text n l2) l1 && forallb (fun n => mem_text n l1) l2.

Definition ctor_okb (sp : list prop) (ctor : option (list carg)) : bool :=
  match ctor with
  | None => match sp with [] => true | _ => false end
  | Some args =>
      same_namesb (map a_name args) (map p_name sp)
      && subseqb (names_nodefault args) (map p_name sp)
      && subseqb (names_default args) (map p_name sp)
      && forallb (fun a => forallb (fun p => negb (text_eqb (a_name a) (p_name p))
                                             || ty_eqb (a_ty a) (p_ty p)) sp) args
      && forallb (fun a => negb (is_opt (a_ty a))
                           || match a_dflt a with DefaultNone => true | _ => false end) args
  end.
Definition ctorb (m : mm) : bool :=
  forallb (fun c => ctor_okb (stacked_props m (c_name c)) (c_ctor c)) (classes m).

Definition shapesb (m : mm) : bool :=
  forallb (fun c => forallb (fun p => shapeb (p_ty p)) (c_props c)) (classes m).

Definition invs_uniqueb (m : mm) : bool :=
  forallb (fun n => nodupb (stacked_invs m n)) (node_names m).

Definition resolvableb (m : mm) (d : docref) : bool :=
  match d with
  | RType n => mem_text n (type_names m)
  | RAttr None _ => false
  | RAttr (Some o) a =>
      existsb (fun e => text_eqb (e_name e) o && mem_text a (e_lits e)) (enums m)
      || (mem_text o (class_names m) && mem_text a (map p_name (stacked_props m o)))
  | RConst n => mem_text n (consts m)
  | RParam _ None => false
  | RParam n (Some sig) => mem_text n sig
  | RConstraint i => mem_text i (constraint_ids m)
  end.
Definition refsb (m : mm) : bool := forallb (resolvableb m) (refs m).

Definition pattern_okb (p : text) : bool :=
  match p with
  | [] => false
  | c :: _ => N.eqb c CARET
              && match rev p with
                 | d :: q => N.eqb d DOLLAR && Nat.even (leading_backslashes q)
                 | [] => false
                 end
  end.
Definition patternsb (m : mm) : bool :=
  forallb (fun f => match f_pattern f with Some p => pattern_okb p | None => true end) (funs m).

Definition stacked_uniqueb (m : mm) : bool :=
  forallb (fun c => nodupb (map p_name (stacked_props m (c_name c)))
                    && nodupb (stacked_methods m (c_name c))) (classes m).

Definition toplevel_uniqueb (m : mm) : bool := nodupb (toplevel_names m).

Definition rulesb (r : reserved) (m : mm) : bool :=
  types_uniqueb m &&& (bases_existb m &&& (acyclicb m
  &&& (types_freeb r m &&& (members_uniqueb m &&& (members_freeb r m
  &&& (consts_uniqueb m &&& (consts_freeb r m &&& (funs_uniqueb m &&& (funs_freeb r m
  &&& (no_redeclareb m &&& (ctorb m &&& (shapesb m &&& (invs_uniqueb m
  &&& (refsb m &&& (patternsb m &&& (stacked_uniqueb m &&& toplevel_uniqueb m)))))))))))))))).

(** Per-rule verdicts (diagnostics for the harness; the stacking-dependent rules are
    only evaluated on a well-founded hierarchy with unique type names). *)
Definition rule_verdicts (r : reserved) (m : mm) : list bool :=
  let wf := types_uniqueb m &&& (bases_existb m &&& acyclicb m) in
  [ types_uniqueb m; bases_existb m; (types_uniqueb m &&& (bases_existb m &&& acyclicb m));
    types_freeb r m; members_uniqueb m; members_freeb r m;
    consts_uniqueb m; consts_freeb r m; funs_uniqueb m; funs_freeb r m;
    (if wf then no_redeclareb m else true); (if wf then ctorb m else true);
    shapesb m; (if wf then invs_uniqueb m else true);
    (if wf then refsb m else true); patternsb m;
    (if wf then stacked_uniqueb m else true); toplevel_uniqueb m ].
