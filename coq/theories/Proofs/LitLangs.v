(** C19 — per-language round trips: escaper followed by the language's lexer gives
    back the original value, for all strings; unrepresentable values are refused.
    Every theorem is conditional on decidable facts about the regenerated tables
    ([..._ok]), which [Props/C19.v] discharges by computation. *)
From Coq Require Import List NArith Bool Lia ZifyBool.
From Acg Require Import Base.Str Base.Outcome Model.LitCore Model.Lit Model.LexCore
  Model.LexPython Model.LexJs Model.LexJava Model.LexCpp Model.LexCsharp Model.LexGo
  Proofs.LitFacts Gen.GenLiteralTables.
Import ListNotations.
Open Scope N_scope.

Definition all_dom (c : N) : bool := true.
Lemma forallb_all_dom : forall s : text, forallb all_dom s = true.
Proof. induction s; [reflexivity | exact IHs]. Qed.

Definition id_val (c : N) : text := [c].
Lemma flat_map_id_val : forall s : text, flat_map id_val s = s.
Proof. induction s as [| c r IH]; [reflexivity |]. cbn [flat_map id_val app]. rewrite IH. reflexivity. Qed.

Lemma is_stripped_enclosed : forall a x (o : text) y,
  ws_char a = false -> ws_char y = false -> is_stripped ((a :: x) ++ o ++ [y]) = true.
Proof.
  intros a x o y Ha Hy. unfold is_stripped. cbn [app].
  replace (last (a :: x ++ o ++ [y]) 0) with y.
  - rewrite Ha, Hy. reflexivity.
  - symmetry. change (a :: x ++ o ++ [y]) with ((a :: x) ++ o ++ [y]).
    rewrite app_assoc. apply last_app_single.
Qed.

(** ** Python *)
Definition py_state_eqb (a b : py_state) : bool :=
  match a, b with
  | PyBody q, PyBody q' => q =? q'
  | PyDone, PyDone => true
  | _, _ => false
  end.
Lemma py_state_eqb_eq : forall a b, py_state_eqb a b = true -> a = b.
Proof.
  intros a b H. destruct a, b; cbn in H; try discriminate; try reflexivity.
  apply N.eqb_eq in H. subst. reflexivity.
Qed.

Definition curly_val (c : N) : text := if (c =? 123) || (c =? 125) then [c; c] else [c].

Definition py_good (t : table) (q : N) (val : N -> text) : Prop :=
  table_good py_step py_state_eqb t val all_dom [PyBody q] (fun _ => PyBody q) RValueError.

Definition py_ok : Prop :=
  py_good py_single 39 id_val /\ py_good py_double 34 id_val /\
  py_good py_single_curly 39 curly_val /\ py_good py_double_curly 34 curly_val.

Lemma py_quoted : forall t q val, (q = 39 \/ q = 34) -> py_good t q val ->
  forall s, wf_text s ->
  exists o, escape t s = Ok o /\ lex_py ([q] ++ o ++ [q]) = Some (flat_map val s)
            /\ is_stripped ([q] ++ o ++ [q]) = true.
Proof.
  intros t q val Hq Hg s Hwf.
  assert (Hpre : run py_step PyStart [q] = Some (PyBody q, [])).
  { destruct Hq as [-> | ->]; reflexivity. }
  assert (Hsuf : forall b, In b [PyBody q] -> run py_step b [q] = Some (PyDone, [])).
  { intros b [<- | []]. destruct Hq as [-> | ->]; reflexivity. }
  destruct (quoted_roundtrip py_step py_state_eqb py_state_eqb_eq t val all_dom [PyBody q]
              (fun _ => PyBody q) RValueError Hg PyStart PyDone [q] [q] (PyBody q)
              (or_introl eq_refl) Hpre Hsuf s Hwf (forallb_all_dom s)) as [o [He Hr]].
  exists o. split; [exact He |]. split.
  - unfold lex_py. rewrite Hr. reflexivity.
  - apply (is_stripped_enclosed q [] o q); destruct Hq as [-> | ->]; reflexivity.
Qed.

Lemma py_case : forall t qq val, (py_quote qq = 39 \/ py_quote qq = 34) -> py_good t (py_quote qq) val ->
  forall s, wf_text s ->
  exists l, match escape t s with
            | Ok e => stripped (Ok ([py_quote qq] ++ e ++ [py_quote qq]))
            | x => x
            end = Ok l /\ lex_py l = Some (flat_map val s).
Proof.
  intros t qq val Hq Hg s Hwf.
  destruct (py_quoted t (py_quote qq) val Hq Hg s Hwf) as [o [He [Hl Hs]]].
  rewrite He. unfold stripped. rewrite Hs. eexists. split; [reflexivity | exact Hl].
Qed.

Theorem py_roundtrip : py_ok -> forall q curly s, wf_text s ->
  exists l, py_string_literal q false curly s = Ok l
            /\ lex_py l = Some (flat_map (if curly then curly_val else id_val) s).
Proof.
  intros [H1 [H2 [H3 H4]]] q curly s Hwf. unfold py_string_literal.
  destruct (py_choose q s), curly.
  - exact (py_case py_single_curly QSingle curly_val (or_introl eq_refl) H3 s Hwf).
  - exact (py_case py_single QSingle id_val (or_introl eq_refl) H1 s Hwf).
  - exact (py_case py_double_curly QDouble curly_val (or_intror eq_refl) H4 s Hwf).
  - exact (py_case py_double QDouble id_val (or_intror eq_refl) H2 s Hwf).
Qed.

Lemma fmt_unescape_cons_other : forall c rest, (c =? 123) || (c =? 125) = false ->
  fmt_unescape (c :: rest) = option_map (cons c) (fmt_unescape rest).
Proof.
  intros c rest E. apply orb_false_iff in E. destruct E as [E1 E2].
  apply N.eqb_neq in E1. apply N.eqb_neq in E2.
  assert (H : forall x, (x =? 123) || (x =? 125) = false ->
            fmt_unescape (x :: rest)
            = (if (x =? 123) || (x =? 125) then None else option_map (cons x) (fmt_unescape rest))).
  { intros x Hx. cbn [fmt_unescape].
    destruct x as [| p]; [reflexivity |].
    do 7 (destruct p as [p | p |]; try reflexivity);
    destruct rest as [| y rest']; try reflexivity;
    cbn in Hx; try discriminate;
    destruct y as [| py]; try reflexivity;
    do 7 (destruct py as [py | py |]; try reflexivity). }
  rewrite H.
  - destruct (c =? 123) eqn:A; [apply N.eqb_eq in A; contradiction |].
    destruct (c =? 125) eqn:B; [apply N.eqb_eq in B; contradiction |]. reflexivity.
  - destruct (c =? 123) eqn:A; [apply N.eqb_eq in A; contradiction |].
    destruct (c =? 125) eqn:B; [apply N.eqb_eq in B; contradiction |]. reflexivity.
Qed.

Lemma fmt_unescape_curly : forall s, fmt_unescape (flat_map curly_val s) = Some s.
Proof.
  induction s as [| c r IH]; [reflexivity |].
  cbn [flat_map]. unfold curly_val at 1.
  destruct ((c =? 123) || (c =? 125)) eqn:E.
  - apply orb_true_iff in E. destruct E as [E | E]; apply N.eqb_eq in E; subst c;
      cbn [app fmt_unescape]; rewrite IH; reflexivity.
  - cbn [app]. rewrite (fmt_unescape_cons_other c _ E), IH. reflexivity.
Qed.

(** ** TypeScript, double-quoted *)
Definition js_state_eqb (a b : js_state) : bool :=
  match a, b with
  | JBody, JBody | JDone, JDone | JDollar, JDollar => true
  | _, _ => false
  end.
Lemma js_state_eqb_eq : forall a b, js_state_eqb a b = true -> a = b.
Proof. intros a b H. destruct a, b; cbn in H; try discriminate; reflexivity. Qed.

Definition ts_quoted_ok : Prop :=
  table_good (js_step false) js_state_eqb ts_quoted utf16_cp all_dom [JBody] (fun _ => JBody)
    RValueError.

Theorem ts_quoted_roundtrip : ts_quoted_ok -> forall s, wf_text s ->
  exists l, ts_string_literal false false s = Ok l /\ lex_js false l = Some (utf16 s).
Proof.
  intros Hg s Hwf. unfold ts_string_literal. cbn [ts_table].
  assert (Hsuf : forall b, In b [JBody] -> run (js_step false) b [34] = Some (JDone, [])).
  { intros b [<- | []]. reflexivity. }
  destruct (quoted_roundtrip (js_step false) js_state_eqb js_state_eqb_eq ts_quoted utf16_cp all_dom
              [JBody] (fun _ => JBody) RValueError Hg JStart JDone [34] [34] JBody
              (or_introl eq_refl) eq_refl Hsuf s Hwf (forallb_all_dom s)) as [o [He Hr]].
  rewrite He. unfold stripped. rewrite (is_stripped_enclosed 34 [] o 34 eq_refl eq_refl).
  eexists. split; [reflexivity |]. unfold lex_js. rewrite Hr. reflexivity.
Qed.

(** ** Java *)
Definition java_state_eqb (a b : java_state) : bool :=
  match a, b with
  | (UNorm, JLBody), (UNorm, JLBody) | (UNorm, JLDone), (UNorm, JLDone) => true
  | _, _ => false
  end.
Lemma java_state_eqb_eq : forall a b, java_state_eqb a b = true -> a = b.
Proof.
  intros [u1 l1] [u2 l2] H. destruct u1, l1, u2, l2; cbn in H; try discriminate; reflexivity.
Qed.

Definition java_ok : Prop :=
  java_string_wrap = ([34], [34]) /\
  table_good java_step java_state_eqb java_string utf16_cp all_dom [(UNorm, JLBody)]
    (fun _ => (UNorm, JLBody)) RValueError.

Theorem java_roundtrip : java_ok -> forall s, wf_text s ->
  exists l, java_string_literal s = Ok l /\ lex_java l = Some (utf16 s).
Proof.
  intros [Hw Hg] s Hwf. unfold java_string_literal. rewrite Hw.
  assert (Hsuf : forall b, In b [(UNorm, JLBody)] ->
            run java_step b [34] = Some ((UNorm, JLDone), [])).
  { intros b [<- | []]. reflexivity. }
  destruct (quoted_roundtrip java_step java_state_eqb java_state_eqb_eq java_string utf16_cp all_dom
              [(UNorm, JLBody)] (fun _ => (UNorm, JLBody)) RValueError Hg (UNorm, JLStart)
              (UNorm, JLDone) [34] [34] (UNorm, JLBody)
              (or_introl eq_refl) eq_refl Hsuf s Hwf (forallb_all_dom s)) as [o [He Hr]].
  rewrite He. unfold enclose, stripped. cbn [fst snd].
  rewrite (is_stripped_enclosed 34 [] o 34 eq_refl eq_refl).
  eexists. split; [reflexivity |]. unfold lex_java. rewrite Hr. reflexivity.
Qed.

(** ** C# *)
Definition cs_state_eqb (a b : cs_state) : bool :=
  match a, b with
  | SBody, SBody | SDone, SDone => true
  | _, _ => false
  end.
Lemma cs_state_eqb_eq : forall a b, cs_state_eqb a b = true -> a = b.
Proof. intros a b H. destruct a, b; cbn in H; try discriminate; reflexivity. Qed.

Definition cs_ok : Prop :=
  cs_string_wrap = ([34], [34]) /\
  table_good cs_step cs_state_eqb cs_string utf16_cp all_dom [SBody] (fun _ => SBody) RValueError.

Theorem cs_roundtrip : cs_ok -> forall s, wf_text s ->
  exists l, cs_string_literal s = Ok l /\ lex_cs l = Some (utf16 s).
Proof.
  intros [Hw Hg] s Hwf. unfold cs_string_literal. rewrite Hw.
  assert (Hsuf : forall b, In b [SBody] -> run cs_step b [34] = Some (SDone, [])).
  { intros b [<- | []]. reflexivity. }
  destruct (quoted_roundtrip cs_step cs_state_eqb cs_state_eqb_eq cs_string utf16_cp all_dom
              [SBody] (fun _ => SBody) RValueError Hg SStart SDone [34] [34] SBody
              (or_introl eq_refl) eq_refl Hsuf s Hwf (forallb_all_dom s)) as [o [He Hr]].
  rewrite He. unfold enclose, stripped. cbn [fst snd].
  rewrite (is_stripped_enclosed 34 [] o 34 eq_refl eq_refl).
  eexists. split; [reflexivity |]. unfold lex_cs. rewrite Hr. reflexivity.
Qed.

(** ** Go: surrogates cannot be represented and are refused *)
Definition go_state_eqb (a b : go_state) : bool :=
  match a, b with
  | GBody, GBody | GDone, GDone => true
  | _, _ => false
  end.
Lemma go_state_eqb_eq : forall a b, go_state_eqb a b = true -> a = b.
Proof. intros a b H. destruct a, b; cbn in H; try discriminate; reflexivity. Qed.

Definition go_dom (c : N) : bool := negb (surrogate c).
Definition go_representable (s : text) : bool := forallb go_dom s.

Definition go_ok : Prop :=
  go_string_wrap = ([34], [34]) /\
  table_good go_step go_state_eqb go_string id_val go_dom [GBody] (fun _ => GBody) RValueError.

Theorem go_roundtrip : go_ok -> forall s, wf_text s -> go_representable s = true ->
  exists l, go_string_literal s = Ok l /\ lex_go l = Some s.
Proof.
  intros [Hw Hg] s Hwf Hrep. unfold go_string_literal. rewrite Hw.
  assert (Hsuf : forall b, In b [GBody] -> run go_step b [34] = Some (GDone, [])).
  { intros b [<- | []]. reflexivity. }
  destruct (quoted_roundtrip go_step go_state_eqb go_state_eqb_eq go_string id_val go_dom
              [GBody] (fun _ => GBody) RValueError Hg GStart GDone [34] [34] GBody
              (or_introl eq_refl) eq_refl Hsuf s Hwf Hrep) as [o [He Hr]].
  rewrite He. unfold enclose, stripped. cbn [fst snd].
  rewrite (is_stripped_enclosed 34 [] o 34 eq_refl eq_refl).
  eexists. split; [reflexivity |]. unfold lex_go. rewrite Hr, flat_map_id_val. reflexivity.
Qed.

Theorem go_reports : go_ok -> forall s, wf_text s -> go_representable s = false ->
  go_string_literal s = Err RValueError.
Proof.
  intros [Hw Hg] s Hwf Hrep. unfold go_string_literal.
  rewrite (refused go_step go_state_eqb go_state_eqb_eq go_string id_val go_dom [GBody]
             (fun _ => GBody) RValueError Hg s Hwf Hrep).
  reflexivity.
Qed.

(** ** C++ *)
Definition cpp_state_eqb (a b : cpp_state) : bool :=
  match a, b with
  | CBody, CBody | CQ, CQ | CBetween, CBetween => true
  | _, _ => false
  end.
Lemma cpp_state_eqb_eq : forall a b, cpp_state_eqb a b = true -> a = b.
Proof. intros a b H. destruct a, b; cbn in H; try discriminate; reflexivity. Qed.

Definition cpp_end (c : N) : cpp_state := if c =? 63 then CQ else CBody.

Definition cpp_wstring_ok : Prop :=
  cpp_wstring_wrap = ([76; 34], [34]) /\
  table_good (cpp_step true 34) cpp_state_eqb cpp_wstring id_val all_dom [CBody; CQ] cpp_end
    RValueError.

Theorem cpp_wstring_roundtrip : cpp_wstring_ok -> forall s, wf_text s ->
  exists l, cpp_wstring_literal s = Ok l /\ lex_cpp_string true l = Some s.
Proof.
  intros [Hw Hg] s Hwf. unfold cpp_wstring_literal. rewrite Hw.
  assert (Hsuf : forall b, In b [CBody; CQ] ->
            run (cpp_step true 34) b [34] = Some (CBetween, [])).
  { intros b [<- | [<- | []]]; reflexivity. }
  destruct (quoted_roundtrip (cpp_step true 34) cpp_state_eqb cpp_state_eqb_eq cpp_wstring id_val
              all_dom [CBody; CQ] cpp_end RValueError Hg CStart CBetween [76; 34] [34] CBody
              (or_introl eq_refl) eq_refl Hsuf s Hwf (forallb_all_dom s)) as [o [He Hr]].
  rewrite He. unfold enclose, stripped. cbn [fst snd].
  rewrite (is_stripped_enclosed 76 [34] o 34 eq_refl eq_refl).
  eexists. split; [reflexivity |]. unfold lex_cpp_string. rewrite Hr, flat_map_id_val. reflexivity.
Qed.

Definition ascii_dom (c : N) : bool := c <=? 127.
Definition cpp_string_representable (s : text) : bool := forallb ascii_dom s.

Definition cpp_string_ok : Prop :=
  cpp_string_wrap = ([34], [34]) /\ cpp_string_pre = [ACp CLe 127] /\
  table_good (cpp_step false 34) cpp_state_eqb cpp_string id_val ascii_dom [CBody; CQ] cpp_end
    RValueError.

Lemma all_chars_ascii : forall s, all_chars [ACp CLe 127] s = forallb ascii_dom s.
Proof.
  induction s as [| c r IH]; [reflexivity |].
  unfold all_chars in *. cbn [forallb]. rewrite IH.
  unfold guard_holds, ascii_dom. cbn [forallb atom_holds cmp_holds].
  rewrite andb_true_r. reflexivity.
Qed.

Theorem cpp_string_roundtrip : cpp_string_ok -> forall s, wf_text s ->
  cpp_string_representable s = true ->
  exists l, cpp_string_literal s = Ok l /\ lex_cpp_string false l = Some s.
Proof.
  intros [Hw [Hp Hg]] s Hwf Hrep. unfold cpp_string_literal. rewrite Hp, all_chars_ascii.
  unfold cpp_string_representable in Hrep. rewrite Hrep. rewrite Hw.
  assert (Hsuf : forall b, In b [CBody; CQ] ->
            run (cpp_step false 34) b [34] = Some (CBetween, [])).
  { intros b [<- | [<- | []]]; reflexivity. }
  destruct (quoted_roundtrip (cpp_step false 34) cpp_state_eqb cpp_state_eqb_eq cpp_string id_val
              ascii_dom [CBody; CQ] cpp_end RValueError Hg CStart CBetween [34] [34] CBody
              (or_introl eq_refl) eq_refl Hsuf s Hwf Hrep) as [o [He Hr]].
  rewrite He. unfold enclose, stripped. cbn [fst snd].
  rewrite (is_stripped_enclosed 34 [] o 34 eq_refl eq_refl).
  eexists. split; [reflexivity |]. unfold lex_cpp_string. rewrite Hr, flat_map_id_val. reflexivity.
Qed.

Theorem cpp_string_reports : cpp_string_ok -> forall s,
  cpp_string_representable s = false -> cpp_string_literal s = Err RViolation.
Proof.
  intros [Hw [Hp Hg]] s Hrep. unfold cpp_string_literal. rewrite Hp, all_chars_ascii.
  unfold cpp_string_representable in Hrep. rewrite Hrep. reflexivity.
Qed.

(** wide character literal: exactly one character *)
Definition wchar_chk (o : lit_outcome) (c : N) : bool :=
  match o with
  | Ok l => match lex_cpp_wchar l with Some v => v =? c | None => false end
  | _ => false
  end.

Lemma wchar_chk_spec : forall o c, wchar_chk o c = true ->
  exists l, o = Ok l /\ lex_cpp_wchar l = Some c.
Proof.
  intros o c H. unfold wchar_chk in H. destruct o as [l | e | k]; try discriminate.
  exists l. split; [reflexivity |].
  destruct (lex_cpp_wchar l) as [v |]; [| discriminate].
  apply N.eqb_eq in H. subst. reflexivity.
Qed.

Definition wchar_good (c : N) : bool := wchar_chk (cpp_wchar_literal [c]) c.

Definition cpp_wchar_ok : Prop :=
  cpp_wchar_requires_len1 = true /\ all_below 1114112 wchar_good = true.

Theorem cpp_wchar_roundtrip : cpp_wchar_ok -> forall c, c <= max_cp ->
  exists l, cpp_wchar_literal [c] = Ok l /\ lex_cpp_wchar l = Some c.
Proof.
  intros [_ Hsw] c Hc. apply wchar_chk_spec. exact (sweep_spec _ Hsw c Hc).
Qed.

Theorem cpp_wchar_reports : cpp_wchar_ok -> forall s, length s <> 1%nat ->
  cpp_wchar_literal s = Err RViolation.
Proof.
  intros [Hl _] s Hlen. unfold cpp_wchar_literal. rewrite Hl.
  destruct s as [| c [| d r]]; try reflexivity. exfalso. apply Hlen. reflexivity.
Qed.
