(** C13 — XSD is valid and never rejects valid data: the pattern translation.

    Theorems over [Model/XsdPattern.v] (the model of [xsd/main.py:_translate_pattern] and
    its helpers) on top of the shared regex models of C16, instantiated with the tables
    re-translated from the source on every run ([Gen/GenXsd.v], [Gen/GenRetreeTables.v]).
    This file contains only statements, [exact]s / [vm_compute]s and [Print Assumptions]. *)
From Coq Require Import List NArith Bool.
From Coq Require Strings.String.
Import Coq.Strings.String.StringSyntax.
From Acg Require Import Base.Str Base.Outcome Model.Retree Model.RetreeParse
  Model.RetreeRender Model.RegexSem Model.XsdPattern Proofs.XsdPattern
  Gen.GenRetreeTables Gen.GenXsd.
Import ListNotations.
Open Scope N_scope.

Definition T : tables := mkTables gen_lit_simple gen_lit_unsupported gen_lit_assert gen_lit_stop
  gen_rng_simple gen_rng_unsupported gen_esc_lit gen_esc_rng.
Definition tr (p : text) : outcome text unit := translate T xsd_esc_lit xsd_esc_rng p.
Definition tr_old (p : text) : outcome text unit := translate_old T p.

(** ** Ties to the source (regenerated on every run) *)

(** [_translate_pattern] parses the pattern *as written*, removes the anchors, marks the
    characters to be written verbatim and renders with the XSD renderer; it does not rewrite
    the pattern text before parsing. *)
Theorem C13_gen_translate_skeleton :
  list_eqb text_eqb xsd_translate_calls
    [s2l "parse_retree.parse(values=?)"; s2l "parse_retree.render_pointer";
     s2l "_AnchorRemover"; s2l "remover.visit"; s2l "_CharacterDecoder"; s2l "decoder.visit";
     s2l "parse_retree.render(regex=parsed,renderer=_RENDERER)"] = true.
Proof. vm_compute. reflexivity. Qed.
Print Assumptions C13_gen_translate_skeleton.

Theorem C13_gen_removed_kinds :
  list_eqb text_eqb xsd_removed_symbol_kinds [s2l "START"; s2l "END"] = true.
Proof. vm_compute. reflexivity. Qed.
Print Assumptions C13_gen_removed_kinds.

(** The character class of [_ESCAPE_BACKSLASH_X_RE] modelled by [in_x_class]. *)
Theorem C13_gen_escape_x_re : text_eqb xsd_escape_x_re (s2l "\\x([a-fA-f0-9]{2})") = true.
Proof. vm_compute. reflexivity. Qed.
Print Assumptions C13_gen_escape_x_re.

(** ** Anchor removal

    [anchor_removal_language : top_anchored t -> L_xsd (remove t) = { s | matches t s }] on
    strings without line breaks.  [py_match] is [re.match(pattern, s) is not None] as the
    generated SDK evaluates it (Python's [$] and [.]); [xsd_match] is whole-string matching
    (XSD patterns are implicitly anchored); [xsd_tree t] is the tree that is rendered
    (anchors removed, characters decoded). *)
Theorem C13_anchor_removal_language : forall (t : regex) (mid : concatenation) (s : text),
  top_anchored t mid -> no_linebreak s = true ->
  xsd_match (xsd_tree t) s = py_match t s.
Proof. exact anchor_removal_language_full. Qed.
Print Assumptions C13_anchor_removal_language.

(** Non-vacuity: a pattern of the accepted shape, its parse, and verdicts on both sides. *)
Example C13_anchor_removal_nonvacuous :
  let mid : concatenation :=
    [(VCharSet false [mkRange (mkChar 97 false) (Some (mkChar 122 false))],
      Some (mkQuant false 1 None));
     (VChar (mkChar 42 true), None)] in
  exists t,
    parse_string T (s2l "^[a-z]+\x2a$") = Ok t /\ top_anchored t mid
    /\ map (py_match t) [s2l "ab*"; s2l "z*"; s2l "ab"; s2l "*"; s2l "abb"; s2l ""]
       = [true; true; false; false; false; false]
    /\ map (xsd_match (xsd_tree t)) [s2l "ab*"; s2l "z*"; s2l "ab"; s2l "*"; s2l "abb"; s2l ""]
       = [true; true; false; false; false; false]
    /\ tr (s2l "^[a-z]+\x2a$") = Ok (s2l "[a-z]+\*").
Proof.
  intros mid. eexists. split; [vm_compute; reflexivity|].
  split; [split; [reflexivity|vm_compute; reflexivity]|].
  vm_compute. repeat split; reflexivity.
Qed.
Print Assumptions C13_anchor_removal_nonvacuous.

(** The hypothesis "no other anchor" cannot be dropped for the *equality*: the front end
    accepts [^a$b$] (one alternative, [^] first, [$] last); Python never matches it, the
    translated pattern [ab] does.  (The inclusion needed by C13 — everything the original
    accepts is accepted — is not affected by this witness; it is what C14 excludes.)

    Full statement NOT proved:
      forall t s, accepted_shape t -> no_linebreak s = true ->
                  py_match t s = true -> xsd_match (xsd_tree t) s = true. *)
Theorem C13_anchor_removal_language_inner_anchor_refuted :
  exists t s,
    parse_string T (s2l "^a$b$") = Ok t /\ no_linebreak s = true
    /\ py_match t s = false /\ xsd_match (xsd_tree t) s = true
    /\ tr (s2l "^a$b$") = Ok (s2l "ab").
Proof. eexists. exists (s2l "ab"). vm_compute. repeat split; reflexivity. Qed.
Print Assumptions C13_anchor_removal_language_inner_anchor_refuted.

(** ** Character decoding ([_CharacterDecoder]) never changes the language *)
Theorem C13_decode_preserves_language : forall (b : bool) (t : regex) (s : text),
  matches no_fv b (decode_union t) s = matches no_fv b t s.
Proof. exact (decode_preserves_matches no_fv). Qed.
Print Assumptions C13_decode_preserves_language.

(** ** The former text-level un-escaping

    [undo_x_preserves] (un-escaping [\xHH] in the pattern *text* keeps the language) is
    refuted: [\x2a] becomes a live [*] — the value "a*" that the meta-model pattern accepts is
    rejected by the old translation and "aaa" is accepted; an encoded [^] opening a set
    negates it; a literal backslash followed by "xZZ" makes [int(.., 16)] raise. *)
Theorem C13_undo_x_preserves_refuted :
  (exists t t',
      parse_string T (s2l "^a\x2a$") = Ok t
      /\ (do p' <- undo_x (s2l "^a\x2a$"); parse_string T p') = Ok t'
      /\ py_match t (s2l "a*") = true /\ py_match t' (s2l "a*") = false
      /\ py_match t (s2l "aaa") = false /\ py_match t' (s2l "aaa") = true
      /\ tr_old (s2l "^a\x2a$") = Ok (s2l "a*") /\ tr (s2l "^a\x2a$") = Ok (s2l "a\*"))
  /\ (tr_old (s2l "^[\x5e-a]$") = Ok (s2l "[^-a]") /\ tr (s2l "^[\x5e-a]$") = Ok (s2l "[\^-a]"))
  /\ (is_ok (parse_string T (s2l "^\\xZZ$")) = true
      /\ tr_old (s2l "^\\xZZ$") = Crash ValueError /\ tr (s2l "^\\xZZ$") = Ok (s2l "\\xZZ"))
  /\ (is_ok (parse_string T (s2l "^\\x41$")) = true
      /\ is_err (tr_old (s2l "^\\x41$")) = true /\ tr (s2l "^\\x41$") = Ok (s2l "\\x41")).
Proof.
  split; [eexists; eexists; vm_compute; repeat split; reflexivity|].
  vm_compute. repeat split; reflexivity.
Qed.
Print Assumptions C13_undo_x_preserves_refuted.

(** What does hold for all pattern texts: without a [\x] followed by two characters of the
    class [[a-fA-f0-9]] the function is the identity. *)
Theorem C13_undo_x_identity_partial : forall p : text,
  has_x_escape p = false -> undo_x p = Ok p.
Proof. exact undo_x_identity. Qed.
Print Assumptions C13_undo_x_identity_partial.

Example C13_undo_x_examples :
  undo_x (s2l "A\xf1B\xf2C") = Ok [65; 241; 66; 242; 67]
  /\ has_x_escape (s2l "^[a-z]+\.\u00e4$") = false
  /\ undo_x (s2l "\xGG") = Crash ValueError.
Proof. vm_compute. repeat split; reflexivity. Qed.
Print Assumptions C13_undo_x_examples.

(** ** Escapes

    [render_is_xsd_escape_safe], character level, for ALL code points: with the tables of
    the XSD renderer every character is rendered as itself or as a SingleCharEsc of the XSD
    grammar, and every XSD metacharacter is escaped.
    Partial: the statement for whole renderings
      forall t, xsd_escapes_ok (rendering of (xsd_tree t)) = true
    is not proved (it needs compositionality over the nested renderer); the harness checks
    every emitted pattern facet against the XSD grammar instead. *)
Theorem C13_gen_xsd_tables_ok :
  esc_table_ok xsd_esc_lit && esc_table_ok xsd_esc_rng
  && forallb (fun c => match assocN c xsd_esc_lit with Some _ => true | None => false end) xsd_meta
  && forallb (fun c => match assocN c xsd_esc_rng with Some _ => true | None => false end)
       [91; 93; 92; 45] = true.
Proof. vm_compute. reflexivity. Qed.
Print Assumptions C13_gen_xsd_tables_ok.

Theorem C13_render_is_xsd_escape_safe_partial : forall c : N,
  xsd_escapes_ok (render_char xsd_esc_lit (mkChar c false)) = true
  /\ xsd_escapes_ok (render_char xsd_esc_rng (mkChar c false)) = true.
Proof.
  intros c. split; apply render_char_escape_safe; vm_compute; reflexivity.
Qed.
Print Assumptions C13_render_is_xsd_escape_safe_partial.

(** With the tables of the general (Python) renderer the statement is false: [\$] is no XSD
    escape, and encoded characters are written as [\xHH] / [\uHHHH]. *)
Theorem C13_render_is_xsd_escape_safe_refuted :
  exists c e,
    xsd_escapes_ok (render_char gen_esc_lit (mkChar c false)) = false
    /\ xsd_escapes_ok (render_char gen_esc_lit (mkChar e true)) = false
    /\ tr_old (s2l "^a\$\u00e4$") = Ok (s2l "a\$\xe4")
    /\ tr (s2l "^a\$\u00e4$") = Ok [97; 36; 228].
Proof. exists 36, 228. vm_compute. repeat split; reflexivity. Qed.
Print Assumptions C13_render_is_xsd_escape_safe_refuted.
