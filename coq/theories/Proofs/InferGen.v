(** Interpretation of the regenerated comparator tables ([Gen/GenInfer.v]) and their
    agreement with the hand-written tables of [Model/LenInfer.v] (C15). *)
From Coq Require Import List NArith ZArith Bool.
From Acg Require Import Base.Str Model.InferExpr Model.LenInfer Model.SetInfer Model.InferInline.
Import ListNotations.
Open Scope Z_scope.

Definition op_code (op : cmp) : N :=
  match op with Lt => 0 | Le => 1 | Eq => 2 | Gt => 3 | Ge => 4 | Ne => 5 end%N.

Definition all_ops : list cmp := [Lt; Le; Eq; Gt; Ge; Ne].

Fixpoint table_lookup (c : N) (t : list (N * option (N * Z))) : option (option (N * Z)) :=
  match t with
  | [] => None
  | (c', v) :: r => if N.eqb c c' then Some v else table_lookup c r
  end.

(** Shape of a table entry as [(kind, delta)] of the model's function, read off at two
    points (the function is [constant + delta] by construction of both tables). *)
Definition entry_of (f : cmp -> Z -> option lc) (op : cmp) : option (N * Z) :=
  match f op 0, f op 1000 with
  | Some (MinL a), Some (MinL b) => if b - a =? 1000 then Some (0%N, a) else None
  | Some (MaxL a), Some (MaxL b) => if b - a =? 1000 then Some (1%N, a) else None
  | Some (ExactL a), Some (ExactL b) => if b - a =? 1000 then Some (2%N, a) else None
  | _, _ => None
  end.

Definition opt_entry_eqb (a b : option (N * Z)) : bool :=
  option_eqb (fun x y => N.eqb (fst x) (fst y) && Z.eqb (snd x) (snd y)) a b.

(** The generated table has exactly the six operators and each entry equals the model's. *)
Definition table_agrees (f : cmp -> Z -> option lc) (t : list (N * option (N * Z))) : bool :=
  Nat.eqb (length t) 6
  && forallb (fun op =>
                match table_lookup (op_code op) t with
                | Some e => opt_entry_eqb e (entry_of f op)
                | None => false
                end) all_ops.

Definition prim_py_name (p : prim) : text :=
  match p with
  | PBool => [66;79;79;76] | PInt => [73;78;84] | PFloat => [70;76;79;65;84]
  | PStr => [83;84;82] | PBytes => [66;89;84;69;65;82;82;65;89]
  end%N.

Definition lengthable_agrees (names : list text) : bool :=
  forallb (fun p => Bool.eqb (lengthable p) (mem_text (prim_py_name p) names))
          [PBool; PInt; PFloat; PStr; PBytes]
  && forallb (fun n => existsb (fun p => text_eqb n (prim_py_name p))
                               [PBool; PInt; PFloat; PStr; PBytes]) names.
