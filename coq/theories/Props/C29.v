(** C29 — Python SDK traversal and accessors are complete.

    Theorems over the executable specification [Model/SdkSpec.v] of what the generated
    [types.py] must compute: [descend_once] / [descend] (type-directed, exactly the shape
    of the code that [_generate_descend_body] unrolls from the declared property types),
    visitor/transformer dispatch, [over_X_or_empty], [X_or_default]. The real generated SDK
    is tied to this specification by the correspondence streams of harness/props/c29.py
    (that half is checked on sampled meta-models and instance graphs, not proved).
    Only statements, [exact]s and [Print Assumptions] here. *)
From Coq Require Import List NArith ZArith Bool Relations.
From Coq Require Strings.String.
Import Coq.Strings.String.StringSyntax.
From Acg Require Import Base.Str Base.Outcome Model.SdkSpec Proofs.SdkSpecFacts.
Import ListNotations.

(** Descending once yields exactly the directly nested class instances in property and
    list order ([nested_once] reads them off the instance, ignoring the declared types). *)
Theorem C29_descend_once_spec : forall m i,
  wf_instance m i = true -> descend_once m i = nested_once i.
Proof. exact descend_once_spec. Qed.
Print Assumptions C29_descend_once_spec.

(** Descending is the pre-order unfolding of descending once (all values, no hypothesis). *)
Theorem C29_descend_preorder : forall m i,
  descend m i = flat_map (fun c => c :: descend m c) (descend_once m i).
Proof. exact descend_preorder. Qed.
Print Assumptions C29_descend_preorder.

(** Descending yields all and only the transitively nested class instances. *)
Theorem C29_descend_complete : forall m i x,
  wf_instance m i = true -> (In x (descend m i) <-> strictly_nested x i).
Proof. exact descend_complete. Qed.
Print Assumptions C29_descend_complete.

(** Dispatch goes to the method named after the concrete class of the instance. *)
Theorem C29_dispatch_concrete : forall m i,
  wf_instance m i = true ->
  exists k, dispatch_target i = Some (c_name k) /\ find_cls m (cls_of i) = Some k /\ c_abstract k = false.
Proof. exact dispatch_concrete. Qed.
Print Assumptions C29_dispatch_concrete.

Theorem C29_over_or_empty : forall vs, over_or_empty VNone = [] /\ over_or_empty (VList vs) = vs.
Proof. exact over_or_empty_spec. Qed.
Print Assumptions C29_over_or_empty.

Theorem C29_or_default : forall d f,
  or_default d VNone = d /\ (is_none f = false -> or_default d f = f).
Proof. exact or_default_spec. Qed.
Print Assumptions C29_or_default.

(** Non-vacuity: an abstract item with two concrete leaves, a container holding an optional
    list of items, an optional single item and a required list of leaves. *)
Definition ex_mm : mm :=
  mkMM [mkEnum (s2l "Kind") [(s2l "A", s2l "a")]]
       [mkCls (s2l "Item") (s2l "Item") true true [] [s2l "Leaf"; s2l "Box"];
        mkCls (s2l "Leaf") (s2l "Leaf") false true [mkProp (s2l "text") (TAtom (APrim PStr)) false] [];
        mkCls (s2l "Box") (s2l "Box") false true
          [mkProp (s2l "items") (TList (ACls (s2l "Item"))) true;
           mkProp (s2l "first") (TAtom (ACls (s2l "Item"))) true;
           mkProp (s2l "names") (TList (APrim PStr)) false;
           mkProp (s2l "leaves") (TList (ACls (s2l "Leaf"))) false] []].
Definition leaf (t : text) : value := VObj (s2l "Leaf") [VStr t].
Definition inner : value := VObj (s2l "Box") [VNone; VObj (s2l "Leaf") [VStr (s2l "z")]; VList []; VList []].
Definition ex_box : value :=
  VObj (s2l "Box") [VList [leaf (s2l "a"); inner]; VNone; VList [VStr (s2l "n")]; VList [leaf (s2l "b")]].

Example C29_nonvacuous :
  wf_instance ex_mm ex_box = true
  /\ descend_once ex_mm ex_box = [leaf (s2l "a"); inner; leaf (s2l "b")]
  /\ descend ex_mm ex_box = [leaf (s2l "a"); inner; leaf (s2l "z"); leaf (s2l "b")]
  /\ wf_instance ex_mm (VObj (s2l "Box") [VNone; VNone; VNone; VList []]) = false
  /\ wf_instance ex_mm (VObj (s2l "Item") []) = false.
Proof. vm_compute. repeat split; reflexivity. Qed.
Print Assumptions C29_nonvacuous.
