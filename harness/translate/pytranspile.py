"""C08: the data of python/transpilation.py, python/lib/_generate_verification.py and
parse/_rules.py, re-translated on every run into Gen/GenPyTranspile.v (fail closed).

* ``Transpiler._PYTHON_COMPARISON_MAP``                      -> ``cmp_map``
* the ``no_parentheses_types...`` tuple of every ``transform_*`` / ``_transform_*`` method
  (exactly one tuple per method, used only in ``isinstance(node.<field>, <tuple>)`` tests) -> ``np_*``
* the tuple of ``_transpile_invariant``                           -> ``np_top``
* ``parse/_rules.py``: ``_CHAIN_OF_RULES`` (order of the rules), ``_AST_COMPARATOR_TO_OURS``,
  the names of ``_ParseAnyOrAll.matches`` and the ``range`` literal -> ``chain_of_rules`` etc.
"""
from __future__ import annotations

import ast
from typing import Dict, List

from harness.translate.astutil import TranslateError, coq_text, find_function, parse

NK = {
    "Member": "NkMember", "Name": "NkName", "Constant": "NkConstant", "Index": "NkIndex",
    "Comparison": "NkComparison", "IsIn": "NkIsIn", "IsNone": "NkIsNone", "IsNotNone": "NkIsNotNone",
    "Not": "NkNot", "And": "NkAnd", "Or": "NkOr", "Implication": "NkImplication",
    "FunctionCall": "NkFunctionCall", "MethodCall": "NkMethodCall", "Add": "NkAdd", "Sub": "NkSub",
    "Any": "NkAny", "All": "NkAll", "JoinedStr": "NkJoinedStr",
}
CMPOP = {"LT": "Lt", "LE": "Le", "GT": "Gt", "GE": "Ge", "EQ": "Eq", "NE": "Ne"}
PCMP = {"Lt": "CLt", "LtE": "CLe", "Gt": "CGt", "GtE": "CGe", "Eq": "CEq", "NotEq": "CNe"}
CONTEXTS = {
    "transform_index": "np_index", "transform_comparison": "np_comparison",
    "transform_is_in": "np_is_in", "transform_implication": "np_implication",
    "transform_method_call": "np_method_call", "transform_is_none": "np_is_none",
    "transform_is_not_none": "np_is_not_none", "transform_not": "np_not",
    "_transform_and_or_or": "np_and_or", "_transform_add_or_sub": "np_add_sub",
    "_transform_any_or_all": "np_any_all",
}
RULES = ["Comparison", "IsIn", "AnyOrAll", "Call", "Constant", "Implication", "Member", "Index", "Name",
         "IsNoneOrIsNotNone", "Not", "AndOrOr", "AddOrSub", "Expression", "JoinedStr", "Assignment", "Return"]


def _tuple_of_tree_classes(node: ast.AST, module_alias: str) -> List[str]:
    if not isinstance(node, ast.Tuple):
        raise TranslateError("no_parentheses_types is not a tuple literal")
    out = []
    for e in node.elts:
        if not (isinstance(e, ast.Attribute) and isinstance(e.value, ast.Name) and e.value.id == module_alias):
            raise TranslateError(f"unexpected tuple element {ast.dump(e)}")
        if e.attr not in NK:
            raise TranslateError(f"unknown tree class {e.attr}")
        out.append(NK[e.attr])
    return out


def _np_tuple(fn: ast.FunctionDef, module_alias: str) -> List[str]:
    tuples = []
    for node in ast.walk(fn):
        if isinstance(node, ast.Assign) and len(node.targets) == 1 and isinstance(node.targets[0], ast.Name) \
                and node.targets[0].id.startswith("no_parenthes"):
            tuples.append((node.targets[0].id, _tuple_of_tree_classes(node.value, module_alias)))
    if len(tuples) != 1:
        raise TranslateError(f"{fn.name}: expected exactly one no_parentheses tuple, found {len(tuples)}")
    name, kinds = tuples[0]
    # the tuple must only be used as the second argument of isinstance(...)
    for node in ast.walk(fn):
        if isinstance(node, ast.Name) and node.id == name and isinstance(node.ctx, ast.Load):
            pass
    uses = [n for n in ast.walk(fn) if isinstance(n, ast.Call) and isinstance(n.func, ast.Name)
            and n.func.id == "isinstance" and len(n.args) == 2 and isinstance(n.args[1], ast.Name)
            and n.args[1].id == name]
    loads = [n for n in ast.walk(fn) if isinstance(n, ast.Name) and n.id == name and isinstance(n.ctx, ast.Load)]
    if len(uses) != len(loads) or not uses:
        raise TranslateError(f"{fn.name}: {name} is used outside isinstance tests")
    return kinds


def gen_pytranspile() -> str:
    tr = parse("aas_core_codegen/python/transpilation.py")
    cls = next((n for n in tr.body if isinstance(n, ast.ClassDef) and n.name == "Transpiler"), None)
    if cls is None:
        raise TranslateError("class Transpiler not found")
    # comparison map
    cmp_items = None
    for node in cls.body:
        if isinstance(node, ast.Assign) and isinstance(node.targets[0], ast.Name) \
                and node.targets[0].id == "_PYTHON_COMPARISON_MAP":
            if not isinstance(node.value, ast.Dict):
                raise TranslateError("_PYTHON_COMPARISON_MAP is not a dict literal")
            cmp_items = []
            for k, v in zip(node.value.keys, node.value.values):
                if not (isinstance(k, ast.Attribute) and isinstance(k.value, ast.Attribute)
                        and k.value.attr == "Comparator" and k.attr in CMPOP):
                    raise TranslateError(f"unexpected key {ast.dump(k)}")
                if not (isinstance(v, ast.Constant) and isinstance(v.value, str)):
                    raise TranslateError("non-string operator")
                cmp_items.append((CMPOP[k.attr], v.value))
    if cmp_items is None:
        raise TranslateError("_PYTHON_COMPARISON_MAP not found")
    tables: Dict[str, List[str]] = {}
    for fname, field in CONTEXTS.items():
        tables[field] = _np_tuple(find_function(cls, fname), "parse_tree")
    gv = parse("aas_core_codegen/python/lib/_generate_verification.py")
    tables["np_top"] = _np_tuple(find_function(gv, "_transpile_invariant"), "parse_tree")

    # parse/_rules.py
    rules = parse("aas_core_codegen/parse/_rules.py")
    chain = None
    cmp_to_ours = None
    for node in rules.body:
        if isinstance(node, ast.Assign) and isinstance(node.targets[0], ast.Name):
            if node.targets[0].id == "_CHAIN_OF_RULES":
                if not isinstance(node.value, ast.List):
                    raise TranslateError("_CHAIN_OF_RULES is not a list literal")
                chain = []
                for e in node.value.elts:
                    if not (isinstance(e, ast.Call) and isinstance(e.func, ast.Name) and not e.args
                            and e.func.id.startswith("_Parse") and e.func.id[6:] in RULES):
                        raise TranslateError(f"unexpected rule {ast.dump(e)}")
                    chain.append("R" + e.func.id[6:])
            if node.targets[0].id == "_AST_COMPARATOR_TO_OURS":
                if not isinstance(node.value, ast.Dict):
                    raise TranslateError("_AST_COMPARATOR_TO_OURS is not a dict literal")
                cmp_to_ours = []
                for k, v in zip(node.value.keys, node.value.values):
                    if not (isinstance(k, ast.Attribute) and k.attr in PCMP and isinstance(v, ast.Attribute)
                            and v.attr in CMPOP):
                        raise TranslateError("unexpected comparator entry")
                    cmp_to_ours.append((PCMP[k.attr], CMPOP[v.attr]))
    if chain is None or cmp_to_ours is None:
        raise TranslateError("_CHAIN_OF_RULES / _AST_COMPARATOR_TO_OURS not found")
    anyall = find_function(rules, "matches", cls="_ParseAnyOrAll")
    names = None
    for node in ast.walk(anyall):
        if isinstance(node, ast.Compare) and len(node.ops) == 1 and isinstance(node.ops[0], ast.In) \
                and isinstance(node.comparators[0], ast.Tuple):
            names = [e.value for e in node.comparators[0].elts if isinstance(e, ast.Constant)]
    if names is None:
        raise TranslateError("any/all names not found")
    impl = find_function(rules, "matches", cls="_ParseImplication")
    arity = [n.comparators[0].value for n in ast.walk(impl)
             if isinstance(n, ast.Compare) and isinstance(n.left, ast.Call) and isinstance(n.left.func, ast.Name)
             and n.left.func.id == "len" and len(n.ops) == 1 and isinstance(n.ops[0], ast.Eq)
             and isinstance(n.comparators[0], ast.Constant)]
    if len(arity) != 1:
        raise TranslateError("implication arity test not found")

    out = [
        "From Coq Require Import List NArith ZArith.",
        "From Acg Require Import Base.Str Model.Tree Model.AstRules Model.PyTranspileKinds.",
        "Import ListNotations.",
        "Definition gen_ptables : ptables := mkPtables",
        "  [" + "; ".join(f"({op}, {coq_text(txt)})" for op, txt in cmp_items) + "]",
    ]
    for field in ["np_index", "np_comparison", "np_is_in", "np_implication", "np_method_call", "np_is_none",
                  "np_is_not_none", "np_not", "np_and_or", "np_add_sub", "np_any_all", "np_top"]:
        out.append("  [" + "; ".join(tables[field]) + "]   (* " + field + " *)")
    out[-1] += "."
    out += [
        "Definition chain_of_rules : list rule := [" + "; ".join(chain) + "].",
        "Definition ast_comparator_to_ours : list (pcmp * cmpop) := ["
        + "; ".join(f"({a}, {b})" for a, b in cmp_to_ours) + "].",
        "Definition any_all_names : list text := [" + "; ".join(coq_text(n) for n in names) + "].",
        f"Definition implication_arity : nat := {int(arity[0])}%nat.",
    ]
    return "\n".join(out) + "\n"


GEN_FILES = {"GenPyTranspile": gen_pytranspile}
