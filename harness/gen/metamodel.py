"""Abstract meta-models for aas-core-codegen: dataclasses, seeded generator, renderer.

Pure Python (>= 3.11), standard library only, no global state. Importable by the
harness (``from harness.gen import metamodel``) and by adapter scripts run with the
repository's interpreter (put ``harness/gen`` on ``sys.path`` and ``import metamodel``).

See ``docs/mmgen.md`` for the API summary. The short version::

    import random
    from harness.gen import metamodel as mmg
    mm = mmg.random_metamodel(random.Random(7), "small")
    text = mmg.render_source(mm)             # what the real front end sees
    blob = mmg.to_json(mm)                   # replay side-car, mmg.from_json(blob)
    snippets = mmg.synth_snippets(mm, "python")   # {relative path: content}
    for op in mmg.MUTATIONS: ...             # structural-rule mutants for C06
"""
from __future__ import annotations

import copy
import dataclasses
import json
import random
from dataclasses import dataclass, field
from typing import Any, Callable, Dict, Iterable, List, Optional, Sequence, Set, Tuple, Union

# =====================================================================================
# Reserved names (copied from /repo/aas_core_codegen/parse/_translate.py,
# ``_verify_symbol_table``; compared case-insensitively by the front end)
# =====================================================================================
_KEYWORDS = frozenset(
    """
    abort abs abstract accept access across after agent alias aliased align alignas
    alignof all and and_eq andalso any array as asm assert assign async at atomic_cancel
    atomic_commit atomic_noexcept attribute auto await band base become begin bitand
    bitor bnot body bool boolean bor box break bsl bsr bxor byte bytearray bytes case
    cast catch cdouble cent cfloat chan char char16_t char32_t char8_t check checked
    class co_await co_return co_yield compl concept cond const const_cast constant
    consteval constexpr constinit constructor continue convert crate creal create
    current dchar debug debugger decimal declare decltype def default defer deferred del
    delay delegate delete delta deprecated digits div do double dyn dynamic_cast elif
    else elseif elsif end ensure entry enum event except exception exit expanded
    explicit export extends extern external fallthrough false feature final finally
    fixed float fn for foreach foreach_reverse friend from frozen fun func function
    generic get global go goto idouble if ifloat immutable impl implements implicit
    implies import in inherit inline inout inspect instanceof int integer interface
    internal invariant ireal is lambda lazy let like limited local lock long loop macro
    map match maybe mixin mod module move mut mutable namespace native new nil noexcept
    none nonlocal not not_eq note nothrow null nullptr number object obsolete of old
    once only operator or or_eq orelse others out override overriding package params
    pass pragma precursor priv private procedure protected pub public pure raise
    read_only readonly real receive record redefine ref reflexpr register
    reinterpret_cast rem rename renames requeue require requires rescue retry return
    reverse sbyte scope sealed select self separate set shared short signed sizeof some
    stackalloc static static_assert static_cast str strictfp string struct subtype super
    switch synchronized tagged task template terminate then this thread_local throw
    throws trait transient true try tuple typedef typeid typename typeof ubyte ucent
    uint ulong unchecked undefine union unittest unsafe unsigned unsized until use
    ushort using var variant virtual void volatile wchar wchar_t when where while with
    xor xor_eq yield
    """.split()
)

_RESERVED_TYPE_EXTRA = frozenset(
    """
    aas awaited capitalize constants constructor_parameters context descent
    deserialization_error enhanced enhancement error errors exclude extract iclass
    instance_type iterator itransformer_with_context ivisitor ivisitor_with_context
    jsonization lowercase model_type non_nullable omit omit_this_parameter parameters
    partial path pick required return_type serialization_error stringification
    this_parameter_type this_type transform transformer transformer_with_context
    uncapitalize uppercase verification verification_error visit visitation visitor
    visitor_with_context
    """.split()
)

_RESERVED_MEMBER_EXTRA = frozenset(
    """
    descend descend_once enhancement get_enhancement get_model_type model_type
    property_name set_enhancement set_model_type transform type_name
    """.split()
)

RESERVED_TYPE_NAMES = _KEYWORDS | _RESERVED_TYPE_EXTRA
RESERVED_MEMBER_NAMES = _KEYWORDS | _RESERVED_MEMBER_EXTRA
# names the dialect itself uses; never generated for anything
_DIALECT_NAMES = frozenset(
    "list optional set enum dbc match len range all any self result text that value "
    "item items i idx pattern type version kind".split()
)

PRIMITIVES = ("bool", "int", "float", "str", "bytearray")
TARGETS = ("cpp", "csharp", "golang", "java", "jsonschema", "python", "typescript", "xsd")


def is_reserved_type_name(name: str) -> bool:
    low = name.lower()
    return low in RESERVED_TYPE_NAMES or name.startswith("I_") or name.startswith("Must_")


def is_reserved_member_name(name: str) -> bool:
    low = name.lower()
    return (
        low in RESERVED_MEMBER_NAMES
        or low.startswith("mutable")
        or (low.startswith("over") and (low.endswith("or_empty") or low.endswith("orempty")))
    )


# =====================================================================================
# Types
# =====================================================================================
@dataclass(frozen=True)
class TPrim:
    """A primitive type: one of ``PRIMITIVES``."""

    name: str


@dataclass(frozen=True)
class TOur:
    """A reference to an enumeration, a constrained primitive or a class by name."""

    name: str


@dataclass(frozen=True)
class TList:
    items: "Type"


@dataclass(frozen=True)
class TOpt:
    value: "Type"


Type = Union[TPrim, TOur, TList, TOpt]


def type_str(t: Type, quote: bool = False) -> str:
    """Render a type annotation; ``quote`` puts our types into string literals."""
    if isinstance(t, TPrim):
        return t.name
    if isinstance(t, TOur):
        return f'"{t.name}"' if quote else t.name
    if isinstance(t, TList):
        return f"List[{type_str(t.items, quote)}]"
    if isinstance(t, TOpt):
        return f"Optional[{type_str(t.value, quote)}]"
    raise TypeError(t)


def beneath_optional(t: Type) -> Type:
    return t.value if isinstance(t, TOpt) else t


def our_types_in(t: Type) -> List[str]:
    if isinstance(t, TOur):
        return [t.name]
    if isinstance(t, TList):
        return our_types_in(t.items)
    if isinstance(t, TOpt):
        return our_types_in(t.value)
    return []


# =====================================================================================
# Expressions (the invariant language of parse/tree.py restricted to what we generate)
# =====================================================================================
@dataclass(frozen=True)
class Name:
    id: str


@dataclass(frozen=True)
class Member:
    obj: "Expr"
    name: str


@dataclass(frozen=True)
class Const:
    """bool / int / float / str constant (negative numbers allowed)."""

    value: Any


@dataclass(frozen=True)
class Index:
    coll: "Expr"
    index: "Expr"


@dataclass(frozen=True)
class Cmp:
    op: str  # one of CMP_OPS
    left: "Expr"
    right: "Expr"


@dataclass(frozen=True)
class IsIn:
    member: "Expr"
    container: "Expr"


@dataclass(frozen=True)
class IsNone:
    value: "Expr"


@dataclass(frozen=True)
class IsNotNone:
    value: "Expr"


@dataclass(frozen=True)
class Not:
    operand: "Expr"


@dataclass(frozen=True)
class And:
    values: Tuple["Expr", ...]


@dataclass(frozen=True)
class Or:
    values: Tuple["Expr", ...]


@dataclass(frozen=True)
class Implies:
    """Rendered as ``not (antecedent) or (consequent)`` (how the dialect spells it)."""

    antecedent: "Expr"
    consequent: "Expr"


@dataclass(frozen=True)
class Call:
    """``len(x)`` or a call of a verification function."""

    name: str
    args: Tuple["Expr", ...]


@dataclass(frozen=True)
class MethodCall:
    obj: "Expr"
    name: str
    args: Tuple["Expr", ...] = ()


@dataclass(frozen=True)
class Add:
    left: "Expr"
    right: "Expr"


@dataclass(frozen=True)
class Sub:
    left: "Expr"
    right: "Expr"


@dataclass(frozen=True)
class ForEach:
    var: str
    iteration: "Expr"


@dataclass(frozen=True)
class ForRange:
    var: str
    start: "Expr"
    end: "Expr"


@dataclass(frozen=True)
class All:
    gen: Union[ForEach, ForRange]
    cond: "Expr"


@dataclass(frozen=True)
class AnyOf:
    """``any(cond for ...)`` (named AnyOf to keep ``typing.Any`` usable)."""

    gen: Union[ForEach, ForRange]
    cond: "Expr"


Expr = Union[
    Name, Member, Const, Index, Cmp, IsIn, IsNone, IsNotNone, Not, And, Or, Implies,
    Call, MethodCall, Add, Sub, All, AnyOf,
]
CMP_OPS = ("==", "!=", "<", "<=", ">", ">=")
_ATOMS = (Name, Member, Const, Index, Call, MethodCall, All, AnyOf)


def py_str(s: str) -> str:
    """A double-quoted Python string literal denoting exactly ``s``."""
    out = ['"']
    for ch in s:
        o = ord(ch)
        if ch == "\\":
            out.append("\\\\")
        elif ch == '"':
            out.append('\\"')
        elif ch == "\n":
            out.append("\\n")
        elif ch == "\r":
            out.append("\\r")
        elif ch == "\t":
            out.append("\\t")
        elif o < 0x20 or o == 0x7F:
            out.append(f"\\x{o:02x}")
        elif o < 0x7F:
            out.append(ch)
        elif o <= 0xFFFF:
            out.append(f"\\u{o:04x}")
        else:
            out.append(f"\\U{o:08x}")
    out.append('"')
    return "".join(out)


def py_const(v: Any) -> str:
    if isinstance(v, bool):
        return "True" if v else "False"
    if isinstance(v, int):
        return str(v)
    if isinstance(v, float):
        return repr(v)
    if isinstance(v, str):
        return py_str(v)
    if isinstance(v, (bytes, bytearray)):
        return "b" + py_str("".join(chr(b) for b in bytes(v)))
    raise TypeError(f"unexpected constant {v!r}")


def render_expr(e: Expr, top: bool = True) -> str:
    """Python source of the expression; every nested compound is parenthesised."""

    def sub(x: Expr) -> str:
        s = render_expr(x, top=False)
        if isinstance(x, _ATOMS) and not (
            isinstance(x, Const) and isinstance(x.value, (int, float)) and not isinstance(x.value, bool) and x.value < 0
        ):
            return s
        return f"({s})"

    if isinstance(e, Name):
        return e.id
    if isinstance(e, Member):
        return f"{sub(e.obj)}.{e.name}"
    if isinstance(e, Const):
        return py_const(e.value)
    if isinstance(e, Index):
        return f"{sub(e.coll)}[{render_expr(e.index)}]"
    if isinstance(e, Cmp):
        return f"{sub(e.left)} {e.op} {sub(e.right)}"
    if isinstance(e, IsIn):
        return f"{sub(e.member)} in {sub(e.container)}"
    if isinstance(e, IsNone):
        return f"{sub(e.value)} is None"
    if isinstance(e, IsNotNone):
        return f"{sub(e.value)} is not None"
    if isinstance(e, Not):
        return f"not {sub(e.operand)}"
    if isinstance(e, And):
        return " and ".join(sub(v) for v in e.values)
    if isinstance(e, Or):
        return " or ".join(sub(v) for v in e.values)
    if isinstance(e, Implies):
        return f"not ({render_expr(e.antecedent)}) or ({render_expr(e.consequent)})"
    if isinstance(e, Call):
        return f"{e.name}({', '.join(render_expr(a) for a in e.args)})"
    if isinstance(e, MethodCall):
        return f"{sub(e.obj)}.{e.name}({', '.join(render_expr(a) for a in e.args)})"
    if isinstance(e, Add):
        return f"{sub(e.left)} + {sub(e.right)}"
    if isinstance(e, Sub):
        return f"{sub(e.left)} - {sub(e.right)}"
    if isinstance(e, (All, AnyOf)):
        fn = "all" if isinstance(e, All) else "any"
        g = e.gen
        if isinstance(g, ForEach):
            gen = f"for {g.var} in {sub(g.iteration)}"
        else:
            gen = f"for {g.var} in range({render_expr(g.start)}, {render_expr(g.end)})"
        return f"{fn}({render_expr(e.cond)} {gen})"
    raise TypeError(f"unexpected expression {e!r}")


def mk_or(*values: Expr) -> Expr:
    """``Or`` that cannot be mis-read as an implication (``not a or b``)."""
    vals = tuple(values)
    if len(vals) == 2 and isinstance(vals[0], Not):
        return Implies(vals[0].operand, vals[1])
    return Or(vals)


def walk_expr(e: Any) -> Iterable[Any]:
    """Yield ``e`` and all nested expression / generator nodes."""
    yield e
    if dataclasses.is_dataclass(e):
        for f in dataclasses.fields(e):
            v = getattr(e, f.name)
            if isinstance(v, tuple):
                for x in v:
                    if dataclasses.is_dataclass(x):
                        yield from walk_expr(x)
            elif dataclasses.is_dataclass(v):
                yield from walk_expr(v)


# =====================================================================================
# The abstract meta-model
# =====================================================================================
@dataclass
class Doc:
    """A docstring in reStructuredText, already split the way the front end reads it.

    ``summary`` is the first paragraph; ``remarks`` are further paragraphs / blocks;
    ``constraints`` are ``:constraint ID:`` fields (only valid for the meta-model,
    our types and properties); ``params`` / ``returns`` only for signatures.
    ``refs`` lists the (role, target) references that occur in the text.
    """

    summary: str
    remarks: List[str] = field(default_factory=list)
    constraints: List[Tuple[str, str]] = field(default_factory=list)
    params: List[Tuple[str, str]] = field(default_factory=list)
    returns: Optional[str] = None
    refs: List[Tuple[str, str]] = field(default_factory=list)


@dataclass
class Invariant:
    """``@invariant(lambda self: <body>, "<description>")``.

    ``form`` names the template the generator used (see ``INVARIANT_FORMS``);
    ``meta`` carries the template's parameters (property, operator, bound, ...).
    ``source`` is the expression text actually rendered (``source_override`` wins).
    """

    description: str
    body: Expr
    form: str = "custom"
    meta: Dict[str, Any] = field(default_factory=dict)
    source_override: Optional[str] = None

    @property
    def source(self) -> str:
        return self.source_override if self.source_override is not None else render_expr(self.body)


@dataclass
class EnumLiteral:
    name: str
    value: str
    doc: Optional[Doc] = None


@dataclass
class Enumeration:
    name: str
    literals: List[EnumLiteral]
    doc: Optional[Doc] = None


@dataclass
class ConstrainedPrimitive:
    """``class Name(<bases or constrainee>, DBC)``; ``bases`` are other constrained
    primitives; with no bases the class inherits from the primitive ``constrainee``."""

    name: str
    constrainee: str
    bases: List[str] = field(default_factory=list)
    invariants: List[Invariant] = field(default_factory=list)
    doc: Optional[Doc] = None


@dataclass
class Property:
    name: str
    type: Type
    doc: Optional[Doc] = None


@dataclass
class Method:
    """An implementation-specific, non-mutating method without arguments."""

    name: str
    returns: Type
    doc: Optional[Doc] = None


@dataclass
class CtorArg:
    name: str
    type: Type
    default: Optional[str] = None  # source text of the default, e.g. "None"


@dataclass
class Ctor:
    """Explicit constructor (only used by mutants; normally derived, see ``derive_ctor``).

    ``body`` items: ``("super", base_name, [arg names])`` or ``("assign", prop, arg)``.
    """

    args: List[CtorArg]
    body: List[Tuple[Any, ...]]


@dataclass
class Class:
    name: str
    is_abstract: bool = False
    bases: List[str] = field(default_factory=list)
    properties: List[Property] = field(default_factory=list)  # own properties
    invariants: List[Invariant] = field(default_factory=list)  # own invariants
    methods: List[Method] = field(default_factory=list)
    with_model_type: Optional[bool] = None  # the explicit @serialization setting
    is_implementation_specific: bool = False
    doc: Optional[Doc] = None
    ctor_override: Optional[Ctor] = None


@dataclass
class ConstantPrimitive:
    name: str
    kind: str  # one of PRIMITIVES
    value: Any  # bool / int / float / str / bytes
    doc: Optional[Doc] = None


@dataclass
class ConstantSet:
    """``Name: Set[items_type] = constant_set(values=[...], superset_of=[...])``.

    ``items_type`` is a primitive name or the name of an enumeration; for an
    enumeration ``values`` are literal *names*."""

    name: str
    items_type: str
    values: List[Any]
    superset_of: List[str] = field(default_factory=list)
    doc: Optional[Doc] = None


Constant = Union[ConstantPrimitive, ConstantSet]


@dataclass
class VerificationFunction:
    """``kind``: "pattern" (``pattern`` set; single ``str`` argument),
    "transpilable" (``body`` = returned expression over the argument names) or
    "implementation_specific" (signature only)."""

    name: str
    kind: str
    args: List[Tuple[str, Type]]
    returns: Type = TPrim("bool")
    pattern: Optional[str] = None
    pattern_style: int = 0  # 0: variable + match, 1: direct literal, 2: f-string pieces
    body: Optional[Expr] = None
    doc: Optional[Doc] = None


@dataclass
class MetaModel:
    doc: Optional[Doc]
    version: str
    xml_namespace: str
    enumerations: List[Enumeration] = field(default_factory=list)
    constrained_primitives: List[ConstrainedPrimitive] = field(default_factory=list)
    classes: List[Class] = field(default_factory=list)
    constants: List[Constant] = field(default_factory=list)
    verification_functions: List[VerificationFunction] = field(default_factory=list)
    #: declaration order of our types (names); missing names are appended in list order
    decl_order: List[str] = field(default_factory=list)
    #: render references to our types in annotations as string literals
    quote_our_types: bool = True
    #: histogram of the generator's choices (empty for hand-built models)
    features: Dict[str, int] = field(default_factory=dict)
    profile: str = ""

    # -- look-ups --------------------------------------------------------------------
    def find_class(self, name: str) -> Optional[Class]:
        return next((c for c in self.classes if c.name == name), None)

    def find_enum(self, name: str) -> Optional[Enumeration]:
        return next((e for e in self.enumerations if e.name == name), None)

    def find_cprim(self, name: str) -> Optional[ConstrainedPrimitive]:
        return next((c for c in self.constrained_primitives if c.name == name), None)

    def find_constant(self, name: str) -> Optional[Constant]:
        return next((c for c in self.constants if c.name == name), None)

    def find_function(self, name: str) -> Optional[VerificationFunction]:
        return next((f for f in self.verification_functions if f.name == name), None)

    def our_type_names(self) -> List[str]:
        names = [e.name for e in self.enumerations]
        names += [c.name for c in self.constrained_primitives]
        names += [c.name for c in self.classes]
        return names

    def ordered_our_types(self) -> List[Union[Enumeration, ConstrainedPrimitive, Class]]:
        """Our types in declaration order (duplicates by name are all kept)."""
        everything: List[Any] = [*self.enumerations, *self.constrained_primitives, *self.classes]
        rank = {n: i for i, n in enumerate(self.decl_order)}
        indexed = list(enumerate(everything))
        indexed.sort(key=lambda p: (rank.get(p[1].name, len(rank)), p[0]))
        return [x for _, x in indexed]


# =====================================================================================
# Derived notions (specification-level: set semantics on diamonds)
# =====================================================================================
def ancestors(mm: MetaModel, cls: Class) -> List[Class]:
    """All strict ancestors, parents' ancestors first, no duplicates. Cycle-safe."""
    out: List[Class] = []
    seen: Set[str] = {cls.name}

    def visit(c: Class) -> None:
        for b in c.bases:
            p = mm.find_class(b)
            if p is None or p.name in seen:
                continue
            seen.add(p.name)
            visit(p)
            out.append(p)

    visit(cls)
    return out


def descendants(mm: MetaModel, cls: Class) -> List[Class]:
    return [c for c in mm.classes if c is not cls and any(a is cls for a in ancestors(mm, c))]


def concrete_descendants(mm: MetaModel, cls: Class) -> List[Class]:
    return [c for c in descendants(mm, cls) if not c.is_abstract]


def stacked_properties(mm: MetaModel, cls: Class) -> List[Tuple[Property, Class]]:
    """(property, defining class) of ``cls`` incl. inherited ones, in the order the
    front end stacks them (parents in base order, then own), duplicates removed."""
    out: List[Tuple[Property, Class]] = []
    seen: Set[int] = set()
    guard: Set[str] = set()

    def visit(c: Class) -> None:
        if c.name in guard:
            return
        guard.add(c.name)
        for b in c.bases:
            p = mm.find_class(b)
            if p is not None:
                visit(p)
        for prop in c.properties:
            if id(prop) not in seen:
                seen.add(id(prop))
                out.append((prop, c))
        guard.discard(c.name)

    visit(cls)
    return out


def stacked_invariants(mm: MetaModel, cls: Class) -> List[Tuple[Invariant, Class]]:
    out: List[Tuple[Invariant, Class]] = []
    for c in [*ancestors(mm, cls), cls]:
        out.extend((inv, c) for inv in c.invariants)
    return out


def effective_with_model_type(mm: MetaModel, cls: Class) -> bool:
    for c in [*ancestors(mm, cls), cls]:
        if c.with_model_type is not None:
            return c.with_model_type
    return False


def cprim_constrainee(mm: MetaModel, name: str) -> Optional[str]:
    cp = mm.find_cprim(name)
    return cp.constrainee if cp is not None else None


def derive_ctor(mm: MetaModel, cls: Class, _visiting: Tuple[str, ...] = ()) -> Optional[Ctor]:
    """The constructor the dialect expects: arguments = stacked properties (required
    ones first, each group in property order), optional ones default to ``None``;
    one ``Base.__init__(self, ...)`` per base that has a constructor; own properties
    assigned. ``None`` if the class has no properties at all (no ``__init__``)."""
    props = stacked_properties(mm, cls)
    if not props:
        return None
    required = [p for p, _ in props if not isinstance(p.type, TOpt)]
    optional = [p for p, _ in props if isinstance(p.type, TOpt)]
    args = [CtorArg(p.name, p.type, None) for p in required]
    args += [CtorArg(p.name, p.type, "None") for p in optional]
    body: List[Tuple[Any, ...]] = []
    for b in cls.bases:
        base = mm.find_class(b)
        if base is None or base.name in _visiting or base is cls:
            continue
        base_ctor = (
            derive_ctor(mm, base, (*_visiting, cls.name)) if base.ctor_override is None else base.ctor_override
        )
        if base_ctor is None:
            continue
        body.append(("super", base.name, [a.name for a in base_ctor.args]))
    for p in cls.properties:
        body.append(("assign", p.name, p.name))
    return Ctor(args=args, body=body)


def ctor_of(mm: MetaModel, cls: Class) -> Optional[Ctor]:
    return cls.ctor_override if cls.ctor_override is not None else derive_ctor(mm, cls)


# =====================================================================================
# Rendering to meta-model source text
# =====================================================================================
def render_doc(doc: Doc, indent: str) -> str:
    """Docstring literal (triple double-quoted, raw text escaped) at ``indent``."""
    blocks: List[str] = [doc.summary]
    blocks.extend(doc.remarks)
    fields: List[str] = []
    for ident, text in doc.constraints:
        body = "\n".join("    " + ln if ln else "" for ln in text.split("\n"))
        fields.append(f":constraint {ident}:\n\n{body}")
    for name, text in doc.params:
        fields.append(f":param {name}: {text}")
    if doc.returns is not None:
        fields.append(f":returns: {doc.returns}")
    text = "\n\n".join(blocks)
    if fields:
        # constraint fields are separated by blank lines; param/returns are adjacent
        sep = "\n\n" if doc.constraints else "\n"
        text += "\n\n" + sep.join(fields)
    escaped = text.replace("\\", "\\\\").replace('"""', '\\"\\"\\"')
    if escaped.endswith('"'):
        escaped = escaped[:-1] + '\\"'
    lines = escaped.split("\n")
    if len(lines) == 1 and len(lines[0]) + len(indent) < 80:
        return f'{indent}"""{lines[0]}"""'
    body = "\n".join((indent + ln) if ln else "" for ln in lines)
    return f'{indent}"""\n{body}\n{indent}"""'


def _render_invariants(invs: Sequence[Invariant]) -> List[str]:
    # decorators apply bottom-up and the front end reverses them: the FIRST invariant
    # of the model must be the LAST decorator.
    out: List[str] = []
    for inv in reversed(list(invs)):
        out.append("@invariant(")
        out.append(f"    lambda self: {inv.source},")
        out.append(f"    {py_str(inv.description)},")
        out.append(")")
    return out


def _render_ctor(ctor: Ctor, quote: bool) -> List[str]:
    out: List[str] = []
    if ctor.args:
        out.append("    def __init__(")
        out.append("        self,")
        for a in ctor.args:
            d = f" = {a.default}" if a.default is not None else ""
            out.append(f"        {a.name}: {type_str(a.type, quote)}{d},")
        out.append("    ) -> None:")
    else:
        out.append("    def __init__(self) -> None:")
    if not ctor.body:
        out.append("        pass")
    for stmt in ctor.body:
        if stmt[0] == "super":
            _, base, names = stmt
            if names:
                out.append(f"        {base}.__init__(")
                out.append("            self,")
                for n in names:
                    out.append(f"            {n}={n},")
                out.append("        )")
            else:
                out.append(f"        {base}.__init__(self)")
        elif stmt[0] == "assign":
            _, prop, arg = stmt
            out.append(f"        self.{prop} = {arg}")
        else:
            raise ValueError(f"unexpected constructor statement {stmt!r}")
    return out


def _render_class(mm: MetaModel, cls: Class) -> List[str]:
    q = mm.quote_our_types
    out: List[str] = []
    if cls.is_abstract:
        out.append("@abstract")
    if cls.is_implementation_specific:
        out.append("@implementation_specific")
    if cls.with_model_type is not None:
        out.append(f"@serialization(with_model_type={cls.with_model_type})")
    out.extend(_render_invariants(cls.invariants))
    bases = list(cls.bases) if cls.bases else ["DBC"]
    out.append(f"class {cls.name}({', '.join(bases)}):")
    body: List[str] = []
    if cls.doc is not None:
        body.append(render_doc(cls.doc, "    "))
        body.append("")
    for p in cls.properties:
        body.append(f"    {p.name}: {type_str(p.type, q)}")
        if p.doc is not None:
            body.append(render_doc(p.doc, "    "))
        body.append("")
    for m in cls.methods:
        body.append("    @implementation_specific")
        body.append("    @non_mutating")
        body.append(f"    def {m.name}(self) -> {type_str(m.returns, q)}:")
        if m.doc is not None:
            body.append(render_doc(m.doc, "        "))
        body.append("        raise NotImplementedError()")
        body.append("")
    ctor = ctor_of(mm, cls)
    if ctor is not None:
        body.extend(_render_ctor(ctor, q))
    while body and body[-1] == "":
        body.pop()
    if not body:
        body = ["    pass"]
    out.extend(body)
    return out


def _render_cprim(cp: ConstrainedPrimitive) -> List[str]:
    out = _render_invariants(cp.invariants)
    bases = list(cp.bases) if cp.bases else [cp.constrainee]
    out.append(f"class {cp.name}({', '.join(bases)}, DBC):")
    if cp.doc is not None:
        out.append(render_doc(cp.doc, "    "))
    else:
        out.append("    pass")
    return out


def _render_enum(en: Enumeration) -> List[str]:
    out = [f"class {en.name}(Enum):"]
    if en.doc is not None:
        out.append(render_doc(en.doc, "    "))
        out.append("")
    for lit in en.literals:
        out.append(f"    {lit.name} = {py_str(lit.value)}")
        if lit.doc is not None:
            out.append(render_doc(lit.doc, "    "))
        out.append("")
    while out[-1] == "":
        out.pop()
    if len(out) == 1:
        out.append("    pass")
    return out


def _fstring_literal(parts: Sequence[Tuple[str, str]]) -> str:
    """``parts``: ("lit", text) or ("var", name) -> an f-string literal."""
    out = ['f"']
    for kind, s in parts:
        if kind == "var":
            out.append("{" + s + "}")
        else:
            out.append(py_str(s)[1:-1].replace("{", "{{").replace("}", "}}"))
    out.append('"')
    return "".join(out)


def _split_pattern_for_fstring(pattern: str) -> Optional[Tuple[str, str, str]]:
    """Split ``^body$`` into ("^", body, "$"); ``None`` if not of that shape."""
    if len(pattern) >= 3 and pattern[0] == "^" and pattern[-1] == "$":
        return "^", pattern[1:-1], "$"
    return None


def _render_function(mm: MetaModel, fn: VerificationFunction) -> List[str]:
    q = mm.quote_our_types
    out = ["@verification"]
    if fn.kind == "implementation_specific":
        out.append("@implementation_specific")
    args = ", ".join(f"{n}: {type_str(t, q)}" for n, t in fn.args)
    out.append(f"def {fn.name}({args}) -> {type_str(fn.returns, q)}:")
    if fn.doc is not None:
        out.append(render_doc(fn.doc, "    "))
    if fn.kind == "pattern":
        assert fn.pattern is not None
        arg = fn.args[0][0] if fn.args else "text"
        split = _split_pattern_for_fstring(fn.pattern) if fn.pattern_style == 2 else None
        if fn.pattern_style == 1:
            out.append(f"    return match({py_str(fn.pattern)}, {arg}) is not None")
        elif split is not None:
            prefix, middle, suffix = split
            out.append(f"    part = {py_str(middle)}")
            out.append(
                "    pattern = " + _fstring_literal([("lit", prefix), ("var", "part"), ("lit", suffix)])
            )
            out.append(f"    return match(pattern, {arg}) is not None")
        else:
            out.append(f"    pattern = {py_str(fn.pattern)}")
            out.append(f"    return match(pattern, {arg}) is not None")
    elif fn.kind == "transpilable":
        assert fn.body is not None
        out.append(f"    return {render_expr(fn.body)}")
    elif fn.kind == "implementation_specific":
        out.append("    raise NotImplementedError()")
    else:
        raise ValueError(f"unexpected kind of verification function: {fn.kind!r}")
    return out


def _render_constant(mm: MetaModel, c: Constant) -> List[str]:
    desc = ""
    if c.doc is not None:
        # constants take the description as a plain (single-paragraph-ish) string
        text = "\n\n".join([c.doc.summary, *c.doc.remarks])
        desc = f", description={py_str(text)}"
    if isinstance(c, ConstantPrimitive):
        return [f"{c.name}: {c.kind} = constant_{c.kind}(value={py_const(c.value)}{desc})"]
    is_enum = c.items_type not in PRIMITIVES
    if is_enum:
        vals = ", ".join(f"{c.items_type}.{v}" for v in c.values)
        anno = f'Set["{c.items_type}"]' if mm.quote_our_types else f"Set[{c.items_type}]"
    else:
        vals = ", ".join(py_const(v) for v in c.values)
        anno = f"Set[{c.items_type}]"
    sup = f", superset_of=[{', '.join(c.superset_of)}]" if c.superset_of else ""
    return [f"{c.name}: {anno} = constant_set(values=[{vals}]{desc}{sup})"]


_HEADER = '''from enum import Enum
from re import match
from typing import List, Optional, Set

from icontract import invariant, DBC

from aas_core_meta.marker import (
    abstract,
    serialization,
    implementation_specific,
    verification,
    constant_set,
    non_mutating,
)
'''


def render_source(mm: MetaModel) -> str:
    """The meta-model as Python text in the dialect of aas-core-meta."""
    chunks: List[str] = []
    if mm.doc is not None:
        chunks.append(render_doc(mm.doc, ""))
    chunks.append(_HEADER.rstrip("\n"))
    chunks.append(f"__version__ = {py_str(mm.version)}\n\n__xml_namespace__ = {py_str(mm.xml_namespace)}")
    for fn in mm.verification_functions:
        chunks.append("\n".join(_render_function(mm, fn)))
    prims = [c for c in mm.constants if isinstance(c, ConstantPrimitive)]
    sets = [c for c in mm.constants if isinstance(c, ConstantSet)]
    for c in prims:
        chunks.append("\n".join(_render_constant(mm, c)))
    for t in mm.ordered_our_types():
        if isinstance(t, Enumeration):
            chunks.append("\n".join(_render_enum(t)))
        elif isinstance(t, ConstrainedPrimitive):
            chunks.append("\n".join(_render_cprim(t)))
        else:
            chunks.append("\n".join(_render_class(mm, t)))
    for c in sets:
        chunks.append("\n".join(_render_constant(mm, c)))
    return "\n\n\n".join(chunks) + "\n"


# =====================================================================================
# JSON side-car
# =====================================================================================
_JSON_CLASSES = [
    TPrim, TOur, TList, TOpt, Name, Member, Const, Index, Cmp, IsIn, IsNone, IsNotNone,
    Not, And, Or, Implies, Call, MethodCall, Add, Sub, ForEach, ForRange, All, AnyOf,
    Doc, Invariant, EnumLiteral, Enumeration, ConstrainedPrimitive, Property, Method,
    CtorArg, Ctor, Class, ConstantPrimitive, ConstantSet, VerificationFunction, MetaModel,
]
_JSON_REGISTRY = {c.__name__: c for c in _JSON_CLASSES}


def to_json(obj: Any) -> Any:
    """JSON-able representation (dataclasses tagged with ``_t``); lossless."""
    if dataclasses.is_dataclass(obj) and not isinstance(obj, type):
        out: Dict[str, Any] = {"_t": type(obj).__name__}
        for f in dataclasses.fields(obj):
            out[f.name] = to_json(getattr(obj, f.name))
        return out
    if isinstance(obj, tuple):
        return {"_t": "tuple", "v": [to_json(x) for x in obj]}
    if isinstance(obj, list):
        return [to_json(x) for x in obj]
    if isinstance(obj, dict):
        return {"_t": "dict", "v": {str(k): to_json(v) for k, v in obj.items()}}
    if isinstance(obj, (bytes, bytearray)):
        return {"_t": "bytes", "hex": bytes(obj).hex()}
    if obj is None or isinstance(obj, (bool, int, float, str)):
        return obj
    raise TypeError(f"cannot convert to JSON: {obj!r}")


def from_json(data: Any) -> Any:
    """Inverse of ``to_json``."""
    if isinstance(data, list):
        return [from_json(x) for x in data]
    if isinstance(data, dict):
        tag = data.get("_t")
        if tag == "tuple":
            return tuple(from_json(x) for x in data["v"])
        if tag == "dict":
            return {k: from_json(v) for k, v in data["v"].items()}
        if tag == "bytes":
            return bytes.fromhex(data["hex"])
        cls = _JSON_REGISTRY.get(tag)
        if cls is None:
            raise ValueError(f"unknown tag in JSON: {tag!r}")
        kwargs = {f.name: from_json(data[f.name]) for f in dataclasses.fields(cls) if f.name in data}
        return cls(**kwargs)
    return data


def dumps(mm: MetaModel) -> str:
    return json.dumps(to_json(mm), sort_keys=True)


def loads(text: str) -> MetaModel:
    mm = from_json(json.loads(text))
    assert isinstance(mm, MetaModel)
    return mm


# =====================================================================================
# Random generation
# =====================================================================================
SHAPES = ("single", "forest", "chain", "diamond", "stacked_diamonds", "fan_out")
INVARIANT_FORMS = (
    "len_bound",  # len(self.p) OP n / n OP len(self.p), guarded if p optional
    "pattern",  # matches_x(self.p)
    "in_set",  # self.p in Constant_set
    "none_implication",  # not (a is not None) or (b is not None), xor forms, ...
    "bool_nest",  # and / or / not nests over simple atoms
    "all_any",  # all(... for item in self.items) / any(...)
    "range_loop",  # all(... for i in range(0, len(self.items)))
    "prop_compare",  # self.a <= self.b
    "fn_call",  # transpilable / implementation-specific verification function
)
GUARD_STYLES = ("implication", "or_none", "and_set")


@dataclass
class Profile:
    """Knobs of ``random_metamodel``. Ranges are inclusive ``(lo, hi)``."""

    name: str = "small"
    clusters: Tuple[int, int] = (2, 4)
    forest_size: Tuple[int, int] = (2, 5)
    chain_depth: Tuple[int, int] = (3, 5)
    fan_out: Tuple[int, int] = (2, 5)
    stacked: Tuple[int, int] = (2, 2)
    shapes: Dict[str, float] = field(
        default_factory=lambda: {
            "single": 3.0, "forest": 2.0, "chain": 1.5, "diamond": 1.0,
            "stacked_diamonds": 0.5, "fan_out": 1.5,
        }
    )
    enums: Tuple[int, int] = (1, 3)
    enum_literals: Tuple[int, int] = (1, 5)
    cprims: Tuple[int, int] = (1, 4)
    const_prims: Tuple[int, int] = (0, 3)
    const_sets: Tuple[int, int] = (1, 3)
    pattern_fns: Tuple[int, int] = (1, 3)
    transpilable_fns: Tuple[int, int] = (0, 2)
    impl_fns: Tuple[int, int] = (0, 1)
    props_per_class: Tuple[int, int] = (0, 4)
    invariants_per_class: Tuple[int, int] = (0, 3)
    p_optional: float = 0.4
    p_list: float = 0.25
    p_nested_list: float = 0.0  # List[List[...]]
    p_list_non_class: float = 0.0  # lists of primitives / enumerations / constrained primitives
    p_empty_concrete_class: float = 0.0  # concrete classes without any property
    p_non_greedy: float = 0.0  # non-greedy quantifiers in patterns
    p_multi_pattern: float = 0.0  # more than one pattern on the same value
    p_diamond_constraints: float = 0.0  # schema constraints on properties defined above a diamond join
    p_len_on_bytes: float = 0.0  # len(...) of bytearray values (unsupported by the Java generator)
    p_missing_model_type: float = 0.0  # skip with_model_type where only some generators need it
    p_abstract_inner: float = 0.7
    p_abstract_leaf: float = 0.0  # abstract classes without concrete descendants
    p_doc: float = 0.6
    p_class_doc: float = 1.0  # classes (the Java generator needs a description on each)
    p_doc_ref: float = 0.5
    p_impl_specific_class: float = 0.0
    p_method: float = 0.05
    p_wild_len: float = 0.0  # length bounds from -2..70 regardless of consistency
    p_bytearray_constant: float = 0.0  # never accepted by the front end (see docs)
    p_hostile_doc: float = 0.0  # awkward but RST-valid text in descriptions (quotes, */, ]]>, U+2028)
    p_near_collision: float = 0.0  # member names that differ only by case / underscores
    p_quote: float = 0.7
    p_shuffle_decl: float = 0.0  # child may precede its parent (front end rejects, see docs)
    forms: Dict[str, float] = field(
        default_factory=lambda: {
            "len_bound": 3.0, "pattern": 1.5, "in_set": 1.0, "none_implication": 1.5,
            "bool_nest": 1.5, "all_any": 1.0, "range_loop": 0.5, "prop_compare": 1.0,
            "fn_call": 1.0,
        }
    )


PROFILES: Dict[str, Profile] = {
    "tiny": Profile(
        name="tiny", clusters=(1, 2), forest_size=(2, 3), chain_depth=(2, 3), fan_out=(2, 2),
        enums=(0, 1), enum_literals=(1, 3), cprims=(0, 1), const_prims=(0, 1),
        const_sets=(0, 1), pattern_fns=(0, 1), transpilable_fns=(0, 1), impl_fns=(0, 0),
        props_per_class=(0, 2), invariants_per_class=(0, 1), p_doc=0.3,
    ),
    "small": Profile(name="small"),
    "medium": Profile(
        name="medium", clusters=(4, 8), forest_size=(3, 8), chain_depth=(3, 12), fan_out=(3, 8),
        stacked=(2, 3), enums=(2, 5), enum_literals=(1, 8), cprims=(2, 7), const_prims=(1, 5),
        const_sets=(2, 5), pattern_fns=(2, 5), transpilable_fns=(1, 3), impl_fns=(0, 2),
        props_per_class=(0, 6), invariants_per_class=(0, 4), p_method=0.08,
    ),
}

HOSTILE_DOC_TEXTS = (
    'It ends with a quote "',
    "It has x*/ and a/* comment marker.",
    "It has a back\\slash and C:\\temp.",
    "It has ]]> inside.",
    "It has a line\u2028separator.",
    "It has %s {0} ${x} #{y} placeholders.",
    "It has <tag> & &amp; entities.",
    "It has \'\'\' and \"\"\" quotes.",
    "It ends with a backslash \\",
    "It has a tab\there.",
    "It has // and -- and #.",
    "It has an emoji \U0001F600 and \u00e4.",
    'It has ``*/`` and ``"`` literals.',
    "It ends with an apostrophe'",
    "It has {@link x} and @param y.",
)

def _wild(base: Profile, name: str) -> Profile:
    """``base`` with every risky feature switched on (each one is known to make at
    least one generator of the unchanged /repo fail; see docs/mmgen.md)."""
    return dataclasses.replace(
        base, name=name, p_nested_list=0.05, p_list_non_class=0.5, p_empty_concrete_class=0.3,
        p_missing_model_type=0.3, p_non_greedy=0.3, p_multi_pattern=0.5, p_diamond_constraints=0.5,
        p_len_on_bytes=0.5, p_abstract_leaf=0.1, p_class_doc=0.6, p_impl_specific_class=0.15,
        p_wild_len=0.15, p_hostile_doc=0.15, p_near_collision=0.05, p_shuffle_decl=0.0,
        shapes=dict(base.shapes), forms=dict(base.forms),
    )


PROFILES["small_wild"] = _wild(PROFILES["small"], "small_wild")
PROFILES["medium_wild"] = _wild(PROFILES["medium"], "medium_wild")

_WORDS = (
    "alpha beta gamma kappa sigma omega amber azure coral ivory olive pearl ruby "
    "anchor arrow badge basket beacon bridge bucket button cable candle canvas carpet "
    "castle cellar chain circle cloud cobalt column comet copper corner cotton crater "
    "crystal dagger desert dragon drawer eagle ember engine falcon feather fender "
    "fiber flame flower forest fossil fountain galaxy garden garnet glacier granite "
    "gravel hammer harbor helmet hollow island jacket jungle kernel kettle ladder "
    "lagoon lantern lattice ledger lever magnet marble meadow mirror mortar needle "
    "nickel onion orbit otter paddle panel parcel pebble pepper piston planet pocket "
    "portal quarry rabbit radar ribbon rocket saddle sensor shadow signal silver "
    "socket spiral spring staple summit tablet tunnel turbine valley velvet vessel "
    "walnut window zenith"
).split()
_ACRONYMS = ("ID", "URL", "XML", "IEC", "AAS", "UTC", "RFC")


def _safe_words() -> List[str]:
    bad = RESERVED_TYPE_NAMES | RESERVED_MEMBER_NAMES | _DIALECT_NAMES
    return [w for w in _WORDS if w not in bad]


class _Names:
    """Allocates identifiers that are not reserved and do not collide (also not
    case-insensitively / modulo underscores, so target renamings stay injective)."""

    def __init__(self, rng: random.Random) -> None:
        self.rng = rng
        self.words = _safe_words()
        self.top: Set[str] = set()  # normalised top-level names

    @staticmethod
    def norm(name: str) -> str:
        return name.replace("_", "").lower()

    def _raw(self, parts: Tuple[int, int]) -> List[str]:
        n = self.rng.randint(*parts)
        ws = [self.rng.choice(self.words) for _ in range(n)]
        if n >= 2 and self.rng.random() < 0.12:
            ws[self.rng.randrange(n)] = self.rng.choice(_ACRONYMS)
        return ws

    def top_level(self, capital: bool, prefix: str = "", parts: Tuple[int, int] = (1, 3)) -> str:
        for _ in range(1000):
            ws = self._raw(parts)
            if prefix:
                ws = [prefix] + ws
            name = "_".join(ws)
            if capital:
                name = name[0].upper() + name[1:]
            if self.norm(name) in self.top or is_reserved_type_name(name) or is_reserved_member_name(name):
                continue
            if name.lower() in _DIALECT_NAMES:
                continue
            self.top.add(self.norm(name))
            return name
        raise RuntimeError("name space exhausted")

    def member(self, taken: Set[str], capital: bool = False, parts: Tuple[int, int] = (1, 3)) -> str:
        """A member name whose normal form is not in ``taken`` (normal forms)."""
        for _ in range(1000):
            name = "_".join(self._raw(parts))
            if capital:
                name = name[0].upper() + name[1:]
            if self.norm(name) in taken or is_reserved_member_name(name) or name.lower() in _DIALECT_NAMES:
                continue
            taken.add(self.norm(name))
            return name
        raise RuntimeError("name space exhausted")


def _wchoice(rng: random.Random, weights: Dict[str, float]) -> str:
    keys = [k for k, w in weights.items() if w > 0]
    return rng.choices(keys, weights=[weights[k] for k in keys], k=1)[0]


_PATTERN_POOL = (
    "^[a-z]+$",
    "^[A-Z][a-zA-Z0-9_]*$",
    "^(0|[1-9][0-9]*)$",
    "^[a-zA-Z]{2,8}(-[a-zA-Z0-9]+)*$",
    "^[0-9]{4}-[0-9]{2}-[0-9]{2}$",
    "^([a-z]+\\.)*[a-z]+$",
    "^(true|false|1|0)$",
    "^[\\x09\\x0a\\x0d\\x20-\\ud7ff\\ue000-\\ufffd\\U00010000-\\U0010ffff]*$",
    "^-?[0-9]+(\\.[0-9]+)?$",
    "^[^/ ]+/[^/ ]+$",
    "^.{1,20}$",
    "^a*?b+?c??$",
)


def random_pattern(rng: random.Random, non_greedy: bool = False) -> str:
    """An anchored pattern (``^...$``, no top-level alternation) in the subset all the
    targets understand; non-greedy quantifiers only with ``non_greedy``."""
    if rng.random() < 0.5:
        pool = _PATTERN_POOL if non_greedy else _PATTERN_POOL[:-1]
        return rng.choice(pool)
    classes = ["[a-z]", "[A-Z]", "[0-9]", "[a-zA-Z0-9]", "[a-f0-9]", "[^0-9]", "[_a-z]", "[ -~]", "."]
    quants = ["", "", "*", "+", "?", "{2}", "{1,3}", "{2,}"]
    if non_greedy:
        quants += ["+?", "*?", "??"]
    specials = ["\\.", "\\*", "\\+", "\\(", "\\)", "\\\\", "\\x20", "\\u00e4", "\\$", "-"]
    words = ["ab", "cd", "x", "yes", "no", "k1", "urn"]
    pieces: List[str] = []
    for _ in range(rng.randint(1, 4)):
        kind = rng.random()
        if kind < 0.45:
            pieces.append(rng.choice(classes) + rng.choice(quants))
        elif kind < 0.65:
            alts = rng.sample(words, rng.randint(2, 3))
            pieces.append("(" + "|".join(alts) + ")" + rng.choice(["", "", "?", "*", "{1,2}"]))
        elif kind < 0.8:
            pieces.append(rng.choice(specials))
        elif kind < 0.9:
            pieces.append("(" + rng.choice(classes) + rng.choice(["+", "*"]) + rng.choice(specials) + ")" + rng.choice(["*", "+", "?"]))
        else:
            pieces.append(rng.choice("abcxyz019_"))
    return "^" + "".join(pieces) + "$"


@dataclass
class _LenWindow:
    lo: int = 0
    hi: Optional[int] = None
    fixed: bool = False


class _Generator:
    def __init__(self, rng: random.Random, profile: Profile) -> None:
        self.rng = rng
        self.p = profile
        self.names = _Names(rng)
        self.mm = MetaModel(doc=None, version="V0.1", xml_namespace="https://example.com/mm")
        self.feat: Dict[str, int] = {}
        self.cluster_of: Dict[str, int] = {}  # class name -> cluster index
        self.member_names: Dict[int, Set[str]] = {}  # cluster -> normalised member names
        self.len_windows: Dict[Tuple[str, str], _LenWindow] = {}
        self.inv_counter = 0
        self.constraint_counter = 0
        self.patterned: Set[Tuple[str, str]] = set()  # values that already carry a pattern
        self._above_join: Optional[Set[str]] = None
        self.exact_member_names: Dict[int, Set[str]] = {}

    # -- helpers --------------------------------------------------------------------
    def count(self, key: str, n: int = 1) -> None:
        self.feat[key] = self.feat.get(key, 0) + n

    def rint(self, rng_: Tuple[int, int]) -> int:
        return self.rng.randint(rng_[0], rng_[1])

    def chance(self, p: float) -> bool:
        return self.rng.random() < p

    # -- documentation ----------------------------------------------------------------
    def sentence(self, lead: str) -> str:
        ws = [self.rng.choice(self.names.words) for _ in range(self.rng.randint(2, 5))]
        return f"{lead} {' '.join(ws)}."

    def doc_ref(self, owner: Optional[Class]) -> Optional[Tuple[str, str, str]]:
        """(role, target, rst) of a resolvable reference, or None."""
        mm = self.mm
        options: List[Tuple[str, str]] = []
        for t in mm.our_type_names():
            options.append(("class", t))
        for e in mm.enumerations:
            for lit in e.literals[:2]:
                options.append(("attr", f"{e.name}.{lit.name}"))
        for c in mm.classes:
            for prop, _ in stacked_properties(mm, c)[:2]:
                options.append(("attr", f"{c.name}.{prop.name}"))
        if owner is not None:
            for prop, _ in stacked_properties(mm, owner):
                options.append(("attr", prop.name))
        for c in mm.constants:
            options.append(("const", c.name))
        if not options:
            return None
        role, target = self.rng.choice(options)
        return role, target, f":{role}:`{target}`"

    def make_doc(
        self,
        lead: str,
        owner: Optional[Class] = None,
        allow_constraints: bool = False,
        params: Sequence[str] = (),
        returns: bool = False,
        rich: bool = True,
    ) -> Doc:
        doc = Doc(summary=self.sentence(lead))
        if self.chance(self.p.p_hostile_doc):
            doc.remarks.append(self.rng.choice(HOSTILE_DOC_TEXTS))
            self.count("doc:hostile")
        if not rich:
            return doc
        if self.chance(self.p.p_doc_ref):
            ref = self.doc_ref(owner)
            if ref is not None:
                role, target, rst = ref
                where = self.rng.random()
                if where < 0.5:
                    doc.summary = doc.summary[:-1] + f" related to {rst}."
                else:
                    doc.remarks.append(f"See also {rst} for the {self.rng.choice(self.names.words)}.")
                doc.refs.append((role, target))
                self.count(f"doc_ref:{role}")
        roll = self.rng.random()
        if roll < 0.15:
            doc.remarks.append(self.sentence("It is") + " Use ``" + self.rng.choice(self.names.words) + "`` with *care*.")
            self.count("doc:literal_emphasis")
        elif roll < 0.25:
            doc.remarks.append("* " + self.sentence("First")[:-1] + "\n* " + self.sentence("Second")[:-1])
            self.count("doc:bullet_list")
        elif roll < 0.33:
            doc.remarks.append(".. note::\n\n    " + self.sentence("Mind the"))
            self.count("doc:note")
        if allow_constraints and self.chance(0.15):
            self.constraint_counter += 1
            ident = f"MMG-{self.constraint_counter:03d}"
            doc.constraints.append((ident, self.sentence("The value shall follow")))
            self.count("doc:constraint")
            if self.chance(0.5):
                doc.remarks.append(f"Mind :constraintref:`{ident}`.")
                doc.refs.append(("constraintref", ident))
        for name in params:
            if self.chance(0.7):
                text = self.sentence("the")[:-1]
                doc.params.append((name, text))
        if params and self.chance(0.4):
            doc.remarks.append(f"The argument :paramref:`{params[0]}` is inspected.")
            doc.refs.append(("paramref", params[0]))
            self.count("doc_ref:paramref")
        if returns and self.chance(0.6):
            doc.returns = "True if " + self.sentence("the")[:-1]
        return doc

    # -- enumerations, functions, constrained primitives, constants -----------------------
    def gen_enums(self) -> None:
        for _ in range(self.rint(self.p.enums)):
            name = self.names.top_level(capital=True)
            taken: Set[str] = set()
            values: Set[str] = set()
            lits: List[EnumLiteral] = []
            for _ in range(self.rint(self.p.enum_literals)):
                lname = self.names.member(taken, capital=True, parts=(1, 2))
                style = self.rng.random()
                if style < 0.5:
                    parts = lname.split("_")
                    value = "".join(p[:1].upper() + p[1:] for p in parts)
                elif style < 0.8:
                    value = lname.lower()
                else:
                    value = "x-" + lname.lower().replace("_", ":")
                if value in values:
                    value = value + str(len(values))
                values.add(value)
                lits.append(EnumLiteral(lname, value))
            self.mm.enumerations.append(Enumeration(name, lits))
            self.count("enumeration")
            self.count("enum_literal", len(lits))

    def gen_pattern_fns(self) -> None:
        for _ in range(self.rint(self.p.pattern_fns)):
            name = self.names.top_level(capital=False, prefix="matches", parts=(1, 2))
            style = self.rng.choice([0, 0, 1, 2])
            fn = VerificationFunction(
                name=name, kind="pattern", args=[("text", TPrim("str"))],
                pattern=random_pattern(self.rng, self.chance(self.p.p_non_greedy)), pattern_style=style,
            )
            self.mm.verification_functions.append(fn)
            self.count("fn:pattern")
            self.count(f"pattern_style:{style}")

    def pattern_fn_names(self) -> List[str]:
        return [f.name for f in self.mm.verification_functions if f.kind == "pattern"]

    def next_description(self, text: str) -> str:
        self.inv_counter += 1
        return f"Constraint {self.inv_counter}: {text}"

    def len_bound(self, key: Tuple[str, str], what: str,
                  inherit: Optional[_LenWindow] = None) -> Optional[Tuple[str, int, bool, str]]:
        """Choose (op, n, swapped, wording) for a length bound on ``key`` that keeps the
        conjunction of all bounds on that key satisfiable and away from zero."""
        rng = self.rng
        if self.chance(self.p.p_wild_len):
            op = rng.choice(CMP_OPS)
            n = rng.randint(-2, 70)
            self.count("len_bound:wild")
            return op, n, self.chance(0.5), f"{what} length {op} {n}"
        w = self.len_windows.get(key)
        if w is None:
            w = copy.copy(inherit) if inherit is not None else _LenWindow()
            self.len_windows[key] = w
        if w.fixed:
            op, n = "!=", (w.lo + rng.randint(1, 5))
            return op, n, self.chance(0.5), f"{what} shall not have the length {n}"
        choices = [">=", ">", "<=", "<", "!="]
        if w.lo == 0 and w.hi is None:
            choices.append("==")
        op = rng.choice(choices)
        cap = w.hi if w.hi is not None else w.lo + 60
        if op == ">=":
            lo_n, hi_n = max(w.lo, 1), min(cap, max(w.lo, 1) + 4)
            if lo_n > hi_n:
                return None
            n = rng.randint(lo_n, hi_n)
            w.lo = n
            wording = f"{what} shall have at least {n} element(s)"
        elif op == ">":
            lo_n, hi_n = max(w.lo - 1, 0), min(cap - 1, max(w.lo - 1, 0) + 4)
            if lo_n > hi_n:
                return None
            n = rng.randint(lo_n, hi_n)
            w.lo = n + 1
            wording = f"{what} shall have more than {n} element(s)"
        elif op == "<=":
            lo_n = max(w.lo, 1)
            hi_n = cap
            if lo_n > hi_n:
                return None
            n = rng.randint(lo_n, hi_n)
            w.hi = n
            wording = f"{what} shall have at most {n} element(s)"
        elif op == "<":
            lo_n = max(w.lo, 1) + 1
            hi_n = cap + 1
            if lo_n > hi_n:
                return None
            n = rng.randint(lo_n, hi_n)
            w.hi = n - 1
            wording = f"{what} shall have less than {n} element(s)"
        elif op == "==":
            n = rng.randint(1, 12)
            w.lo = w.hi = n
            w.fixed = True
            wording = f"{what} shall have exactly {n} element(s)"
        else:
            n = rng.randint(0, 40)
            wording = f"{what} shall not have the length {n}"
        return op, n, self.chance(0.5), wording

    @staticmethod
    def flip(op: str) -> str:
        return {"==": "==", "!=": "!=", "<": ">", "<=": ">=", ">": "<", ">=": "<="}[op]

    def len_cmp(self, subject: Expr, op: str, n: int, swapped: bool) -> Expr:
        length = Call("len", (subject,))
        if swapped:
            return Cmp(self.flip(op), Const(n), length)
        return Cmp(op, length, Const(n))

    def gen_cprims(self) -> None:
        made: List[ConstrainedPrimitive] = []
        for _ in range(self.rint(self.p.cprims)):
            name = self.names.top_level(capital=True)
            parent = None
            if made and self.chance(0.35):
                parent = self.rng.choice(made)
            if parent is not None:
                constrainee = parent.constrainee
                bases = [parent.name]
                self.count("cprim:derived")
            else:
                constrainee = self.rng.choices(PRIMITIVES, weights=[0.5, 1.5, 1, 5, 1], k=1)[0]
                bases = []
            cp = ConstrainedPrimitive(name=name, constrainee=constrainee, bases=bases)
            root = name
            if parent is not None:
                root = self.cprim_root(parent.name)
            self._cprim_root[name] = root
            me = Name("self")
            for _ in range(self.rng.choice([0, 1, 1, 2])):
                if constrainee == "bytearray" and not self.chance(self.p.p_len_on_bytes):
                    break
                if constrainee in ("str", "bytearray"):
                    fns = self.pattern_fn_names()
                    pkey = (root, "<self>")
                    if constrainee == "str" and fns and self.chance(0.4) and (
                        pkey not in self.patterned or self.chance(self.p.p_multi_pattern)
                    ):
                        self.patterned.add(pkey)
                        fn = self.rng.choice(fns)
                        cp.invariants.append(Invariant(
                            self.next_description(f"The value shall match {fn}"),
                            Call(fn, (me,)), "pattern", {"fn": fn, "subject": "self"}))
                        self.count("cprim_inv:pattern")
                    else:
                        b = self.len_bound((root, "<self>"), "The value")
                        if b is None:
                            continue
                        op, n, swapped, wording = b
                        cp.invariants.append(Invariant(
                            self.next_description(wording), self.len_cmp(me, op, n, swapped),
                            "len_bound", {"subject": "self", "op": op, "n": n, "swapped": swapped, "guard": None}))
                        self.count("cprim_inv:len_bound")
                elif constrainee == "int":
                    op = self.rng.choice([">", ">=", "<", "<=", "!="])
                    n = self.rng.randint(-5, 100)
                    cp.invariants.append(Invariant(
                        self.next_description(f"The value shall be {op} {n}"),
                        Cmp(op, me, Const(n)), "self_compare", {"op": op, "n": n}))
                    self.count("cprim_inv:compare")
                elif constrainee == "float":
                    op = self.rng.choice([">", ">=", "<", "<="])
                    x = float(self.rng.randint(-50, 50)) / 2
                    cp.invariants.append(Invariant(
                        self.next_description(f"The value shall be {op} {x}"),
                        Cmp(op, me, Const(x)), "self_compare", {"op": op, "n": x}))
                    self.count("cprim_inv:compare")
                else:
                    break
            made.append(cp)
            self.mm.constrained_primitives.append(cp)
            self.count(f"cprim:{constrainee}")

    _cprim_root: Dict[str, str]

    def cprim_root(self, name: str) -> str:
        return self._cprim_root.get(name, name)

    def gen_constants(self) -> None:
        rng = self.rng
        for _ in range(self.rint(self.p.const_prims)):
            kinds = ["bool", "int", "float", "str"]
            if self.chance(self.p.p_bytearray_constant):
                kinds = ["bytearray"]
            kind = rng.choice(kinds)
            value: Any
            if kind == "bool":
                value = self.chance(0.5)
            elif kind == "int":
                value = rng.choice([0, 1, 7, 42, 255, 65536, 2**31 - 1, rng.randint(0, 10**6)])
            elif kind == "float":
                value = rng.choice([0.0, 0.5, 1.5, 3.25, 100.0, 1e10, 2.5e-3])
            elif kind == "str":
                value = rng.choice(["", "x", "some text", "a-b_c", "Text with \"quotes\"", "tab\there", "äö"])
            else:
                value = bytes(rng.randrange(256) for _ in range(rng.randint(0, 6)))
            name = self.names.top_level(capital=True)
            self.mm.constants.append(ConstantPrimitive(name, kind, value))
            self.count(f"constant:{kind}")
        sets: List[ConstantSet] = []
        for _ in range(self.rint(self.p.const_sets)):
            name = self.names.top_level(capital=True, parts=(2, 3))
            same = [s for s in sets if True]
            if same and self.chance(0.4):
                # a superset of an existing set: superset_of chain
                sub = rng.choice(same)
                values = list(sub.values)
                extra = self.fresh_set_values(sub.items_type, exclude=values)
                values = values + extra
                rng.shuffle(values)
                cs = ConstantSet(name, sub.items_type, values, superset_of=[sub.name])
                self.count("constant_set:superset_of")
            else:
                options = ["str", "str", "int"]
                options += [e.name for e in self.mm.enumerations if len(e.literals) >= 1]
                items_type = rng.choice(options)
                values = self.fresh_set_values(items_type, exclude=[])
                if not values:
                    continue
                cs = ConstantSet(name, items_type, values)
            sets.append(cs)
            self.mm.constants.append(cs)
            self.count("constant_set:" + ("enum" if cs.items_type not in PRIMITIVES else cs.items_type))

    def fresh_set_values(self, items_type: str, exclude: Sequence[Any]) -> List[Any]:
        rng = self.rng
        if items_type == "str":
            pool = [w.upper() for w in rng.sample(self.names.words, 6)] + ["CONSTANT", "PARAMETER", "x y"]
        elif items_type == "int":
            pool = list(range(0, 40))
        else:
            en = self.mm.find_enum(items_type)
            pool = [lit.name for lit in en.literals] if en else []
        pool = [v for v in pool if v not in exclude]
        if not pool:
            return []
        k = rng.randint(1, min(4, len(pool)))
        return rng.sample(pool, k)

    # -- classes ---------------------------------------------------------------------
    def new_class(self, cluster: int, bases: List[str], abstract: bool) -> Class:
        name = self.names.top_level(capital=True)
        cls = Class(name=name, is_abstract=abstract, bases=list(bases))
        self.mm.classes.append(cls)
        self.cluster_of[name] = cluster
        return cls

    def gen_cluster(self, idx: int) -> None:
        shape = _wchoice(self.rng, self.p.shapes)
        self.count(f"shape:{shape}")
        made: List[Class] = []
        if shape == "single":
            made.append(self.new_class(idx, [], False))
        elif shape == "forest":
            n = self.rint(self.p.forest_size)
            for i in range(n):
                if i == 0 or self.chance(0.15):
                    made.append(self.new_class(idx, [made[0].name] if (i > 0 and self.chance(0.0)) else [], False))
                else:
                    parent = self.rng.choice(made)
                    made.append(self.new_class(idx, [parent.name], False))
            # connect extra roots so that the cluster stays one component: a later
            # class may inherit from two roots (mixin style)
            roots = [c for c in made if not c.bases]
            for extra in roots[1:]:
                kids = [c for c in made if c is not extra and c.bases and extra.name not in c.bases
                        and not any(a is c for a in ancestors(self.mm, extra))]
                if kids:
                    kid = self.rng.choice(kids)
                    kid.bases.append(extra.name)
                    self.count("multi_root_inheritance")
                else:
                    extra.bases.append(roots[0].name)
        elif shape == "chain":
            depth = self.rint(self.p.chain_depth)
            prev: Optional[Class] = None
            for _ in range(depth):
                prev = self.new_class(idx, [prev.name] if prev else [], False)
                made.append(prev)
            self.count("chain_depth", depth)
        elif shape in ("diamond", "stacked_diamonds"):
            k = 1 if shape == "diamond" else self.rint(self.p.stacked)
            top = self.new_class(idx, [], False)
            made.append(top)
            for _ in range(k):
                left = self.new_class(idx, [top.name], False)
                right = self.new_class(idx, [top.name], False)
                bottom = self.new_class(idx, [left.name, right.name], False)
                made.extend([left, right, bottom])
                top = bottom
        elif shape == "fan_out":
            root = self.new_class(idx, [], True)
            made.append(root)
            for _ in range(self.rint(self.p.fan_out)):
                made.append(self.new_class(idx, [root.name], False))
        # abstract / concrete mix
        names_with_kids = {b for c in made for b in c.bases}
        for c in made:
            if c.name in names_with_kids:
                c.is_abstract = c.is_abstract or self.chance(self.p.p_abstract_inner)
            else:
                c.is_abstract = self.chance(self.p.p_abstract_leaf) and len(made) > 1
            self.count("class:abstract" if c.is_abstract else "class:concrete")
        if self.chance(self.p.p_impl_specific_class):
            cands = [c for c in made if not c.is_abstract and c.name not in names_with_kids]
            if cands:
                self.rng.choice(cands).is_implementation_specific = True
                self.count("class:implementation_specific")
        # explicit serialization settings at random places (only ever True)
        for c in made:
            if not c.bases and self.chance(0.3):
                c.with_model_type = True
                self.count("with_model_type:root")
            elif c.name not in names_with_kids and c.bases and self.chance(0.1):
                c.with_model_type = True
                self.count("with_model_type:leaf")

    def instantiable(self, cls: Class) -> bool:
        return (not cls.is_abstract) or bool(concrete_descendants(self.mm, cls))

    def random_base_type(self, owner: Class, required_scalar: bool, class_only: bool = False) -> Optional[Type]:
        """A non-optional, non-list type for a property of ``owner`` (None if
        ``class_only`` and there is no class to refer to)."""
        rng = self.rng
        mm = self.mm
        kinds = ["prim"] * 5
        if mm.enumerations:
            kinds += ["enum"] * 2
        if mm.constrained_primitives and (
            owner.name not in self.above_join() or self.chance(self.p.p_diamond_constraints)
        ):
            kinds += ["cprim"] * 2
        my_cluster = self.cluster_of[owner.name]
        if required_scalar:
            cands = [c for c in mm.classes if self.cluster_of[c.name] < my_cluster and self.instantiable(c)]
        else:
            cands = [c for c in mm.classes if self.instantiable(c)]
        cands = [c for c in cands if not c.is_implementation_specific or True]
        if cands:
            kinds += ["class"] * 3
        if class_only:
            if not cands:
                return None
            kinds = ["class"]
        kind = rng.choice(kinds)
        if kind == "prim":
            name = rng.choices(PRIMITIVES, weights=[2, 3, 1.5, 5, 1], k=1)[0]
            self.count(f"prop_type:{name}")
            return TPrim(name)
        if kind == "enum":
            self.count("prop_type:enum")
            return TOur(rng.choice(mm.enumerations).name)
        if kind == "cprim":
            self.count("prop_type:cprim")
            return TOur(rng.choice(mm.constrained_primitives).name)
        target = rng.choice(cands)
        self.count("prop_type:abstract_class" if target.is_abstract else "prop_type:class")
        if target.name == owner.name:
            self.count("prop_type:self_reference")
        return TOur(target.name)

    def near_collision(self, name: str, cluster: int) -> Optional[str]:
        """A different identifier with the same normal form as ``name``."""
        options = []
        if "_" in name:
            head, tail = name.rsplit("_", 1)
            options.append(f"{head}_{tail[:1].upper()}{tail[1:]}")
            options.append(f"{head}__{tail}")
            options.append(f"{head}{tail[:1].upper()}{tail[1:]}")
        options.append(name + "_")
        self.rng.shuffle(options)
        used = self.exact_member_names.setdefault(cluster, set())
        for o in options:
            if o != name and o not in used and not is_reserved_member_name(o):
                used.add(o)
                self.count("name:near_collision")
                return o
        return None

    def gen_properties(self, cls: Class, at_least: int = 0) -> None:
        cluster = self.cluster_of[cls.name]
        taken = self.member_names.setdefault(cluster, set())
        for _ in range(max(at_least, self.rint(self.p.props_per_class))):
            optional = self.chance(self.p.p_optional)
            is_list = self.chance(self.p.p_list)
            base = self.random_base_type(
                cls, required_scalar=not optional and not is_list,
                class_only=is_list and not self.chance(self.p.p_list_non_class))
            if base is None:
                is_list = False
                base = self.random_base_type(cls, required_scalar=not optional)
            assert base is not None
            t: Type = base
            if is_list:
                t = TList(t)
                self.count("prop:list")
                if self.chance(self.p.p_nested_list):
                    t = TList(t)
                    self.count("prop:nested_list")
            if optional:
                t = TOpt(t)
                self.count("prop:optional")
            else:
                self.count("prop:required")
            self.exact_member_names.setdefault(cluster, set()).update(p.name for p in cls.properties)
            name = None
            if cls.properties and self.chance(self.p.p_near_collision):
                name = self.near_collision(cls.properties[-1].name, cluster)
            if name is None:
                name = self.names.member(taken)
            cls.properties.append(Property(name, t))
        is_leaf = not any(cls.name in c.bases for c in self.mm.classes)
        if is_leaf and self.chance(self.p.p_method):
            opts = [p for p in cls.properties if isinstance(p.type, TOpt) and isinstance(p.type.value, (TPrim, TOur))
                    and not (isinstance(p.type.value, TOur) and self.mm.find_class(p.type.value.name))]
            if opts:
                p = self.rng.choice(opts)
                mname = f"{p.name}_or_default"
                if self.names.norm(mname) not in taken and not is_reserved_member_name(mname):
                    taken.add(self.names.norm(mname))
                    cls.methods.append(Method(mname, p.type.value))
                    self.count("method:implementation_specific")

    # -- more verification functions ----------------------------------------------------
    def gen_other_fns(self) -> None:
        rng = self.rng
        for _ in range(self.rint(self.p.transpilable_fns)):
            roll = rng.random()
            fn: Optional[VerificationFunction] = None
            if roll < 0.35:
                name = self.names.top_level(False, prefix="is", parts=(1, 2))
                op = rng.choice(CMP_OPS)
                fn = VerificationFunction(name, "transpilable", [("value", TPrim("int"))],
                                          body=Cmp(op, Name("value"), Const(rng.randint(-3, 50))))
            elif roll < 0.6:
                name = self.names.top_level(False, prefix="is", parts=(1, 2))
                fn = VerificationFunction(name, "transpilable", [("text", TPrim("str"))],
                                          body=Cmp(rng.choice(["<=", "<", ">=", ">"]), Call("len", (Name("text"),)),
                                                   Const(rng.randint(1, 30))))
            else:
                cands = [c for c in self.mm.classes if stacked_properties(self.mm, c)]
                if cands:
                    c = rng.choice(cands)
                    prop, _ = rng.choice(stacked_properties(self.mm, c))
                    that = Member(Name("that"), prop.name)
                    body: Optional[Expr] = None
                    if isinstance(prop.type, TOpt):
                        body = rng.choice([IsNotNone(that), IsNone(that)])
                    elif prop.type == TPrim("int"):
                        body = Cmp(rng.choice(CMP_OPS), that, Const(rng.randint(0, 9)))
                    elif prop.type == TPrim("bool"):
                        body = rng.choice([that, Not(that)])
                    elif prop.type == TPrim("str") or isinstance(prop.type, TList):
                        body = Cmp(">=", Call("len", (that,)), Const(rng.randint(0, 3)))
                    if body is not None:
                        name = self.names.top_level(False, prefix="has", parts=(1, 2))
                        fn = VerificationFunction(name, "transpilable", [("that", TOur(c.name))], body=body)
            if fn is not None:
                self.mm.verification_functions.append(fn)
                self.count("fn:transpilable")
        for _ in range(self.rint(self.p.impl_fns)):
            name = self.names.top_level(False, prefix="check", parts=(1, 2))
            arg_t: Type = rng.choice([TPrim("str"), TPrim("int"), TPrim("str")])
            arg_n = "text" if arg_t == TPrim("str") else "value"
            self.mm.verification_functions.append(
                VerificationFunction(name, "implementation_specific", [(arg_n, arg_t)]))
            self.count("fn:implementation_specific")

    # -- serialization fix-up ------------------------------------------------------------
    def fix_with_model_type(self) -> None:
        mm = self.mm
        used: Set[str] = set()
        for c in mm.classes:
            for p in c.properties:
                used.update(our_types_in(p.type))
        for c in mm.classes:
            if not concrete_descendants(mm, c) or effective_with_model_type(mm, c):
                continue
            if c.name in used:
                # demanded by the front end
                c.with_model_type = True
                self.count("with_model_type:required")
            elif not self.chance(self.p.p_missing_model_type):
                # demanded only by some generators (jsonschema asserts on it)
                c.with_model_type = True
                self.count("with_model_type:for_generators")
            else:
                self.count("with_model_type:missing")

    # -- invariants ------------------------------------------------------------------
    def prim_of(self, t: Type) -> Optional[str]:
        """The primitive a (non-optional) type boils down to, if any."""
        if isinstance(t, TPrim):
            return t.name
        if isinstance(t, TOur):
            return cprim_constrainee(self.mm, t.name)
        return None

    def guard(self, needs: Sequence[Expr], body: Expr, meta: Dict[str, Any]) -> Expr:
        """Wrap ``body`` so that all of ``needs`` (optional values) are non-None."""
        if not needs:
            meta["guard"] = None
            return body
        style = self.rng.choices(GUARD_STYLES, weights=[5, 4, 1], k=1)[0]
        meta["guard"] = style
        self.count(f"guard:{style}")
        if style == "implication":
            ante: Expr = IsNotNone(needs[0]) if len(needs) == 1 else And(tuple(IsNotNone(n) for n in needs))
            return Implies(ante, body)
        if style == "or_none":
            return Or(tuple([*(IsNone(n) for n in needs), body]))
        return And(tuple([*(IsNotNone(n) for n in needs), body]))

    def props_where(self, cls: Class, pred: Callable[[Type], bool]) -> List[Tuple[Property, Class]]:
        return [(p, d) for p, d in stacked_properties(self.mm, cls) if pred(beneath_optional(p.type))]

    def atom(self, cls: Class, used: Set[str]) -> Optional[Tuple[Expr, List[Expr]]]:
        """A boolean atom over one property not in ``used`` (which is extended):
        (expression, optional values it needs to be non-None)."""
        rng = self.rng
        props = [pd for pd in stacked_properties(self.mm, cls) if pd[0].name not in used]
        rng.shuffle(props)
        for prop, _ in props:
            result = self._atom_for(prop)
            if result is not None:
                used.add(prop.name)
                return result
        return None

    def _atom_for(self, prop: Property) -> Optional[Tuple[Expr, List[Expr]]]:
        rng = self.rng
        me = Member(Name("self"), prop.name)
        inner = beneath_optional(prop.type)
        needs = [me] if isinstance(prop.type, TOpt) else []
        if isinstance(prop.type, TOpt) and self.chance(0.3):
            return (rng.choice([IsNone(me), IsNotNone(me)]), [])
        prim = self.prim_of(inner)
        if inner == TPrim("bool"):
            return (rng.choice([me, Not(me)]), needs)
        if prim == "int":
            return (Cmp(rng.choice(CMP_OPS), me, Const(rng.randint(-3, 100))), needs)
        if prim == "float":
            return (Cmp(rng.choice(["<", "<=", ">", ">="]), me, Const(rng.randint(-20, 20) / 4)), needs)
        if prim == "str":
            return (Cmp(rng.choice(["==", "!="]), me, Const(rng.choice(["", "abc", "N/A", "x y"]))), needs)
        if isinstance(inner, TOur):
            en = self.mm.find_enum(inner.name)
            if en is not None and en.literals:
                lit = rng.choice(en.literals)
                return (Cmp(rng.choice(["==", "!="]), me, Member(Name(en.name), lit.name)), needs)
        return None

    def above_join(self) -> Set[str]:
        """Names of classes T such that some class has two parents that both are T or
        descend from T (properties of T reach that class along two paths)."""
        if self._above_join is None:
            mm = self.mm
            out: Set[str] = set()
            for c in mm.classes:
                if len(c.bases) < 2:
                    continue
                seen: Dict[str, int] = {}
                for b in c.bases:
                    p = mm.find_class(b)
                    if p is None:
                        continue
                    for a in [*ancestors(mm, p), p]:
                        seen[a.name] = seen.get(a.name, 0) + 1
                out.update(n for n, k in seen.items() if k >= 2)
            self._above_join = out
        return self._above_join

    def constrainable(self, cls: Class, cands: List[Tuple[Property, Class]]) -> List[Tuple[Property, Class]]:
        """Drop properties defined above a diamond join (the JSON-schema generator
        asserts when both parents carry the same inherited constraint)."""
        if self.chance(self.p.p_diamond_constraints):
            return cands
        aj = self.above_join()
        return [(p, d) for p, d in cands if d.name not in aj]

    def pattern_key(self, prop: Property, owner: Class) -> List[Tuple[str, str]]:
        keys = [(owner.name, prop.name)]
        inner = beneath_optional(prop.type)
        if isinstance(inner, TOur) and self.mm.find_cprim(inner.name) is not None:
            keys.append((self.cprim_root(inner.name), "<self>"))
        return keys

    def make_invariant(self, cls: Class, form: str) -> Optional[Invariant]:
        rng = self.rng
        mm = self.mm
        meta: Dict[str, Any] = {}
        me_of = lambda p: Member(Name("self"), p.name)  # noqa: E731
        if form == "len_bound":
            with_bytes = self.chance(self.p.p_len_on_bytes)
            cands = self.props_where(
                cls, lambda t: isinstance(t, TList) or self.prim_of(t) == "str" or (with_bytes and self.prim_of(t) == "bytearray"))
            cands = self.constrainable(cls, cands)
            if not cands:
                return None
            prop, owner = rng.choice(cands)
            inner_t = beneath_optional(prop.type)
            inherit = None
            if isinstance(inner_t, TOur) and self.mm.find_cprim(inner_t.name) is not None:
                inherit = self.len_windows.get((self.cprim_root(inner_t.name), "<self>"))
            b = self.len_bound((owner.name, prop.name), f"{prop.name}", inherit)
            if b is None:
                return None
            op, n, swapped, wording = b
            me = me_of(prop)
            meta.update({"prop": prop.name, "op": op, "n": n, "swapped": swapped})
            body = self.guard([me] if isinstance(prop.type, TOpt) else [], self.len_cmp(me, op, n, swapped), meta)
            return Invariant(self.next_description(wording), body, form, meta)
        if form == "pattern":
            fns = self.pattern_fn_names()
            cands = self.props_where(cls, lambda t: self.prim_of(t) == "str")
            cands = self.constrainable(cls, cands)
            if not self.chance(self.p.p_multi_pattern):
                cands = [(p, d) for p, d in cands if not any(k in self.patterned for k in self.pattern_key(p, d))]
            if not fns or not cands:
                return None
            prop, owner = rng.choice(cands)
            self.patterned.add((owner.name, prop.name))
            fn = rng.choice(fns)
            me = me_of(prop)
            meta.update({"prop": prop.name, "fn": fn})
            body = self.guard([me] if isinstance(prop.type, TOpt) else [], Call(fn, (me,)), meta)
            return Invariant(self.next_description(f"{prop.name} shall match {fn}"), body, form, meta)
        if form == "in_set":
            sets = [c for c in mm.constants if isinstance(c, ConstantSet)]
            pairs = []
            for prop, _ in self.constrainable(cls, stacked_properties(mm, cls)):
                inner = beneath_optional(prop.type)
                for s in sets:
                    if (isinstance(inner, TPrim) and inner.name == s.items_type) or (
                        isinstance(inner, TOur) and inner.name == s.items_type
                    ):
                        pairs.append((prop, s))
            if not pairs:
                return None
            prop, s = rng.choice(pairs)
            me = me_of(prop)
            meta.update({"prop": prop.name, "set": s.name})
            body = self.guard([me] if isinstance(prop.type, TOpt) else [], IsIn(me, Name(s.name)), meta)
            return Invariant(self.next_description(f"{prop.name} shall be one of {s.name}"), body, form, meta)
        if form == "none_implication":
            opts = [p for p, _ in stacked_properties(mm, cls) if isinstance(p.type, TOpt)]
            if len(opts) < 2:
                return None
            a, b = rng.sample(opts, 2)
            ea, eb = me_of(a), me_of(b)
            variant = rng.randrange(5)
            meta.update({"a": a.name, "b": b.name, "variant": variant})
            if variant == 0:
                body = Implies(IsNotNone(ea), IsNotNone(eb))
                text = f"if {a.name} is set then {b.name} shall be set"
            elif variant == 1:
                body = Implies(IsNone(ea), IsNone(eb))
                text = f"if {a.name} is not set then {b.name} shall not be set"
            elif variant == 2:
                body = Or((IsNotNone(ea), IsNotNone(eb)))
                text = f"either {a.name} or {b.name} shall be set"
            elif variant == 3:
                body = Or((And((IsNone(ea), IsNotNone(eb))), And((IsNotNone(ea), IsNone(eb)))))
                text = f"exactly one of {a.name} and {b.name} shall be set"
            else:
                body = Not(And((IsNotNone(ea), IsNotNone(eb))))
                text = f"{a.name} and {b.name} shall not both be set"
            return Invariant(self.next_description(text), body, form, meta)
        if form == "bool_nest":
            atoms: List[Tuple[Expr, List[Expr]]] = []
            used_props: Set[str] = set()
            for _ in range(rng.randint(2, 3)):
                a = self.atom(cls, used_props)
                if a is not None:
                    atoms.append(a)
            if len(atoms) < 2:
                return None
            needs: List[Expr] = []
            for _, ns in atoms:
                for n in ns:
                    if n not in needs:
                        needs.append(n)
            exprs = [a for a, _ in atoms]
            shape = rng.randrange(5)
            if shape == 0:
                core: Expr = And(tuple(exprs))
            elif shape == 1:
                core = mk_or(*exprs)
            elif shape == 2:
                core = Not(And(tuple(exprs)))
            elif shape == 3 and len(exprs) == 3:
                core = mk_or(And((exprs[0], exprs[1])), Not(exprs[2]))
            else:
                core = Implies(exprs[0], exprs[1] if len(exprs) == 2 else mk_or(exprs[1], exprs[2]))
            meta.update({"shape": shape, "atoms": len(exprs)})
            body = self.guard(needs, core, meta)
            return Invariant(self.next_description("the combination of values shall be consistent"), body, form, meta)
        if form in ("all_any", "range_loop"):
            cands = self.props_where(cls, lambda t: isinstance(t, TList) and not isinstance(t.items, TList))
            if not cands:
                return None
            rng.shuffle(cands)
            for prop, _ in cands:
                lst = beneath_optional(prop.type)
                assert isinstance(lst, TList)
                me = me_of(prop)
                quant = All if (form == "range_loop" or self.chance(0.75)) else AnyOf
                if form == "all_any":
                    item: Expr = Name("item")
                    gen: Union[ForEach, ForRange] = ForEach("item", me)
                else:
                    item = Index(me, Name("i"))
                    gen = ForRange("i", Const(0), Call("len", (me,)))
                cond = self.item_condition(lst.items, item)
                if cond is None:
                    continue
                meta.update({"prop": prop.name, "quantifier": "all" if quant is All else "any"})
                core = quant(gen, cond)
                body = self.guard([me] if isinstance(prop.type, TOpt) else [], core, meta)
                return Invariant(self.next_description(f"the items of {prop.name} shall be valid"), body, form, meta)
            return None
        if form == "prop_compare":
            props = stacked_properties(mm, cls)
            groups: Dict[str, List[Property]] = {}
            for p, _ in props:
                inner = beneath_optional(p.type)
                if isinstance(inner, TPrim) and inner.name in ("int", "float", "str", "bool"):
                    groups.setdefault(inner.name, []).append(p)
                elif isinstance(inner, TOur) and mm.find_enum(inner.name):
                    groups.setdefault("enum:" + inner.name, []).append(p)
            groups = {k: v for k, v in groups.items() if len(v) >= 2}
            if not groups:
                return None
            key = rng.choice(sorted(groups))
            a, b = rng.sample(groups[key], 2)
            ops = CMP_OPS if key in ("int", "float") else ("==", "!=")
            op = rng.choice(ops)
            needs = [me_of(p) for p in (a, b) if isinstance(p.type, TOpt)]
            meta.update({"a": a.name, "b": b.name, "op": op})
            body = self.guard(needs, Cmp(op, me_of(a), me_of(b)), meta)
            return Invariant(self.next_description(f"{a.name} shall be {op} {b.name}"), body, form, meta)
        if form == "fn_call":
            pairs2: List[Tuple[Property, VerificationFunction]] = []
            for fn in mm.verification_functions:
                if fn.kind == "pattern" or len(fn.args) != 1:
                    continue
                for prop, _ in stacked_properties(mm, cls):
                    inner = beneath_optional(prop.type)
                    want = fn.args[0][1]
                    if inner == want or (isinstance(want, TPrim) and self.prim_of(inner) == want.name and isinstance(inner, TPrim)):
                        pairs2.append((prop, fn))
                    elif isinstance(want, TOur) and isinstance(inner, TOur):
                        tc = mm.find_class(inner.name)
                        wc = mm.find_class(want.name)
                        if tc is not None and wc is not None and any(a is wc for a in ancestors(mm, tc)):
                            pairs2.append((prop, fn))
            if not pairs2:
                return None
            prop, fn = rng.choice(pairs2)
            me = me_of(prop)
            meta.update({"prop": prop.name, "fn": fn.name, "fn_kind": fn.kind})
            body = self.guard([me] if isinstance(prop.type, TOpt) else [], Call(fn.name, (me,)), meta)
            self.count(f"fn_call:{fn.kind}")
            return Invariant(self.next_description(f"{prop.name} shall satisfy {fn.name}"), body, form, meta)
        raise ValueError(form)

    def item_condition(self, t: Type, item: Expr) -> Optional[Expr]:
        rng = self.rng
        prim = self.prim_of(t)
        if prim == "bytearray" and not self.chance(self.p.p_len_on_bytes):
            return None
        if prim in ("str", "bytearray"):
            fns = self.pattern_fn_names()
            if prim == "str" and fns and self.chance(0.4):
                return Call(rng.choice(fns), (item,))
            return Cmp(rng.choice([">=", "<=", "!="]), Call("len", (item,)), Const(rng.randint(1, 9)))
        if prim == "int":
            return Cmp(rng.choice(CMP_OPS), item, Const(rng.randint(0, 20)))
        if prim == "float":
            return Cmp(rng.choice(["<", ">="]), item, Const(rng.randint(0, 8) / 2))
        if t == TPrim("bool"):
            return rng.choice([item, Not(item)])
        if isinstance(t, TOur):
            en = self.mm.find_enum(t.name)
            if en is not None and en.literals:
                return Cmp(rng.choice(["==", "!="]), item, Member(Name(en.name), rng.choice(en.literals).name))
            c = self.mm.find_class(t.name)
            if c is not None:
                props = stacked_properties(self.mm, c)
                rng.shuffle(props)
                for p, _ in props:
                    sub = Member(item, p.name)
                    if isinstance(p.type, TOpt):
                        return rng.choice([IsNotNone(sub), IsNone(sub)])
                    pp = self.prim_of(p.type)
                    if pp == "int":
                        return Cmp(rng.choice(CMP_OPS), sub, Const(rng.randint(0, 20)))
                    if pp == "str":
                        return Cmp(">=", Call("len", (sub,)), Const(rng.randint(0, 3)))
                    if p.type == TPrim("bool"):
                        return sub
        return None

    def gen_invariants(self, cls: Class) -> None:
        if cls.is_implementation_specific:
            return
        for _ in range(self.rint(self.p.invariants_per_class)):
            for _attempt in range(4):
                form = _wchoice(self.rng, self.p.forms)
                inv = self.make_invariant(cls, form)
                if inv is not None:
                    cls.invariants.append(inv)
                    self.count(f"invariant:{form}")
                    break

    # -- everything -------------------------------------------------------------------
    def run(self) -> MetaModel:
        mm = self.mm
        self._cprim_root = {}
        mm.profile = self.p.name
        mm.quote_our_types = self.chance(self.p.p_quote)
        mm.version = self.rng.choice(["V0.1", "V3.0", "dummy", "1.2.3"])
        mm.xml_namespace = self.rng.choice(
            ["https://example.com/mm", "https://dummy.com", "https://admin-shell.io/aas/9/9", "urn:example:mm"])
        self.gen_enums()
        self.gen_pattern_fns()
        self.gen_cprims()
        self.gen_constants()
        n_clusters = self.rint(self.p.clusters)
        for idx in range(n_clusters):
            self.gen_cluster(idx)
        for cls in mm.classes:
            self.gen_properties(cls)
        for cls in mm.classes:
            if not cls.is_abstract and not stacked_properties(mm, cls):
                if self.chance(self.p.p_empty_concrete_class):
                    self.count("class:concrete_without_properties")
                else:
                    self.gen_properties(cls, at_least=1)
        self.gen_other_fns()
        self.fix_with_model_type()
        for cls in mm.classes:
            self.gen_invariants(cls)
        self.gen_docs()
        self.gen_decl_order()
        self.count("classes", len(mm.classes))
        mm.features = dict(sorted(self.feat.items()))
        return mm

    def gen_docs(self) -> None:
        mm = self.mm
        pd = self.p.p_doc
        mm.doc = self.make_doc("Provide a meta-model of", allow_constraints=True)
        for en in mm.enumerations:
            if self.chance(pd):
                en.doc = self.make_doc("Enumerate the", allow_constraints=True)
            for lit in en.literals:
                if self.chance(pd * 0.5):
                    lit.doc = self.make_doc("Denote the")
        for cp in mm.constrained_primitives:
            if self.chance(pd):
                cp.doc = self.make_doc("Constrain the", allow_constraints=True)
        for cls in mm.classes:
            if self.chance(self.p.p_class_doc):
                cls.doc = self.make_doc("Represent the", owner=cls, allow_constraints=True)
            for p in cls.properties:
                if self.chance(pd * 0.7):
                    p.doc = self.make_doc("Hold the", owner=cls, allow_constraints=True)
            for m in cls.methods:
                if self.chance(pd):
                    m.doc = self.make_doc("Return the", rich=False)
        for c in mm.constants:
            if self.chance(pd):
                c.doc = self.make_doc("Define the", rich=False)
        for fn in mm.verification_functions:
            if self.chance(pd):
                fn.doc = self.make_doc("Check the", params=[a for a, _ in fn.args], returns=True)

    def gen_decl_order(self) -> None:
        mm = self.mm
        names = mm.our_type_names()
        if self.chance(self.p.p_shuffle_decl):
            self.rng.shuffle(names)
            self.count("decl_order:shuffled")
        else:
            # a random linear extension of the base relation, enumerations and
            # constrained primitives interleaved
            remaining = list(names)
            self.rng.shuffle(remaining)
            done: List[str] = []
            placed: Set[str] = set()

            def bases_of(n: str) -> List[str]:
                c = mm.find_class(n)
                if c is not None:
                    return c.bases
                cp = mm.find_cprim(n)
                return cp.bases if cp is not None else []

            while remaining:
                for n in remaining:
                    if all(b in placed for b in bases_of(n)):
                        done.append(n)
                        placed.add(n)
                        remaining.remove(n)
                        break
                else:  # cannot happen for generated (acyclic) models
                    done.extend(remaining)
                    break
            names = done
            self.count("decl_order:linear_extension")
        mm.decl_order = names


def random_metamodel(rng: random.Random, profile: Union[str, Profile] = "small") -> MetaModel:
    """A random abstract meta-model; deterministic in ``rng`` and ``profile``.

    The result is built to be accepted by the real front end and by all generators
    (given ``synth_snippets``); see docs/mmgen.md for measured rates."""
    prof = PROFILES[profile] if isinstance(profile, str) else profile
    return _Generator(rng, prof).run()


# =====================================================================================
# Snippets
# =====================================================================================
def _impl_specific(mm: MetaModel) -> Tuple[List[Class], List[Tuple[Class, Method]], List[VerificationFunction]]:
    classes = [c for c in mm.classes if c.is_implementation_specific]
    methods = [(c, m) for c in mm.classes for m in c.methods]
    fns = [f for f in mm.verification_functions if f.kind == "implementation_specific"]
    return classes, methods, fns


_DUMMY = {
    "cpp": "// dummy implementation",
    "csharp": "// dummy implementation",
    "golang": "// dummy implementation",
    "java": "// dummy implementation",
    "python": "pass  # dummy implementation",
    "typescript": "// dummy implementation",
}


def synth_snippets(mm: MetaModel, target: str) -> Dict[str, str]:
    """The snippet directory (relative path -> content) with which the generator for
    ``target`` succeeds on ``mm``: the mandatory top-level snippets plus dummy bodies for
    every implementation-specific class, method and verification function.

    The keys were collected from ``aas_core_codegen/<target>/main.py`` and ``lib``.
    ``target == "smoke"`` needs no snippets."""
    classes, methods, fns = _impl_specific(mm)
    out: Dict[str, str] = {}
    if target == "smoke":
        return out
    if target == "cpp":
        out["namespace.txt"] = "dummy::mmgen"
        d = _DUMMY[target]
        for c, m in methods:
            out[f"types/{c.name}/{m.name}.body.cpp"] = d
        for f in fns:
            out[f"verification/{f.name}.hpp"] = d
            out[f"verification/{f.name}.cpp"] = d
        for c in classes:
            out[f"types/{c.name}.hpp"] = d
            out[f"types/{c.name}.cpp"] = d
            out[f"jsonization/deserialize_{c.name}.cpp"] = d
            out[f"jsonization/serialize_{c.name}.cpp"] = d
            out[f"xmlization/{c.name}_from_sequence.cpp"] = d
            out[f"xmlization/serialize_{c.name}_as_sequence.cpp"] = d
    elif target in ("csharp", "java"):
        ext = "cs" if target == "csharp" else "java"
        d = _DUMMY[target]
        if target == "csharp":
            out["namespace.txt"] = "Dummy.Mmgen"
        else:
            out["package.txt"] = "dummy.mmgen"
        for c, m in methods:
            out[f"Types/{c.name}/{m.name}.{ext}"] = d
        for f in fns:
            out[f"Verification/{f.name}.{ext}"] = d
        for c in classes:
            out[f"Types/{c.name}/{c.name}.{ext}"] = d
            out[f"Types/{c.name}.{ext}"] = d
            out[f"Jsonization/DeserializeImplementation/{c.name}_from.{ext}"] = d
            out[f"Jsonization/Transformer/transform_{c.name}.{ext}"] = d
            out[f"Xmlization/DeserializeImplementation/{c.name}_from_element.{ext}"] = d
            out[f"Xmlization/DeserializeImplementation/{c.name}_from_sequence.{ext}"] = d
            out[f"Xmlization/VisitorWithWriter/visit_{c.name}.{ext}"] = d
            out[f"Xmlization/VisitorWithWriter/{c.name}_to_sequence.{ext}"] = d
            out[f"Verification/transform_{c.name}.{ext}"] = d
            out[f"Enhancing/Wrap/{c.name}.{ext}"] = d
            out[f"Enhancing/Enhanced/{c.name}.{ext}"] = d
            out[f"Copying/ShallowCopier/transform_{c.name}.{ext}"] = d
            out[f"Copying/DeepCopier/transform_{c.name}.{ext}"] = d
    elif target == "golang":
        d = _DUMMY[target]
        out["repo_url.txt"] = "github.com/dummy-works/mmgen"
        for c, m in methods:
            out[f"Types/{c.name}/{m.name}.go"] = d
        for f in fns:
            out[f"Verification/{f.name}.go"] = d
        for c in classes:
            out[f"Types/{c.name}/{c.name}.go"] = d
            out[f"Types/{c.name}.go"] = d
            out[f"Jsonization/{c.name}_from_map.go"] = d
            out[f"Jsonization/{c.name}_to_map.go"] = d
            out[f"Xmlization/read_{c.name}_as_sequence.go"] = d
            out[f"Xmlization/write_{c.name}_as_sequence.go"] = d
            out[f"Enhancing/{c.name}.go"] = d
    elif target in ("python", "typescript"):
        ext = "py" if target == "python" else "ts"
        d = _DUMMY[target]
        if target == "python":
            out["qualified_module_name.txt"] = "dummy_mmgen"
        else:
            out["package_identifier.txt"] = "@dummy-works/mmgen"
            out["package_documentation.txt"] = "Provide a dummy SDK."
        for c, m in methods:
            out[f"Types/{c.name}/{m.name}.{ext}"] = d
        for f in fns:
            out[f"Verification/{f.name}.{ext}"] = d
        for c in classes:
            out[f"Types/{c.name}/{c.name}.{ext}"] = d
            # typescript/lib/_generate_types.py asks for a ``.py`` key (sic)
            out[f"Types/{c.name}/{c.name}.py"] = d
            out[f"Types/{c.name}.{ext}"] = d
            out[f"Jsonization/{c.name}_from_jsonable.{ext}"] = d
            out[f"Xmlization/read_{c.name}.{ext}"] = d
            out[f"Verification/transform_{c.name}.{ext}"] = d
    elif target == "jsonschema":
        out["schema_base.json"] = json.dumps(
            {
                "$schema": "https://json-schema.org/draft/2019-09/schema",
                "title": "DummyForMmgen",
                "type": "object",
            },
            indent=2,
        )
        for c in classes:
            out[f"{c.name}.json"] = json.dumps({c.name: {"type": "object"}}, indent=2)
    elif target == "xsd":
        ns = mm.xml_namespace
        out["root_element.xml"] = (
            "<xs:schema\n"
            '        xmlns:xs="http://www.w3.org/2001/XMLSchema"\n'
            f'        xmlns="{ns}"\n'
            '        elementFormDefault="qualified"\n'
            f'        targetNamespace="{ns}"\n'
            ">\n"
            '    <xs:element name="dummyRoot" type="xs:string" />\n'
            "</xs:schema>\n"
        )
        for c in classes:
            out[f"{c.name}.xml"] = (
                '<dummy xmlns:xs="http://www.w3.org/2001/XMLSchema">\n'
                f'    <xs:complexType name="dummy_{c.name}_t" />\n'
                "</dummy>\n"
            )
    else:
        raise ValueError(f"unknown target {target!r}")
    return out


# =====================================================================================
# Mutation operators for the structural rules (property C06)
# =====================================================================================
@dataclass
class Mutant:
    """A model that breaks exactly one structural rule of the front end.

    ``rule`` is the operator / rule name (a key of ``MUTATIONS``), ``mm`` the mutated
    abstract model, ``text`` its source text, ``note`` says what was changed where.
    The expected verdict of the front end is always *rejected*."""

    rule: str
    mm: MetaModel
    text: str
    note: str


def _finish(rule: str, mm: MetaModel, note: str) -> Mutant:
    return Mutant(rule=rule, mm=mm, text=render_source(mm), note=note)


def _leaf_classes_with_ctor(mm: MetaModel) -> List[Class]:
    with_kids = {b for c in mm.classes for b in c.bases}
    return [c for c in mm.classes if c.name not in with_kids and derive_ctor(mm, c) is not None
            and not c.is_implementation_specific]


def _fresh_word(mm: MetaModel, rng: random.Random, prefix: str) -> str:
    words = _safe_words()
    taken = {n.lower() for n in mm.our_type_names()}
    for c in mm.classes:
        taken.update(p.name.lower() for p, _ in stacked_properties(mm, c))
    for _ in range(1000):
        name = f"{prefix}_{rng.choice(words)}_{rng.choice(words)}"
        if name.lower() not in taken:
            return name
    raise RuntimeError("name space exhausted")


def _freeze_ctors(mm: MetaModel, cls: Class) -> None:
    """Pin the derived constructors of ``cls`` and its descendants (so that a later
    change of the properties does not leak into the constructors)."""
    for c in [cls, *descendants(mm, cls)]:
        if c.ctor_override is None:
            c.ctor_override = derive_ctor(mm, c)


def mutate_cyclic_base(mm0: MetaModel, rng: random.Random) -> Optional[Mutant]:
    mm = copy.deepcopy(mm0)
    pairs = [(c, d) for c in mm.classes for d in descendants(mm, c)]
    if pairs:
        top, bottom = rng.choice(pairs)
        top.bases.append(bottom.name)
        return _finish("cyclic_base", mm, f"{top.name} now also inherits from its descendant {bottom.name}")
    if not mm.classes:
        return None
    c = rng.choice(mm.classes)
    c.bases.append(c.name)
    return _finish("cyclic_base", mm, f"{c.name} inherits from itself")


def mutate_unknown_base(mm0: MetaModel, rng: random.Random) -> Optional[Mutant]:
    mm = copy.deepcopy(mm0)
    if not mm.classes:
        return None
    c = rng.choice(mm.classes)
    ghost = _fresh_word(mm, rng, "Ghost")
    c.bases.append(ghost)
    return _finish("unknown_base", mm, f"{c.name} inherits from the undefined {ghost}")


def mutate_duplicate_type_name(mm0: MetaModel, rng: random.Random) -> Optional[Mutant]:
    mm = copy.deepcopy(mm0)
    names = mm.our_type_names()
    if not names:
        return None
    name = rng.choice(names)
    mm.classes.append(Class(name=name, doc=Doc("Represent a duplicate.")))
    return _finish("duplicate_type_name", mm, f"a second type named {name}")


_RESERVED_TYPE_SAMPLES = ("Visitor", "Error", "Context", "Transformer", "Iterator", "String", "Object",
                          "Jsonization", "Verification", "Constants", "I_{w}", "Must_{w}")
_RESERVED_MEMBER_SAMPLES = ("descend", "descend_once", "accept", "transform", "type_name", "property_name",
                            "model_type", "object", "string", "mutable_{w}", "namespace", "default")


def mutate_reserved_name(mm0: MetaModel, rng: random.Random) -> Optional[Mutant]:
    mm = copy.deepcopy(mm0)
    w = rng.choice(_safe_words())
    classes = [c for c in mm.classes if not c.is_implementation_specific]
    if classes and rng.random() < 0.5:
        c = rng.choice(classes)
        name = rng.choice(_RESERVED_MEMBER_SAMPLES).format(w=w)
        if any(p.name == name for p, _ in stacked_properties(mm, c)):
            return None
        c.properties.append(Property(name, TOpt(TPrim("str"))))
        return _finish("reserved_name", mm, f"property {c.name}.{name} has a reserved name")
    name = rng.choice(_RESERVED_TYPE_SAMPLES).format(w=w)
    if name in mm.our_type_names():
        return None
    mm.classes.append(Class(name=name, doc=Doc("Represent something reserved.")))
    return _finish("reserved_name", mm, f"type {name} has a reserved name")


def mutate_duplicate_member(mm0: MetaModel, rng: random.Random) -> Optional[Mutant]:
    mm = copy.deepcopy(mm0)
    cands = [c for c in mm.classes if c.properties]
    if not cands:
        return None
    c = rng.choice(cands)
    _freeze_ctors(mm, c)
    p = rng.choice(c.properties)
    c.properties.append(Property(p.name, p.type))
    return _finish("duplicate_member", mm, f"property {c.name}.{p.name} declared twice")


def mutate_redeclared_inherited_member(mm0: MetaModel, rng: random.Random) -> Optional[Mutant]:
    mm = copy.deepcopy(mm0)
    cands = []
    for c in mm.classes:
        inherited = [(p, d) for p, d in stacked_properties(mm, c) if d is not c]
        if inherited:
            cands.append((c, inherited))
    if not cands:
        return None
    c, inherited = rng.choice(cands)
    p, d = rng.choice(inherited)
    _freeze_ctors(mm, c)
    c.properties.append(Property(p.name, p.type))
    return _finish("redeclared_inherited_member", mm, f"{c.name} re-declares {p.name} inherited from {d.name}")


def _ctor_mutant(mm0: MetaModel, rng: random.Random, rule: str,
                 change: Callable[[MetaModel, Class, Ctor, random.Random], Optional[str]]) -> Optional[Mutant]:
    mm = copy.deepcopy(mm0)
    cands = _leaf_classes_with_ctor(mm)
    rng.shuffle(cands)
    for c in cands:
        ctor = derive_ctor(mm, c)
        assert ctor is not None
        note = change(mm, c, ctor, rng)
        if note is not None:
            c.ctor_override = ctor
            return _finish(rule, mm, f"constructor of {c.name}: {note}")
    return None


def mutate_ctor_arg_renamed(mm0: MetaModel, rng: random.Random) -> Optional[Mutant]:
    def change(mm: MetaModel, c: Class, ctor: Ctor, r: random.Random) -> Optional[str]:
        a = r.choice(ctor.args)
        old = a.name
        a.name = old + "_renamed"
        for i, stmt in enumerate(ctor.body):
            if stmt[0] == "assign" and stmt[2] == old:
                ctor.body[i] = ("assign", stmt[1], a.name)
            elif stmt[0] == "super":
                ctor.body[i] = ("super", stmt[1], list(stmt[2]))
        return f"argument {old} renamed to {a.name}"

    return _ctor_mutant(mm0, rng, "ctor_arg_renamed", change)


def _other_type(t: Type) -> Type:
    if isinstance(t, TOpt):
        return TOpt(_other_type(t.value))
    if isinstance(t, TList):
        return TList(_other_type(t.items))
    if isinstance(t, TPrim):
        return TPrim("int" if t.name != "int" else "str")
    return TPrim("str")


def mutate_ctor_arg_retyped(mm0: MetaModel, rng: random.Random) -> Optional[Mutant]:
    def change(mm: MetaModel, c: Class, ctor: Ctor, r: random.Random) -> Optional[str]:
        a = r.choice(ctor.args)
        old = a.type
        a.type = _other_type(old)
        return f"argument {a.name} typed {type_str(a.type)} instead of {type_str(old)}"

    return _ctor_mutant(mm0, rng, "ctor_arg_retyped", change)


def mutate_ctor_arg_reordered(mm0: MetaModel, rng: random.Random) -> Optional[Mutant]:
    def change(mm: MetaModel, c: Class, ctor: Ctor, r: random.Random) -> Optional[str]:
        req = [i for i, a in enumerate(ctor.args) if a.default is None]
        opt = [i for i, a in enumerate(ctor.args) if a.default is not None]
        groups = [g for g in (req, opt) if len(g) >= 2]
        if not groups:
            return None
        g = r.choice(groups)
        i, j = r.sample(g, 2)
        ctor.args[i], ctor.args[j] = ctor.args[j], ctor.args[i]
        return f"arguments {ctor.args[j].name} and {ctor.args[i].name} swapped"

    return _ctor_mutant(mm0, rng, "ctor_arg_reordered", change)


def mutate_ctor_arg_missing(mm0: MetaModel, rng: random.Random) -> Optional[Mutant]:
    def change(mm: MetaModel, c: Class, ctor: Ctor, r: random.Random) -> Optional[str]:
        own = {p.name for p in c.properties}
        idx = [i for i, a in enumerate(ctor.args) if a.name in own]
        if not idx:
            return None
        i = r.choice(idx)
        gone = ctor.args.pop(i)
        ctor.body[:] = [s for s in ctor.body if not (s[0] == "assign" and s[2] == gone.name)]
        return f"argument {gone.name} (and its assignment) removed"

    return _ctor_mutant(mm0, rng, "ctor_arg_missing", change)


def mutate_ctor_arg_extra(mm0: MetaModel, rng: random.Random) -> Optional[Mutant]:
    def change(mm: MetaModel, c: Class, ctor: Ctor, r: random.Random) -> Optional[str]:
        name = _fresh_word(mm, r, "extra")
        pos = sum(1 for a in ctor.args if a.default is None)
        ctor.args.insert(pos, CtorArg(name, TPrim("int"), None))
        return f"extra argument {name}"

    return _ctor_mutant(mm0, rng, "ctor_arg_extra", change)


def mutate_optional_arg_without_default(mm0: MetaModel, rng: random.Random) -> Optional[Mutant]:
    def change(mm: MetaModel, c: Class, ctor: Ctor, r: random.Random) -> Optional[str]:
        # only the first optional argument can lose its default and stay valid Python
        for a in ctor.args:
            if a.default is not None:
                a.default = None
                return f"optional argument {a.name} has no default"
        return None

    return _ctor_mutant(mm0, rng, "optional_arg_without_default", change)


def _retype_property(mm0: MetaModel, rng: random.Random, rule: str, wrap: Callable[[Type], Optional[Type]]) -> Optional[Mutant]:
    mm = copy.deepcopy(mm0)
    cands = [(c, p) for c in mm.classes for p in c.properties if wrap(p.type) is not None]
    if not cands:
        return None
    c, p = rng.choice(cands)
    old = p.type
    new = wrap(old)
    assert new is not None
    p.type = new
    return _finish(rule, mm, f"{c.name}.{p.name}: {type_str(old)} -> {type_str(new)}")


def mutate_nested_optional(mm0: MetaModel, rng: random.Random) -> Optional[Mutant]:
    return _retype_property(mm0, rng, "nested_optional", lambda t: TOpt(t if isinstance(t, TOpt) else TOpt(t)))


def mutate_list_of_optional(mm0: MetaModel, rng: random.Random) -> Optional[Mutant]:
    def wrap(t: Type) -> Optional[Type]:
        inner = beneath_optional(t)
        if isinstance(inner, TList):
            new: Type = TList(TOpt(inner.items))
        else:
            new = TList(TOpt(inner))
        return TOpt(new) if isinstance(t, TOpt) else new

    return _retype_property(mm0, rng, "list_of_optional", wrap)


def mutate_duplicate_invariant_description(mm0: MetaModel, rng: random.Random) -> Optional[Mutant]:
    mm = copy.deepcopy(mm0)
    holders: List[Any] = [c for c in mm.classes if c.invariants] + [c for c in mm.constrained_primitives if c.invariants]
    if not holders:
        return None
    h = rng.choice(holders)
    inv = rng.choice(h.invariants)
    h.invariants.append(Invariant(inv.description, inv.body, inv.form, dict(inv.meta), inv.source_override))
    return _finish("duplicate_invariant_description", mm, f"{h.name}: description {inv.description!r} used twice")


def mutate_dangling_doc_reference(mm0: MetaModel, rng: random.Random) -> Optional[Mutant]:
    mm = copy.deepcopy(mm0)
    if not mm.classes:
        return None
    c = rng.choice(mm.classes)
    if c.doc is None:
        c.doc = Doc("Represent something.")
    ghost = _fresh_word(mm, rng, "Ghost")
    variant = rng.randrange(3)
    if variant == 0:
        ref = f":class:`{ghost}`"
        c.doc.refs.append(("class", ghost))
    elif variant == 1:
        ref = f":attr:`{c.name}.{ghost.lower()}`"
        c.doc.refs.append(("attr", f"{c.name}.{ghost.lower()}"))
    else:
        ref = f":attr:`{ghost.lower()}`"
        c.doc.refs.append(("attr", ghost.lower()))
    c.doc.remarks.append(f"See {ref} for more.")
    return _finish("dangling_doc_reference", mm, f"{c.name}: docstring refers to {ref}")


def _pattern_site(mm: MetaModel, rng: random.Random) -> VerificationFunction:
    fns = [f for f in mm.verification_functions if f.kind == "pattern"]
    if fns:
        return rng.choice(fns)
    fn = VerificationFunction(name=_fresh_word(mm, rng, "matches"), kind="pattern",
                              args=[("text", TPrim("str"))], pattern="^x$", pattern_style=0)
    mm.verification_functions.append(fn)
    return fn


def mutate_empty_pattern(mm0: MetaModel, rng: random.Random) -> Optional[Mutant]:
    mm = copy.deepcopy(mm0)
    fn = _pattern_site(mm, rng)
    fn.pattern = ""
    fn.pattern_style = rng.choice([0, 1])
    return _finish("empty_pattern", mm, f"{fn.name}: empty pattern")


def mutate_pattern_without_anchor(mm0: MetaModel, rng: random.Random) -> Optional[Mutant]:
    mm = copy.deepcopy(mm0)
    fn = _pattern_site(mm, rng)
    assert fn.pattern is not None
    old = fn.pattern
    if rng.random() < 0.5 and old.startswith("^"):
        fn.pattern = old[1:]
        what = "^"
    elif old.endswith("$"):
        fn.pattern = old[:-1]
        what = "$"
    else:
        fn.pattern = old[1:]
        what = "^"
    if fn.pattern_style == 2:
        fn.pattern_style = 0
    return _finish("pattern_without_anchor", mm, f"{fn.name}: {old!r} without {what}")


MUTATIONS: Dict[str, Callable[[MetaModel, random.Random], Optional[Mutant]]] = {
    "cyclic_base": mutate_cyclic_base,
    "unknown_base": mutate_unknown_base,
    "duplicate_type_name": mutate_duplicate_type_name,
    "reserved_name": mutate_reserved_name,
    "duplicate_member": mutate_duplicate_member,
    "redeclared_inherited_member": mutate_redeclared_inherited_member,
    "ctor_arg_renamed": mutate_ctor_arg_renamed,
    "ctor_arg_retyped": mutate_ctor_arg_retyped,
    "ctor_arg_reordered": mutate_ctor_arg_reordered,
    "ctor_arg_missing": mutate_ctor_arg_missing,
    "ctor_arg_extra": mutate_ctor_arg_extra,
    "optional_arg_without_default": mutate_optional_arg_without_default,
    "nested_optional": mutate_nested_optional,
    "list_of_optional": mutate_list_of_optional,
    "duplicate_invariant_description": mutate_duplicate_invariant_description,
    "dangling_doc_reference": mutate_dangling_doc_reference,
    "empty_pattern": mutate_empty_pattern,
    "pattern_without_anchor": mutate_pattern_without_anchor,
}


def mutate(mm: MetaModel, rng: random.Random, rule: str) -> Optional[Mutant]:
    """Apply the operator ``rule`` (a key of ``MUTATIONS``); ``None`` if the model has
    no site for it. The input model is never modified."""
    return MUTATIONS[rule](mm, rng)
