(** C15 — Schema constraint inference equals the invariant conjunction.

    Theorems over the models [Model/InferExpr.v, LenInfer.v, PatternInfer.v, SetInfer.v,
    InferInline.v] of [aas_core_codegen/infer_for_schema] (with the C15 fixes applied,
    see docs/C15.md); the comparator tables and [LENGTHABLE_PRIMITIVES] are regenerated
    from the source on every run ([Gen/GenInfer.v]). This file contains only statements,
    [exact]s and [Print Assumptions]. *)
From Coq Require Import List NArith ZArith Bool.
From Acg Require Import Base.Str Base.Outcome Model.InferExpr Model.LenInfer Model.PatternInfer
     Model.SetInfer Model.InferInline Proofs.InferGen Proofs.InferLen Proofs.InferSet
     Proofs.InferCompose Gen.GenInfer.
Import ListNotations.
Open Scope Z_scope.

(** Generated side condition: the two if/elif chains of
    [_match_len_constraint_on_member_or_name] (operator -> constraint kind, constant +
    delta) are exactly the tables of the model, and [LENGTHABLE_PRIMITIVES] is {str,
    bytearray}. *)
Theorem C15_gen_tables_agree :
  table_agrees lc_of_left gen_len_left_table
  && table_agrees lc_of_right gen_len_right_table
  && lengthable_agrees gen_lengthable = true.
Proof. vm_compute. reflexivity. Qed.
Print Assumptions C15_gen_tables_agree.

(** The off-by-one table: all six comparators, both operand orders. [len(x) op c] (resp.
    [c op len(x)]) holds of a length [n] exactly when the extracted constraint allows
    [n]; [!=] extracts nothing. *)
Theorem C15_match_len_table_left : forall op c k,
  lc_of_left op c = Some k -> forall n, cmp_holds op n c <-> allows k n.
Proof. exact lc_of_left_sound. Qed.
Print Assumptions C15_match_len_table_left.

Theorem C15_match_len_table_right : forall op c k,
  lc_of_right op c = Some k -> forall n, cmp_holds op c n <-> allows k n.
Proof. exact lc_of_right_sound. Qed.
Print Assumptions C15_match_len_table_right.

(** [match_len_sound]: an invariant that [len_constraints_from_invariants] recognises
    for property [p] — a comparison of [len(self.p)] with an integer constant, bare or
    guarded by [self.p is None or ...] / [not (self.p is not None) or ...] on the same
    property — evaluates (Python short-circuit semantics, [evalb]) to true exactly when
    [self.p] is [None] or its length is allowed by the extracted constraint. *)
Theorem C15_match_len_sound : forall body p k,
  match_len_invariant body = Some (p, k) ->
  forall env b, evalb env body = Some b ->
  (b = true <-> (forall n, env p = Some n -> allows k n)).
Proof. exact match_len_invariant_sound. Qed.
Print Assumptions C15_match_len_sound.

(** Non-vacuity, and the shape of what is recognised. *)
Example C15_match_len_nonvacuous :
  let b := EMember (EName self_id) [98%N] in
  match_len_invariant (EImpl (EIsNotNone b) (ECmp Gt (EInt 4) (ECall len_id [b])))
  = Some ([98%N], MaxL 3)
  /\ evalb (fun _ => Some 3) (EImpl (EIsNotNone b) (ECmp Gt (EInt 4) (ECall len_id [b])))
     = Some true
  /\ evalb (fun _ => Some 4) (EImpl (EIsNotNone b) (ECmp Gt (EInt 4) (ECall len_id [b])))
     = Some false
  /\ evalb (fun _ => None) (EImpl (EIsNotNone b) (ECmp Gt (EInt 4) (ECall len_id [b])))
     = Some true.
Proof. vm_compute. repeat split; reflexivity. Qed.
Print Assumptions C15_match_len_nonvacuous.

(** The statement is FALSE of the matcher as it was before the fix (the guard's property
    was not compared with the constrained one): [self.a is None or len(self.b) < 3]. *)
Theorem C15_match_len_unfixed_refuted :
  exists body p k env,
    match_len_invariant_unfixed body = Some (p, k)
    /\ evalb env body = Some true
    /\ ~ (forall n, env p = Some n -> allows k n).
Proof. exact match_len_unfixed_refuted. Qed.
Print Assumptions C15_match_len_unfixed_refuted.

(** [reduce_sound]: the reduced range allows exactly the lengths allowed by every
    constraint of the list (lengths are >= 0; a minimum <= 0 is dropped). *)
Theorem C15_reduce_sound : forall cs r,
  reduce cs = Ok r ->
  forall n, 0 <= n -> ((forall c, In c cs -> allows c n) <-> in_range r n).
Proof. exact reduce_sound. Qed.
Print Assumptions C15_reduce_sound.

Example C15_reduce_nonvacuous :
  reduce [MinL 0; MaxL 5; MinL 2; ExactL 4; ExactL 4] = Ok (Some 4, Some 4)
  /\ reduce [MinL (-1); MaxL 5] = Ok (None, Some 5)
  /\ reduce [ExactL 0] = Ok (None, Some 0).
Proof. vm_compute. repeat split; reflexivity. Qed.
Print Assumptions C15_reduce_nonvacuous.

(** [reduce_err_unsat] and its converse: an error is reported exactly when no length
    satisfies all constraints. *)
Theorem C15_reduce_err_unsat : forall cs errs,
  reduce cs = Err errs -> ~ exists n, 0 <= n /\ forall c, In c cs -> allows c n.
Proof. exact reduce_err_unsat. Qed.
Print Assumptions C15_reduce_err_unsat.

Theorem C15_reduce_unsat_err : forall cs,
  (~ exists n, 0 <= n /\ forall c, In c cs -> allows c n) ->
  exists errs, reduce cs = Err errs.
Proof. exact reduce_unsat_err. Qed.
Print Assumptions C15_reduce_unsat_err.

Example C15_reduce_err_nonvacuous :
  reduce [ExactL 5; ExactL 6] = Err [ExactVsExact]
  /\ reduce [MaxL (-1)] = Err [NegativeMax]
  /\ reduce [MinL 4; MaxL 3] = Err [MinVsMax].
Proof. vm_compute. repeat split; reflexivity. Qed.
Print Assumptions C15_reduce_err_nonvacuous.

(** [reduce_total]: the precondition [0 < min <= max] of [LenConstraint] is never
    violated by the reduction, and its result is a well-formed, non-empty range. *)
Theorem C15_reduce_total : forall cs k, reduce cs <> Crash k.
Proof. exact reduce_total. Qed.
Print Assumptions C15_reduce_total.

Theorem C15_reduce_ok_wf : forall cs r, reduce cs = Ok r -> wf_lenc r.
Proof. exact reduce_ok_wf. Qed.
Print Assumptions C15_reduce_ok_wf.

(** All three statements are FALSE of the reduction as it was before the fixes: equal
    exact lengths were reported as contradicting; [len >= 0] with a maximum violated the
    precondition; [len < 0] was accepted as an (empty) range. *)
Theorem C15_reduce_unfixed_refuted :
  (exists cs errs, reduce_unfixed cs = Err errs
                   /\ exists n, 0 <= n /\ forall c, In c cs -> allows c n)
  /\ (exists cs k, reduce_unfixed cs = Crash k)
  /\ (exists cs r, reduce_unfixed cs = Ok r /\ ~ exists n, 0 <= n /\ in_range r n).
Proof. exact reduce_unfixed_refuted. Qed.
Print Assumptions C15_reduce_unfixed_refuted.

(** [merge_len_meet]: merging along inheritance (or with a constrained primitive) is the
    intersection of the two ranges. *)
Theorem C15_merge_len_meet : forall a b c,
  merge_len (E := unit) a b = Ok c ->
  forall n, in_range_opt c n <-> (in_range_opt a n /\ in_range_opt b n).
Proof. exact (merge_len_meet unit). Qed.
Print Assumptions C15_merge_len_meet.

(** [merge_total]: merging two reduced ranges which the added check does not flag never
    violates the precondition and gives a well-formed range again; the check flags
    exactly the pairs without a common length. *)
Theorem C15_merge_total : forall a b,
  wf_opt a -> wf_opt b -> len_contradict a b = false ->
  exists c, merge_len (E := unit) a b = Ok c /\ wf_opt c.
Proof. exact (merge_total unit). Qed.
Print Assumptions C15_merge_total.

Theorem C15_merge_check_exact : forall a b,
  wf_opt a -> wf_opt b ->
  (len_contradict a b = true
   <-> ~ exists n, 0 <= n /\ in_range_opt a n /\ in_range_opt b n).
Proof. exact len_contradict_spec. Qed.
Print Assumptions C15_merge_check_exact.

Example C15_merge_nonvacuous :
  merge_len (E := unit) (Some (Some 2, Some 9)) (Some (None, Some 4))
  = Ok (Some (Some 2, Some 4))
  /\ len_contradict (Some (None, Some 3)) (Some (Some 5, None)) = true.
Proof. vm_compute. split; reflexivity. Qed.
Print Assumptions C15_merge_nonvacuous.

(** Without the check the merge violates the precondition (the repaired defect). *)
Theorem C15_merge_unchecked_refuted :
  exists a b k, wf_opt a /\ wf_opt b /\ merge_len (E := unit) a b = Crash k.
Proof. exact merge_unchecked_refuted. Qed.
Print Assumptions C15_merge_unchecked_refuted.

(** [intersect_spec]: several [self.p in Set_k] of one class — the inferred literal list
    contains exactly the literals that occur in every set; merging along inheritance is
    again the intersection. No [NoDup] hypothesis is needed with the fix ... *)
Theorem C15_intersect_spec : forall (f : list lit) (r : list (list lit)) (v : lit),
  In v (intersect_all lit_eqb (f :: r)) <-> forall l, In l (f :: r) -> In v l.
Proof. exact (intersect_all_spec lit lit_eqb lit_eqb_spec). Qed.
Print Assumptions C15_intersect_spec.

Theorem C15_intersect_enum_spec : forall (f : list text) (r : list (list text)) (v : text),
  In v (intersect_all text_eqb (f :: r)) <-> forall l, In l (f :: r) -> In v l.
Proof. exact (intersect_all_spec text text_eqb text_eqb_spec). Qed.
Print Assumptions C15_intersect_enum_spec.

Theorem C15_merge_sets_spec : forall (a b : list lit) (v : lit),
  In v (merge_lits lit_eqb a b) <-> (In v a /\ In v b).
Proof. exact (merge_lits_spec lit lit_eqb lit_eqb_spec). Qed.
Print Assumptions C15_merge_sets_spec.

Example C15_intersect_nonvacuous :
  let A := LStr [65%N] in let B := LStr [66%N] in let C := LStr [67%N] in
  intersect_all lit_eqb [[A; B; C]; [C; B]; [B; A; B]] = [B]
  /\ merge_lits lit_eqb [A; B; A] [C; A] = [A].
Proof. vm_compute. split; reflexivity. Qed.
Print Assumptions C15_intersect_nonvacuous.

(** ... whereas the occurrence counting of the code before the fix was wrong for sets
    with a repeated literal (which the front end accepts). *)
Theorem C15_sets_unfixed_refuted :
  let A := LStr [65%N] in let B := LStr [66%N] in
  (In A [A] /\ In A [A; B; A] /\ ~ In A (intersect_unfixed lit_eqb [A] [[A; B; A]]))
  /\ (~ In A [B] /\ In A (merge_lits_unfixed lit_eqb [A; A] [B])).
Proof. exact sets_unfixed_refuted. Qed.
Print Assumptions C15_sets_unfixed_refuted.

(** [patterns_conj]: the merged pattern list means the conjunction of both lists. *)
Theorem C15_patterns_conj : forall a b (holds : text -> Prop),
  pats_hold (merge_pats a b) holds <-> (pats_hold a holds /\ pats_hold b holds).
Proof. exact patterns_conj. Qed.
Print Assumptions C15_patterns_conj.

Theorem C15_patterns_nodup : forall a b c, merge_pats (Some a) (Some b) = Some c -> NoDup c.
Proof. exact merge_pats_nodup. Qed.
Print Assumptions C15_patterns_nodup.

(** [unrecognised_ignored]: an invariant that a matcher does not recognise changes
    nothing in the corresponding collection. *)
Theorem C15_unrecognised_len_ignored : forall props body rest acc errs,
  match_len_invariant body = None ->
  collect_len props (body :: rest) acc errs = collect_len props rest acc errs.
Proof. exact unrecognised_len_ignored. Qed.
Print Assumptions C15_unrecognised_len_ignored.

Theorem C15_unrecognised_pattern_ignored : forall pm props body rest,
  pattern_matches_of_invariant pm body = [] ->
  patterns_from_invariants pm props (body :: rest) = patterns_from_invariants pm props rest.
Proof. exact unrecognised_pattern_ignored. Qed.
Print Assumptions C15_unrecognised_pattern_ignored.

Theorem C15_unrecognised_set_ignored : forall ptypes consts body rest,
  set_matches_of_invariant body = [] ->
  infer_sets ptypes consts (body :: rest) = infer_sets ptypes consts rest.
Proof. exact unrecognised_set_ignored. Qed.
Print Assumptions C15_unrecognised_set_ignored.

(** ... and the forms that must be unrecognised are: [!=], arithmetic, negation, float
    and named constants, conjunctions / three-way disjunctions of bounds, [len] of
    something else than [self.p], and every guard on ANOTHER property. *)
Example C15_unrecognised_examples :
  let b := EMember (EName self_id) [98%N] in
  let lenb := ECall len_id [b] in
  forallb (fun e => match match_len_invariant e with None => true | Some _ => false end)
    [ ECmp Ne lenb (EInt 4); ECmp Lt EOther (EInt 4); ENot (ECmp Ge lenb (EInt 4));
      ECmp Lt lenb EConstOther; ECmp Lt lenb (EName [75%N]);
      EAnd [ECmp Ge lenb (EInt 0); ECmp Le lenb (EInt 5)];
      EOr [EIsNone b; ECmp Lt lenb (EInt 3); ECmp Gt lenb (EInt 9)];
      EOr [EIsNone (EMember (EName self_id) [97%N]); ECmp Lt lenb (EInt 3)];
      ECmp Lt (ECall len_id [EMember (EName [111%N]) [98%N]]) (EInt 3);
      ECmp Lt (ECall len_id [b; b]) (EInt 3) ] = true.
Proof. exact unrecognised_examples. Qed.
Print Assumptions C15_unrecognised_examples.

(** [merge_constraints_meet]: whenever [_merge_constraints] returns, its result holds of
    a value (length, matched patterns, literal, enumeration literal) exactly when both
    operands do. *)
Theorem C15_merge_constraints_meet : forall a b c,
  merge_constraints (E := nat) a b = Ok c ->
  forall v, holds_opt c v <-> (holds_opt a v /\ holds_opt b v).
Proof. exact (merge_constraints_meet nat). Qed.
Print Assumptions C15_merge_constraints_meet.

(** The induction over the topological order. After a successful stacking, the
    constraints of a constrained primitive are the conjunction of the first-pass
    constraints of the primitive and of ALL its ancestors ([topo]: no parent is listed at
    or after its child — the order in which the code must, and the model does, stack;
    the declaration order of the text is irrelevant) ... *)
Theorem C15_cprims_stack_exact : forall cps local final,
  cprims_pass2 cps local 0 = Ok final ->
  NoDup (map cp_name cps) -> topo cps -> parents_closed_cp cps ->
  forall cp, In cp cps ->
  forall v, holds_opt (alookup (cp_name cp) final) v
            <-> (forall a, cp_ancestor_or_self cps (cp_name cp) a -> holds_opt (alookup a local) v).
Proof. exact cprims_stack_exact. Qed.
Print Assumptions C15_cprims_stack_exact.

(** ... and the constraints of a class on a value (key = property name and nesting
    level) are the conjunction of the first-pass constraints of the class and of all its
    ancestors on that value. *)
Theorem C15_classes_stack_exact : forall cs local final,
  classes_pass2 cs local 0 = Ok final ->
  NoDup (map c_name cs) -> ctopo cs -> all_nodup local -> parents_closed_c cs ->
  forall c, In c cs ->
  forall k v, holds_opt (look final (c_name c) k) v
              <-> (forall a, c_ancestor_or_self cs (c_name c) a -> holds_opt (look local a k) v).
Proof. exact classes_stack_exact. Qed.
Print Assumptions C15_classes_stack_exact.

(** [infer_stack_exact]: both facts for the result of [infer_constraints_by_class]
    itself, for every well-formed meta-model (unique names, parents listed first and
    present). *)
Theorem C15_infer_stack_exact : forall m res,
  infer m = Ok res ->
  NoDup (map cp_name (m_cprims m)) -> topo (m_cprims m) -> parents_closed_cp (m_cprims m) ->
  NoDup (map c_name (m_classes m)) -> ctopo (m_classes m) -> parents_closed_c (m_classes m) ->
  exists cplocal cpm pt local,
    cprims_pass1 (m_patterns m) (m_cprims m) [] 0 = Ok cplocal
    /\ cprims_pass2 (m_cprims m) cplocal 0 = Ok cpm
    /\ props_table (m_classes m) [] = Ok pt
    /\ classes_pass1 m cpm pt (m_classes m) [] 0 = Ok local
    /\ (forall cp, In cp (m_cprims m) ->
        forall v, holds_opt (alookup (cp_name cp) cpm) v
                  <-> (forall a, cp_ancestor_or_self (m_cprims m) (cp_name cp) a ->
                                 holds_opt (alookup a cplocal) v))
    /\ (forall c, In c (m_classes m) ->
        forall k v, holds_opt (look res (c_name c) k) v
                    <-> (forall a, c_ancestor_or_self (m_classes m) (c_name c) a ->
                                   holds_opt (look local a k) v)).
Proof. exact infer_stack_exact. Qed.
Print Assumptions C15_infer_stack_exact.

(** Non-vacuity: a chain of three constrained primitives [P0 <- P1 <- P2] (len <= 10, >= 1,
    >= 2) and two classes ([C0.b : P2]; [C1(C0)] with [len(self.b) < 8]) satisfies the
    hypotheses and [infer] returns constraints for it. *)
Example C15_infer_stack_nonvacuous :
  observe stack_example
  = Ok [[[Some (mk_constraints (Some (Some 2, Some 10)) None None None)]];
        [[Some (mk_constraints (Some (Some 2, Some 7)) None None None)]]]
  /\ NoDup (map cp_name (m_cprims stack_example)) /\ topo (m_cprims stack_example)
  /\ parents_closed_cp (m_cprims stack_example)
  /\ NoDup (map c_name (m_classes stack_example)) /\ ctopo (m_classes stack_example)
  /\ parents_closed_c (m_classes stack_example).
Proof. split; [vm_compute; reflexivity | exact stack_example_wf]. Qed.
Print Assumptions C15_infer_stack_nonvacuous.

(** [infer_class_exact], partial. The full statement is

      infer m = Ok res -> for every class C of m, property p of C (own or inherited) and
      level i: the constraints res C (p, i) hold of a value exactly when every invariant
      of C, of an ancestor of C, or of the constrained-primitive chain of the type at
      level i, that is recognised for p, holds of it; and infer m = Err _ when some such
      conjunction is unsatisfiable; never Crash.

    Proved: the induction over the topological order for constrained primitives and for
    classes ([C15_infer_stack_exact]: the result is the conjunction of the first-pass
    results over all ancestors), the meaning of every merge ([C15_merge_constraints_meet],
    [C15_merge_len_meet], [C15_patterns_conj], [C15_merge_sets_spec]), of every reduction
    ([C15_reduce_*]), of every recognised length invariant ([C15_match_len_sound]) and of
    the added contradiction check ([C15_merge_check_exact]).
    NOT proved: (a) that the first-pass map of ONE class / ONE primitive ([look local a k],
    [alookup a cplocal]) means the conjunction of its own recognised invariants and, for
    classes, of the in-lined primitive — i.e. the bookkeeping of [collect_len],
    [group_patterns], [infer_sets], [cmap_merge_all], [inline_levels]; (b) totality of the
    two stacking passes ([<> Crash]) and "unsatisfiable => Err" across inheritance as ONE
    statement about [infer] (the per-merge facts are [C15_merge_total] and
    [C15_merge_check_exact]). These rest on the correspondence stream and the oracle. The
    end-to-end behaviour on a three-level hierarchy with a constrained primitive: *)
Example C15_infer_class_exact_partial :
  let b := EMember (EName self_id) [98%N] in
  let lenb := ECall len_id [b] in
  let P := mk_cprim [80%N] PStr [] [ECmp Le (ECall len_id [EName self_id]) (EInt 9)] in
  let C0 := mk_class [67%N; 48%N] [] [([98%N], TOpt (TOur [80%N]))]
                     [EOr [EIsNone b; ECmp Ge lenb (EInt 2)]] in
  let C1 := mk_class [67%N; 49%N] [[67%N; 48%N]] [] [ECmp Gt (EInt 5) lenb] in
  let C2 := mk_class [67%N; 50%N] [[67%N; 49%N]] [] [ECmp Ge lenb (EInt 7)] in
  observe (mk_mmodel [] [] [] [P] [C0; C1])
  = Ok [[[Some (mk_constraints (Some (Some 2, Some 9)) None None None)]];
        [[Some (mk_constraints (Some (Some 2, Some 4)) None None None)]]]
  /\ is_err (observe (mk_mmodel [] [] [] [P] [C0; C1; C2])) = true.
Proof. vm_compute. split; reflexivity. Qed.
Print Assumptions C15_infer_class_exact_partial.
