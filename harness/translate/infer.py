"""infer_for_schema/_len.py: the two comparator tables of
``_match_len_constraint_on_member_or_name`` and ``LENGTHABLE_PRIMITIVES`` (C15)."""
from __future__ import annotations

import ast

from harness.translate.astutil import TranslateError, coq_string_list, find_function, parse

OPS = {"LT": 0, "LE": 1, "EQ": 2, "GT": 3, "GE": 4, "NE": 5}
KINDS = {"_MinLength": 0, "_MaxLength": 1, "_ExactLength": 2}


def _is_not_none(node, name) -> bool:
    return (isinstance(node, ast.Compare) and isinstance(node.left, ast.Name)
            and node.left.id == name and len(node.ops) == 1
            and isinstance(node.ops[0], ast.IsNot)
            and isinstance(node.comparators[0], ast.Constant)
            and node.comparators[0].value is None)


def _delta(value: ast.AST) -> int:
    if isinstance(value, ast.Name) and value.id == "constant":
        return 0
    if (isinstance(value, ast.BinOp) and isinstance(value.left, ast.Name)
            and value.left.id == "constant" and isinstance(value.right, ast.Constant)
            and isinstance(value.right.value, int) and not isinstance(value.right.value, bool)):
        if isinstance(value.op, ast.Add):
            return value.right.value
        if isinstance(value.op, ast.Sub):
            return -value.right.value
    raise TranslateError(f"unexpected bound expression {ast.dump(value)}")


def _chain(node: ast.If) -> list:
    """[(op, None | (kind, delta))] of an if/elif chain on ``node.op is Comparator.X``."""
    out = []
    cur = node
    while True:
        t = cur.test
        if not (isinstance(t, ast.Compare) and len(t.ops) == 1 and isinstance(t.ops[0], ast.Is)
                and isinstance(t.left, ast.Attribute) and t.left.attr == "op"
                and isinstance(t.left.value, ast.Name) and t.left.value.id == "node"
                and isinstance(t.comparators[0], ast.Attribute)
                and t.comparators[0].attr in OPS
                and isinstance(t.comparators[0].value, ast.Attribute)
                and t.comparators[0].value.attr == "Comparator"):
            raise TranslateError(f"unexpected comparator test {ast.dump(t)}")
        op = t.comparators[0].attr
        body = [s for s in cur.body
                if not (isinstance(s, ast.Expr) and isinstance(s.value, ast.Constant))]
        if len(body) != 1:
            raise TranslateError(f"unexpected branch body for {op}")
        s = body[0]
        if isinstance(s, ast.Pass):
            out.append((op, None))
        elif (isinstance(s, ast.Assign) and len(s.targets) == 1
              and isinstance(s.targets[0], ast.Name) and s.targets[0].id == "constraint"
              and isinstance(s.value, ast.Call) and isinstance(s.value.func, ast.Name)
              and s.value.func.id in KINDS and not s.value.args):
            kws = {k.arg: k.value for k in s.value.keywords}
            if set(kws) != {"node", "value"}:
                raise TranslateError(f"unexpected constructor arguments for {op}")
            out.append((op, (s.value.func.id, _delta(kws["value"]))))
        else:
            raise TranslateError(f"unexpected statement in branch {op}: {ast.dump(s)}")
        if len(cur.orelse) == 1 and isinstance(cur.orelse[0], ast.If):
            cur = cur.orelse[0]
            continue
        # final else: assert_never(node.op)
        if not (len(cur.orelse) == 1 and isinstance(cur.orelse[0], ast.Expr)
                and isinstance(cur.orelse[0].value, ast.Call)
                and isinstance(cur.orelse[0].value.func, ast.Name)
                and cur.orelse[0].value.func.id == "assert_never"):
            raise TranslateError("comparator chain does not end in assert_never")
        return out


def gen_infer() -> str:
    tree = parse("aas_core_codegen/infer_for_schema/_len.py")
    fn = find_function(tree, "_match_len_constraint_on_member_or_name")
    side_of_len = None
    tables = {}
    for stmt in fn.body:
        if (isinstance(stmt, ast.Assign) and len(stmt.targets) == 1
                and isinstance(stmt.targets[0], ast.Name)
                and stmt.targets[0].id == "len_on_member_or_name"):
            v = stmt.value
            if not (isinstance(v, ast.Call) and isinstance(v.func, ast.Name)
                    and v.func.id == "_match_len_on_member_or_name" and len(v.args) == 1
                    and isinstance(v.args[0], ast.Attribute) and v.args[0].attr in ("left", "right")):
                raise TranslateError("unexpected len_on_member_or_name assignment")
            side_of_len = v.args[0].attr
        if isinstance(stmt, ast.If) and isinstance(stmt.test, ast.BoolOp) \
                and isinstance(stmt.test.op, ast.And):
            names = {"len_on_member_or_name", "constant"}
            if not (len(stmt.test.values) == 2 and all(
                    any(_is_not_none(v, n) for n in names) for v in stmt.test.values)):
                raise TranslateError("unexpected region guard")
            if side_of_len is None or side_of_len in tables:
                raise TranslateError("regions of the matcher changed")
            chains = [s for s in stmt.body if isinstance(s, ast.If)]
            if len(chains) != 2:
                raise TranslateError("expected the comparator chain and the return guard")
            tables[side_of_len] = _chain(chains[0])
    if set(tables) != {"left", "right"}:
        raise TranslateError(f"expected two regions, found {sorted(tables)}")

    # LENGTHABLE_PRIMITIVES = frozenset([intermediate.PrimitiveType.X, ...])
    lengthable = None
    for stmt in tree.body:
        if (isinstance(stmt, ast.Assign) and len(stmt.targets) == 1
                and isinstance(stmt.targets[0], ast.Name)
                and stmt.targets[0].id == "LENGTHABLE_PRIMITIVES"):
            v = stmt.value
            if not (isinstance(v, ast.Call) and isinstance(v.func, ast.Name)
                    and v.func.id == "frozenset" and len(v.args) == 1
                    and isinstance(v.args[0], (ast.List, ast.Tuple, ast.Set))):
                raise TranslateError("LENGTHABLE_PRIMITIVES is not a literal frozenset")
            lengthable = []
            for e in v.args[0].elts:
                if not (isinstance(e, ast.Attribute) and isinstance(e.value, ast.Attribute)
                        and e.value.attr == "PrimitiveType"):
                    raise TranslateError("unexpected element of LENGTHABLE_PRIMITIVES")
                lengthable.append(e.attr)
    if lengthable is None:
        raise TranslateError("LENGTHABLE_PRIMITIVES not found")

    def table(rows) -> str:
        items = []
        for op, k in rows:
            if k is None:
                items.append(f"({OPS[op]}%N, None)")
            else:
                items.append(f"({OPS[op]}%N, Some ({KINDS[k[0]]}%N, ({k[1]})%Z))")
        return "[" + "; ".join(items) + "]"

    out = [
        "From Coq Require Import List NArith ZArith.",
        "Import ListNotations.",
        "(* operator codes: 0 LT, 1 LE, 2 EQ, 3 GT, 4 GE, 5 NE;",
        "   kinds: 0 _MinLength, 1 _MaxLength, 2 _ExactLength; value = constant + delta *)",
        "(* region `len(.) op constant` *)",
        f"Definition gen_len_left_table : list (N * option (N * Z)) := {table(tables['left'])}.",
        "(* region `constant op len(.)` *)",
        f"Definition gen_len_right_table : list (N * option (N * Z)) := {table(tables['right'])}.",
        f"Definition gen_lengthable : list (list N) := {coq_string_list(lengthable)}.",
    ]
    return "\n".join(out) + "\n"


GEN_FILES = {"GenInfer": gen_infer}
