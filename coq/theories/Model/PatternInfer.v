(** Model of [infer_for_schema/_pattern.py] and [_inline._merge_pattern_constraints]
    (C15). Fixed code: a guarded call is recognised only when the guard tests the
    property that is passed to the pattern function. Executable definitions only. *)
From Coq Require Import List NArith ZArith Bool.
From Acg Require Import Base.Str Model.InferExpr.
Import ListNotations.

(** [PatternVerificationsByName]: function name -> pattern. *)
Definition pmap : Type := list (text * text).

(** [_match_constraint_on_property]: [f(self.p)] with [f] a pattern verification. *)
Definition match_pattern_on_property (pm : pmap) (e : expr) : option (text * text) :=
  match e with
  | ECall f [a] =>
      match try_property a with
      | Some p => match alookup f pm with Some pat => Some (p, pat) | None => None end
      | None => None
      end
  | _ => None
  end.

Definition keep_if_prop (g : text) (m : option (text * text)) : list (text * text) :=
  match m with
  | Some (p, pat) => if text_eqb p g then [(p, pat)] else []
  | None => []
  end.

Definition opt_to_list {A} (o : option A) : list A :=
  match o with Some a => [a] | None => [] end.

(** The matches contributed by one invariant body in [patterns_from_invariants]. *)
Definition pattern_matches_of_invariant (pm : pmap) (body : expr) : list (text * text) :=
  match try_conditional_on_prop body with
  | Some (g, csq) =>
      match csq with
      | EAnd vs => flat_map (fun v => keep_if_prop g (match_pattern_on_property pm v)) vs
      | ECall _ _ => keep_if_prop g (match_pattern_on_property pm csq)
      | _ => []
      end
  | None =>
      match body with
      | EAnd vs => flat_map (fun v => opt_to_list (match_pattern_on_property pm v)) vs
      | ECall _ _ => opt_to_list (match_pattern_on_property pm body)
      | _ => []
      end
  end.

Fixpoint mem_name (x : text) (l : list text) : bool :=
  match l with [] => false | y :: r => text_eqb x y || mem_name x r end.

(** Grouping by property (dict in insertion order); unknown properties are skipped. *)
Fixpoint group_patterns (props : list text) (ms : list (text * text))
         (acc : list (text * list text)) : list (text * list text) :=
  match ms with
  | [] => acc
  | (p, pat) :: r =>
      if mem_name p props then
        group_patterns props r
          (aset p (match alookup p acc with Some l => l ++ [pat] | None => [pat] end) acc)
      else group_patterns props r acc
  end.

(** [patterns_from_invariants]. *)
Definition patterns_from_invariants (pm : pmap) (props : list text) (invs : list expr)
  : list (text * list text) :=
  group_patterns props (flat_map (pattern_matches_of_invariant pm) invs) [].

(** [_match_pattern_on_self]: [f(self)]. *)
Definition match_pattern_on_self (pm : pmap) (e : expr) : option text :=
  match e with
  | ECall f [EName s] => if text_eqb s self_id then alookup f pm else None
  | _ => None
  end.

(** [infer_patterns_on_self]. *)
Definition infer_patterns_on_self (pm : pmap) (invs : list expr) : list text :=
  flat_map (fun body =>
              match body with
              | EAnd vs => flat_map (fun v => opt_to_list (match_pattern_on_self pm v)) vs
              | ECall _ _ => opt_to_list (match_pattern_on_self pm body)
              | _ => []
              end) invs.

(** De-duplication keeping first occurrences ([observed_pattern_set] loop). *)
Fixpoint dedup_from (seen : list text) (l : list text) : list text :=
  match l with
  | [] => []
  | x :: r => if mem_name x seen then dedup_from seen r else x :: dedup_from (x :: seen) r
  end.

(** [_merge_pattern_constraints]. *)
Definition merge_pats (that other : option (list text)) : option (list text) :=
  match that, other with
  | Some a, Some b => Some (dedup_from [] (a ++ b))
  | Some a, None => Some a
  | None, Some b => Some b
  | None, None => None
  end.
